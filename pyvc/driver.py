"""Check driver: runs one property end to end and applies the verdict policy.

exit 0  every obligation discharged (or the only failures are listed known findings)
exit 1  VIOLATION property=<id> replay=<path> [no-failing-input-found]
exit 2  UNDECIDED (solver unknown / timeout on an obligation)
exit 3  CHECKER-ERROR (construct outside the handled subset, contract/param mismatch, self-test failure)
"""
import sys, os, json, time, importlib, traceback, subprocess, hashlib, re
from . import solve, symexec, extract, spec as speclib
from .core import Unsupported
from .registry import REG

VERIF = os.path.dirname(os.path.dirname(os.path.abspath(__file__)))
REPO = extract.REPO

def run_oracle(prop, payload, timeout=600):
    """run /verif/oracles/<prop>.py on the real code of the current tree (under /venv/bin/python)"""
    env = dict(os.environ)
    env['ATSIM_ROOT'] = REPO
    env['PYTHONDONTWRITEBYTECODE'] = '1'
    env['PYTHONWARNINGS'] = 'ignore'
    p = subprocess.run([os.path.join(VERIF, 'tools', 'scratch_py'), '-W', 'ignore', os.path.join(VERIF, 'oracles', prop + '.py')],
                       input=json.dumps(payload), capture_output=True, text=True, env=env, timeout=timeout)
    lines = [l for l in p.stdout.strip().split('\n') if l.startswith('{')]
    if p.returncode not in (0, 1) or not lines:
        raise RuntimeError('oracle %s crashed (exit %d): %s' % (prop, p.returncode, (p.stderr or p.stdout)[-2000:]))
    return json.loads(lines[-1])

class Result(object):
    def __init__(self):
        self.obls = []; self.errors = []; self.functions = []; self.mutants = []; self.notes = []
        self.conformance = None; self.crosscheck = None; self.bounded = []; self.violations = []; self.known = []; self.undecided = []

def sanitize(name):
    return re.sub(r'[^A-Za-z0-9_.-]+', '_', name)

def write_replay(prop, name, payload):
    d = os.path.join(VERIF, 'replay', prop)
    os.makedirs(d, exist_ok=True)
    path = os.path.join(d, sanitize(name) + '.json')
    payload = dict(payload)
    payload['cmd'] = 'python3-vt bin/check %s --replay %s' % (prop, path)
    with open(path, 'w') as f: json.dump(payload, f, indent=1, default=str)
    return path

def load_known():
    p = os.path.join(VERIF, 'known_findings.json')
    return json.load(open(p)) if os.path.exists(p) else []

def match_known(prop, name, witness):
    """open known finding with this obligation name (prefix match on the stable part) and a witness predicate that holds"""
    for k in load_known():
        if k.get('status') != 'open' or k['property'] != prop: continue
        if not name.split('@')[0].startswith(k['obligation']): continue
        return k
    return None

class ObRec(object):
    """picklable record of a discharged obligation (workers run in separate processes)"""
    def __init__(self, o):
        self.name, self.kind, self.function, self.where = o.name, o.kind, o.function, o.where
        self.carries_property = o.carries_property
        self.result, self.backend, self.solver_s, self.reason = o.result, o.backend, o.solver_s, o.reason
        self.backends_tried = o.backends_tried
        self.model = solve._model_dict(o.model) if getattr(o, 'model', None) is not None and not isinstance(o.model, dict) else getattr(o, 'model', None)
    def summary(self):
        return dict(name=self.name, function=self.function, where=self.where, kind=self.kind,
                    backend=self.backend, result=self.result, solver_s=round(self.solver_s, 4))

def _verify_one(args):
    prop, modname, file, qual, opts, both = args
    import importlib
    importlib.import_module(modname)      # registers the contracts
    c = REG.get(file, qual)
    if c is None: return dict(error='no contract registered for %s::%s' % (file, qual))
    try:
        fi = extract.get_func(file, qual)
        ex = symexec.verify(prop, c, track_raises=opts.get('track_raises', c.on_raise is not None or c.raises_when is not None))
        solve.discharge_all(ex.obls, both=both, jobs=2)
    except Exception as e:
        return dict(error='%s::%s: %s: %s' % (file, qual, type(e).__name__, str(e)[:300]))
    info = dict(file=file, qualname=qual, lines=list(fi.lines), sha256=fi.sha256, dropped=fi.dropped,
                obligations=len(ex.obls), paths=ex.n_paths, notes=ex.notes)
    info['used_spec_lemmas'] = sorted(getattr(ex, 'used_specs', ()))
    info['vacuity'] = list(getattr(ex, 'vacuity', []))
    if both:
        # thorough tier: the hypotheses of a discharged obligation must not be refutable on their own (a contradictory context, or a
        # solver that wrongly answers unsat -- pyvc/selftest/solver/ holds one such input for z3 4.8.12 and 5.1.0 -- would discharge anything).
        # Obligations whose goal is literally False are claims that a path is infeasible: there the hypotheses are meant to be refutable.
        import z3 as _z3
        seen_ = {}
        for o in ex.obls:
            if o.result != 'proved' or _z3.is_false(o.goal): continue
            if '/on-raise/' in o.name or '/raises' in o.name: continue       # exceptional exits are collected without pruning: an unreachable one has refutable hypotheses by construction
            key_ = tuple(h.get_id() for h in o.hyps)
            if key_ not in seen_:
                s_ = _z3.Solver(); s_.set('timeout', int(os.environ.get('PYVC_HYPS_MS', '400'))); s_.add(*solve.guarded(o.hyps))
                seen_[key_] = (s_.check() == _z3.unsat)
            if seen_[key_]: info['vacuity'].append('the hypotheses of %s are refutable on their own' % o.name)
        info['hyps_checked'] = len(seen_)
    return dict(info=info, obls=[ObRec(o) for o in ex.obls], assumptions=list(REG.assumptions))

def _mutant_one(args):
    prop, modname, m = args
    import importlib
    importlib.import_module(modname)
    file, qual, old, new, expect = m[:5]
    rec = dict(function='%s::%s' % (file, qual), mutant='%s -> %s' % (old, new), expect=expect)
    # self-test budget: a mutant whose obligation is merely no longer provable counts as (weakly) killed, so the long portfolio budget is not needed
    solve.Z3_TIMEOUT_MS = min(solve.Z3_TIMEOUT_MS, int(os.environ.get('PYVC_MUTANT_TIMEOUT_MS', '5000'))); solve.CVC5_TIMEOUT_MS = min(solve.CVC5_TIMEOUT_MS, solve.Z3_TIMEOUT_MS)
    try:
        fi = extract.mutant(extract.get_func(file, qual), old, new)
    except KeyError as e:
        rec['status'] = 'skipped: ' + str(e); return rec
    try:
        c = REG.get(file, qual)
        ex = symexec.verify(prop, c, track_raises=(c.on_raise is not None or c.raises_when is not None), fi=fi)
        # the obligations named by `expect` first; stop at the first one that no longer discharges
        order = sorted(ex.obls, key=lambda o: 0 if expect in o.name else 1)
        rec['status'] = 'SURVIVED'; rec['failed'] = []
        for o in order:
            solve.discharge(o)
            if o.result == 'failed':
                rec['failed'].append(o.name); rec['status'] = 'killed' if expect in o.name else 'killed-elsewhere'; break
            if o.result == 'unknown':
                rec['failed'].append(o.name + ' (undecided)'); rec['status'] = 'killed (no longer provable: undecided)'; break
    except Exception as e:
        rec['status'] = 'killed (checker rejects: %s: %s)' % (type(e).__name__, str(e)[:200])
    return rec

def _module_mutant_one(args):
    prop, modname, m = args
    import importlib
    mod = importlib.import_module(modname)
    relpath, old, new, expect = m[:4]
    rec = dict(function=relpath, mutant='%s -> %s' % (old, new), expect=expect)
    solve.Z3_TIMEOUT_MS = min(solve.Z3_TIMEOUT_MS, int(os.environ.get('PYVC_MUTANT_TIMEOUT_MS', '5000'))); solve.CVC5_TIMEOUT_MS = min(solve.CVC5_TIMEOUT_MS, solve.Z3_TIMEOUT_MS)
    try:
        with extract.patched_source(relpath, old, new):
            obls = mod.lemmas()
            # functions under contract that live in the patched file are re-verified from the patched text as well
            for e in getattr(mod, 'FUNCTIONS', []):
                if e[0] != relpath: continue
                c = REG.get(e[0], e[1])
                if expect not in '%s/%s::%s/' % (prop, os.path.basename(e[0]), e[1]) and expect.split('/')[0] not in e[1]: continue
                ex = symexec.verify(prop, c, track_raises=(c.on_raise is not None or c.raises_when is not None), fi=extract.get_func(e[0], e[1]))
                obls = obls + ex.obls
            cand = [o for o in obls if expect in o.name]
            for o in cand:
                if o.result is None: solve.discharge(o)
            bad = [o.name for o in cand if o.result != 'proved']
            rec['failed'] = bad
            rec['status'] = 'killed' if bad else ('SURVIVED' if cand else 'SURVIVED (no obligation named %s)' % expect)
            if not bad:
                other = [o.name for o in obls if o.result is not None and o.result != 'proved']
                if other: rec['status'] = 'killed-elsewhere'; rec['failed'] = other[:3]
    except KeyError as e:
        rec['status'] = 'skipped: ' + str(e)
    except Exception as e:
        rec['status'] = 'killed (checker rejects: %s: %s)' % (type(e).__name__, str(e)[:200])
    return rec

def _pool():
    import multiprocessing as mp
    from concurrent.futures import ProcessPoolExecutor
    return ProcessPoolExecutor(max_workers=int(os.environ.get('PYVC_JOBS', '14')), mp_context=mp.get_context('fork'))

def solver_selftest():
    """the two recorded inputs on which z3 wrongly answers unsat must not be refuted once they have been translated by pyvc/unnest.py"""
    import z3
    d = os.path.join(os.path.dirname(os.path.abspath(__file__)), 'selftest', 'solver')
    out = []
    for f in ('z3_wrong_unsat.smt2', 'z3_wrong_unsat_2.smt2'):
        s0 = z3.Solver(); s0.from_file(os.path.join(d, f)); fs = list(s0.assertions())
        s1 = z3.Solver(); s1.set('timeout', 5000); s1.add(*fs); native = str(s1.check())
        s2 = z3.Solver(); s2.set('timeout', 5000); s2.add(*solve.guarded(fs)); guarded = str(s2.check())
        out.append(dict(input=f, z3_native=native, z3_after_guard=guarded))
    return out

def verify_functions(prop, mod, res, tier):
    """generate and discharge obligations for every function under contract of this property (one process per function)"""
    jobs = [(prop, mod.__name__, e[0], e[1], (e[2] if len(e) > 2 else {}), tier == 'thorough') for e in mod.FUNCTIONS]
    with _pool() as ex:
        outs = list(ex.map(_verify_one, jobs))
    for o in outs:
        if 'error' in o: res.errors.append(o['error']); continue
        if not o['obls']: res.errors.append('%s::%s generated zero obligations' % (o['info']['file'], o['info']['qualname']))
        res.functions.append(o['info']); res.obls.extend(o['obls'])
        for a in o['assumptions']: REG.assume(a)
        for why in o['info'].get('vacuity', []): res.errors.append('vacuous proof in %s: %s' % (o['info']['qualname'], why))
        # a spec-sequence lemma used as a hypothesis must be proved in this run (the module lists the sequence in SPECSEQS)
        listed = {s_.name for s_ in getattr(mod, 'SPECSEQS', [])} | set(getattr(res, 'extra_specs', ()))
        for nm in o['info'].get('used_spec_lemmas', []):
            if nm in listed: continue
            sp_ = speclib._REGISTRY.get(nm)
            if sp_ is None: res.errors.append('%s uses the nth lemma of %s, which is not a registered spec sequence (unproved hypothesis)' % (o['info']['qualname'], nm)); continue
            res.extra_specs = set(getattr(res, 'extra_specs', ())) | {nm}
            for name, h, g in sp_.lemma_obligations():
                res.obls.append(solve.Obligation('%s/%s' % (prop, name), h, g, kind='lemma', function='speclib'))

def run_mutants(prop, mod, res, tier='thorough'):
    """must-fail self-test: in-memory mutants of the real functions; each must make its named obligation fail.
    Quick tier: at most two mutants per function (the first two listed) -- re-verifying a many-path function once per mutant is what a
    quick run spends most of its time on; the thorough tier applies all of them."""
    ms = list(getattr(mod, 'MUTANTS', []))
    mms = list(getattr(mod, 'MODULE_MUTANTS', []))
    if tier == 'quick':
        seen_ = {}; kept = []
        for m in ms:
            k_ = (m[0], m[1]); seen_[k_] = seen_.get(k_, 0) + 1
            if seen_[k_] <= 2: kept.append(m)
        if len(kept) < len(ms): res.notes.append('quick tier: %d of %d in-memory mutants applied (two per function); the thorough tier applies all' % (len(kept), len(ms)))
        ms = kept
    if not ms and not mms: return
    with _pool() as ex:
        f1 = [ex.submit(_mutant_one, (prop, mod.__name__, m)) for m in ms]; f2 = [ex.submit(_module_mutant_one, (prop, mod.__name__, m)) for m in mms]
        recs = [f.result() for f in f1 + f2]
    for rec in recs:
        res.mutants.append(rec)
        if rec['status'] == 'SURVIVED':
            res.errors.append('self-test: mutant %r of %s still verifies (engine or contract too weak)' % (rec['mutant'], rec['function']))

def main(argv=None):
    argv = argv or sys.argv[1:]
    prop = argv[0]
    tier = os.environ.get('VERIF_TIER', 'quick')
    replay = None
    i = 1
    while i < len(argv):
        if argv[i] == '--tier': tier = argv[i + 1]; i += 2
        elif argv[i] == '--replay': replay = argv[i + 1]; i += 2
        else: i += 1
    seed = int(os.environ.get('VERIF_SEED', '0'))
    sys.path.insert(0, VERIF)
    mod = importlib.import_module('props.' + prop)
    if replay: return do_replay(prop, mod, replay)
    t0 = time.time()
    res = Result()
    # 1. contracts -> obligations
    try:
        verify_functions(prop, mod, res, tier)
        for o in getattr(mod, 'lemmas', lambda: [])(): res.obls.append(o)
        for s in getattr(mod, 'SPECSEQS', []):
            for name, h, g in s.lemma_obligations():
                res.obls.append(solve.Obligation('%s/%s' % (prop, name), h, g, kind='lemma', function='speclib'))
        if hasattr(mod, 'static_obligations'):
            mod.static_obligations(res)
    except Exception as e:
        res.errors.append('obligation generation crashed: %s\n%s' % (e, traceback.format_exc()[-1500:]))
    for file, qual in getattr(mod, 'ENGINE_B_FUNCTIONS', []):
        try:
            fi = extract.get_func(file, qual)
            res.functions.append(dict(file=file, qualname=qual, lines=list(fi.lines), sha256=fi.sha256, dropped=fi.dropped, engine='B (AST -> sympy term)'))
        except Exception as e:
            res.errors.append('%s::%s not found: %s' % (file, qual, e))
    # 2. discharge
    both = (tier == 'thorough')
    try: solve.discharge_all(res.obls, both=both, jobs=12)      # static obligations arrive decided
    except RuntimeError as e: res.errors.append(str(e))
    # 3. guards
    if not res.obls: res.errors.append('zero obligations')
    if hasattr(mod, 'covers'):
        for name, ok in mod.covers():
            if not ok: res.errors.append('cover failed (vacuous precondition?): ' + name)
    t_m = time.time(); run_mutants(prop, mod, res, tier); res.notes.append('phase seconds: contracts+discharge %.1f, self-test mutants %.1f' % (t_m - t0, time.time() - t_m))
    # 3b. conformance of the executor with CPython on literal inputs (engine self-test; a disagreement makes the engine untrustworthy)
    try:
        from . import conformance
        conf = conformance.run(n_per_case=(2 if tier == 'quick' else 12), seed=seed)
        res.conformance = dict(snippets=conf['cases'], runs=conf['runs'], disagreements=conf['disagreements'][:5], rejected_as_unsupported=len(conf['unsupported']), seconds=conf['seconds'])
        for d_ in conf['disagreements'][:3]:
            res.errors.append('executor/CPython disagreement on %s%s: %s' % (d_['snippet'], d_['inputs'], d_['detail'][:200]))
        if conf['runs'] - len(conf['unsupported']) < 50: res.errors.append('conformance self-test ran too few cases')
    except Exception as e:
        res.errors.append('conformance self-test crashed: %s' % e)
    # 3c. thorough tier: the recorded inputs on which z3 answers unsat wrongly must not be refuted after the guard of solve.py
    res.solver_selftest = None
    if tier == 'thorough':
        try:
            res.solver_selftest = solver_selftest()
            for r_ in res.solver_selftest:
                if r_['z3_after_guard'] == 'unsat': res.errors.append('solver self-test: %s is refuted even after the translation of pyvc/unnest.py (a satisfiable input)' % r_['input'])
        except Exception as e:
            res.errors.append('solver self-test crashed: %s' % e)
    t_o = time.time()
    # 4. CPython cross-check / bounded stand-ins through the oracle (real code)
    cross = None
    if hasattr(mod, 'oracle_payload'):
        try:
            cross = run_oracle(prop, mod.oracle_payload(tier, seed, mode='search'), timeout=(600 if tier == 'quick' else 3600))
            res.crosscheck = {k: cross[k] for k in cross if k not in ('deviations',)}
        except Exception as e:
            res.errors.append('oracle failed: %s' % e)
    res.notes.append('phase seconds: oracle %.1f' % (time.time() - t_o))
    # 5. verdicts
    failed = [o for o in res.obls if o.result == 'failed']
    unknown = [o for o in res.obls if o.result == 'unknown']
    lines = []
    devs = (cross or {}).get('deviations', [])
    used_dev = False
    for o in failed:
        witness = None
        if hasattr(mod, 'witness_for'):
            try: witness = mod.witness_for(o, devs, run_oracle)
            except Exception as e: res.notes.append('witness construction failed for %s: %s' % (o.name, e))
        k = match_known(prop, o.name, witness)
        if k is not None:
            res.known.append((k, o)); continue
        payload = dict(property=prop, obligation=o.name, function=o.function, where=o.where,
                       solver=dict(backend=o.backend, result=o.result, tried=o.backends_tried,
                                   model=(o.model if isinstance(o.model, dict) or o.model is None else solve._model_dict(o.model)), reason=o.reason))
        if witness is not None and witness.get('deviates'):
            payload.update(status='replayed', input=witness.get('input'), observed=witness.get('observed'), expected=witness.get('expected'))
            path = write_replay(prop, o.name, payload)
            lines.append('VIOLATION property=%s replay=%s' % (prop, path))
        else:
            payload.update(status='no-failing-input-found', input=(witness or {}).get('input'))
            path = write_replay(prop, o.name, payload)
            lines.append('VIOLATION property=%s replay=%s no-failing-input-found' % (prop, path))
        res.violations.append(o.name)
    # deviations found by the oracle that no failed obligation explains (bounded stand-in speaking)
    if devs and not failed:
        for d in devs[:3]:
            k = match_known(prop, d.get('obligation') or ('oracle/' + str(d.get('case', ''))), d)
            if k is not None: res.known.append((k, None)); continue
            payload = dict(property=prop, obligation='oracle/' + str(d.get('case', '')), status='replayed', input=d.get('input'),
                           observed=d.get('observed'), expected=d.get('expected'),
                           solver=dict(note='found by the bounded stand-in (concrete oracle on the real code); every generated obligation was discharged or the engine rejected the code'))
            path = write_replay(prop, 'oracle_' + str(d.get('case', '')), payload)
            lines.append('VIOLATION property=%s replay=%s' % (prop, path))
            res.violations.append('oracle/' + str(d.get('case', '')))
    seen_known = set()
    for k, o in res.known:
        if k['id'] in seen_known: continue
        seen_known.add(k['id'])
        print('KNOWN-FINDING: property=%s %s' % (prop, k['what']))
    for l in lines: print(l)
    for e in res.errors: print('CHECKER-ERROR: ' + e)
    for o in unknown: print('UNDECIDED: %s (%s)' % (o.name, o.reason))
    wall = time.time() - t0
    write_evidence(prop, mod, res, tier, seed, wall)
    n_proved = sum(1 for o in res.obls if o.result == 'proved')
    print('%s: %d obligations, %d discharged, %d failed (%d known), %d unknown; %d functions under contract; mutants %d/%d killed; %.1fs'
          % (prop, len(res.obls), n_proved, len(failed), len(res.known), len(unknown), len(res.functions),
             sum(1 for m in res.mutants if m['status'].startswith('killed')), len(res.mutants), wall))
    if lines: return 1
    if res.errors: return 3
    if unknown: return 2
    return 0

def write_evidence(prop, mod, res, tier, seed, wall):
    known_names = {o.name for k, o in res.known if o is not None}
    obls = [o for o in res.obls if o.name not in known_names]
    by_backend = {}
    for o in res.obls: by_backend[o.backend or 'static'] = by_backend.get(o.backend or 'static', 0) + 1
    ev = dict(
        property_id=prop, tier=tier, seed=seed, level='proof',
        coverage=dict(
            obligations=len(obls),
            discharged=sum(1 for o in obls if o.result == 'proved'),
            checker_cmd='python3-vt bin/check %s --tier %s' % (prop, tier),
            trusted_base=['z3 %s (python API)' % solve.z3.get_version_string(), 'cvc5 1.0.3 (CLI, fallback / second opinion)',
                          'pyvc: own AST->SMT generator in /verif/pyvc (unverified)', 'solver soundness: an unsat answer of z3 / cvc5 is believed; z3 is known to answer unsat wrongly on inputs with sequences of sequences, e.g. lists of str (pyvc/selftest/solver/): every query is translated into an isomorphic one without nested sequence sorts before it reaches a solver (pyvc/unnest.py)', 'sidecar contracts in /verif/contracts (specification)'] + list(getattr(mod, 'TRUSTED', [])),
            samples=[o.summary() for o in res.obls[:12]],
            all_obligations=[dict(name=o.name, result=o.result, backend=o.backend, s=round(o.solver_s, 3)) for o in res.obls],
            backends=by_backend,
            solver_s=round(sum(o.solver_s for o in res.obls), 3),
            functions_under_contract=res.functions,
            self_test_mutants=dict(applied=len(res.mutants), killed=sum(1 for m in res.mutants if m['status'].startswith('killed')), detail=res.mutants),
            cpython_crosscheck=res.crosscheck,
            executor_conformance=res.conformance,
            solver_selftest=getattr(res, 'solver_selftest', None),
            bounded=getattr(mod, 'BOUNDED', []),
            known_findings=[dict(id=k['id'], what=k['what'], obligation=(o.name if o else None)) for k, o in res.known],
            not_decided=getattr(mod, 'NOT_DECIDED', []),
            notes=res.notes + list(getattr(mod, 'NOTES', [])),
            errors=res.errors,
        ),
        assumptions=list(getattr(mod, 'ASSUMPTIONS', [])) + REG.assumptions,
        wall_s=round(wall, 2),
        violations=len(res.violations),
    )
    # experiments on a modified tree (tools/try_patch.sh, seed_matrix.sh) set VERIF_EVIDENCE_DIR so that evidence/ only ever
    # holds records of runs against /repo as it stands
    evdir = os.environ.get('VERIF_EVIDENCE_DIR') or os.path.join(VERIF, 'evidence')
    os.makedirs(evdir, exist_ok=True)
    with open(os.path.join(evdir, prop + '.json'), 'w') as f:
        json.dump(ev, f, indent=1, default=str)

def do_replay(prop, mod, path):
    rp = json.load(open(path))
    if rp.get('status') != 'replayed' or not rp.get('input'):
        print('replay file carries no concrete input (%s): obligation %s' % (rp.get('status'), rp.get('obligation')))
        print(json.dumps(rp.get('solver'), indent=1)[:3000])
        return 1
    out = run_oracle(prop, dict(mode='replay', input=rp['input']))
    if out.get('deviations'):
        d = out['deviations'][0]
        print('VIOLATION property=%s replay=%s' % (prop, path))
        print('observed: %s\nexpected: %s' % (d.get('observed'), d.get('expected')))
        return 1
    print('replay conforms on this tree')
    return 0

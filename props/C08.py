"""C08 — multi-range potentials select exactly the range that contains r."""
import z3
from pyvc.core import *
from pyvc.solve import Obligation
from pyvc import symalg as B
import contracts.common as K
import contracts.potential
import contracts.multirange as MR

F = MR.FILE
F_CP = 'atsim/potentials/config/_config_parser.py'
F_PFB = 'atsim/potentials/config/_potential_form_builder.py'
FUNCTIONS = [(F, 'Multi_Range_Potential_Form._range_search'), (F, 'Multi_Range_Potential_Form.__call__'), (F, 'Multi_Range_Potential_Form_Deriv.deriv'),
             (F, 'Multi_Range_Potential_Form_Deriv2.deriv2'), (F, 'Multi_Range_Defn.__init__'), (F, '_range_defn_cmp'),
             (contracts.potential.F_UTIL, 'gradient'), (F, 'Multi_Range_Potential_Form.range_defns.setter'),
             (F_PFB, 'Potential_Form_Builder._make_multi_range_tuple'), (F_PFB, 'Potential_Form_Builder.create_potential_function'),
             (F, 'Multi_Range_Potential_Form.__init__'), (F, 'create_Multi_Range_Potential_Form@construction')]
import contracts.form_builder as FB
SPECSEQS = [FB.chain_ranges]

def lemmas():
    out = []
    a, b, c = z3.Consts('a b c', MR.RD); r = z3.Real('r')
    mk = lambda t: z3.Or(MR.rtype(t) == MR.GE, MR.rtype(t) == MR.GT)
    def L(name, hyps, goal):
        out.append(Obligation('C08/lemma/' + name, hyps, goal, kind='lemma', function='props/C08.py', carries_property=True))
    # the comparator's order (key_le) is a total preorder: a consistent comparator for sort (A4)
    L('order-total', [mk(a), mk(b)], z3.Or(MR.key_le(a, b), MR.key_le(b, a)))
    L('order-transitive', [mk(a), mk(b), mk(c), MR.key_le(a, b), MR.key_le(b, c)], MR.key_le(a, c))
    L('order-antisymmetric-on-keys', [mk(a), mk(b), MR.key_le(a, b), MR.key_le(b, a)], z3.And(MR.start(a) == MR.start(b), MR.rtype(a) == MR.rtype(b)))
    # cmp(a, b) <= 0 iff a is no later than b in canonical order (the order the sort contract uses), from the comparator's own postconditions
    res = z3.Int('cmp_result')
    L('comparator-order', [mk(a), mk(b), (res < 0) == z3.And(MR.key_le(a, b), z3.Not(MR.key_le(b, a))), (res > 0) == z3.And(MR.key_le(b, a), z3.Not(MR.key_le(a, b))),
                           (res == 0) == z3.And(MR.start(a) == MR.start(b), MR.rtype(a) == MR.rtype(b))], (res <= 0) == MR.key_le(a, b))
    # statement clauses from the canonical order:
    #  - greatest start: a range containing r that comes later in canonical order has a start >= any earlier one
    L('later-in-order-means-start-not-smaller', [mk(a), mk(b), MR.key_le(a, b)], MR.start(a) <= MR.start(b))
    #  - inclusive beats exclusive AT a shared start; beyond it the exclusive one (later in canonical order) takes over
    L('at-shared-start-only-the-inclusive-contains-r', [MR.start(a) == MR.start(b), MR.rtype(a) == MR.GE, MR.rtype(b) == MR.GT, r == MR.start(a)],
      z3.And(MR.holds(a, r), z3.Not(MR.holds(b, r))))
    L('beyond-a-shared-start-the-exclusive-is-later', [MR.start(a) == MR.start(b), MR.rtype(a) == MR.GE, MR.rtype(b) == MR.GT, r > MR.start(a)],
      z3.And(MR.holds(a, r), MR.holds(b, r), MR.key_le(a, b), z3.Not(MR.key_le(b, a))))
    #  - below the first range nothing contains r
    L('below-every-start-nothing-contains-r', [r < MR.start(a)], z3.Not(MR.holds(a, r)))
    # listing order: the range selected for r has the same (start, marker) whatever order the ranges were listed in. Two lists with the same
    # members, each in canonical order (what the constructor contract establishes for any listing), each with its selected range
    # (_range_search's postcondition). Composition: 'index-of-member' gives every member an index; at that index the index-form clauses of the
    # search postcondition give the membership form ('bridge' lemmas); the membership forms of two lists with equal member sets agree ('set' lemma)
    rt = z3.Const('rt', MR.RDList); nn = z3.Bool('none'); sel_ = z3.Const('sel', MR.RD); e = z3.Const('e', MR.RD); i = z3.Int('i')
    mem = lambda q: z3.Contains(rt, z3.Unit(q))
    H = MR.selected(rt, r, nn, sel_); at = [0 <= i, i < z3.Length(rt), rt[i] == e]
    L('listing-order/bridge/none-means-no-member-contains-r', H + at + [nn], z3.Not(MR.holds(e, r)))
    L('listing-order/bridge/selected-is-last-member-containing-r', H + at + [z3.Not(nn), MR.holds(e, r)], MR.key_le(e, sel_))
    L('listing-order/bridge/selected-is-a-member', H + [z3.Not(nn)], mem(sel_))
    L('listing-order/index-of-member', [mem(e)], z3.Exists([i], z3.And(0 <= i, i < z3.Length(rt), rt[i] == e)))
    m1 = z3.Function('member_of_listing_1', MR.RD, z3.BoolSort()); m2 = z3.Function('member_of_listing_2', MR.RD, z3.BoolSort())
    n1, n2 = z3.Bools('none1 none2'); s1, s2 = z3.Consts('sel1 sel2', MR.RD); x = z3.Const('x', MR.RD)
    def sel(m, n_, s_): return [z3.ForAll([x], z3.Implies(z3.And(n_, m(x)), z3.Not(MR.holds(x, r)))), z3.Implies(z3.Not(n_), z3.And(MR.holds(s_, r), m(s_))),
                                z3.ForAll([x], z3.Implies(z3.And(z3.Not(n_), m(x), MR.holds(x, r)), MR.key_le(x, s_)))]
    L('listing-order/selection-independent-of-listing-order', [z3.ForAll([x], m1(x) == m2(x)), mk(s1), mk(s2)] + sel(m1, n1, s1) + sel(m2, n2, s2),
      z3.And(n1 == n2, z3.Implies(z3.Not(n1), z3.And(MR.start(s1) == MR.start(s2), MR.rtype(s1) == MR.rtype(s2)))))
    S = B.source_shape
    # the setter (sort with the comparator), Potential_Form_Builder._make_multi_range_tuple and .create_potential_function are under Engine A contracts
    from pyvc.extract import Module
    import ast
    m = Module.get(F)
    out.append(B.static_obligation('C08/_multi_range_potential_form.py/_range_defn_key-is-cmp_to_key(_range_defn_cmp)',
                                   ast.unparse(m.consts.get('_range_defn_key')) == 'functools.cmp_to_key(_range_defn_cmp)', '_range_defn_key', F, ast.unparse(m.consts.get('_range_defn_key')), hard=False))
    out.append(S('C08', F, 'Multi_Range_Potential_Form.__init__', 'default-zero-and-sorted', ["self.default_value = kwargs.get('default_value', 0.0)", 'self.range_defns = range_defns']))
    out.append(S('C08', F, 'create_Multi_Range_Potential_Form', 'class-by-offered-derivatives',
                 ['any_deriv2 = any_deriv2 or rt.has_deriv2', 'any_deriv = any_deriv or rt.has_deriv', 'obj = cls(*range_tuples, **kwargs)', 'return obj']))
    # potable: a definition without a leading marker acts for r > 0
    out.append(S('C08', F_CP, 'ConfigParser._descend_tree', 'default-start-when-no-marker', ['range_defn = self._default_range_start', "range_defn = MultiRangeDefinitionTuple(range_type=first['range_type'], start=first['start'])"]))
    out.append(S('C08', F_CP, 'ConfigParser.__init__', 'default-start-is->0', ["self._default_range_start = MultiRangeDefinitionTuple('>', 0.0)"]))
    return out

MUTANTS = [
    (F, 'Multi_Range_Potential_Form.range_defns.setter', "tuples.sort(key=_range_defn_key)", "pass", 'post'),
    (F, 'Multi_Range_Potential_Form.range_defns.setter', "self._range_defns = tuples", "self._range_defns = list(range_defns)", 'post'),
    (F, 'Multi_Range_Potential_Form._range_search', "r <= t.start", "r < t.start", 'post'),
    (F, 'Multi_Range_Potential_Form._range_search', "rt[0].range_type == '>'", "rt[0].range_type == '>='", 'post'),
    (F, '_range_defn_cmp', "if a.range_type == '>=' and b.range_type == '>':\n            return -1", "if a.range_type == '>=' and b.range_type == '>':\n            return 1", 'post'),
    (F, 'Multi_Range_Potential_Form_Deriv.deriv', "return rt.deriv(r)", "return rt.deriv2(r)", 'post'),
    (F, 'create_Multi_Range_Potential_Form@construction', "if any_deriv2:", "if any_deriv:", 'post'),
    (F, 'create_Multi_Range_Potential_Form@construction', "elif any_deriv:", "elif not any_deriv:", 'post'),
    (F, 'create_Multi_Range_Potential_Form@construction', "any_deriv = any_deriv or rt.has_deriv", "any_deriv = rt.has_deriv", 'preserve'),
    (F, 'create_Multi_Range_Potential_Form@construction', "any_deriv2 = any_deriv2 or rt.has_deriv2", "any_deriv2 = any_deriv2 or rt.has_deriv", 'preserve'),
    (F, 'create_Multi_Range_Potential_Form@construction', "cls(*range_tuples, **kwargs)", "cls(*range_tuples[1:], **kwargs)", 'post'),
    (F, 'Multi_Range_Potential_Form.__init__', "kwargs.get('default_value', 0.0)", "kwargs.get('default_value', 1.0)", 'post'),
    (F, 'Multi_Range_Potential_Form.__init__', "self.range_defns = range_defns", "self._range_defns = range_defns", 'post'),
    (F, 'Multi_Range_Potential_Form.__call__', "return self.default_value", "return rt", 'post') if False else
    (F, 'Multi_Range_Potential_Form_Deriv.deriv', "return 0.0", "return self.default_value", 'post'),
]
ASSUMPTIONS = ['A4: list.sort with a consistent comparator (cmp_to_key) yields the canonical order assumed by _range_search (start ascending, ">=" before ">" at equal start); the comparator is verified to be that order',
               'reading of the tie clause (DESIGN §4 C08): at r equal to a shared start the inclusive range is selected, beyond it the exclusive one — the only reading under which the pinned test and the statement agree',
               'order independence is proved for the (start, marker) of the selected range (lemmas listing-order/*); which of several ranges with an identical (marker, start) pair is selected depends on listing order (stable sort): the statement says nothing about such duplicates',
               'A1: comparisons r == start are on the floats the code compares (no arithmetic precedes them)']
NOTES = ['pyparsing grammar acceptance (which texts yield a range_start node) is A6; the tree-to-tuple descent is checked on normalised source']

def oracle_payload(tier, seed, mode='search'): return dict(mode=mode, seed=seed, n=60 if tier == 'quick' else 3000)
def witness_for(ob, devs, run_oracle):
    if devs: d = devs[0]; return dict(deviates=True, input=d['input'], observed=d['observed'], expected=d['expected'])
    return dict(deviates=False)

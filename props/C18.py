"""C18 — tabulated input is reproduced at its data points and is zero outside its range."""
import ast, z3
from pyvc.core import *
from pyvc.solve import Obligation
from pyvc import symalg as B
from pyvc.extract import get_func
import contracts.common as K
import contracts.tablereaders as TR

F_TF = 'atsim/potentials/tableforms.py'
F_TFB = 'atsim/potentials/config/_table_form_builder.py'
import contracts.config_errors as CEc
FUNCTIONS = [(TR.F_TR, 'TableReaderBase._findIndex'), (TR.F_TR, 'TableReaderBase.getValue'), (TR.F_INIT, 'plotToFile'), (TR.F_CP, '_TableFormSection._parse_xy'), (TR.F_CP, '_TableFormSection._parse_x_y'),
             (TR.F_TR, 'DatReader._populate')]
SPECSEQS = [TR.plot_rows, TR.data_rows]

def _populate_shape():
    """DatReader._populate: every non-blank, non-comment line contributes (float(tok0), float(tok1)) whatever its terminator:
    the raw line must not be sliced before strip() (a last line without newline would lose a data character)"""
    fi = get_func(TR.F_TR, 'DatReader._populate')
    loop = [s for s in fi.body if isinstance(s, ast.For)]
    bad = []
    if len(loop) != 1: return False, 'no single line loop'
    for s in loop[0].body:
        if isinstance(s, ast.Assign) and isinstance(s.value, ast.Subscript) and isinstance(s.value.slice, ast.Slice) and ast.unparse(s.value.value) == 'line':
            bad.append(ast.unparse(s))
    return (not bad), 'the raw line is sliced before strip(): %s' % bad

def lemmas():
    out = []
    ok, why = _populate_shape()
    out.append(B.static_obligation('C18/_tablereaders.py::DatReader._populate/terminator-independent', ok, 'DatReader._populate', TR.F_TR, why))
    S = B.source_shape
    # DatReader._populate is under an Engine A contract (contracts/tablereaders.py): the sorted (x, y) pairs of the data lines, comments and blank lines skipped
    out.append(S('C18', TR.F_INIT, 'TableReader.__call__', 'delegates-to-getValue', ['return self._tablereader.getValue(separation)']))
    out.append(S('C18', TR.F_INIT, 'TableReader.__init__', 'reads-with-DatReader', ['self._tablereader = _tablereaders.DatReader(fileobject)']))
    out.append(S('C18', TR.F_INIT, 'plot', 'opens-and-delegates', ["with open(filename, 'w') as outfile:\n    plotToFile(outfile, lowx, highx, func, steps)"]))
    out.append(S('C18', F_TF, 'Cubic_Spline_Table_Form.__init__', 'interpolant-zero-outside-and-its-derivatives',
                 ['self._interpolant = InterpolatedUnivariateSpline(x_data, y_data, ext=1)', 'self._deriv = self._interpolant.derivative()', 'self._deriv2 = self._deriv.derivative()']))
    for m, body in (('__call__', 'return float(self._interpolant(x))'), ('deriv', 'return float(self._deriv(x))'), ('deriv2', 'return float(self._deriv2(x))')):
        out.append(S('C18', F_TF, 'Cubic_Spline_Table_Form.' + m, 'delegates', [body]))
    out.append(S('C18', TR.F_CP, '_TableFormSection._parse_x_y', 'x-and-y-lists', ["x_string = section['x']", "y_string = section['y']", 'x = [float(v) for v in x_string.split()]', 'y = [float(v) for v in y_string.split()]', 'return (x, y)']))
    # xy form == x/y form: position 2i of xy is x_i, position 2i+1 is y_i
    xy = z3.Const('xy', TR.RealList); i, n = z3.Ints('i n')
    def L(name, hyps, goal, depth=2):
        o = Obligation('C18/lemma/' + name, hyps, goal, kind='lemma', function='props/C18.py', carries_property=True, unfold_depth=depth); out.append(o)
    L('de-interleave-step', [n >= 0, n % 2 == 0, n + 2 <= z3.Length(xy)],
      z3.And(TR.evens(xy, n + 2) == z3.Concat(TR.evens(xy, n), z3.Unit(xy[n])), TR.odds(xy, n + 2) == z3.Concat(TR.odds(xy, n), z3.Unit(xy[n + 1]))))
    # plot: exactly `steps` rows, row i at lowx + i*(highx-lowx)/steps
    lo, hi = z3.Reals('lo hi'); f = z3.Const('f', Fn); st = z3.Int('steps')
    L('plot-exactly-steps-rows', [st >= 1], z3.Length(TR.plot_rows(lo, hi, st, f, st)) == 4 * st, depth=1)
    L('plot-row-i', [st >= 1, i >= 0, i < st, TR.plot_rows.nth_instance([lo, hi, st, f], st, i)],
      z3.SubSeq(TR.plot_rows(lo, hi, st, f, st), 4 * i, 4) == tok("{0} {1}\n", lo + real(i) * ((hi - lo) / real(st)), app(f, lo + real(i) * ((hi - lo) / real(st)))), depth=1)
    return out

MUTANTS = [
    (TR.F_TR, 'DatReader._populate', "if len(line) == 0 or line[0] == '#':", "if len(line) == 0:", 'preserve/0'),
    (TR.F_TR, 'DatReader._populate', "results.append((float(x), float(y)))", "results.append((float(y), float(x)))", 'preserve/0'),
    (TR.F_TR, 'DatReader._populate', "results.sort()", "pass", 'post'),
    (TR.F_TR, 'DatReader._populate', "splitre.split(line)[:2]", "splitre.split(line)[:3]", 'unpack'),
    (TR.F_TR, 'DatReader._populate', "line = line.strip()", "line = line", 'preserve/0'),
    (TR.F_TR, 'TableReaderBase.getValue', "if highidx == len(self):", "if highidx == len(self) - 1:", 'post'),
    (TR.F_TR, 'TableReaderBase.getValue', "m = (hy - ly) / (hx - lx)", "m = (hy - ly) / (hx + lx)", 'post/chord'),
    (TR.F_TR, 'TableReaderBase._findIndex', "return idx - 1", "return idx", 'post'),
    (TR.F_INIT, 'plotToFile', "v = lowx + float(i) * step", "v = lowx + float(i + 1) * step", 'preserve/0'),
    (TR.F_CP, '_TableFormSection._parse_xy', "even = not even", "even = even", 'preserve/0'),
    (TR.F_CP, '_TableFormSection._parse_x_y', "y_string = section['y']", "y_string = section['x']", 'post'),
]
MODULE_MUTANTS = [(TR.F_TR, "      line = line.strip()\n", "      line = line[:-1]\n      line = line.strip()\n", 'terminator-independent')]
ASSUMPTIONS = ['A6: scipy.interpolate.InterpolatedUnivariateSpline(x, y, ext=1) interpolates the data, is 0 outside [x0, xn], and .derivative() is its derivative (bounded stand-in: oracle on random strictly increasing data)',
               'A4: list.sort of (x, y) tuples is ascending in x; bisect.bisect_left; file iteration yields lines; str.split/strip; float() of text',
               'A1: float as real in the chord formula']
BOUNDED = [dict(name='cubic-spline table form: passes through its points, zero outside, derivative = slope of the interpolant, x/y == xy', bound='4..40 points, uneven spacing; quick ~20 / thorough ~500 tables', technique='concrete oracle on real scipy')]

def oracle_payload(tier, seed, mode='search'): return dict(mode=mode, seed=seed, n=80 if tier == 'quick' else 2000)
def witness_for(ob, devs, run_oracle):
    if devs: d = devs[0]; return dict(deviates=True, input=d['input'], observed=d['observed'], expected=d['expected'])
    return dict(deviates=False)

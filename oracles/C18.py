"""C18 oracle: table forms and the legacy TableReader on the real code."""
from _common import *
import atsim.potentials as ap
from atsim.potentials import TableReader, plotToFile
from atsim.potentials.tableforms import Cubic_Spline_Table_Form

def check_reader(rep, case, name):
    text = case['text']; pts = sorted([tuple(p) for p in case['points']])
    try: tr = TableReader(io.StringIO(text))
    except Exception as e: rep.dev(name, case, 'exception %r' % (e,), 'a reader over %d points' % len(pts)); return
    got = list(tr.datReader)
    if len(got) != len(pts) or any(not close(a[0], b[0], 0, 0) or not close(a[1], b[1], 0, 0) for a, b in zip(got, pts)):
        rep.dev(name, case, 'data read: %r' % (got[-3:],), 'last points %r' % (pts[-3:],)); return
    xs = [p[0] for p in pts]
    for (x, y) in pts:
        if xs.count(x) == 1 and not close(tr(x), y, 1e-12, 1e-14): rep.dev(name, case, 'value at tabulated x=%r: %r' % (x, tr(x)), y); return
    for (x0, y0), (x1, y1) in zip(pts, pts[1:]):
        if x1 == x0: continue
        xm = x0 + 0.37 * (x1 - x0); want = y0 + (y1 - y0) * (xm - x0) / (x1 - x0)
        v = tr(xm)
        if not close(v, want, 1e-9, 1e-12) or not (min(y0, y1) - 1e-9 <= v <= max(y0, y1) + 1e-9): rep.dev(name, case, 'value at %r: %r' % (xm, v), 'linear interpolant %r' % want); return
    if tr(xs[0] - 1.0) != 0.0 or tr(xs[-1] + 1.0) != 0.0: rep.dev(name, case, 'outside: %r, %r' % (tr(xs[0] - 1.0), tr(xs[-1] + 1.0)), 0.0); return
    # the value at x does not depend on what was looked up before: one reader queried in a scrambled order (high, exactly on a
    # point lower down, in between ...) agrees with a fresh reader per query
    rng = random.Random(len(text))
    qs = [x for x in xs] + [x0 + f * (x1 - x0) for x0, x1 in zip(xs, xs[1:]) for f in (0.25, 0.8)] + [xs[0] - 0.3, xs[-1] + 0.3]
    for rnd in range(3):
        rng.shuffle(qs)
        for q in qs + sorted(qs) + sorted(qs, reverse=True):
            fresh = TableReader(io.StringIO(text))(q)
            got = tr(q)
            if not close(got, fresh, 1e-12, 1e-14): rep.dev(name, case, 'value at %r after other look-ups: %r' % (q, got), 'value from a fresh reader: %r' % fresh); return
    rep.ok(len(pts))

def check_plot(rep, case, name):
    f = Poly(case['coefs'], False)
    out = io.StringIO(); lo, hi, steps = case['lo'], case['hi'], case['steps']
    plotToFile(out, lo, hi, f, steps)
    rows = [l.split() for l in out.getvalue().split('\n') if l.strip()]
    if len(rows) != steps: rep.dev(name, case, '%d rows' % len(rows), steps); return
    for i, (xs_, ys_) in enumerate(rows):
        x = lo + i * (hi - lo) / steps
        if not close(float(xs_), x, 1e-12, 1e-12) or not close(float(ys_), f(x), 1e-9, 1e-12): rep.dev(name, case, 'row %d: %s %s' % (i, xs_, ys_), '%r %r' % (x, f(x))); return
    rep.ok(steps)

def check_tableform(rep, case, name):
    from atsim.potentials.config import Configuration
    xs, ys = case['xs'], case['ys']
    def ini(body): return '[Tabulation]\ntarget : LAMMPS\nnr : 11\ncutoff : 10.0\n\n[Pair]\nA-B : >=0 tab\n\n[Table-Form:tab]\n%s\n' % body
    b1 = 'x : %s\ny : %s' % (' '.join(repr(v) for v in xs), ' '.join(repr(v) for v in ys))
    b2 = 'xy : ' + '\n     '.join('%r %r' % p for p in zip(xs, ys))
    try:
        f1 = Configuration().read(io.StringIO(ini(b1))).potentials[0].potentialFunction
        f2 = Configuration().read(io.StringIO(ini(b2))).potentials[0].potentialFunction
    except Exception as e: rep.dev(name, case, 'exception %r' % (e,), 'a table form'); return
    for x, y in zip(xs, ys):
        if not close(f1(x), y, 1e-9, 1e-10): rep.dev(name, case, 'f(%r)=%r' % (x, f1(x)), y); return
    probes = [xs[0] - 0.5, xs[-1] + 0.5] + [x0 + 0.41 * (x1 - x0) for x0, x1 in zip(xs, xs[1:])]
    for x in probes:
        if not close(f1(x), f2(x), 1e-12, 1e-13): rep.dev(name, case, 'x/y form at %r: %r' % (x, f1(x)), 'xy form: %r' % f2(x)); return
    if f1(xs[0] - 0.5) != 0.0 or f1(xs[-1] + 0.5) != 0.0: rep.dev(name, case, 'outside values %r %r' % (f1(xs[0] - 0.5), f1(xs[-1] + 0.5)), 0.0); return
    for x in probes[2:]:
        h = 1e-6 * max(1.0, xs[-1] - xs[0])
        if x - h < xs[0] or x + h > xs[-1]: continue
        nd = (f1(x + h) - f1(x - h)) / (2 * h)
        if not close(f1.deriv(x), nd, 1e-4, 1e-5 * max(1.0, abs(nd))): rep.dev(name, case, 'deriv(%r)=%r' % (x, f1.deriv(x)), 'slope of the interpolant %r' % nd); return
    # a second model in the same process: same table-form name, same x grid, other y values -- it is the table of ITS data
    ys2 = [y * 0.5 + 1.25 for y in ys]
    b3 = 'x : %s\ny : %s' % (' '.join(repr(v) for v in xs), ' '.join(repr(v) for v in ys2))
    try: f3 = Configuration().read(io.StringIO(ini(b3))).potentials[0].potentialFunction
    except Exception as e: rep.dev(name, case, 'second model: exception %r' % (e,), 'a table form'); return
    for x, y in zip(xs, ys2):
        if not close(f3(x), y, 1e-9, 1e-10): rep.dev(name, dict(case, second_model=True), 'second model with the same name and x grid: f(%r)=%r' % (x, f3(x)), y); return
    rep.ok(len(xs))

def check_case(rep, case, name):
    {'reader': check_reader, 'plot': check_plot, 'tableform': check_tableform}[case['kind']](rep, case, name)

def gen_case(rng):
    k = rng.choice(['reader', 'reader', 'plot', 'tableform'])
    if k == 'reader':
        n = rng.randint(1, 12)
        xs = sorted(rng.sample([round(0.25 * i, 2) for i in range(60)], n))
        pts = [(x, round(rng.uniform(-50, 50), rng.choice([0, 1, 3]))) for x in xs]
        order = list(pts); rng.shuffle(order)
        lines = []
        for x, y in order:
            fmt = rng.choice(['%r %r', '%r  %r', '  %r\t%r  ', '%r %r trailing'])
            lines.append(fmt % (x, y) if 'trailing' not in fmt else '%r %r 99' % (x, y))
            if rng.random() < 0.2: lines.append(rng.choice(['', '# comment', '   ']))
        text = '\n'.join(lines) + rng.choice(['\n', '', '\n\n'])
        return dict(kind=k, text=text, points=pts)
    if k == 'plot':
        lo = round(rng.uniform(-2, 3), 2)
        return dict(kind=k, lo=lo, hi=round(lo + rng.uniform(0.5, 9), 2), steps=rng.choice([1, 2, 7, 10, 100]), coefs=[round(rng.uniform(-3, 3), 2) for _ in range(3)])
    n = rng.randint(4, 40); xs = [0.0]
    for _ in range(n - 1): xs.append(round(xs[-1] + rng.uniform(0.05, 0.9), 4))
    return dict(kind=k, xs=xs, ys=[round(rng.uniform(-5, 5), 4) for _ in xs])

if __name__ == '__main__':
    pl = payload(); rep = Report('C18')
    if pl.get('mode') == 'replay': rep.case('replay', pl['input']); check_case(rep, pl['input'], 'replay')
    else:
        rng = random.Random(pl.get('seed', 0))
        c = dict(kind='reader', text='1.0 10.0\n2.0 20.5\n3.0 45.5', points=[[1.0, 10.0], [2.0, 20.5], [3.0, 45.5]]); rep.case('reader', c); check_case(rep, c, 'no-trailing-newline')
        for i in range(pl.get('n', 80)):
            c = gen_case(rng); rep.case(c['kind'], c); check_case(rep, c, 'seeded-%d' % i)
    rep.finish()

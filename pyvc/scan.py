"""AST scans used as frame / read-set / purity obligations (decided by enumeration of the sites in the current source)."""
import ast, os
from .extract import Module, REPO
from . import symalg as B

def attribute_stores_on_self(relpath, clsname):
    m = Module.get(relpath)
    out = []
    for s in m.classes[clsname].body:
        if isinstance(s, ast.FunctionDef):
            for n in ast.walk(s):
                if isinstance(n, ast.Attribute) and isinstance(n.ctx, ast.Store) and isinstance(n.value, ast.Name) and n.value.id == 'self':
                    out.append((s.name, n.attr, n.lineno))
    return out

def attribute_reads(relpaths, varnames):
    """attributes read from variables named in `varnames` (e.g. cp, cfg) in the given files -> {attr: [(file, line)]}"""
    out = {}
    for rp in relpaths:
        m = Module.get(rp)
        for n in ast.walk(m.tree):
            if isinstance(n, ast.Attribute) and isinstance(n.value, ast.Name) and n.value.id in varnames and isinstance(n.ctx, ast.Load):
                out.setdefault(n.attr, []).append((rp, n.lineno))
    return out

def package_files(sub):
    root = os.path.join(REPO, sub)
    out = []
    for dp, dn, fn in os.walk(root):
        for f in fn:
            if f.endswith('.py'): out.append(os.path.relpath(os.path.join(dp, f), REPO))
    return sorted(out)

def mutable_default_args(relpath):
    """(qualname, parameter, default source) for list/dict/set/call defaults"""
    m = Module.get(relpath)
    out = []
    for q, fi in m.funcs.items():
        a = fi.node.args
        names = [x.arg for x in a.args]
        for nm, d in zip(names[len(names) - len(a.defaults):], a.defaults):
            if isinstance(d, (ast.List, ast.Dict, ast.Set)) or (isinstance(d, ast.Call)):
                out.append((q, nm, ast.unparse(d)))
    return out

def stores_to_param_or_global(fi, params):
    """statements of a function that mutate one of `params` (attribute/subscript store, mutating method call)"""
    MUT = {'append', 'extend', 'update', 'add', 'pop', 'remove', 'clear', 'insert', 'setdefault', 'sort', 'reverse', '__setitem__'}
    out = []
    for n in ast.walk(fi.node):
        if isinstance(n, (ast.Attribute, ast.Subscript)) and isinstance(n.ctx, ast.Store):
            root = n.value
            while isinstance(root, (ast.Attribute, ast.Subscript)): root = root.value
            if isinstance(root, ast.Name) and root.id in params: out.append(ast.unparse(n))
        if isinstance(n, ast.Call) and isinstance(n.func, ast.Attribute) and n.func.attr in MUT:
            root = n.func.value
            while isinstance(root, (ast.Attribute, ast.Subscript)): root = root.value
            if isinstance(root, ast.Name) and root.id in params: out.append(ast.unparse(n))
    return out

def set_iteration_sites(relpath):
    """for-loops and comprehensions whose iterable is syntactically a set (set(...) call, set display, set algebra on such names)
    and is not wrapped in sorted(): -> [(qualname, line, source)]"""
    m = Module.get(relpath)
    out = []
    for q, fi in m.funcs.items():
        setnames = set()
        for n in ast.walk(fi.node):
            if isinstance(n, ast.Assign) and len(n.targets) == 1 and isinstance(n.targets[0], ast.Name) and _is_set_expr(n.value, setnames):
                setnames.add(n.targets[0].id)
        for n in ast.walk(fi.node):
            its = []
            if isinstance(n, ast.For): its.append(n.iter)
            if isinstance(n, (ast.ListComp, ast.GeneratorExp, ast.DictComp)): its += [g.iter for g in n.generators]
            if isinstance(n, ast.Call) and isinstance(n.func, ast.Name) and n.func.id in ('list', 'tuple') and n.args: its.append(n.args[0])
            for it in its:
                if _is_set_expr(it, setnames): out.append((q, it.lineno, ast.unparse(it)))
    return out

def _is_set_expr(e, setnames):
    if isinstance(e, ast.Set) or isinstance(e, ast.SetComp): return True
    if isinstance(e, ast.Call) and isinstance(e.func, ast.Name) and e.func.id in ('set', 'frozenset'): return True
    if isinstance(e, ast.Name) and e.id in setnames: return True
    if isinstance(e, ast.BinOp) and isinstance(e.op, (ast.BitOr, ast.BitAnd, ast.BitXor, ast.Sub)) and (_is_set_expr(e.left, setnames) or _is_set_expr(e.right, setnames)): return True
    if isinstance(e, ast.Call) and isinstance(e.func, ast.Attribute) and e.func.attr in ('keys',) and False: return True
    return False

def decorators_and_globals(relpath):
    """caching decorators, global statements, module-level mutable state written from functions: candidates for hidden state"""
    m = Module.get(relpath)
    out = []
    for q, fi in m.funcs.items():
        for d in fi.node.decorator_list:
            src = ast.unparse(d)
            if src not in ('property', 'classmethod', 'staticmethod', 'potential', 'modifier') and not src.endswith('.setter'):
                out.append((q, 'decorator ' + src))
        for n in ast.walk(fi.node):
            if isinstance(n, (ast.Global, ast.Nonlocal)): out.append((q, ast.unparse(n)))
    return out


import builtins as _bi

def unresolved_names(relpath):
    """names loaded in a function that are bound nowhere: not a parameter, local, enclosing local, module-level name or builtin
    (a NameError waiting for the path that reaches it)"""
    m = Module.get(relpath)
    if any(isinstance(s_, ast.ImportFrom) and any(a.name == '*' for a in s_.names) for s_ in m.tree.body):
        return []        # `from X import *` binds names this scan cannot enumerate: such a module is not decided here
    modnames = set(m.funcs) | set(m.classes) | set(m.consts) | set(m.imports) | {n.split('.')[0] for n in m.funcs}
    for s in m.tree.body:
        for n in ast.walk(s):
            if isinstance(n, ast.Name) and isinstance(n.ctx, ast.Store) and s in m.tree.body and not isinstance(s, (ast.FunctionDef, ast.ClassDef)): modnames.add(n.id)
    out = []
    def visit(fn, enclosing):
        local = {a.arg for a in fn.args.args + fn.args.kwonlyargs} | ({fn.args.vararg.arg} if fn.args.vararg else set()) | ({fn.args.kwarg.arg} if fn.args.kwarg else set())
        inner = []
        for n in ast.walk(fn):
            if n is fn: continue
            if isinstance(n, (ast.FunctionDef, ast.ClassDef)): local.add(n.name)
            if isinstance(n, ast.FunctionDef): inner.append(n)
            if isinstance(n, ast.Name) and isinstance(n.ctx, ast.Store): local.add(n.id)
            if isinstance(n, ast.ExceptHandler) and n.name: local.add(n.name)
            if isinstance(n, (ast.Import, ast.ImportFrom)):
                for a in n.names: local.add((a.asname or a.name).split('.')[0])
            if isinstance(n, ast.comprehension):
                for t in ast.walk(n.target):
                    if isinstance(t, ast.Name): local.add(t.id)
        scope = local | enclosing
        nested_ids = set()
        for i in inner:
            for n in ast.walk(i): nested_ids.add(id(n))
        for n in ast.walk(fn):
            if id(n) in nested_ids: continue
            if isinstance(n, ast.Name) and isinstance(n.ctx, ast.Load) and n.id not in scope and n.id not in modnames and not hasattr(_bi, n.id) and n.id != '__logging_arguments__':     # (synthetic name left by the extraction in place of a logging call)
                out.append((fn.name, n.id, n.lineno))
        for i in inner:
            # direct children only (deeper ones are visited recursively)
            visit(i, scope)
    for s in m.tree.body:
        if isinstance(s, ast.FunctionDef): visit(s, set())
        if isinstance(s, ast.ClassDef):
            for c in s.body:
                if isinstance(c, ast.FunctionDef): visit(c, set())
    # deduplicate
    return sorted(set(out))

def unguarded_split_unpacks(relpath):
    """`a, b = X.split(sep)` without a preceding length check: ValueError for a key with no / several separators"""
    m = Module.get(relpath)
    out = []
    for q, fi in m.funcs.items():
        for n in ast.walk(fi.node):
            if isinstance(n, ast.Assign) and isinstance(n.targets[0], (ast.Tuple, ast.List)) and isinstance(n.value, ast.Call) and isinstance(n.value.func, ast.Attribute) \
               and n.value.func.attr == 'split':
                # split(sep, maxsplit) with len(targets) == maxsplit + 1 still needs the separator to be present
                out.append((q, ast.unparse(n), n.lineno))
    return out

def conversions_outside_handlers(relpath, excs=('ValueError',)):
    """float(...)/int(...) calls on non-literal arguments that are not lexically inside a try whose handlers catch ValueError"""
    m = Module.get(relpath)
    out = []
    for q, fi in m.funcs.items():
        guarded = set()
        for n in ast.walk(fi.node):
            if isinstance(n, ast.Try):
                names = set()
                for h in n.handlers:
                    if h.type is None: names.add('*')
                    elif isinstance(h.type, ast.Tuple): names |= {ast.unparse(e) for e in h.type.elts}
                    else: names.add(ast.unparse(h.type))
                if names & (set(excs) | {'*', 'Exception'}):
                    for b in n.body:
                        for x in ast.walk(b): guarded.add(id(x))
        for n in ast.walk(fi.node):
            if isinstance(n, ast.Call) and isinstance(n.func, ast.Name) and n.func.id in ('float', 'int') and n.args and not isinstance(n.args[0], ast.Constant) and id(n) not in guarded:
                out.append((q, ast.unparse(n), n.lineno))
    return out

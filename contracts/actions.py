"""Contract for potable's tabulate action (C17): tools/potable/_actions.py.  The tabulation object comes out of the configuration layer; whatever its
class, its write() emits the whole table or nothing (that is what C17 proves for each of the eight text writers; the Excel writers are bounded),
and open_fp creates/truncates the named file.  So when anything fails the named file is absent or empty."""
import z3
from .common import *

FILE = F_ACT = 'atsim/potentials/tools/potable/_actions.py'
REG.add_class(ClassDecl('<ext>', 'ConfigurationObj', {}, external=True)); REG.classes['ConfigurationObj'].pyname = 'Configuration'
REG.add_class(ClassDecl('<ext>', 'AnyTabulation', {}, external=True))
TAB = ObjSort('AnyTabulation')
table_of = z3.Function('table_of', TAB, Doc)            # what the object's write() emits
REG.add(Contract('<ext>', 'ConfigurationObj.__init__', params=[('self', T.Obj('ConfigurationObj'))], ensures=lambda v, old, res: [], external=True, note='Configuration(): no state', props=['C17']))
REG.add(Contract('<ext>', 'ConfigurationObj.read_from_parser', params=[('self', T.Obj('ConfigurationObj')), ('cp', T.Any)], result=T.Obj('AnyTabulation'), ensures=lambda v, old, res: [],
    may_raise=lambda v: [('ConfigurationException', z3.Bool('model_rejected'))], external=True,
    note='Configuration.read_from_parser(parser): the tabulation object for the model, or a configuration error (C16)', props=['C17']))
REG.add(Contract('<ext>', 'AnyTabulation.open_fp', params=[('self', T.Obj('AnyTabulation')), ('filename', T.Str)], result=T.Doc, ensures=lambda v, old, res: [res == EMPTY],
    may_raise=lambda v: [('OSError', z3.Bool('cannot_open_output'))], external=True,
    note="A4: open(name, 'w') creates the file or truncates it: empty until something is written; OSError when it cannot be opened (then nothing was created by this call)", props=['C17']))
REG.add(Contract('<ext>', 'AnyTabulation.write', params=[('self', T.Obj('AnyTabulation')), ('fp', T.Doc)], modifies=['fp'],
    ensures=lambda v, old, res: [v.fp == cat(old.fp, table_of(v.self))], on_raise=lambda v, old: [v.fp == old.fp], raises_classes=['Exception'], external=True,
    note='write(fp) of a tabulation object emits the whole table or, when an evaluation fails, nothing: the all-or-nothing contracts of the write() methods (C17, contracts/*table*.py, eam_*.py)', props=['C17']))

def _on_raise(v, old):
    if 'outfile' not in v._frame: return []          # the file was never opened by this call
    return [v.outfile == EMPTY]
REG.add(Contract(F_ACT, 'action_tabulate', params=[('cp', T.Any), ('outfilename', T.Str)],
    # (the file is a local of the function: the clause speaks about it in the function's own proof; a caller learns nothing about the file system)
    ensures=lambda v, old, res: [v.outfile == table_of(v._ex.term_of(v._frame['tabulation'], v._st))] if 'outfile' in v._frame else [], post_names=['the-file-holds-the-whole-table'],
    on_raise=_on_raise, raises_when=lambda v, old, exc: [z3.BoolVal(True)], raises_classes=['ConfigurationException', 'OSError', 'Exception'],
    carries=['post', 'on_raise'], props=['C17']))

"""Exception class hierarchy: builtins plus every class in the repository deriving from Exception (read from the AST)."""
import ast, os
from . import extract

_BUILTIN = {
    'KeyError': ['LookupError', 'Exception'], 'IndexError': ['LookupError', 'Exception'], 'LookupError': ['Exception'],
    'ValueError': ['Exception'], 'TypeError': ['Exception'], 'AttributeError': ['Exception'], 'NameError': ['Exception'],
    'ZeroDivisionError': ['ArithmeticError', 'Exception'], 'ArithmeticError': ['Exception'], 'OverflowError': ['ArithmeticError', 'Exception'],
    'NotImplementedError': ['RuntimeError', 'Exception'], 'RuntimeError': ['Exception'], 'OSError': ['Exception'], 'IOError': ['OSError', 'Exception'],
    'UnicodeDecodeError': ['ValueError', 'Exception'], 'Exception': [],
    # configparser (CPython Lib/configparser.py): every parser error derives from configparser.Error
    'Error': ['Exception'], 'DuplicateOptionError': ['Error', 'Exception'], 'DuplicateSectionError': ['Error', 'Exception'], 'NoSectionError': ['Error', 'Exception'],
    'NoOptionError': ['Error', 'Exception'], 'ParsingError': ['Error', 'Exception'], 'MissingSectionHeaderError': ['ParsingError', 'Error', 'Exception'],
    'InterpolationError': ['Error', 'Exception'],
}
_cache = {}
def _scan():
    key = extract.REPO
    if key in _cache: return _cache[key]
    direct = {}
    root = os.path.join(extract.REPO, 'atsim')
    for dp, dn, fn in os.walk(root):
        for f in fn:
            if not f.endswith('.py'): continue
            try: tree = ast.parse(open(os.path.join(dp, f)).read())
            except SyntaxError: continue
            for n in ast.walk(tree):
                if isinstance(n, ast.ClassDef):
                    bs = [b.id if isinstance(b, ast.Name) else b.attr if isinstance(b, ast.Attribute) else None for b in n.bases]
                    direct.setdefault(n.name, [b for b in bs if b])
    _cache[key] = direct
    return direct

def bases_of(cls):
    direct = _scan()
    out, stack, seen = [], [cls], set()
    while stack:
        c = stack.pop()
        if c in seen: continue
        seen.add(c)
        bs = direct.get(c) or _BUILTIN.get(c, [])
        out.extend(bs); stack.extend(bs)
    return set(out)

def is_exception_class(cls):
    return cls in _BUILTIN or 'Exception' in bases_of(cls)

"""Contracts for the potable command line front end (C13, C14): atsim/potentials/tools/potable/__init__.py.
_create_override_tuple turns SECTION:KEY[=VALUE] into an edit; _make_config_parser collects the edits (last one given per item wins,
removals after overrides), hands them to ConfigParser and wraps the parser in the filtered view the species options ask for."""
import z3
from .common import *
from . import overrides as OVR
from . import filtered as FLT
from pyvc.symexec import split_on_max

FILE = F_CLI = 'atsim/potentials/tools/potable/__init__.py'
COLON, EQ = z3.StringVal(':'), z3.StringVal('=')
OV = OVR.OV; o_sec, o_key, o_val, o_none = OVR.o_sec, OVR.o_key, OVR.o_val, OVR.o_none

REG.add(Contract('<ext>', 'ConfigParserOverrideTuple.__init__',
    params=[('self', T.Obj('ConfigParserOverrideTuple')), ('section', T.Str), ('key', T.Str), ('value', T.Opt(T.Str))],
    ensures=lambda v, old, res: [o_sec(v.self) == v.section, o_key(v.self) == v.key, o_none(v.self) == v.val('value').isnone,
                                 z3.Implies(z3.Not(v.val('value').isnone), o_val(v.self) == v._ex.term_of(v.val('value').val, v._st))],
    external=True, note='collections.namedtuple constructor: the fields are the arguments', props=['C14']))

# ---- SECTION:KEY=VALUE: the section is the text before the first colon, the key the text between it and the first "=" after it
# (named by spec functions; their definitions by text positions are revealed only where the text is taken apart: _create_override_tuple)
item_sec = z3.Function('item_section', StrS, StrS); item_key = z3.Function('item_key', StrS, BoolS, StrS); item_val = z3.Function('item_value', StrS, StrS)
item_ok = z3.Function('item_wellformed', StrS, BoolS, BoolS)
def _rest(t): return z3.SubString(t, z3.IndexOf(t, COLON, 0) + 1, z3.Length(t) - z3.IndexOf(t, COLON, 0) - 1)
def item_definitions():
    t = z3.String('t!it'); hv = z3.Bool('hv!it')
    return [z3.ForAll([t], item_sec(t) == z3.SubString(t, 0, z3.IndexOf(t, COLON, 0)), patterns=[item_sec(t)]),
            z3.ForAll([t, hv], item_key(t, hv) == z3.If(hv, z3.SubString(_rest(t), 0, z3.IndexOf(_rest(t), EQ, 0)), _rest(t)), patterns=[item_key(t, hv)]),
            z3.ForAll([t], item_val(t) == z3.SubString(_rest(t), z3.IndexOf(_rest(t), EQ, 0) + 1, z3.Length(_rest(t)) - z3.IndexOf(_rest(t), EQ, 0) - 1), patterns=[item_val(t)]),
            z3.ForAll([t, hv], item_ok(t, hv) == z3.And(z3.Contains(t, COLON), z3.Implies(hv, z3.Contains(_rest(t), EQ))), patterns=[item_ok(t, hv)])]
def is_edit(o, t, has_value):
    """the edit o is the one the command line item t denotes"""
    return z3.And(o_sec(o) == item_sec(t), o_key(o) == item_key(t, has_value), o_none(o) == z3.Not(has_value), z3.Implies(has_value, o_val(o) == item_val(t)))

REG.add(Contract(F_CLI, '_create_override_tuple', params=[('key', T.Str), ('has_value', T.Bool)], defaults={'has_value': True}, result=T.Obj('ConfigParserOverrideTuple'),
    requires=lambda v: [item_ok(v.key, v.has_value)],      # malformed items (the TODO in the source): ValueError from the unpacking -- outside C14, which quantifies over operations on a section and key
    ensures=lambda v, old, res: [is_edit(res, old.key, old.has_value)], post_names=['is-the-edit-the-item-denotes'], definitions=item_definitions,
    carries=['post'], props=['C14']))

# ---- ConfigParser(fp, overrides, additional): the parser state is the file with the edits applied (contract of _init_config_parser)
from . import duplicates as DU
from pyvc.symexec import chain_flat_fn, view_source_fn, odict_wf, TupleSort
F_CP = OVR.F_CP
CPo = ObjSort('ConfigParser'); OVL = OVR.OVL
cp_fp = z3.Function('constructed_from_file', CPo, OVR.TF); cp_ov = z3.Function('constructed_with_overrides', CPo, OVL); cp_ad = z3.Function('constructed_with_additions', CPo, OVL)
REG.add(Contract(F_CP, 'ConfigParser.__init__',
    params=[('self', T.Obj('ConfigParser')), ('fp', T.Obj('TextFile')), ('overrides', T.List(T.Obj('ConfigParserOverrideTuple'))), ('additional', T.List(T.Obj('ConfigParserOverrideTuple')))],
    ensures=lambda v, old, res: [cp_fp(v.self) == v.fp, cp_ov(v.self) == v.overrides, cp_ad(v.self) == v.additional], trusted=True,
    may_raise=lambda v: [('ConfigurationException', z3.Bool('edits_or_file_rejected'))],
    note='names the constructor arguments of a parser object (ghost observers); what the parser then contains is the contract of _init_config_parser (contracts/overrides.py), '
         'which __init__ calls with exactly these arguments before the duplicate checks', props=['C14']))
# the filtered view reads four list properties of the parser it wraps
for _n, _t in (('pair', 'PairEntry'), ('eam_density_fs', 'PairEntry'), ('eam_embed', 'SingleEntry'), ('eam_density', 'SingleEntry')):
    REG.classes['ConfigParser'].fields[_n] = T.List(T.Obj(_t))
REG.classes['WrappedParser'].view_of = 'ConfigParser'
viewed = view_source_fn('WrappedParser', 'ConfigParser')

StrL = z3.SeqSort(StrS); StrLL = z3.SeqSort(StrL)
flat = chain_flat_fn(T.Str)
KS = TupleSort([StrS, StrS])
def kof(t, hv): return KS.mk(item_sec(t), item_key(t, z3.BoolVal(hv)))
def keyof(o): return KS.mk(o_sec(o), o_key(o))
items_fn = z3.Function('items_given', BoolS, StrLL, StrL)
def items_definitions():
    x = z3.Const('x!ig', StrLL)
    return [z3.ForAll([x], items_fn(z3.BoolVal(True), x) == z3.Empty(StrL), patterns=[items_fn(z3.BoolVal(True), x)]),
            z3.ForAll([x], items_fn(z3.BoolVal(False), x) == flat(x), patterns=[items_fn(z3.BoolVal(False), x)])]
def _flat_of(optv, ns):
    """the items of one option kind in command line order (none when the option was not given)"""
    return items_fn(optv.isnone, ns._ex.term_of(optv.val, ns._st))
def _items(ns):
    return _flat_of(ns.val('overrides'), ns), _flat_of(ns.val('remove'), ns), _flat_of(ns.val('additional'), ns)

def origin(o, x, F0, F1, i0, i1):
    """the edit o stored for item x is the last one the command line gives for x (a removal, or an override when nothing is removed)"""
    j, j2 = z3.Int('j!or'), z3.Int('j2!or')
    from_rm = z3.Exists([j], z3.And(0 <= j, j < i1, kof(F1[j], False) == x, is_edit(o, F1[j], z3.BoolVal(False)),
                                    z3.ForAll([j2], z3.Implies(z3.And(j < j2, j2 < i1), kof(F1[j2], False) != x))))
    from_ov = z3.Exists([j], z3.And(0 <= j, j < i0, kof(F0[j], True) == x, is_edit(o, F0[j], z3.BoolVal(True)),
                                    z3.ForAll([j2], z3.Implies(z3.And(j < j2, j2 < i0), kof(F0[j2], True) != x)),
                                    z3.ForAll([j2], z3.Implies(z3.And(0 <= j2, j2 < i1), kof(F1[j2], False) != x))))
    return z3.Or(from_rm, from_ov)

def _dict_state(d, F0, F1, i0, i1):
    x = z3.Const('x!ds', KS); j = z3.Int('j!ds')
    return odict_wf(d) + [
        z3.ForAll([x], z3.Implies(z3.Select(d.has, x), origin(z3.Select(d.get, x), x, F0, F1, i0, i1))),
        z3.ForAll([j], z3.Implies(z3.And(0 <= j, j < i0), z3.Select(d.has, kof(F0[j], True)))),
        z3.ForAll([j], z3.Implies(z3.And(0 <= j, j < i1), z3.Select(d.has, kof(F1[j], False))))]

def _adds_state(L, F2, n):
    j = z3.Int('j!ad')
    return [z3.Length(L) == n, z3.ForAll([j], z3.Implies(z3.And(0 <= j, j < n), is_edit(L[j], F2[j], z3.BoolVal(True))))]

def _wellformed_items(v):
    F0, F1, F2 = _items(v); j = z3.Int('j!wf')
    return [z3.ForAll([j], z3.Implies(z3.And(0 <= j, j < z3.Length(F0)), item_ok(F0[j], z3.BoolVal(True)))),
            z3.ForAll([j], z3.Implies(z3.And(0 <= j, j < z3.Length(F1)), item_ok(F1[j], z3.BoolVal(False)))),
            z3.ForAll([j], z3.Implies(z3.And(0 <= j, j < z3.Length(F2)), item_ok(F2[j], z3.BoolVal(True))))]

def _parser_of(res):
    """the ConfigParser behind the result: the result itself, or the parser a filtered view presents"""
    if res.sort() == CPo: return res, None
    return viewed(FLT.wrapped(res)), res

def _mk_post(v, old, res):
    F0, F1, F2 = _items(old); P, view = _parser_of(res)
    OL, AL = cp_ov(P), cp_ad(P); k, k2, j = z3.Int('k!mp'), z3.Int('k2!mp'), z3.Int('j!mp')
    n0, n1 = z3.Length(F0), z3.Length(F1)
    sp = old.val('species')
    out = [cp_fp(P) == old.cfg_file,
           z3.ForAll([k], z3.Implies(z3.And(0 <= k, k < z3.Length(OL)), origin(OL[k], keyof(OL[k]), F0, F1, n0, n1))),
           z3.ForAll([j], z3.Implies(z3.And(0 <= j, j < n0), z3.Exists([k], z3.And(0 <= k, k < z3.Length(OL), keyof(OL[k]) == kof(F0[j], True))))),
           z3.ForAll([j], z3.Implies(z3.And(0 <= j, j < n1), z3.Exists([k], z3.And(0 <= k, k < z3.Length(OL), keyof(OL[k]) == kof(F1[j], False))))),
           z3.ForAll([k, k2], z3.Implies(z3.And(0 <= k, k < k2, k2 < z3.Length(OL)), keyof(OL[k]) != keyof(OL[k2])))] + _adds_state(AL, F2, z3.Length(F2))
    if view is None: out.append(sp.isnone)
    else:
        S = old._ex.term_of(sp.val, old._st)
        out += [z3.Not(sp.isnone), FLT.xflag(view) == old.exclude_flag, FLT.slist(view) == S]
    return out

REG.add(Contract(F_CLI, '_make_config_parser',
    params=[('cfg_file', T.Obj('TextFile')), ('overrides', T.Opt(T.List(T.List(T.Str)))), ('additional', T.Opt(T.List(T.List(T.Str)))), ('remove', T.Opt(T.List(T.List(T.Str)))),
            ('species', T.Opt(T.List(T.Str))), ('exclude_flag', T.Bool)],
    requires=_wellformed_items, result=T.Any, ensures=_mk_post,
    post_names=['reads-the-named-file', 'each-edit-handed-on-is-the-last-one-given-for-its-item', 'no-overridden-item-is-lost', 'no-removed-item-is-lost', 'one-edit-per-item',
                'additions-count', 'additions-in-command-line-order', 'filter-as-asked', 'filter-mode', 'filter-species'],
    invariants={0: lambda v, old: _dict_state(v.override_dict, _items(old)[0], _items(old)[1], v._i0, z3.IntVal(0)),
                1: lambda v, old: _dict_state(v.override_dict, _items(old)[0], _items(old)[1], z3.Length(_items(old)[0]), v._i1),
                2: lambda v, old: _adds_state(v.additional_list, _items(old)[2], v._i2)},
    ghost={'override_dict': T.ODict(T.Tuple(T.Str, T.Str), T.Obj('ConfigParserOverrideTuple')), 'additional_list': T.Obj('ConfigParserOverrideTuple')},
    raises_when=lambda v, old, exc: [z3.BoolVal(exc.cls == 'ConfigurationException' or exc.cls == 'ValueError')], on_raise=lambda v, old: [],
    definitions=items_definitions, instantiate_int_foralls=True, carries=['post', 'preserve/0', 'preserve/1', 'preserve/2'], props=['C13', 'C14']))

"""C10 — splined potentials keep their end potentials and join them with C2 continuity."""
import ast, z3
import sympy as sp
from pyvc import symalg as B
from pyvc.core import Unsupported
from pyvc.extract import Module, get_func
import contracts.forms as FM
import props.C07 as C07

F = 'atsim/potentials/spline/__init__.py'
F_FORMS = 'atsim/potentials/potentialforms.py'
F_MOD = 'atsim/potentials/_modifiers.py'
FUNCTIONS = []
r = B.R
S = lambda n, **k: B.sym(n, **k)

def region_obligations():
    """(a) the three regions of __call__/_deriv/_deriv2 with the same comparisons"""
    out = []
    x, dX, aX = S('rij'), S('dX'), S('aX')
    fs, fe, fi_ = B.undetermined('f_start'), B.undetermined('f_end'), B.undetermined('f_spline')
    where = F + ' (Custom_SplinePotential)'
    for meth, order in (('__call__', 0), ('_deriv', 1), ('_deriv2', 2)):
        env = {'rij': x, 'self.detachmentX': dX, 'self.attachmentX': aX,
               'self.startPotential': fs, 'self.endPotential': fe, 'self._interpolationFunction': fi_,
               'self._detach_point.deriv_callable': fs.deriv, 'self._attach_point.deriv_callable': fe.deriv, 'self._inter_point.deriv_callable': fi_.deriv,
               'self._detach_point.deriv2_callable': fs.deriv2, 'self._attach_point.deriv2_callable': fe.deriv2, 'self._inter_point.deriv2_callable': fi_.deriv2}
        name = 'C10/spline/__init__.py::Custom_SplinePotential.%s' % meth
        try:
            ps = B.paths(F, 'Custom_SplinePotential.' + meth, env)
        except Exception as ex:
            out.append(B.static_obligation(name + '/translate', False, meth, where, str(ex), hard=False)); continue
        def dn(f): return f if order == 0 else (f.deriv if order == 1 else f.deriv2)
        want = [([sp.Le(x, dX)], dn(fs)(x)), ([sp.Not(sp.Le(x, dX)), sp.Ge(x, aX)], dn(fe)(x)), ([sp.Not(sp.Le(x, dX)), sp.Not(sp.Ge(x, aX))], dn(fi_)(x))]
        ok = len(ps) == 3
        why = ''
        if ok:
            for (c, v, _), (wc, wv) in zip(ps, want):
                if [sp.simplify(a).canonical for a in c] != [sp.simplify(a).canonical for a in wc] or sp.simplify((v - wv).doit()) != 0:
                    ok = False; why += 'path %s -> %s, expected %s -> %s; ' % (c, v, wc, wv)
        else: why = '%d paths' % len(ps)
        out.append(B.static_obligation(name + '/start-for-r<=detach,end-for-r>=attach,else-spline', ok, meth, where, why))
    # Buck4_Spline._which_spline: quintic below r_min, cubic from r_min on; deriv/deriv2 use the same selection
    try:
        p5, p3 = B.undetermined('p5'), B.undetermined('p3')
        ps = B.paths(F, 'Buck4_Spline._which_spline', {'r': x, 'self.r_min': S('r_min'), 'self.spline5': S('SPLINE5'), 'self.spline3': S('SPLINE3')})
        ok = len(ps) == 2 and ps[0][0][0].canonical == sp.Lt(x, S('r_min')).canonical and ps[0][1] == S('SPLINE5') and ps[1][1] == S('SPLINE3')
        out.append(B.static_obligation('C10/spline/__init__.py::Buck4_Spline._which_spline/quintic-below-r_min-else-cubic', ok, '_which_spline', F, str([(c, v) for c, v, _ in ps])))
    except Exception as ex:
        out.append(B.static_obligation('C10/spline/__init__.py::Buck4_Spline._which_spline/translate', False, '_which_spline', F, str(ex), hard=False))
    sh = B.source_shape
    out.append(sh('C10', F, 'Buck4_Spline.__call__', 'same-selection', ['spline = self._which_spline(r)', 'return spline(r)']))
    out.append(sh('C10', F, 'Buck4_Spline.deriv', 'same-selection', ['return self._which_spline(r).deriv(r)']))
    out.append(sh('C10', F, 'Buck4_Spline.deriv2', 'same-selection', ['return self._which_spline(r).deriv2(r)']))
    return out

def exp_spline_obligations():
    """(b) the six rows of the linear system are the six conditions; with A.x = B (numpy.linalg.solve, A6) the spline
    exp(P) + C and its first two derivatives equal the end potentials' value, slope and curvature at detach and attach"""
    out = []
    names = ['sx', 'sy', 'sd', 'sdd', 'ex', 'ey', 'ed', 'edd']
    sx, sy, sd, sdd, ex, ey, ed, edd = [S(n) for n in names]
    env = {'self.detach_point.r': sx, 'self.detach_point.v': sy, 'self.detach_point.deriv': sd, 'self.detach_point.deriv2': sdd,
           'self.attach_point.r': ex, 'self.attach_point.v': ey, 'self.attach_point.deriv': ed, 'self.attach_point.deriv2': edd}
    where = F + ' (Exp_Spline._init_spline_coefficients)'
    base = 'C10/spline/__init__.py::Exp_Spline._init_spline_coefficients'
    try:
        ps = B.paths(F, 'Exp_Spline._init_spline_coefficients', env)
    except Exception as ex:
        return [B.static_obligation(base + '/translate', False, 'Exp_Spline', where, str(ex), hard=False)]
    xs = [S('B%d' % k) for k in range(6)]
    # the spline callable is exp_spline(B0..B5, C): its own terms (C06/C07 contracts: formula and derivatives)
    Cc = S('Cshift')
    call = B.method_term(FM.F, '_exp_spline', '__call__', [r] + xs + [Cc])
    d1 = B.method_term(FM.F, '_exp_spline', 'deriv', [r] + xs + [Cc])
    d2 = B.method_term(FM.F, '_exp_spline', 'deriv2', [r] + xs + [Cc])
    out.append(B.static_obligation(base + '/two-branches', len(ps) == 2, 'Exp_Spline', where, '%d paths' % len(ps)))
    for bi, (cond, val, e) in enumerate(ps):
        tag = 'shifted' if bi == 0 else 'unshifted'
        A, Bv, inter = e.get('A'), e.get('B'), e.get('inter')
        if not (isinstance(A, list) and len(A) == 6 and all(isinstance(row, list) and len(row) == 6 for row in A) and isinstance(Bv, list) and len(Bv) == 6):
            out.append(B.static_obligation('%s/%s/system-shape' % (base, tag), False, 'Exp_Spline', where, 'A or B is not 6x6 / 6', hard=False)); continue
        rows = [sum(a * x for a, x in zip(row, xs)) for row in A]      # (A.x)[k]
        P = lambda t: sum(x * t ** k for k, x in enumerate(xs))
        # the values the end potentials must be matched to are the ORIGINAL ones
        sy0, ey0 = sy, ey
        syp, eyp = e['sy'], e['ey']                                   # possibly shifted values used in the system
        assume_pos = {}                                               # log arguments are positive in both branches
        pts = [('detach', sx, sy0, sd, sdd, syp, 0, 2, 4), ('attach', ex, ey0, ed, edd, eyp, 1, 3, 5)]
        for nm, px, y0, y1, y2, yp, k0, k1, k2 in pts:
            # rows are P, P', P'' at the point
            out.append(_ident('%s/%s/row%d-is-P(%s)' % (base, tag, k0, nm), rows[k0], P(px), where))
            out.append(_ident('%s/%s/row%d-is-dP(%s)' % (base, tag, k1, nm), rows[k1], sp.diff(P(r), r).subs(r, px), where))
            out.append(_ident('%s/%s/row%d-is-d2P(%s)' % (base, tag, k2, nm), rows[k2], sp.diff(P(r), r, 2).subs(r, px), where))
            # with A.x = B: P(pt) = B[k0] etc.; substitute into the spline callable's own terms
            Yp = sp.Symbol('Yp_' + nm, positive=True)                # the (shifted) positive value whose log is taken
            Pv, Pd, Pdd = sp.Symbol('Pv'), sp.Symbol('Pd'), sp.Symbol('Pdd')
            val_t = sp.exp(Pv) + Cc; d1_t = Pd * sp.exp(Pv); d2_t = (Pdd + Pd ** 2) * sp.exp(Pv)
            out.append(_ident('%s/%s/exp_spline-value-in-terms-of-P(%s)' % (base, tag, nm), call.subs(r, px), val_t.subs(Pv, P(px)), where))
            out.append(_ident('%s/%s/exp_spline-deriv-in-terms-of-P(%s)' % (base, tag, nm), d1.subs(r, px), d1_t.subs({Pv: P(px), Pd: sp.diff(P(r), r).subs(r, px)}), where))
            out.append(_ident('%s/%s/exp_spline-deriv2-in-terms-of-P(%s)' % (base, tag, nm), d2.subs(r, px),
                              d2_t.subs({Pv: P(px), Pd: sp.diff(P(r), r).subs(r, px), Pdd: sp.diff(P(r), r, 2).subs(r, px)}), where))
            sub = {Pv: Bv[k0], Pd: Bv[k1], Pdd: Bv[k2], Cc: inter}
            shift = sp.simplify(yp - y0)                             # what was added to the value (0 or 1 - min)
            # replace the possibly shifted value by a positive symbol Yp = y0 + shift
            def norm(t): return sp.simplify(t.subs(sub).subs(yp, Yp) if yp.has(sp.Min) or True else t)
            # (exp(log y) = y: A3, the shifted value y is positive in this branch)
            out.append(_ident('%s/%s/value-matches-at-%s' % (base, tag, nm), sp.simplify(val_t.subs(sub)), y0, where))
            out.append(_ident('%s/%s/slope-matches-at-%s' % (base, tag, nm), sp.simplify(d1_t.subs(sub)), y1, where))
            out.append(_ident('%s/%s/curvature-matches-at-%s' % (base, tag, nm), sp.simplify(sp.expand(d2_t.subs(sub))), y2, where))
    sh = B.source_shape
    out.append(sh('C10', F, 'Exp_Spline._init_spline_coefficients', 'solves-A.x=B-and-appends-the-shift',
                  ['coefficients = [float(c) for c in np.linalg.solve(A, B)]', 'coefficients.append(inter)', 'return tuple(coefficients)', 'inter = -inter']))
    out.append(sh('C10', F, 'Exp_Spline.__init__', 'spline-is-exp_spline-of-the-coefficients', ['self._coefficients = self._init_spline_coefficients()', 'self._spline_callable = exp_spline(*self.spline_coefficients)']))
    for m, body in (('__call__', 'return self._spline_callable(r)'), ('deriv', 'return self._spline_callable.deriv(r)'), ('deriv2', 'return self._spline_callable.deriv2(r)')):
        out.append(sh('C10', F, 'Exp_Spline.' + m, 'delegates', [body]))
    return out

def buck4_obligations():
    """(c) each row of the 10x10 system dotted with (a0..a5, b0..b3) is the stated condition"""
    out = []
    rd, rm, ra = S('r_dp'), S('r_min'), S('r_ap')
    v = {k: S(k) for k in ('dv', 'dd', 'ddd', 'av', 'ad', 'add')}
    env = {'self.detach_point.r': rd, 'self.r_min': rm, 'self.attach_point.r': ra,
           'self.detach_point.v': v['dv'], 'self.detach_point.deriv': v['dd'], 'self.detach_point.deriv2': v['ddd'],
           'self.attach_point.v': v['av'], 'self.attach_point.deriv': v['ad'], 'self.attach_point.deriv2': v['add']}
    where = F + ' (Buck4_Spline._init_spline_coefficients)'
    base = 'C10/spline/__init__.py::Buck4_Spline._init_spline_coefficients'
    try:
        ps = B.paths(F, 'Buck4_Spline._init_spline_coefficients', env)
        (cond, val, e), = ps
        M, V = e['M'], e['V']
        assert len(M) == 10 and all(len(row) == 10 for row in M) and len(V) == 10
    except Exception as ex:
        return [B.static_obligation(base + '/translate', False, 'Buck4_Spline', where, str(ex), hard=False)]
    a = [S('a%d' % k) for k in range(6)]; b = [S('b%d' % k) for k in range(4)]
    x = a + b
    P5 = lambda t: sum(c * t ** k for k, c in enumerate(a)); P3 = lambda t: sum(c * t ** k for k, c in enumerate(b))
    D = lambda f, n, pt: sp.diff(f(r), r, n).subs(r, pt) if n else f(pt)
    conds = [('value-at-detach', D(P5, 0, rd), v['dv']), ('slope-at-detach', D(P5, 1, rd), v['dd']), ('curvature-at-detach', D(P5, 2, rd), v['ddd']),
             ('stationary-at-r_min', D(P5, 1, rm), 0), ('value-continuous-at-r_min', D(P5, 0, rm) - D(P3, 0, rm), 0),
             ('slope-continuous-at-r_min', D(P5, 1, rm) - D(P3, 1, rm), 0), ('curvature-continuous-at-r_min', D(P5, 2, rm) - D(P3, 2, rm), 0),
             ('value-at-attach', D(P3, 0, ra), v['av']), ('slope-at-attach', D(P3, 1, ra), v['ad']), ('curvature-at-attach', D(P3, 2, ra), v['add'])]
    for k, (nm, lhs, rhs) in enumerate(conds):
        row = sum(m * xx for m, xx in zip(M[k], x))
        out.append(_ident('%s/row%d-lhs-is-%s' % (base, k, nm), row, lhs, where))
        rv = V[k][0] if isinstance(V[k], list) else V[k]
        out.append(_ident('%s/row%d-rhs-is-%s' % (base, k, nm), rv, rhs, where))
    sh = B.source_shape
    out.append(sh('C10', F, 'Buck4_Spline._init_spline_coefficients', 'quintic-then-cubic-from-the-solution',
                  ['coefficients = np.linalg.solve(M, V)', 'coefficients = coefficients.flatten().tolist()',
                   'self._spline5 = polynomial(*coefficients[:6])', 'self._spline3 = polynomial(*coefficients[6:])']))
    return out

def construction_obligations():
    """(e) Python classes, spline() modifier and as.buck4 build the same object"""
    sh = B.source_shape
    out = [
        sh('C10', F_FORMS, 'buck4', 'bornmayer-then-dispersion-with(detach,attach,r_min)',
           ['bm = bornmayer(A, rho)', 'disp = buck(0.0, 1.0, C)', 'pot = Buck4_SplinePotential(bm, disp, r_detach, r_attach, r_min)', 'return pot']),
        sh('C10', F, 'Buck4_SplinePotential.__init__', 'points-and-r_min',
           ['detach_point = Spline_Point(startPotential, detachmentX)', 'attach_point = Spline_Point(endPotential, attachmentX)',
            'spline = Buck4_Spline(detach_point, attach_point, r_min)', 'super(Buck4_SplinePotential, self).__init__(spline)']),
        sh('C10', F, 'SplinePotential.__init__', 'points',
           ['detach_point = Spline_Point(startPotential, detachmentX)', 'attach_point = Spline_Point(endPotential, attachmentX)',
            'spline = Exp_Spline(detach_point, attach_point)', 'super(SplinePotential, self).__init__(spline)']),
        sh('C10', F, 'Spline_Point.__init__', 'derivatives-by-gradient',
           ['self._potential_function = potential_function', 'self._r = r', 'self._deriv_callable = gradient(self._potential_function)', 'self._deriv2_callable = gradient(self._deriv_callable)']),
        sh('C10', F, 'Buck4_Spline.__init__', 'stores-points', ['self._detach_point = detach_point', 'self._attach_point = attach_point', 'self._r_min = r_min']),
        sh('C10', F, 'Custom_SplinePotential.__init__', 'takes-points-from-the-spline',
           ['self._spline = self._interpolationFunction = spline', 'self._detach_point = self._spline.detach_point', 'self._attach_point = self._spline.attach_point']),
        sh('C10', F_MOD, 'spline', 'detach/attach-from-2nd/3rd-range-starts,end-potential-freed',
           ['detach_point_r = pform.next.start.start', 'attach_point_r = pform.next.next.start.start',
            "pot3 = pform.next.next._replace(start=MultiRangeDefinitionTuple('>', float('-inf')), next=None)",
            'pot1 = pform._replace(next=None)', 'detach_point = Spline_Point(pot1_func, detach_point_r)', 'attach_point = Spline_Point(pot3_func, attach_point_r)',
            'spot_obj = Custom_SplinePotential(spline)', 'return spot_obj']),
        sh('C10', F_MOD, '_Buck4_Spline_Factory.build_spline', 'r_min-is-the-spline-parameter', ['r_min = spline_defn.parameters[0]', 'spline = Buck4_Spline(detach_point, attach_point, r_min)', 'return spline']),
        sh('C10', F_MOD, '_Exp_Spline_Factory.build_spline', 'exp-spline', ['spline = Exp_Spline(detach_point, attach_point)', 'return spline']),
    ]
    # bornmayer(A, rho) == buck(A, rho, 0)
    A, rho = S('A'), S('rho', positive=True)
    out.append(B.identity_obligation('C10/potentialfunctions.py::_bornmayer/is-buck-with-C=0', B.method_term(FM.F, '_bornmayer', '__call__', [r, A, rho]),
                                     B.method_term(FM.F, '_buck', '__call__', [r, A, rho, sp.Integer(0)]), [r, A, rho], '_bornmayer', FM.F))
    return out

def _ident(name, lhs, rhs, where):
    d = sp.simplify(sp.expand(sp.sympify(lhs) - sp.sympify(rhs)))
    o = B.static_obligation(name, d == 0, name.split('::')[-1].split('/')[0], where, 'residual: %s' % str(d)[:300])
    o.kind = 'identity'; o.backend = 'sympy-exact'
    return o

def lemmas():
    return region_obligations() + exp_spline_obligations() + buck4_obligations() + construction_obligations() + \
        [o for o in C07.form_obligations('C10') if '_exp_spline' in o.name or '_polynomial' in o.name]

ENGINE_B_FUNCTIONS = [(F, q) for q in ('Custom_SplinePotential.__call__', 'Custom_SplinePotential._deriv', 'Custom_SplinePotential._deriv2', 'Buck4_Spline._which_spline',
                                       'Exp_Spline._init_spline_coefficients', 'Buck4_Spline._init_spline_coefficients', 'Exp_Spline.__init__', 'Buck4_SplinePotential.__init__',
                                       'SplinePotential.__init__', 'Spline_Point.__init__')] + [(F_FORMS, 'buck4'), (F_MOD, 'spline'), (F_MOD, '_Buck4_Spline_Factory.build_spline')]
ASSUMPTIONS = ['A6: numpy.linalg.solve(A, B) returns x with A.x = B (exact arithmetic; conditioning is outside reach)', 'A3: exp(log y) = y for y > 0; real analysis as implemented by sympy',
               'A1: float as real', 'the end potentials\' derivatives at the points are gradient() of the end potentials (C07 / C01 contracts)']
NOTES = ['the guard defects of the spline factories (NameError pot2, inverted r_min test) are C16\'s']

def oracle_payload(tier, seed, mode='search'): return dict(mode=mode, seed=seed, n=12 if tier == 'quick' else 400)
def witness_for(ob, devs, run_oracle):
    if devs: d = devs[0]; return dict(deviates=True, input=d['input'], observed=d['observed'], expected=d['expected'])
    return dict(deviates=False)

MODULE_MUTANTS = [
    (F, "0, 0   , 2      , 6*r_dp  , 12*r_dp2 , 20*r_dp3", "0, 0   , 2      , 6*r_dp  , 12*r_dp , 20*r_dp3", 'row2-lhs'),
    (F, "if rij <= self.detachmentX:\n      return self.startPotential(rij)", "if rij < self.detachmentX:\n      return self.startPotential(rij)", 'Custom_SplinePotential.__call__'),
    (F, "(sddydx/sy)-((sdydx**2)/(sy**2)),", "(sddydx/sy)-((sdydx**2)/(sy)),", 'curvature-matches-at-detach'),
    (F, "inter = -inter", "inter = inter", 'value-matches'),
    (F_FORMS, "pot = Buck4_SplinePotential(bm, disp, r_detach, r_attach, r_min)", "pot = Buck4_SplinePotential(bm, disp, r_detach, r_min, r_attach)", 'buck4'),
    (F, "if r < self.r_min:", "if r <= self.r_min:", '_which_spline'),
]

"""Sidecar contract registry.

A Contract is attached to (repo-relative file, qualname).  Formulas are Python callables that
receive a namespace `v` (attribute access -> z3 term of the variable of that name in the
current state; in-out documents give their current text), `old` (same, at function entry) and
`res` (z3 term of the return value).  They return a list of z3 Bool terms.
"""
from collections import OrderedDict

class Contract(object):
    def __init__(self, file, qualname, params=None, requires=None, ensures=None, result=None,
                 modifies=(), invariants=None, inline=False, on_raise=None, raises_when=None,
                 may_raise_app=True, ghost=None, self_cls=None, trusted=False, external=False,
                 note=None, props=(), generator=False, pure=True, loop_bounds=None, carries=(),
                 ensures_fn=None, defaults=None, post_names=None, variants=None, definitions=None, unfold_depth=1, comprehensions=None, abstract_nonlinear=False, bounded_lists=None, instantiate_int_foralls=False, names_result=None, robust_when=None, may_raise=None, raises_classes=None, abstract_globals=None, concrete_inputs=None):
        self.file, self.qualname = file, qualname
        self.params = OrderedDict(params or [])
        self.requires = requires or (lambda v: [])
        self.ensures = ensures or (lambda v, old, res: [])
        self.result = result
        self.modifies = tuple(modifies)
        self.invariants = invariants or {}
        self.inline = inline
        self.on_raise = on_raise            # lambda v, old: [...] what holds when an exception leaves
        self.raises_when = raises_when
        self.self_cls = self_cls
        self.trusted, self.external, self.note = trusted, external, note
        self.props = tuple(props)
        self.generator = generator
        self.carries = set(carries)          # names of obligations kinds that carry the property spec ('post', 'preserve/0' ...)
        self.defaults = defaults or {}
        self.post_names = post_names
        self.ghost = ghost or {}
        self.concrete_inputs = concrete_inputs or {}     # conformance self-test only: parameters bound to literal values
        self.abstract_globals = abstract_globals or {}   # module-level data tables named by the contract instead of being interpreted
        self.definitions = definitions     # lambda: [definitional axioms of opaque spec functions revealed inside this function only]
        self.unfold_depth = unfold_depth
        self.abstract_nonlinear = abstract_nonlinear
        self.instantiate_int_foralls = instantiate_int_foralls
        self.robust_bound = None
        self.raises_classes = raises_classes   # exception classes that may leave the function (verified in its own proof: every raise path has one of them)
        self.may_raise = may_raise         # lambda v: [(exception class, condition)] — exceptional exits of an assumed (external) contract
        self.robust_when = robust_when     # lambda v: [hypotheses] under which int() of a computed float must not depend on last-bit rounding
        self.names_self = None          # lambda v, old: [facts naming ghost observers of a freshly constructed object by the constructor's arguments] -- assumed at call sites only
        self.names_result = names_result   # lambda v, res: [equalities naming the result of a pure deterministic function by a spec function] — assumed at call sites only (definitional)
        self.bounded_lists = bounded_lists or {}   # loop ordinal -> {list variable: (length expression lambda v, bound)}: case split on the length
        self.comprehensions = comprehensions or {}   # ordinal -> (SpecSeq, lambda v: [params])  list comprehension over a symbolic list = that spec sequence
        self.key = (file, qualname)

class ClassDecl(object):
    """field table of a repository class: attribute name -> type descriptor"""
    def __init__(self, file, name, fields, bases=(), invariant=None, pyname=None, external=False, stateful=False, optional_attrs=(), view_of=None):
        self.file, self.name, self.fields, self.bases = file, name, dict(fields), tuple(bases)
        self.external = external
        self.view_of = view_of          # this sidecar class is a narrower view of another one (same Python objects): instances of that class may be passed where this one is declared, provided the fields of the view are present
        self.optional_attrs = set(optional_attrs)   # fields (typed T.Opt) that some instances do not HAVE: reading one raises AttributeError, getattr(o, n, None) gives None
        self.stateful = stateful        # a library object with mutable state: lives in a cell as one term (its abstract state); methods with modifies=['self'] replace it
        self.pyname = pyname or name       # several sidecar views of one Python class may exist (e.g. EAMPotential with a dict of densities)
        self.invariant = invariant      # lambda o(z3 term): [z3 Bool] — established by __init__, fields never reassigned

class Registry(object):
    def __init__(self):
        self.contracts = {}
        self.classes = {}
        self.assumptions = []
    def add(self, c):
        assert c.key not in self.contracts, c.key
        self.contracts[c.key] = c
        return c
    def add_class(self, d):
        self.classes[d.name] = d
        return d
    def get(self, file, qualname):
        return self.contracts.get((file, qualname))
    def field_type(self, cls, name):
        d = self.classes.get(cls)
        while d is not None:
            if name in d.fields: return d.fields[name]
            d = self.classes.get(d.bases[0]) if d.bases else None
        return None
    def assume(self, text):
        if text not in self.assumptions: self.assumptions.append(text)

REG = Registry()

"""C14 — --override-item / --add-item / --remove-item equal editing the file by hand."""
import ast, z3
from pyvc.core import *
from pyvc.solve import Obligation
from pyvc import symalg as B

F_CP = 'atsim/potentials/config/_config_parser.py'
F_POT = 'atsim/potentials/tools/potable/__init__.py'
F_Q = 'atsim/potentials/tools/potable/_query_actions.py'
import contracts.overrides as OVc
import contracts.rawparser as RPc
import contracts.potable_cli as CLIc
import contracts.query_actions as QAc
FUNCTIONS = [(F_CP, 'ConfigParser._init_config_parser'), (F_CP, '_RawConfigParser.has_option'), (F_POT, '_create_override_tuple'), (F_POT, '_make_config_parser'), (F_CP, 'ConfigParser.__init__'),
             (F_Q, '_list_section'), (F_Q, '_parse_raw'), (F_Q, '_list_items'), (F_Q, '_item_value'), (F_CP, 'ConfigParser.parsed_sections'), (F_CP, 'ConfigParser.raw_config_parser'),
             (F_Q, 'action_list_items'), (F_Q, 'action_list_item_labels')]
SPECSEQS = [QAc.other_sections, QAc.section_items, QAc.var_items]

def lemmas():
    out = []
    S = B.source_shape
    # the edit fold (overrides/removals first, each requiring presence; then additions, each requiring absence) is the Engine A contract of
    # ConfigParser._init_config_parser (contracts/overrides.py); what one step does to the observable content of the file (A5 model of configparser):
    import contracts.overrides as O
    S0 = z3.Const('S', O.RCP); o = z3.Const('o', O.OV); s2, k2 = z3.Strings('s2 k2')
    ax = O.model_axioms()
    sec, key, val = O.o_sec(o), O.o_key(o), O.o_val(o)
    def L(name, hyps, goal):
        ob = Obligation('C14/lemma/' + name, ax + [O.wf(S0)] + hyps, goal, kind='lemma', function='props/C14.py', carries_property=True); out.append(ob)
    other = z3.Not(z3.And(s2 == sec, k2 == O.nf(key)))
    S1 = O.ov_step(S0, o)
    L('override/sets-exactly-that-item', [O.present(S0, o), z3.Not(O.o_none(o))],
      z3.And(O.opt_has(S1, sec, O.nf(key)), O.opt_val(S1, sec, O.nf(key)) == val,
             z3.Implies(other, z3.And(O.opt_has(S1, s2, k2) == O.opt_has(S0, s2, k2), O.opt_val(S1, s2, k2) == O.opt_val(S0, s2, k2))), O.has_sec(S1, s2) == O.has_sec(S0, s2)))
    L('remove/deletes-exactly-that-item', [O.present(S0, o), O.o_none(o)],
      z3.And(z3.Not(O.opt_has(S1, sec, O.nf(key))), z3.Implies(other, O.opt_has(S1, s2, k2) == O.opt_has(S0, s2, k2)),
             z3.Implies(z3.And(other, O.opt_has(S0, s2, k2)), O.opt_val(S1, s2, k2) == O.opt_val(S0, s2, k2))))
    L('remove/drops-the-section-iff-that-was-its-last-item', [O.present(S0, o), O.o_none(o)],
      z3.And(O.has_sec(S1, sec) == (O.n_opts(S0, sec) > 1), z3.Implies(s2 != sec, O.has_sec(S1, s2) == O.has_sec(S0, s2))))
    S2 = O.add_step(S0, o)
    L('add/creates-the-item-and-if-needed-its-section', [z3.Not(O.present(S0, o)), z3.Not(O.o_none(o))],
      z3.And(O.opt_has(S2, sec, O.nf(key)), O.opt_val(S2, sec, O.nf(key)) == val, O.has_sec(S2, sec), O.wf(S2),
             z3.Implies(other, z3.And(O.opt_has(S2, s2, k2) == O.opt_has(S0, s2, k2), O.opt_val(S2, s2, k2) == O.opt_val(S0, s2, k2))),
             z3.Implies(s2 != sec, O.has_sec(S2, s2) == O.has_sec(S0, s2))))
    L('steps-keep-the-parser-well-formed', [O.present(S0, o)], O.wf(S1))
    # keys match irrespective of embedded whitespace: membership (has_option), storage and strict-duplicate test use one normal form
    out.append(S('C14', F_CP, '_RawConfigParser.optionxform', 'one-normal-form', ["option = option.strip().replace(' ', '').replace('\\t', '')"]))
    out.append(S('C14', F_CP, '_ConfigParserDict._key_transform', 'storage-normal-form', ["k = k.strip().replace(' ', '')", "k = k.replace('\\t', '')", 'return k']))
    for m in ('__setitem__', '__getitem__', '__delitem__'):
        out.append(S('C14', F_CP, '_ConfigParserDict.' + m, 'uses-the-normal-form', ['key = self._key_transform(key)']))
    out.append(S('C14', F_CP, '_RawConfigParser.options', 'length-of-a-section-counts-own-keys-only', ['return list(self._sections[section].keys())\n except KeyError:']))
    # CLI: _create_override_tuple and _make_config_parser are under Engine A contracts (contracts/potable_cli.py): each edit handed to ConfigParser is the last
    # one the command line gives for its item (a removal wins over an override), no edited item is lost, additions are kept in command line order
    # --list-items: _list_section, _parse_raw, _list_items, _item_value and ConfigParser.parsed_sections are under Engine A contracts (contracts/query_actions.py):
    # the listing is the five sections with fixed names (those present), then every other section in file order, then [Variables].  That this lists every
    # section of the file exactly once: a section is listed with the fixed names iff its name is one of them, and among the others iff it is not
    # (filter lemmas of other_sections, proved by induction in this run)
    nm = z3.String('sk_name')
    fixed = z3.Or(*[nm == z3.StringVal(x) for x in QAc.LISTED])
    out.append(Obligation('C14/lemma/list-items/a-section-is-in-exactly-one-group', [], fixed != QAc.is_other(nm), kind='lemma', function='props/C14.py', carries_property=True))
    from pyvc.exceptions import bases_of
    for cls in ('ConfigOverrideException', 'ConfigOverrideDuplicateException'):
        out.append(B.static_obligation('C14/_config_parser.py::%s/is-a-ConfigurationException' % cls, 'ConfigurationException' in bases_of(cls), cls, F_CP, str(bases_of(cls))))
    return out

MUTANTS = [
    (F_CP, 'ConfigParser._init_config_parser', "if len(cp[override.section]) == 0:", "if len(cp[override.section]) == 1:", 'preserve/0'),
    (F_CP, 'ConfigParser._init_config_parser', "if override.value is None:", "if override.value is not None:", 'preserve/0'),
    (F_CP, 'ConfigParser._init_config_parser', "if not cp.has_option(override.section, override.key):", "if False:", 'preserve/0'),
    (F_CP, 'ConfigParser._init_config_parser', "if not cp.has_section(override.section):", "if cp.has_section(override.section):", 'call-pre'),
    (F_CP, 'ConfigParser._init_config_parser', "cp[override.section][override.key] = override.value\n    return cp", "cp[override.section][override.value] = override.key\n    return cp", 'preserve/1'),
    (F_CP, 'ConfigParser._init_config_parser', "raise ConfigParserException(e.message)", "raise ValueError(e.message)", 'raises'),
    (F_POT, '_create_override_tuple', "section, key = key.rsplit(':', 1)", "key, section = key.rsplit(':', 1)", 'post'),
    (F_POT, '_create_override_tuple', "split_idx = key.index('=', key.index(':'))", "split_idx = key.index('=')", 'post'),
    (F_POT, '_create_override_tuple', "key[split_idx + 1:]", "key[split_idx:]", 'post'),
    (F_POT, '_create_override_tuple', 'if has_value:', 'if not has_value:', 'post'),
    (F_POT, '_make_config_parser', "over_tuple = _create_override_tuple(override, False)", "over_tuple = _create_override_tuple(override)", 'preserve/1'),
    (F_POT, '_make_config_parser', "k = (over_tuple.section, over_tuple.key)\n            override_dict[k] = over_tuple\n    if not remove is None:", "k = (over_tuple.section, over_tuple.section)\n            override_dict[k] = over_tuple\n    if not remove is None:", 'preserve/0'),
    (F_POT, '_make_config_parser', "additional_list.append(over_tuple)", "additional_list.insert(0, over_tuple)", 'preserve/2'),
    (F_POT, '_make_config_parser', "additional=additional_list)", "additional=[])", 'post'),
    (F_POT, '_make_config_parser', "overrides=overrides_list,", "overrides=overrides_list[:-1],", 'post'),
    (F_POT, '_make_config_parser', "if not remove is None:", "if remove is None:", 'post'),
    (F_CP, 'ConfigParser.__init__', "self._init_config_parser(fp, overrides, additional)", "self._init_config_parser(fp, additional, overrides)", 'post'),
    (F_CP, 'ConfigParser.__init__', "self._init_config_parser(fp, overrides, additional)", "self._init_config_parser(fp, overrides, [])", 'post'),
    (F_Q, '_list_section', "v = raw_cp[section][k]", "v = k", 'preserve/0'),
    (F_Q, '_list_items', "listed_sections = ['Pair', 'Potential-Form', 'Tabulation', 'EAM-Embed', 'EAM-Density']", "listed_sections = ['Pair', 'Potential-Form', 'Tabulation', 'EAM-Embed', 'EAM-Density', 'Table-Form']", 'comprehension'),
    (F_Q, '_list_items', "if 'tabulation' in parsed_sections:", "if 'table_form' in parsed_sections:", 'post'),
    (F_Q, '_list_items', "items.extend(raw_items)", "pass", 'post'),
    (F_Q, '_item_value', "key.rsplit(':', 1)", "key.split(':', 1)", 'post'),
    (F_Q, 'action_list_items', "'{}={}\\n'", "'{}:{}\\n'", 'preserve/0'),
    (F_Q, 'action_list_item_labels', "'{}\\n'.format(k)", "'{}\\n'.format(v)", 'preserve/0'),
    (F_CP, 'ConfigParser.parsed_sections', "if output_key and self._config_parser.has_section(section_key):", "if output_key:", 'post'),
]
MODULE_MUTANTS = [
    (F_CP, "    option = option.strip().replace(' ', '').replace('\\t', '')\n", "    option = option.strip()\n", 'one-normal-form'),
    (F_CP, "    for override in additional:\n      if cp.has_option(override.section, override.key):\n        raise ConfigOverrideDuplicateException(", "    for override in additional:\n      if False:\n        raise ConfigOverrideDuplicateException(", '_init_config_parser/preserve/1'),
    (F_CP, "        if len(cp[override.section]) == 0:\n          cp.remove_section(override.section)\n", "", '_init_config_parser/preserve/0'),
    (F_Q, "  for k,v in raw_cp.defaults().items():\n    items.append((\"{section}:{key}\".format(section = raw_cp.default_section, key = k), v))\n", "", '_list_items'),
]
ENGINE_B_FUNCTIONS = [(F_CP, 'ConfigParser._init_config_parser'), (F_CP, '_RawConfigParser.optionxform'), (F_CP, '_RawConfigParser.has_option'), (F_CP, '_ConfigParserDict._key_transform'),
                      (F_POT, '_make_config_parser'), (F_POT, '_create_override_tuple'), (F_Q, '_list_items'), (F_Q, '_list_section')]
ASSUMPTIONS = ['A5: configparser section proxies store through dict_type.__setitem__, remove_option/remove_section/add_section as documented',
               'the edit fold is the Engine A contract of _init_config_parser over the A5 model of the parser state (contracts/overrides.py); that handing on only the last edit per item, removals after overrides, '
               'yields the same file as applying every command line edit in order is argued in DESIGN 9.6, not proved (an induction over two folds); the oracle drives repeated and mixed edits of one item',
               'command line items are of the form SECTION:KEY[=VALUE] (precondition of _create_override_tuple; a malformed item ends in ValueError: the TODO in the source, outside the stated property)',
               'A4: itertools.chain.from_iterable, list(dict.values()), collections.OrderedDict as documented (insertion order of first assignment)']
BOUNDED = [dict(name='tabulation with overrides/additions/removals == tabulation of the hand-edited file (CLI and API), --list-items lists every item once', bound='seeded pair models, 1..3 operations with whitespace/tab variants of the keys, with and without [Variables]; quick 40 / thorough 2000', technique='concrete oracle')]

def oracle_payload(tier, seed, mode='search'): return dict(mode=mode, seed=seed, n=40 if tier == 'quick' else 2000)
def witness_for(ob, devs, run_oracle):
    if devs: d = devs[0]; return dict(deviates=True, input=d['input'], observed=d['observed'], expected=d['expected'])
    return dict(deviates=False)

"""Contracts for ConfigParser._init_config_parser (C14): the parser handed to the rest of the pipeline is the file as read, with the
overrides/removals applied in order (each requires the item to be present; a removal drops a section it empties) and then the
additions (each requires the item to be absent; a missing section is created).  The configparser object is modelled by its
abstract state (A5): observables has_sec / opt_has / opt_val / n_opts and the four editing operations as functions on states."""
import z3
from .common import *
from .ext_configparser import *
from . import duplicates as DU
from pyvc.spec import SpecAcc

F_CP = FILE = 'atsim/potentials/config/_config_parser.py'
RCP = DU.RCP; has_sec = DU.has_sec
REG.classes['RawCP'].stateful = True; REG.classes['RawCP'].pyname = '_RawConfigParser'
REG.add_class(ClassDecl('<ext>', 'TextFile', {}, external=True))
REG.add_class(ClassDecl(F_CP, 'ConfigParserOverrideTuple', {'section': T.Str, 'key': T.Str, 'value': T.Opt(T.Str)}, external=True))
OV = ObjSort('ConfigParserOverrideTuple'); OVL = z3.SeqSort(OV); TF = ObjSort('TextFile')
o_sec = field('ConfigParserOverrideTuple', 'section', StrS); o_key = field('ConfigParserOverrideTuple', 'key', StrS)
o_val = field('ConfigParserOverrideTuple', 'value', StrS); o_none = field('ConfigParserOverrideTuple', 'value?none', BoolS)

# ---- A5: abstract state of a configparser object
nf = z3.Function('optionxform', StrS, StrS)                      # the key normal form (C14/C20: blanks and tabs removed)
opt_has = z3.Function('opt_has', RCP, StrS, StrS, BoolS)         # section has its OWN option with this normal-form key
opt_val = z3.Function('opt_val', RCP, StrS, StrS, StrS)
n_opts = DU.n_opts
EMPTYCP = z3.Const('empty_parser', RCP)
parsed = z3.Function('parsed', TF, RCP)                          # state after read_file on an empty parser
set_opt = z3.Function('set_opt', RCP, StrS, StrS, StrS, RCP)     # parser[section][key] = value
rem_opt = z3.Function('rem_opt', RCP, StrS, StrS, RCP)           # remove_option(section, key)
add_sec = z3.Function('add_sec', RCP, StrS, RCP)
rem_sec = z3.Function('rem_sec', RCP, StrS, RCP)
sec_len = DU.sec_len
wf = z3.Function('wf_parser_state', RCP, BoolS)                  # states reachable from a parsed file by the editing operations used within their preconditions

def model_axioms():
    """A5: what the four editing operations do to the observables (validated against the real configparser by oracles/C14.py)"""
    S = z3.Const('S!m', RCP); s, k, v, s2, k2 = z3.Strings('s!m k!m v!m s2!m k2!m')
    ax = []
    def A(vs, body, pat): ax.append(z3.ForAll(vs, body, patterns=pat))
    # set_opt
    A([S, s, k, v, s2, k2], opt_has(set_opt(S, s, k, v), s2, k2) == z3.Or(opt_has(S, s2, k2), z3.And(s2 == s, k2 == nf(k))), [opt_has(set_opt(S, s, k, v), s2, k2)])
    A([S, s, k, v, s2, k2], opt_val(set_opt(S, s, k, v), s2, k2) == z3.If(z3.And(s2 == s, k2 == nf(k)), v, opt_val(S, s2, k2)), [opt_val(set_opt(S, s, k, v), s2, k2)])
    A([S, s, k, v, s2], has_sec(set_opt(S, s, k, v), s2) == has_sec(S, s2), [has_sec(set_opt(S, s, k, v), s2)])
    A([S, s, k, v, s2], n_opts(set_opt(S, s, k, v), s2) == n_opts(S, s2) + z3.If(z3.And(s2 == s, z3.Not(opt_has(S, s, nf(k)))), 1, 0), [n_opts(set_opt(S, s, k, v), s2)])
    # rem_opt
    A([S, s, k, s2, k2], opt_has(rem_opt(S, s, k), s2, k2) == z3.And(opt_has(S, s2, k2), z3.Not(z3.And(s2 == s, k2 == nf(k)))), [opt_has(rem_opt(S, s, k), s2, k2)])
    A([S, s, k, s2, k2], z3.Implies(z3.Not(z3.And(s2 == s, k2 == nf(k))), opt_val(rem_opt(S, s, k), s2, k2) == opt_val(S, s2, k2)), [opt_val(rem_opt(S, s, k), s2, k2)])
    A([S, s, k, s2], has_sec(rem_opt(S, s, k), s2) == has_sec(S, s2), [has_sec(rem_opt(S, s, k), s2)])
    A([S, s, k, s2], n_opts(rem_opt(S, s, k), s2) == n_opts(S, s2) - z3.If(z3.And(s2 == s, opt_has(S, s, nf(k))), 1, 0), [n_opts(rem_opt(S, s, k), s2)])
    # add_sec / rem_sec
    A([S, s, s2], has_sec(add_sec(S, s), s2) == z3.Or(has_sec(S, s2), s2 == s), [has_sec(add_sec(S, s), s2)])
    A([S, s, s2, k2], opt_has(add_sec(S, s), s2, k2) == opt_has(S, s2, k2), [opt_has(add_sec(S, s), s2, k2)])
    A([S, s, s2, k2], opt_val(add_sec(S, s), s2, k2) == opt_val(S, s2, k2), [opt_val(add_sec(S, s), s2, k2)])
    A([S, s, s2], n_opts(add_sec(S, s), s2) == n_opts(S, s2), [n_opts(add_sec(S, s), s2)])
    A([S, s, s2], has_sec(rem_sec(S, s), s2) == z3.And(has_sec(S, s2), s2 != s), [has_sec(rem_sec(S, s), s2)])
    A([S, s, s2, k2], opt_has(rem_sec(S, s), s2, k2) == z3.And(opt_has(S, s2, k2), s2 != s), [opt_has(rem_sec(S, s), s2, k2)])
    A([S, s, s2, k2], z3.Implies(s2 != s, opt_val(rem_sec(S, s), s2, k2) == opt_val(S, s2, k2)), [opt_val(rem_sec(S, s), s2, k2)])
    A([S, s, s2], z3.Implies(s2 != s, n_opts(rem_sec(S, s), s2) == n_opts(S, s2)), [n_opts(rem_sec(S, s), s2)])
    A([S, s], n_opts(rem_sec(S, s), s) == 0, [n_opts(rem_sec(S, s), s)])
    # well-formed states: options live in sections; the count is the number of own options
    f = z3.Const('f!m', TF)
    ax.append(wf(EMPTYCP)); A([f], wf(parsed(f)), [parsed(f)])
    A([S, s, k, v], z3.Implies(z3.And(wf(S), has_sec(S, s)), wf(set_opt(S, s, k, v))), [wf(set_opt(S, s, k, v))])
    A([S, s, k], z3.Implies(wf(S), wf(rem_opt(S, s, k))), [wf(rem_opt(S, s, k))])
    A([S, s], z3.Implies(wf(S), wf(add_sec(S, s))), [wf(add_sec(S, s))])
    A([S, s], z3.Implies(wf(S), wf(rem_sec(S, s))), [wf(rem_sec(S, s))])
    A([S, s, k], z3.Implies(z3.And(wf(S), opt_has(S, s, k)), z3.And(has_sec(S, s), n_opts(S, s) >= 1)), [opt_has(S, s, k)])
    A([S, s], z3.Implies(wf(S), n_opts(S, s) >= 0), [n_opts(S, s)])
    return ax

def _mod(name, params, ens, result=None, note='', may_raise=None, requires=None):
    REG.add(Contract('<ext>', 'RawCP.' + name, params=[('self', T.Obj('RawCP'))] + params, result=result, modifies=['self'], requires=requires,
                     ensures=ens, may_raise=may_raise, external=True, note=note, props=['C14']))
REG.add(Contract('<ext>', 'RawCP.__init__', params=[('self', T.Obj('RawCP'))], modifies=['self'], ensures=lambda v, old, res: [v.self == EMPTYCP], external=True,
    note='_RawConfigParser(): an empty strict parser (default section Variables, ExtendedInterpolation)', props=['C14']))
_mod('read_file', [('f', T.Obj('TextFile'))], lambda v, old, res: [v.self == parsed(v.f)],
     may_raise=lambda v: [('DuplicateOptionError', z3.Bool('file_has_duplicate_option')), ('DuplicateSectionError', z3.Bool('file_has_duplicate_section')), ('Error', z3.Bool('file_is_malformed'))],
     requires=lambda v: [v.self == EMPTYCP], note='read_file on an empty parser: the parsed content, or a configparser.Error (duplicates included)')
_mod('remove_option', [('section', T.Str), ('option', T.Str)], lambda v, old, res: [v.self == rem_opt(old.self, v.section, v.option)], result=T.Bool,
     requires=lambda v: [has_sec(v.self, v.section)], note='remove_option(section, option) (NoSectionError without the section: excluded by the precondition)')
_mod('remove_section', [('section', T.Str)], lambda v, old, res: [v.self == rem_sec(old.self, v.section)], result=T.Bool, note='remove_section(section)')
_mod('add_section', [('section', T.Str)], lambda v, old, res: [v.self == add_sec(old.self, v.section)],
     requires=lambda v: [z3.Not(has_sec(v.self, v.section))], note='add_section(section) (DuplicateSectionError when present: excluded by the precondition)')
_mod('__setitem2__', [('section', T.Str), ('key', T.Str), ('value', T.Str)], lambda v, old, res: [v.self == set_opt(old.self, v.section, v.key, v.value)],
     requires=lambda v: [has_sec(v.self, v.section)], note='parser[section][key] = value (KeyError without the section: excluded by the precondition; value must be a string)')
REG.add(Contract('<ext>', 'RawCP.has_option', params=[('self', T.Obj('RawCP')), ('section', T.Str), ('option', T.Str)], result=T.Bool,
    ensures=lambda v, old, res: [res == opt_has(v.self, v.section, nf(v.option))], external=True,
    note='has_option(section, option) of _RawConfigParser: own keys of the section, compared by normal form; False without the section -- verified for the implementing class in contracts/rawparser.py (C15)', props=['C14']))
# ---- the statement as a fold
def drop_if_empty(S, s): return z3.If(n_opts(S, s) == 0, rem_sec(S, s), S)
def ov_step(S, o): return z3.If(o_none(o), drop_if_empty(rem_opt(S, o_sec(o), o_key(o)), o_sec(o)), set_opt(S, o_sec(o), o_key(o), o_val(o)))
def add_step(S, o): return set_opt(z3.If(has_sec(S, o_sec(o)), S, add_sec(S, o_sec(o))), o_sec(o), o_key(o), o_val(o))
ov_fold = SpecAcc('ov_fold', [RCP, OVL], lambda S0, ovs: S0, lambda S0, ovs, t, prev: ov_step(prev, ovs[t]), result=RCP)
add_fold = SpecAcc('add_fold', [RCP, OVL], lambda S0, ads: S0, lambda S0, ads, t, prev: add_step(prev, ads[t]), result=RCP)
def present(S, o): return opt_has(S, o_sec(o), nf(o_key(o)))

def _inv0(v, old):
    j = z3.Int('j!o'); S0 = parsed(v.fp)
    return [wf(v.cp), v.cp == ov_fold(S0, v.overrides, v._i0), z3.ForAll([j], z3.Implies(z3.And(0 <= j, j < v._i0), present(ov_fold(S0, v.overrides, j), v.overrides[j])))]
def _inv1(v, old):
    j = z3.Int('j!a'); S1 = ov_fold(parsed(v.fp), v.overrides, z3.Length(v.overrides))
    return [wf(v.cp), v.cp == add_fold(S1, v.additional, v._i1), z3.ForAll([j], z3.Implies(z3.And(0 <= j, j < v._i1), z3.Not(present(add_fold(S1, v.additional, j), v.additional[j]))))]
def _post(v, old, res):
    S1 = ov_fold(parsed(v.fp), v.overrides, z3.Length(v.overrides)); j = z3.Int('j!p')
    return [wf(res), res == add_fold(S1, v.additional, z3.Length(v.additional)),
            z3.ForAll([j], z3.Implies(z3.And(0 <= j, j < z3.Length(v.overrides)), present(ov_fold(parsed(v.fp), v.overrides, j), v.overrides[j]))),
            z3.ForAll([j], z3.Implies(z3.And(0 <= j, j < z3.Length(v.additional)), z3.Not(present(add_fold(S1, v.additional, j), v.additional[j]))))]
def _raises(v, old, exc):
    S0 = parsed(v.fp); S1 = ov_fold(S0, v.overrides, z3.Length(v.overrides)); j = z3.Int('j!r')
    if exc.cls == 'ConfigOverrideException':
        return [z3.Exists([j], z3.And(0 <= j, j < z3.Length(v.overrides), z3.Not(present(ov_fold(S0, v.overrides, j), v.overrides[j]))))]
    if exc.cls == 'ConfigOverrideDuplicateException':
        return [z3.Exists([j], z3.And(0 <= j, j < z3.Length(v.additional), present(add_fold(S1, v.additional, j), v.additional[j])))]
    return [z3.BoolVal(exc.cls in ('ConfigParserDuplicateEntryException', 'ConfigParserException'))]

def _additions_have_values(v):
    j = z3.Int('j!v')
    return [z3.ForAll([j], z3.Implies(z3.And(0 <= j, j < z3.Length(v.additional)), z3.Not(o_none(v.additional[j]))))]

REG.add(Contract(F_CP, 'ConfigParser._init_config_parser',
    params=[('self', T.Obj('ConfigParser')), ('fp', T.Obj('TextFile')), ('overrides', T.List(T.Obj('ConfigParserOverrideTuple'))), ('additional', T.List(T.Obj('ConfigParserOverrideTuple')))],
    requires=_additions_have_values, result=T.Obj('RawCP'), ensures=_post,
    post_names=['well-formed', 'file-then-overrides-in-order-then-additions-in-order', 'every-override-found-its-item', 'every-addition-was-new'],
    invariants={0: _inv0, 1: _inv1}, raises_when=_raises, on_raise=lambda v, old: [], instantiate_int_foralls=True, definitions=model_axioms,
    raises_classes=['ConfigOverrideException', 'ConfigOverrideDuplicateException', 'ConfigParserDuplicateEntryException', 'ConfigParserException'],
    carries=['post', 'preserve/0', 'preserve/1', 'raises'], props=['C14', 'C16']))

"""Contracts for the own-keys methods of _RawConfigParser (C15): a section other than [Variables] sees exactly its own options."""
import z3
from .common import *
from pyvc.values import DictSort

F_CP = FILE = 'atsim/potentials/config/_config_parser.py'
Inner = T.Dict(T.Str, T.Str)
REG.add_class(ClassDecl(F_CP, 'RawParserImpl', {'_sections': T.Dict(T.Str, Inner), '_defaults': Inner, 'default_section': T.Str}, pyname='_RawConfigParser'))
RPI = ObjSort('RawParserImpl'); IS = Inner.sort(); StrList = z3.SeqSort(StrS)
secs_has = field('RawParserImpl', '_sections.has', z3.ArraySort(StrS, BoolS)); secs_get = field('RawParserImpl', '_sections.get', z3.ArraySort(StrS, IS))
defs_has = field('RawParserImpl', '_defaults.has', z3.ArraySort(StrS, BoolS)); dsec = field('RawParserImpl', 'default_section', StrS)
nf = z3.Function('optionxform', StrS, StrS)

def own(p, s, k): return z3.And(z3.Select(secs_has(p), s), z3.Select(IS.has(z3.Select(secs_get(p), s)), k))     # section s itself defines key k
def is_default(p, s): return z3.Or(z3.Length(s) == 0, s == dsec(p))

REG.add(Contract(F_CP, '_RawConfigParser.optionxform', params=[('self', T.Obj('RawParserImpl')), ('option', T.Str)], result=T.Str,
    ensures=lambda v, old, res: [res == nf(v.option)], trusted=True,
    note='names the key normal form (strip, remove blanks and tabs: structural contract in C14/C20); callers need only that it is a function of the key', props=['C15']))

REG.add(Contract(F_CP, '_RawConfigParser.has_option', params=[('self', T.Obj('RawParserImpl')), ('section', T.Str), ('option', T.Str)], result=T.Bool,
    ensures=lambda v, old, res: [res == z3.If(is_default(v.self, v.section), z3.Select(defs_has(v.self), nf(old.option)), own(v.self, v.section, nf(old.option)))],
    post_names=['own-keys-only-outside-the-variables-section'], raises_when=lambda v, old, exc: [z3.BoolVal(False)], carries=['post'], props=['C15', 'C14']))

def _options_post(v, old, res):
    x = z3.String('x!o'); p, s = v.self, v.section
    return [z3.ForAll([x], z3.Contains(res, z3.Unit(x)) == z3.If(s == dsec(p), z3.Select(defs_has(p), x), own(p, s, x)))]
REG.add(Contract(F_CP, '_RawConfigParser.options', params=[('self', T.Obj('RawParserImpl')), ('section', T.Str)], result=T.List(T.Str),
    ensures=_options_post, post_names=['lists-exactly-the-own-keys'],
    raises_when=lambda v, old, exc: [z3.BoolVal(exc.cls == 'NoSectionError'), z3.Not(z3.Select(secs_has(v.self), v.section)), v.section != dsec(v.self)],
    on_raise=lambda v, old: [], carries=['post', 'raises'], props=['C15']))

# ---------------------------------------------------------------- get(): the value of an option of the section ITSELF, place-holders resolved with [Variables] first (C15)
from pyvc.core import Val
REG.add_class(ClassDecl('<ext>', 'Interp', {}, external=True))           # configparser.ExtendedInterpolation
REG.classes['RawParserImpl'].fields['_interpolation'] = T.Obj('Interp')
defs_get = field('RawParserImpl', '_defaults.get', z3.ArraySort(StrS, StrS))
KW = T.Dict(T.Str, T.Val)
StrArr, StrMap = z3.ArraySort(StrS, BoolS), z3.ArraySort(StrS, StrS)
interpolated = z3.Function('interpolated', StrS, StrArr, StrMap, StrS)      # A5: ExtendedInterpolation.before_get(value, lookup): ${NAME} replaced by lookup[NAME] (${SECTION:KEY} by that option); a function of the value and the lookup map
base_get = z3.Function('configparser_get', RPI, StrS, StrS, Val)           # A5: RawConfigParser.get for the default section / a missing section
REG.add(Contract('<ext>', 'Interp.before_get', params=[('self', T.Obj('Interp')), ('parser', T.Any), ('section', T.Str), ('option', T.Str), ('value', T.Str), ('defaults', KW if False else T.Dict(T.Str, T.Str))],
    result=T.Str, ensures=lambda v, old, res: [res == interpolated(v.value, v.defaults.has, v.defaults.get)],
    may_raise=lambda v: [('InterpolationError', z3.Bool('placeholder_cannot_be_resolved'))], external=True,
    note='A5: ExtendedInterpolation.before_get(parser, section, option, value, lookup) substitutes the place-holders of value from the lookup mapping (a function of value and mapping), or raises an InterpolationError', props=['C15']))
REG.add(Contract('<ext>', 'RawParserImpl.super.get', params=[('self', T.Obj('RawParserImpl')), ('section', T.Str), ('option', T.Str), ('kwargs', KW)], result=T.Val,
    ensures=lambda v, old, res: [res == base_get(v.self, v.section, v.option)], may_raise=lambda v: [('NoSectionError', z3.Bool('base_no_section')), ('NoOptionError', z3.Bool('base_no_option')), ('InterpolationError', z3.Bool('base_interpolation_error'))],
    external=True, note='A5: configparser.RawConfigParser.get for [Variables] itself or a missing section (NoSectionError / NoOptionError as documented)', props=['C15']))

def sect(p, s): return z3.Select(secs_get(p), s)
def chain_has(p, s): 
    k = z3.String('k!ch')
    return z3.Lambda([k], z3.Or(z3.Select(defs_has(p), k), z3.Select(IS.has(sect(p, s)), k)))
def chain_get(p, s):
    k = z3.String('k!cg')
    return z3.Lambda([k], z3.If(z3.Select(defs_has(p), k), z3.Select(defs_get(p), k), z3.Select(IS.get(sect(p, s)), k)))
FALLBACK, RAW = z3.StringVal('fallback'), z3.StringVal('raw')
def val_true(x): return z3.Or(z3.And(Val.is_VI(x), Val.vi(x) != 0), z3.And(Val.is_VR(x), Val.vr(x) != 0), z3.And(Val.is_VS(x), z3.Length(Val.vs(x)) > 0))
def _get_post(v, old, res):
    p, s, k = v.self, v.section, nf(old.option); kw = v.kwargs
    own_section = z3.And(s != dsec(p), z3.Select(secs_has(p), s))
    raw = z3.And(z3.Select(kw.has, RAW), val_true(z3.Select(kw.get, RAW)))
    value = z3.Select(IS.get(sect(p, s)), k)
    return [z3.Implies(z3.Not(own_section), res == base_get(p, s, old.option)),
            # the section does not define the option: only an explicit fallback is returned -- a variable of the same name does NOT stand in
            z3.Implies(z3.And(own_section, z3.Not(own(p, s, k))), z3.And(z3.Select(kw.has, FALLBACK), res == z3.Select(kw.get, FALLBACK))),
            z3.Implies(z3.And(own_section, own(p, s, k), raw), res == Val.VS(value)),
            # place-holders: resolved against [Variables] first, then the section's own options
            z3.Implies(z3.And(own_section, own(p, s, k), z3.Not(raw)), res == Val.VS(interpolated(value, chain_has(p, s), chain_get(p, s))))]
def _get_raises(v, old, exc):
    p, s, k = v.self, v.section, nf(old.option)
    own_section = z3.And(s != dsec(p), z3.Select(secs_has(p), s))
    if exc.origin is not None and 'super' in str(exc.origin): return [z3.Not(own_section)]
    if exc.cls == 'NoOptionError': return [own_section, z3.Not(own(p, s, k)), z3.Not(z3.Select(v.kwargs.has, FALLBACK))]
    return [z3.BoolVal(exc.cls == 'ConfigParserException'), own_section, own(p, s, k)]
REG.add(Contract(F_CP, '_RawConfigParser.get', params=[('self', T.Obj('RawParserImpl')), ('section', T.Str), ('option', T.Str), ('kwargs', KW)], result=T.Val,
    ensures=_get_post, post_names=['default-or-missing-section-as-configparser', 'an-undefined-option-is-not-supplied-by-a-variable', 'raw-value-of-the-own-option', 'placeholders-from-variables-first-then-own-options'],
    raises_when=_get_raises, on_raise=lambda v, old: [], carries=['post', 'raises'], props=['C15']))

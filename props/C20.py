"""C20 — each interaction/form is defined at most once; duplicates are rejected."""
import ast, z3
from pyvc.core import *
from pyvc.solve import Obligation
from pyvc import symalg as B
from pyvc.extract import Module, get_func

F_CP = 'atsim/potentials/config/_config_parser.py'
F_REG = 'atsim/potentials/config/_potential_form_registry.py'
F_EB = 'atsim/potentials/config/_eam_potential_builder.py'
import contracts.duplicates as DU
import contracts.builders_eam as BE
import contracts.rawparser as RPc
import contracts.registry as RGc
import contracts.tableform_dups as TDc
import contracts.overrides as OVc
import contracts.potable_cli as CLIc
FUNCTIONS = [(F_CP, 'ConfigParser._pair_species_func'), (F_CP, 'ConfigParser._check_for_duplicate_pairs'), (F_EB, 'EAM_Potential_Builder_FS._density_to_potential_form_dict'),
             (F_CP, '_RawConfigParser.has_option'),
             (F_REG, 'Potential_Form_Registry._build_table_forms'), (F_REG, 'Potential_Form_Registry._build_potential_forms'),
             (F_CP, '_TableFormSection.check_for_duplicate_table_forms'), (F_CP, 'ConfigParser.__init__'),
             (F_CP, 'ConfigParser._init_config_parser')]      # an addition is accepted only if the item is not there when it is applied -- earlier additions included (contracts/overrides.py)     # additions are tested with has_option(): own keys compared by normal form

def _count_lemmas():
    import contracts.tableform_dups as TD
    out = []
    Sx = z3.Const('S', TD.StrL); n = z3.Int('n'); L = z3.String('L'); i, j = z3.Int('i'), z3.Int('j'); i0, j0 = z3.Int('sk_i'), z3.Int('sk_j'); L0 = z3.String('sk_L')
    rel = lambda k: TD.relevant(Sx[k]); lab = lambda k: TD.label(Sx[k]); cnt = lambda l, m: TD.count_of(l, Sx, m)
    def Lm(name, hyps, goal):
        o = Obligation('C20/lemma/table-form-count/' + name, [n >= 0] + hyps, goal, kind='lemma', function='props/C20.py', carries_property=True); o.unfold_depth = 2; out.append(o)
    nonneg = lambda m: z3.ForAll([L], cnt(L, m) >= 0)
    mono_some = lambda m: z3.ForAll([i], z3.Implies(z3.And(0 <= i, i < m, rel(i)), cnt(lab(i), m) >= 1))
    pairs = lambda m: z3.ForAll([i, j], z3.Implies(z3.And(0 <= i, i < j, j < m, rel(i), rel(j), lab(i) == lab(j)), cnt(lab(i), m) >= 2))
    wit1 = lambda m: z3.ForAll([L], z3.Implies(cnt(L, m) >= 1, z3.Exists([i], z3.And(0 <= i, i < m, rel(i), lab(i) == L))))
    wit2 = lambda m: z3.ForAll([L], z3.Implies(cnt(L, m) >= 2, z3.Exists([i, j], z3.And(0 <= i, i < j, j < m, rel(i), rel(j), lab(i) == L, lab(j) == L))))
    # counts are non-negative
    Lm('non-negative/base', [], cnt(L0, z3.IntVal(0)) >= 0)
    Lm('non-negative/step', [nonneg(n)], cnt(L0, n + 1) >= 0)
    # every relevant section is counted under its label
    Lm('each-section-counted/step', [nonneg(n), mono_some(n), 0 <= i0, i0 < n + 1, rel(i0)], cnt(lab(i0), n + 1) >= 1)
    # two relevant sections with one label: count >= 2  (acceptance is sound: count <= 1 for every label means there is no such pair)
    Lm('a-pair-counts-twice/step', [nonneg(n), mono_some(n), pairs(n), 0 <= i0, i0 < j0, j0 < n + 1, rel(i0), rel(j0), lab(i0) == lab(j0)], cnt(lab(i0), n + 1) >= 2)
    # count >= 1 has a witness, count >= 2 has a pair  (rejection is justified: the error is raised only when two sections share a label)
    Lm('counted-once-has-a-section/base', [], z3.Not(cnt(L0, z3.IntVal(0)) >= 1))
    Lm('counted-once-has-a-section/step', [wit1(n), cnt(L0, n + 1) >= 1], z3.Exists([i], z3.And(0 <= i, i < n + 1, rel(i), lab(i) == L0)))
    Lm('counted-twice-has-a-pair/step', [wit1(n), wit2(n), nonneg(n), cnt(L0, n + 1) >= 2], z3.Exists([i, j], z3.And(0 <= i, i < j, j < n + 1, rel(i), rel(j), lab(i) == L0, lab(j) == L0)))
    for o in out: o.instantiate_int_foralls = True
    return out

def lemmas():
    out = []
    S = B.source_shape
    # (1) A5: the strict parser rejects two keys of one section that are equal AFTER optionxform; optionxform removes all
    #     embedded blanks and tabs, so whitespace variants of A-B, A->B, f(r,A), species keys are the same key
    out.append(S('C20', F_CP, '_RawConfigParser.optionxform', 'keys-compared-without-embedded-whitespace',
                 ["option = option.strip().replace(' ', '').replace('\\t', '')", 'return option']))
    out.append(S('C20', F_CP, '_RawConfigParser.__init__', 'strict-parser-with-that-optionxform',
                 ["super(_RawConfigParser, self).__init__(dict_type=_ConfigParserDict, default_section='Variables', interpolation=configparser.ExtendedInterpolation())"],
                 forbidden=['strict=False']))
    out.append(S('C20', F_CP, 'ConfigParser._init_config_parser', 'duplicate-keys-and-sections-become-configuration-errors',
                 ['cp.read_file(fp)', 'except (configparser.DuplicateOptionError, configparser.DuplicateSectionError) as e:\n    raise ConfigParserDuplicateEntryException(e.message)']))
    # string-level core of (1): two keys that differ only by blanks have the same normal form (z3 strings, one blank inserted anywhere)
    a, b = z3.Strings('a b')
    def nf1(s): return z3.Replace(s, z3.StringVal(' '), z3.StringVal(''))        # one application removes one blank
    o = Obligation('C20/lemma/one-embedded-blank-is-removed', [z3.Not(z3.Contains(a, z3.StringVal(' '))), z3.Not(z3.Contains(b, z3.StringVal(' ')))],
                   nf1(z3.Concat(a, z3.StringVal(' '), b)) == z3.Concat(a, b), kind='lemma', function='props/C20.py', carries_property=True)
    out.append(o)
    # (2) reversed pairs
    # (2) reversed pairs: ConfigParser._check_for_duplicate_pairs and _pair_species_func are under Engine A contracts (contracts/duplicates.py):
    #     accepted only if no two keys name the same unordered pair of stripped labels; the duplicate error is raised only if two do
    # both duplicate checks run at construction: postconditions of the Engine A contract of ConfigParser.__init__ (contracts/potable_cli.py)
    x1, y1, x2, y2 = z3.Strings('x1 y1 x2 y2')
    seen_hit = z3.Or(z3.And(x2 == x1, y2 == y1), z3.And(y2 == x1, x2 == y1))       # p2 == p1 or reversed(p2) == p1
    unordered = z3.Or(z3.And(x1 == x2, y1 == y2), z3.And(x1 == y2, y1 == x2))
    out.append(Obligation('C20/lemma/either-order-test-is-unordered-equality', [], seen_hit == unordered, kind='lemma', function='props/C20.py', carries_property=True))
    # (3) table forms: names compared after strip(); (4) registry: formula / table form / standard form label clashes
    # check_for_duplicate_table_forms is under an Engine A contract (contracts/tableform_dups.py): accepted only if no label names two [Table-Form:...]
    # sections, where "names n sections" is the recursive count table_forms_named; the count says what the statement says (two lemmas, by induction on
    # the number of sections): two relevant sections with one label <=> that label's count is at least 2
    out.extend(_count_lemmas())
    out.append(S('C20', F_CP, '_TableFormSection._parse_name', 'strip', ['name = name.strip()', 'return name']))
    # label clashes: Potential_Form_Registry._build_table_forms / _build_potential_forms are under Engine A contracts (contracts/registry.py)
    out.append(S('C20', F_REG, 'Potential_Form_Registry.__init__', 'late-standard-names-reserved',
                 ['self._late_standard_names = self._standard_names_from_potentialforms() - set(self._potential_forms)']))
    out.append(S('C20', F_REG, 'Potential_Form_Registry._standard_names_from_potentialforms', 'same-enumeration-as-the-late-registration',
                 ['return set([self._make_standard_name(name) for name, _potential_form in inspect.getmembers(potentialforms, _iscallable)])']))
    out.append(S('C20', F_REG, 'Potential_Form_Registry.__init__', 'standard-then-table-then-formula',
                 ['self._potential_forms.update(self._register_standard())', 'self._potential_forms.update(self._build_table_forms(cfg.table_form))', 'self._potential_forms.update(self._build_potential_forms(definitions))']))
    # (5) Finnis-Sinclair densities
    # (5) Finnis-Sinclair densities: EAM_Potential_Builder_FS._density_to_potential_form_dict is under an Engine A contract (contracts/builders_eam.py)
    # exception classes are configuration errors
    from pyvc.exceptions import bases_of
    for cls in ('ConfigParserDuplicateEntryException', 'Potential_Form_Registry_Exception', 'ConfigOverrideDuplicateException'):
        out.append(B.static_obligation('C20/_common.py::%s/is-a-ConfigurationException' % cls, 'ConfigurationException' in bases_of(cls), cls, 'atsim/potentials/config/_common.py', str(bases_of(cls))))
    return out

MUTANTS = [
    (F_CP, 'ConfigParser.__init__', "self._check_for_duplicates()", "pass", 'post'),
    (F_CP, '_TableFormSection.check_for_duplicate_table_forms', "if len(v) > 1:", "if len(v) > 2:", 'post'),
    (F_CP, '_TableFormSection.check_for_duplicate_table_forms', "seen.setdefault(label, []).append(section_name)", "seen.setdefault(section_name, []).append(section_name)", 'preserve/0'),
    (F_CP, '_TableFormSection.check_for_duplicate_table_forms', "if cls.is_relevant_section(section_name):", "if True:", 'call-pre'),
    (F_CP, '_TableFormSection.check_for_duplicate_table_forms', "raise ConfigParserDuplicateEntryException(msg)", "pass", 'post'),
    (F_REG, 'Potential_Form_Registry._build_table_forms', "or d.name in self._late_standard_names", "", 'preserve/0'),
    (F_REG, 'Potential_Form_Registry._build_table_forms', "if d.name in self._potential_forms or d.name in table_forms", "if d.name in self._potential_forms", 'preserve/0'),
    (F_REG, 'Potential_Form_Registry._build_potential_forms', "if d.signature.label in potential_forms:", "if False:", 'preserve/0'),
    (F_CP, 'ConfigParser._check_for_duplicate_pairs', "if p in seen or rev_p in seen:", "if p in seen and rev_p in seen:", 'preserve/0'),
    (F_CP, 'ConfigParser._check_for_duplicate_pairs', "seen.add(p)", "pass", 'preserve/0'),
    (F_CP, 'ConfigParser._check_for_duplicate_pairs', "rev_p = tuple(reversed(list(p)))", "rev_p = tuple(list(p))", 'preserve/0'),
    (F_CP, 'ConfigParser._pair_species_func', "species_b = species_b.strip()", "species_b = species_b", 'post/second-label-stripped'),
    (F_CP, 'ConfigParser._pair_species_func', "if len(tokens) != 2:", "if len(tokens) < 2:", 'unpack'),
]
MODULE_MUTANTS = [
    (F_CP, "    option = option.strip().replace(' ', '').replace('\\t', '')\n", "    option = option.strip()\n", 'optionxform'),
    (F_CP, "        if (p in seen) or (rev_p in seen):", "        if (p in seen):", '_check_for_duplicate_pairs/preserve'),
    (F_REG, "      if d.signature.label in self._potential_forms:\n        raise Potential_Form_Registry_Exception(\"The label of a [Potential-Form] entry is already in use by a table form or standard potential form: '{0}'\".format(d.signature.label))\n", "", '_build_potential_forms/preserve'),
    (F_EB, "      if t_species in add_to:\n        raise ConfigurationException(\"Duplicate density function found for {}\".format(d.species))\n", "", '_density_to_potential_form_dict/preserve'),
]
ENGINE_B_FUNCTIONS = [(F_CP, '_RawConfigParser.optionxform'),
                      (F_CP, '_TableFormSection.check_for_duplicate_table_forms'), (F_REG, 'Potential_Form_Registry._build_potential_forms'),
                      (F_REG, 'Potential_Form_Registry._build_table_forms')]
ASSUMPTIONS = ['A5: configparser.RawConfigParser(strict=True) raises DuplicateOptionError / DuplicateSectionError when two keys of a section (two section names) are equal after optionxform (validated by the oracle on the real module)',
               'structural obligations: the duplicate tests are read from the normalised source of the functions; a re-written but equivalent test is reported as undecided and decided by the oracle']
BOUNDED = [dict(name='every way of duplicating an entry of a generated model is refused with a configuration error', bound='8 kinds of duplication x whitespace/order variants; quick 64 / thorough 2000 models', technique='concrete oracle')]

def oracle_payload(tier, seed, mode='search'): return dict(mode=mode, seed=seed, n=64 if tier == 'quick' else 2000)
def witness_for(ob, devs, run_oracle):
    if devs: d = devs[0]; return dict(deviates=True, input=d['input'], observed=d['observed'], expected=d['expected'])
    return dict(deviates=False)

"""Contracts for config/_filtered_config_parser.py (C13)."""
import z3
from .common import *

FILE = 'atsim/potentials/config/_filtered_config_parser.py'
REG.add_class(ClassDecl('<ext>', 'PairEntry', {'species': T.List(T.Str)}, external=True))      # PairPotentialTuple / EAMFSDensity rows: .species is a tuple of labels
REG.add_class(ClassDecl('<ext>', 'SingleEntry', {'species': T.Str}, external=True))            # EAM embed / density rows: .species is one label
REG.add_class(ClassDecl('<ext>', 'WrappedParser', {'pair': T.List(T.Obj('PairEntry')), 'eam_density_fs': T.List(T.Obj('PairEntry')),
                                                    'eam_embed': T.List(T.Obj('SingleEntry')), 'eam_density': T.List(T.Obj('SingleEntry'))}, external=True))
REG.add_class(ClassDecl(FILE, 'FilteredConfigParser', {'_self_species_list': T.List(T.Str), '_self_exclude_flag': T.Bool, '__wrapped__': T.Obj('WrappedParser')}))
FS_ = ObjSort('FilteredConfigParser'); StrList = z3.SeqSort(StrS)
slist = field('FilteredConfigParser', '_self_species_list', StrList); xflag = field('FilteredConfigParser', '_self_exclude_flag', BoolS)

def member(x, seq): return z3.Contains(seq, z3.Unit(x))

def keeps(s, tup):
    """C13 statement: exclude S keeps an entry iff it mentions no species of S; include S iff every species it mentions is in S"""
    i = z3.Int('i!k')
    inr = z3.And(0 <= i, i < z3.Length(tup))
    return z3.If(xflag(s), z3.ForAll([i], z3.Implies(inr, z3.Not(member(tup[i], slist(s))))),
                           z3.ForAll([i], z3.Implies(inr, member(tup[i], slist(s)))))

def _inv(v, old):
    j = z3.Int('j!k'); k = v._i0
    inr = z3.And(0 <= j, j < k)
    return [z3.If(xflag(v.self), z3.ForAll([j], z3.Implies(inr, z3.Not(member(v.check_tuple[j], slist(v.self))))),
                                 z3.ForAll([j], z3.Implies(inr, member(v.check_tuple[j], slist(v.self)))))]

REG.add(Contract(FILE, 'FilteredConfigParser._check_tuple',
    params=[('self', T.Obj('FilteredConfigParser')), ('check_tuple', T.List(T.Str))], result=T.Bool,
    ensures=lambda v, old, res: [res == keeps(v.self, v.check_tuple)],
    invariants={0: _inv}, instantiate_int_foralls=True, carries=['post'], props=['C13']))

# ---- the four filtered views: each is exactly the wrapped parser's list with the entries that are not kept removed, order preserved
from pyvc.spec import FilterSeq
from pyvc.values import unwrap, Opt
PE, SE, WP = ObjSort('PairEntry'), ObjSort('SingleEntry'), ObjSort('WrappedParser')
pe_species = field('PairEntry', 'species', StrList); se_species = field('SingleEntry', 'species', StrS)
wrapped = field('FilteredConfigParser', '__wrapped__', WP)
filt_pairs = FilterSeq('filt_pairs', [FS_, z3.SeqSort(PE)], lambda s, xs, k: keeps(s, pe_species(xs[k])), lambda s, xs, k: xs[k], PE)
filt_single = FilterSeq('filt_single', [FS_, z3.SeqSort(SE)], lambda s, xs, k: keeps(s, z3.Unit(se_species(xs[k]))), lambda s, xs, k: xs[k], SE)

def _view(name, spec, ety):
    src = field('WrappedParser', name, z3.SeqSort(ObjSort(ety)))
    REG.add(Contract(FILE, 'FilteredConfigParser.' + name, params=[('self', T.Obj('FilteredConfigParser'))], result=T.List(T.Obj(ety)),
        ensures=lambda v, old, res: [res == spec(v.self, src(wrapped(v.self)), z3.Length(src(wrapped(v.self))))],
        post_names=['is-the-wrapped-list-with-exactly-the-unkept-entries-removed'],
        comprehensions={0: (spec, lambda v: [v.self, src(wrapped(v.self))])}, carries=['post', 'comprehension'], props=['C13']))
for _n in ('pair', 'eam_density_fs'): _view(_n, filt_pairs, 'PairEntry')
for _n in ('eam_embed', 'eam_density'): _view(_n, filt_single, 'SingleEntry')

# ---- construction: which of the two modes a view is in (A6: ObjectProxy.__init__ stores the wrapped parser)
def _t(ns, x): return ns._ex.term_of(x, ns._st)
def _init_post(v, old, res):
    ex, inc = old.val('exclude'), old.val('include')
    exn, inn = ex.isnone, inc.isnone
    exl, inl = _t(old, ex.val), _t(old, inc.val)
    ex_nonempty = z3.And(z3.Not(exn), z3.Length(exl) > 0)
    sl, xf = v.field('self', '_self_species_list'), v.field('self', '_self_exclude_flag')
    sl_none = z3.BoolVal(False)
    if isinstance(sl, Opt): sl_none, sl = sl.isnone, _t(v, sl.val)      # an Optional argument was stored: the list must not be None
    return [z3.Implies(z3.And(z3.Not(exn), z3.Or(z3.Length(exl) > 0, inn)), z3.And(xf, sl == exl)),          # exclude given (an empty exclude list removes nothing)
            z3.Implies(z3.And(exn, inn), z3.And(xf, z3.Length(sl) == 0)),                                        # neither: nothing is filtered
            z3.Implies(z3.And(z3.Not(ex_nonempty), z3.Not(inn), z3.Or(exn, z3.Length(exl) == 0)), z3.And(z3.Not(xf), sl == inl)),   # include given
            v.field('self', '__wrapped__') == v.config_parser, z3.Not(sl_none)]
REG.add(Contract(FILE, 'FilteredConfigParser.__init__',
    params=[('self', T.New('FilteredConfigParser')), ('config_parser', T.Obj('WrappedParser')), ('exclude', T.Opt(T.List(T.Str))), ('include', T.Opt(T.List(T.Str)))],
    ensures=_init_post, post_names=['exclude-mode', 'no-filter', 'include-mode', 'wraps-the-parser', 'species-list-is-a-list'],
    raises_when=lambda v, old, exc: [z3.BoolVal(exc.cls == 'ValueError'),
                                     z3.And(z3.Not(old.val('exclude').isnone), z3.Length(_t(old, old.val('exclude').val)) > 0, z3.Not(old.val('include').isnone), z3.Length(_t(old, old.val('include').val)) > 0)],
    on_raise=lambda v, old: [z3.And(z3.Not(old.val('exclude').isnone), z3.Length(_t(old, old.val('exclude').val)) > 0, z3.Not(old.val('include').isnone), z3.Length(_t(old, old.val('include').val)) > 0)],
    raises_classes=['ValueError'], carries=['post', 'raises'], props=['C13']))

"""Obligations and their discharge: z3 (python API) first, cvc5 on `unknown`.

Result of an obligation:  'proved' (hyps /\\ not goal is unsat), 'failed' (sat, model kept),
'unknown' (both solvers gave up).  Never anything else; exceptions propagate as checker errors.
"""
import os, time, subprocess, tempfile, re
import z3
from . import spec as speclib

Z3_TIMEOUT_MS = int(os.environ.get('PYVC_Z3_TIMEOUT_MS', '30000'))
CVC5_TIMEOUT_MS = int(os.environ.get('PYVC_CVC5_TIMEOUT_MS', '30000'))


# ---------------------------------------------------------------------------------------------------------------------
# No sequences of sequences in solver queries (pyvc/unnest.py): z3 4.8.12 and 5.1.0 answer `unsat` on satisfiable inputs that mix
# quantifiers with sequences of strings (pyvc/selftest/solver/).  Every formula is translated into an isomorphic one over boxed
# elements just before it reaches a solver; PYVC_UNNEST=0 switches the translation off (used to show the wrong answers).
from . import unnest as _unnest
GUARD = os.environ.get('PYVC_UNNEST', '1') != '0'
def guarded(fs):
    fs = list(fs)
    if not GUARD: return fs
    out = _unnest.unnest(fs)
    if _unnest.has_nested(out): raise RuntimeError('a sequence of sequences survived the translation of pyvc/unnest.py')
    return out

class Obligation(object):
    def __init__(self, name, hyps, goal, kind='post', function=None, where=None, carries_property=False,
                 expect_fail=False, meta=None, unfold_depth=1):
        self.name, self.hyps, self.goal = name, list(hyps), goal
        self.kind, self.function, self.where = kind, function, where
        self.carries_property = carries_property
        self.meta = meta or {}
        self.unfold_depth = unfold_depth
        self.frame_heuristic = True
        self.abstract_nonlinear = False
        self.instantiate_int_foralls = False
        self.result = None; self.backend = None; self.solver_s = 0.0; self.model = None; self.reason = None
        self.backends_tried = []

    def formulas(self, native=False):
        fs = self._formulas()
        if self.abstract_nonlinear:
            cache = {}
            fs = [abstract_nl(f, cache) for f in fs]
        return fs if native else guarded(fs)

    def _formulas(self):
        fs = list(self.hyps) + [z3.Not(self.goal)]
        if self.instantiate_int_foralls:
            fs = fs + instantiate_int_foralls(fs)
        # an application occurring identically in the goal and in the hypotheses is framed context: keep it folded
        skip = set()
        if self.frame_heuristic:
            g = {a.get_id() for a in speclib.apps_in([self.goal])}
            h = {a.get_id() for a in speclib.apps_in(self.hyps)}
            skip = g & h
        ax = speclib.instantiate(fs, depth=self.unfold_depth, skip=skip)
        return fs + ax

    def to_smt2(self, native=False):
        """SMT-LIB text of the query; native=True: without the translation of pyvc/unnest.py (for cvc5, which does not share z3's trouble with
        sequences of strings and is much better on them than on the boxed form)"""
        s = z3.Solver()
        s.add(*self.formulas(native=native))
        return '(set-logic ALL)\n' + s.to_smt2()

    def summary(self):
        return dict(name=self.name, function=self.function, where=self.where, kind=self.kind,
                    backend=self.backend, result=self.result, solver_s=round(self.solver_s, 4))


def _int_candidates(fs, limit=14):
    out, seen, stack = {}, set(), list(fs)
    while stack:
        e = stack.pop()
        if e.get_id() in seen: continue
        seen.add(e.get_id())
        if z3.is_quantifier(e): continue          # bound variables are not candidates
        if z3.is_const(e) and e.sort() == z3.IntSort() and e.decl().kind() == z3.Z3_OP_UNINTERPRETED:
            out[e.get_id()] = e
        stack.extend(e.children())
    cands = sorted(out.values(), key=lambda c: 0 if str(c).startswith(('w_', 'sk_')) else 1)[:limit]      # (witnesses of existential hypotheses and the goal's own constants first)
    res = [z3.IntVal(0)] + cands + [c - 1 for c in cands] + [c + 1 for c in cands]
    return res

def _open_up(fs):
    """consequences that expose witnesses to the instantiation below: an existential hypothesis gets a fresh constant for its
    witness (also under an implication: the domain is non-empty), a negated existential (a goal "there is ...") becomes the
    universal statement it is.  Every formula returned follows from one of `fs` up to the choice of the fresh constants."""
    out = []
    def sk(q):
        vs = [z3.FreshConst(q.var_sort(i), 'w_' + q.var_name(i).split('!')[0]) for i in range(q.num_vars())]
        return z3.substitute_vars(q.body(), *reversed(vs))
    def neg_all(q):
        vs = [z3.FreshConst(q.var_sort(i), q.var_name(i).split('!')[0]) for i in range(q.num_vars())]
        return z3.ForAll(vs, z3.Not(z3.substitute_vars(q.body(), *reversed(vs))))
    def is_ex(e): return z3.is_quantifier(e) and e.is_exists()
    stack = list(fs); n = 0
    while stack and n < 400:
        f = stack.pop(); n += 1
        if is_ex(f): g = sk(f); out.append(g); stack.append(g)
        elif z3.is_and(f): stack.extend(f.children())
        elif z3.is_implies(f) and is_ex(f.arg(1)): out.append(z3.Implies(f.arg(0), sk(f.arg(1))))
        elif z3.is_not(f):
            a = f.arg(0)
            if is_ex(a): out.append(neg_all(a))
            elif z3.is_implies(a):
                out.append(a.arg(0)); stack.append(a.arg(0)); stack.append(z3.Not(a.arg(1)))
                if is_ex(a.arg(1)): out.append(neg_all(a.arg(1)))
            elif z3.is_or(a): stack.extend([z3.Not(c) for c in a.children()])
    return out

def instantiate_int_foralls(fs):
    """explicit instances of universally quantified hypotheses over Int variables at the integer constants of the query
    (and their neighbours): sound (instances of hypotheses), and makes the query independent of trigger selection"""
    import itertools
    opened = _open_up(fs)
    fs = list(fs) + opened
    extra = list(opened)
    # 1. single-variable hypotheses over another sort (strings, keys): at the uninterpreted constants of that sort in the query (skolem
    # constants of goals "for all x"), as plain instances
    others = {}
    for f in fs:
        if z3.is_quantifier(f): continue
        for c_ in z3.z3util.get_vars(f):
            if c_.sort() != z3.IntSort() and c_.sort().kind() in (z3.Z3_SEQ_SORT, z3.Z3_UNINTERPRETED_SORT, z3.Z3_DATATYPE_SORT) and ('sk_' in str(c_)):
                others.setdefault(str(c_.sort()), {})[str(c_)] = c_
    inst1 = []
    for f in fs:
        if not (z3.is_quantifier(f) and f.is_forall()): continue
        if f.num_vars() == 1 and f.var_sort(0) != z3.IntSort():
            for c_ in others.get(str(f.var_sort(0)), {}).values(): inst1.append(z3.substitute_vars(f.body(), c_))
    opened2 = _open_up(inst1)          # an instance may itself promise a witness ("x is a key -> it has a position")
    extra += inst1 + opened2
    # 2. hypotheses over Int variables at the integer constants of the query (witnesses included) and their neighbours
    cands = _int_candidates(fs + inst1 + opened2)
    for f in fs + opened2:
        if not (z3.is_quantifier(f) and f.is_forall()): continue
        nv = f.num_vars()
        if nv > 2 or any(f.var_sort(i) != z3.IntSort() for i in range(nv)): continue
        for combo in itertools.product(cands, repeat=nv):
            extra.append(z3.substitute_vars(f.body(), *reversed(combo)))
    return extra

_rmul = z3.Function('rmul', z3.RealSort(), z3.RealSort(), z3.RealSort())
_rdiv = z3.Function('rdivf', z3.RealSort(), z3.RealSort(), z3.RealSort())

def abstract_nl(e, cache):
    """replace products of two non-constant reals (and divisions by non-constants) by uninterpreted functions.
    Sound for proving (only facts are lost); used for loop obligations whose arithmetic content is equality of
    syntactically matching grid expressions, so that the sequence reasoning is not mixed with nlsat."""
    i = e.get_id()
    if i in cache: return cache[i]
    if z3.is_quantifier(e):
        # rebuild the body with the same bound variables
        body = abstract_nl(e.body(), cache)
        if body.get_id() == e.body().get_id(): r = e
        else:
            vs = [z3.Const(e.var_name(k), e.var_sort(k)) for k in range(e.num_vars())]
            inst = z3.substitute_vars(body, *reversed(vs))
            pats = []
            for k in range(e.num_patterns()):
                p = e.pattern(k)
                pats.append(z3.MultiPattern(*[z3.substitute_vars(abstract_nl(p.arg(j), cache), *reversed(vs)) for j in range(p.num_args())]) if p.num_args() > 1
                            else z3.substitute_vars(abstract_nl(p.arg(0), cache), *reversed(vs)))
            try: r = z3.ForAll(vs, inst, patterns=pats) if e.is_forall() else z3.Exists(vs, inst)
            except z3.Z3Exception: r = z3.ForAll(vs, inst) if e.is_forall() else z3.Exists(vs, inst)
        cache[i] = r; return r
    if not z3.is_app(e) or e.num_args() == 0:
        cache[i] = e; return e
    args = [abstract_nl(c, cache) for c in e.children()]
    k = e.decl().kind()
    if k == z3.Z3_OP_MUL and e.sort() == z3.RealSort():
        consts = [a for a in args if z3.is_rational_value(a) or z3.is_int_value(a)]
        others = [a for a in args if not (z3.is_rational_value(a) or z3.is_int_value(a))]
        if len(others) >= 2:
            others.sort(key=lambda t: t.get_id())
            r = others[0]
            for o in others[1:]: r = _rmul(r, o)
            for c in consts: r = c * r
            cache[i] = r; return r
    if k == z3.Z3_OP_DIV and e.sort() == z3.RealSort() and not z3.is_rational_value(args[1]):
        r = _rdiv(args[0], args[1]); cache[i] = r; return r
    if all(a.get_id() == c.get_id() for a, c in zip(args, e.children())): r = e
    else: r = e.decl()(*args)
    cache[i] = r
    return r

def _model_dict(m):
    out = {}
    for d in m.decls():
        try:
            if d.arity() == 0:
                out[d.name()] = str(m[d])
            else:
                out[d.name()] = str(m[d])[:400]
        except Exception:
            pass
    return out

def _is_countermodel(m, ob):
    try:
        gh = guarded([ob.goal] + list(ob.hyps))      # the model speaks about the translated formulas
        g = m.eval(gh[0], model_completion=True)
        if z3.is_true(g): return False
        for h in gh[1:]:
            if z3.is_quantifier(h): continue
            v = m.eval(h, model_completion=True)
            if z3.is_false(v): return False
        return True
    except z3.Z3Exception:
        return True

def _consts(e, acc=None, seen=None):
    acc = set() if acc is None else acc; seen = set() if seen is None else seen
    stack = [e]
    while stack:
        t = stack.pop()
        if t.get_id() in seen: continue
        seen.add(t.get_id())
        if z3.is_quantifier(t): stack.append(t.body()); continue
        if z3.is_app(t):
            if t.num_args() == 0 and t.decl().kind() == z3.Z3_OP_UNINTERPRETED: acc.add(t.decl().name())
            stack.extend(t.children())
    return acc

def focused(ob):
    """a subset of the query: every ground formula, and of the quantified ones those that speak about a constant of the goal (or about no
    constant at all: definitions).  Proving from fewer hypotheses is sound; loop bodies late in a function otherwise drag along the
    invariants of every earlier loop, which cost the matcher its budget."""
    gc = _consts(ob.goal)
    hyps = []
    for f in ob.hyps:
        if not z3.is_quantifier(f): hyps.append(f); continue
        fc = _consts(f)
        if not fc or (fc & gc): hyps.append(f)
    o2 = Obligation(ob.name, hyps, ob.goal, kind=ob.kind, function=ob.function, where=ob.where, unfold_depth=ob.unfold_depth)
    o2.abstract_nonlinear, o2.instantiate_int_foralls, o2.frame_heuristic = ob.abstract_nonlinear, ob.instantiate_int_foralls, ob.frame_heuristic
    return o2.formulas()

def run_z3_focused(ob, timeout_ms=10000):
    s = z3.Solver(); s.set('timeout', timeout_ms); s.add(*focused(ob))
    t = time.time(); r = s.check()
    return ('proved' if r == z3.unsat else 'unknown'), time.time() - t

def run_z3(ob, timeout_ms=None):
    s = z3.Solver()
    s.set('timeout', timeout_ms or Z3_TIMEOUT_MS)
    s.add(*ob.formulas())
    t = time.time()
    r = s.check()
    dt = time.time() - t
    if r == z3.unsat: return 'proved', dt, None, None
    if r == z3.sat:
        m = s.model()
        # z3's sequence solver occasionally answers sat with a model that does not falsify the goal (seen with nested
        # sequences): a sat answer only counts when its model really is a counter-model
        if not _is_countermodel(m, ob):
            return 'unknown', dt, None, 'z3 answered sat but its model does not falsify the goal (discarded)'
        return 'failed', dt, m, None
    return 'unknown', dt, None, s.reason_unknown()

_FP = re.compile(r'(?<![\w!.?|@$%^&*+=<>~/-])fp(?![\w!.?|@$%^&*+=<>~/-])')
def _portable(txt):
    """SMT-LIB text both solvers read: z3's two nth variants are the standard nth; a constant called `fp` (a parameter name of the repository)
    clashes with the floating-point constructor in cvc5's ALL logic"""
    return _FP.sub('fp_arg', txt.replace('seq.nth_u', 'seq.nth').replace('seq.nth_i', 'seq.nth'))

def run_cvc5(ob, timeout_ms=None):
    txt = _portable(ob.to_smt2(native=True))
    # z3 prints (declare-fun f () T) and seq.empty with `as`; cvc5 1.0 accepts these. Strings need --strings-exp.
    fd, path = tempfile.mkstemp(suffix='.smt2', prefix='pyvc_')
    os.write(fd, txt.encode()); os.close(fd)
    t = time.time()
    try:
        p = subprocess.run(['/usr/bin/cvc5', '--strings-exp', '--tlimit=%d' % (timeout_ms or CVC5_TIMEOUT_MS), path],
                           capture_output=True, text=True, timeout=(timeout_ms or CVC5_TIMEOUT_MS) / 1000.0 + 10)
        out = (p.stdout + p.stderr).strip()
    except subprocess.TimeoutExpired:
        out = 'timeout'
    finally:
        os.unlink(path)
    dt = time.time() - t
    first = out.split('\n')[0].strip() if out else ''
    if first == 'unsat': return 'proved', dt, None, None
    if first == 'sat': return 'failed', dt, None, 'cvc5 sat (no model extracted)'
    return 'unknown', dt, None, out[:300]

QUICK_MS = int(os.environ.get('PYVC_QUICK_MS', '1500'))

def _race(ob, z3_ms, cvc5_ms):
    """z3 (CLI) and cvc5 (CLI) on the same SMT-LIB text, concurrently; first definite answer wins"""
    txt = _portable(ob.to_smt2())
    fd, path = tempfile.mkstemp(suffix='.smt2', prefix='pyvc_'); os.write(fd, txt.encode()); os.close(fd)
    txt_n = _portable(ob.to_smt2(native=True))      # cvc5 reads the query as generated, z3 the one without sequences of sequences
    fd, path_n = tempfile.mkstemp(suffix='.smt2', prefix='pyvc_n_'); os.write(fd, txt_n.encode()); os.close(fd)
    procs = {
        'z3': subprocess.Popen(['z3-new', '-T:%d' % max(1, z3_ms // 1000), path], stdout=subprocess.PIPE, stderr=subprocess.STDOUT, text=True),
        'z3-seed1': subprocess.Popen(['z3-new', '-T:%d' % max(1, z3_ms // 1000), 'smt.random_seed=1', 'sat.random_seed=1', path], stdout=subprocess.PIPE, stderr=subprocess.STDOUT, text=True),
        'z3-seed2': subprocess.Popen(['z3-new', '-T:%d' % max(1, z3_ms // 1000), 'smt.random_seed=7', 'smt.arith.solver=2', path], stdout=subprocess.PIPE, stderr=subprocess.STDOUT, text=True),
        'z3-old': subprocess.Popen(['/usr/bin/z3', '-T:%d' % max(1, z3_ms // 1000), path], stdout=subprocess.PIPE, stderr=subprocess.STDOUT, text=True),
        'cvc5': subprocess.Popen(['/usr/bin/cvc5', '--strings-exp', '--tlimit=%d' % cvc5_ms, path_n], stdout=subprocess.PIPE, stderr=subprocess.STDOUT, text=True),
    }
    t0 = time.time(); results = {}
    deadline = t0 + max(z3_ms, cvc5_ms) / 1000.0 + 5
    try:
        while procs and time.time() < deadline:
            for name, p in list(procs.items()):
                if p.poll() is not None:
                    out = (p.stdout.read() or '').strip()
                    first = out.split('\n')[0].strip() if out else ''
                    r = 'proved' if first == 'unsat' else 'failed' if first == 'sat' else 'unknown'
                    results[name] = (r, time.time() - t0, out[:300])
                    del procs[name]
                    if r == 'proved' or (r == 'failed' and name == 'cvc5'):
                        return name, r, time.time() - t0, results
                    # a bare `sat` of the z3 CLI is only believed if cvc5 does not refute it (see _is_countermodel)
            time.sleep(0.01)
        if any(v[0] == 'failed' for k, v in results.items() if k.startswith('z3')) and results.get('cvc5', ('unknown',))[0] == 'unknown':
            return 'z3', 'failed', time.time() - t0, results      # validated afterwards by the in-process model check
        return None, 'unknown', time.time() - t0, results
    finally:
        for p in procs.values():
            try: p.kill()
            except Exception: pass
        for p_ in (path, path_n):
            try: os.unlink(p_)
            except OSError: pass

def discharge(ob, both=False):
    """in-process z3 with a short budget first (most obligations take milliseconds); then z3 and cvc5
    race on the SMT-LIB text.  both=True (thorough tier): every obligation is also put to cvc5 and the
    two answers must not contradict each other."""
    r, dt, m, why = run_z3(ob, QUICK_MS)
    ob.backends_tried.append(('z3', r, round(dt, 4)))
    ob.solver_s += dt
    ob.backend = 'z3'
    if r == 'unknown':
        who, r, dt2, results = _race(ob, Z3_TIMEOUT_MS, CVC5_TIMEOUT_MS)
        ob.solver_s += dt2
        for k, v in results.items(): ob.backends_tried.append((k + '-cli', v[0], round(v[1], 3)))
        ob.backend = who or 'z3+cvc5'
        why = '; '.join('%s: %s' % (k, v[2][:120]) for k, v in results.items()) if r == 'unknown' else None
        if r == 'unknown':
            r4, dt4 = run_z3_focused(ob); ob.solver_s += dt4; ob.backends_tried.append(('z3-focused', r4, round(dt4, 3)))
            if r4 == 'proved': r, why, ob.backend = 'proved', None, 'z3 (focused hypotheses)'
        if r == 'failed':
            r3, dt3, m, _ = run_z3(ob, Z3_TIMEOUT_MS)      # for the model
            ob.solver_s += dt3
            if (who or '').startswith('z3') and r3 != 'failed': r, why = 'unknown', 'z3 sat not confirmed by a counter-model'
    elif both:
        r2, dt2, _, why2 = run_cvc5(ob)
        ob.backends_tried.append(('cvc5', r2, round(dt2, 4)))
        ob.solver_s += dt2
        if r2 != 'unknown' and r2 != r:
            raise RuntimeError('back ends disagree on %s: z3=%s cvc5=%s' % (ob.name, r, r2))
        if r2 == r: ob.backend = 'z3+cvc5'
    ob.result, ob.model, ob.reason = r, m, why
    return ob

def discharge_all(obls, both=False, jobs=None):
    from concurrent.futures import ThreadPoolExecutor
    pending = [o for o in obls if o.result is None]
    # z3's python API is not thread safe: the in-process attempts run serially, the races in parallel
    hard = []; misses = 0
    for ob in pending:
        # (after several in-process attempts in a row that gave nothing, the rest of this function's obligations get a short first attempt:
        #  they are of the same kind -- typically one postcondition on many paths -- and go to the portfolio anyway)
        r, dt, m, why = run_z3(ob, QUICK_MS if misses < 4 else max(200, QUICK_MS // 6))
        misses = misses + 1 if r == 'unknown' else 0
        ob.backends_tried.append(('z3', r, round(dt, 4))); ob.solver_s += dt; ob.backend = 'z3'
        if r == 'unknown': hard.append(ob)
        else:
            ob.result, ob.model, ob.reason = r, m, why
    texts = {id(ob): (ob.to_smt2(), ob.to_smt2(native=True)) for ob in hard}
    def work(ob):
        class _O(object): pass
        o = _O(); o.to_smt2 = lambda native=False: texts[id(ob)][1 if native else 0]
        return _race(o, Z3_TIMEOUT_MS, CVC5_TIMEOUT_MS)
    if hard:
        with ThreadPoolExecutor(max_workers=int(os.environ.get('PYVC_RACES', '4'))) as tp:
            for ob, (who, r, dt2, results) in zip(hard, tp.map(work, hard)):
                ob.solver_s += dt2
                for k, v in results.items(): ob.backends_tried.append((k + '-cli', v[0], round(v[1], 3)))
                ob.backend = who or 'z3+cvc5'
                ob.result = r
                ob.reason = '; '.join('%s: %s' % (k, v[2][:120]) for k, v in results.items()) if r == 'unknown' else None
        for ob in hard:
            if ob.result == 'unknown':
                r4, dt4 = run_z3_focused(ob); ob.solver_s += dt4; ob.backends_tried.append(('z3-focused', r4, round(dt4, 3)))
                if r4 == 'proved': ob.result, ob.backend, ob.reason = 'proved', 'z3 (focused hypotheses)', None
        for ob in hard:
            if ob.result == 'failed':
                r3, dt3, m, _ = run_z3(ob, Z3_TIMEOUT_MS); ob.model = m; ob.solver_s += dt3
                if (ob.backend or '').startswith('z3') and r3 != 'failed':
                    ob.result, ob.reason = 'unknown', 'z3 sat not confirmed by a counter-model'
    if both:
        easy = [o for o in pending if o not in hard]
        texts2 = {id(ob): ob.to_smt2(native=True) for ob in easy}
        def work2(ob):
            class _O(object): pass
            o = _O(); o.to_smt2 = lambda native=True: texts2[id(ob)]
            return run_cvc5(o)
        with ThreadPoolExecutor(max_workers=jobs or 8) as tp:
            for ob, (r2, dt2, _, why2) in zip(easy, tp.map(work2, easy)):
                ob.backends_tried.append(('cvc5', r2, round(dt2, 4))); ob.solver_s += dt2
                if r2 != 'unknown' and r2 != ob.result:
                    raise RuntimeError('back ends disagree on %s: z3=%s cvc5=%s' % (ob.name, ob.result, r2))
                if r2 == ob.result: ob.backend = 'z3+cvc5'
    return obls

"""C08 oracle: multi-range selection on the real class and through potable definitions."""
from _expr import *
from atsim.potentials import Multi_Range_Defn, create_Multi_Range_Potential_Form
import itertools

def spec_select(ranges, r):
    """ranges: list of (marker, start, value). Canonical order: start ascending, '>=' before '>' at equal start.
    Selected = last in canonical order whose condition holds."""
    order = sorted(range(len(ranges)), key=lambda i: (ranges[i][1], 0 if ranges[i][0] == '>=' else 1))
    sel = None
    for i in order:
        m, s, _ = ranges[i]
        if r > s or (r == s and m == '>='): sel = i
    return sel

def check_case(rep, case, name):
    ranges = [tuple(x) for x in case['ranges']]
    keys = [(m, s) for m, s, _ in ranges]
    distinct = len(set(keys)) == len(keys)
    orders = [list(range(len(ranges)))] + ([case['perm']] if case.get('perm') else [])
    for order in orders:
        listed = [ranges[i] for i in order]
        try:
            if case['route'] == 'api':
                defs = []
                for m, s, v in listed:
                    f = pf.polynomial(v, 0.5 * v); defs.append(Multi_Range_Defn(m, s, f))
                mr = create_Multi_Range_Potential_Form(*defs)
            else:
                parts = []
                for idx, (m, s, v) in enumerate(listed):
                    parts.append('%s%r as.polynomial %r %r' % (m, s, v, 0.5 * v))
                defn = ' '.join(parts)
                if case.get('siblings'):
                    # the same model also declares, before and after this entry, entries that differ from it only in the MARKER of each range
                    # (all entries of a file go through one builder): what this entry denotes must not depend on them
                    flip = ' '.join('%s%r as.polynomial %r %r' % ('>' if m == '>=' else '>=', s, v, 0.5 * v) for m, s, v in listed)
                    from atsim.potentials.config import Configuration
                    ini = '[Tabulation]\ntarget : LAMMPS\nnr : 11\ncutoff : 10.0\n\n[Pair]\nA-A : %s\nA-B : %s\nB-B : %s\n' % ((flip, defn, flip) if case['siblings'] == 'before' else (defn, defn, flip))
                    tab = Configuration().read(io.StringIO(ini))
                    mr = [p_ for p_ in tab.potentials if (p_.speciesA, p_.speciesB) == ('A', 'B')][0].potentialFunction
                else: mr = from_config(defn)
        except Exception as e:
            rep.dev(name, case, 'exception %r' % (e,), 'a multi-range potential'); return
        # evaluation history: the selection at r must not depend on what the same object was asked before (ascending, descending, shuffled sweeps)
        hist = list(case['rs']) + list(reversed(case['rs']))
        sh = list(case['rs']) * 2; random.Random(len(sh) * 7919 + len(ranges)).shuffle(sh)
        for r in hist + sh:
            sel = spec_select(ranges, r)
            want = 0.0 if sel is None else ranges[sel][2] + 0.5 * ranges[sel][2] * r
            wantd = 0.0 if sel is None else 0.5 * ranges[sel][2]
            if not distinct and sel is not None:
                # identical (marker, start) pairs: any of them may be selected
                alts = [x for x in ranges if (x[0], x[1]) == (ranges[sel][0], ranges[sel][1])]
                if any(close(mr(r), a[2] + 0.5 * a[2] * r, 1e-12) for a in alts): rep.ok(); continue
            got = mr(r)
            if not close(got, want, 1e-12, 1e-13): rep.dev(name, dict(case, rs=[r], perm=order), 'value at r=%r: %r (listing order %r)' % (r, got, order), want); return
            if hasattr(mr, 'deriv') and distinct:
                gd = mr.deriv(r)
                if not close(gd, wantd, 1e-9, 1e-12): rep.dev(name, dict(case, rs=[r], perm=order), 'deriv at r=%r: %r' % (r, gd), wantd); return
            rep.ok()

def gen_case(rng):
    n = rng.randint(1, 5)
    starts = [rng.choice([0.0, 1.0, 2.0, 2.5, 3.0, round(rng.uniform(0, 5), 1)]) for _ in range(n)]
    ranges = [(rng.choice(['>', '>=']), s, float(i + 1)) for i, s in enumerate(starts)]
    perm = list(range(n)); rng.shuffle(perm)
    rs = sorted(set(starts + [s + 1e-9 for s in starts] + [s - 1e-9 for s in starts] + [s + 0.37 for s in starts] + [-1.0, 0.0, 7.0]))
    route = rng.choice(['api', 'config'])
    if route == 'config':
        # a potable definition has the range markers in the text; negative separations are not tabulated
        rs = [r for r in rs if r >= 0]
    c = dict(route=route, ranges=ranges, perm=perm, rs=rs)
    if route == 'config' and rng.random() < 0.5: c['siblings'] = rng.choice(['before', 'after'])
    return c

if __name__ == '__main__':
    pl = payload(); rep = Report('C08')
    if pl.get('mode') == 'replay': rep.case('replay', pl['input']); check_case(rep, pl['input'], 'replay')
    else:
        rng = random.Random(pl.get('seed', 0))
        # no leading marker: acts for r > 0 only
        try:
            f = from_config('as.polynomial 5.0 1.0')
            rep.case('default-start', 'as.polynomial 5.0 1.0')
            for r, want in ((0.0, 0.0), (-1.0, 0.0), (1e-9, 5.0 + 1e-9), (2.0, 7.0)):
                if not close(f(r), want, 1e-12, 1e-13): rep.dev('default-start', dict(route='config-default', r=r), 'value at %r: %r' % (r, f(r)), want)
                else: rep.ok()
        except Exception as e: rep.dev('default-start', {}, 'exception %r' % (e,), 'potential')
        for i in range(pl.get('n', 60)):
            c = gen_case(rng); rep.case(c['route'], c); check_case(rep, c, 'seeded-%d' % i)
    rep.finish()

import sympy as sp
r=sp.Symbol('r', positive=True)
a=sp.Function('a')(r); b=sp.Function('b')(r)
da, db = sp.diff(a,r), sp.diff(b,r); d2a, d2b = sp.diff(a,r,2), sp.diff(b,r,2)
p = a**b
deriv = p*(db*sp.log(a) + b*da/a)
deriv2 = (db*sp.log(a) + (b*da)/a)*deriv + (sp.log(a)*d2b + (b*d2a)/a + (da*db)/a + (db*da)/a - (b*da*da)/(a**2))*p
print("pow d1:", sp.simplify(sp.diff(p,r)-deriv), " d2:", sp.simplify(sp.expand(sp.diff(deriv,r)-deriv2)))
prod2 = d2a*b + 2*da*db + a*d2b
print("product d2:", sp.simplify(sp.diff(a*b,r,2)-prod2))

"""C20 oracle: a second definition of the same thing is a configuration error."""
from _cfg import *

def variants(key, rng):
    """other spellings of the same key"""
    if '->' in key: a, b = key.split('->'); return ['%s -> %s' % (a, b), '%s->%s ' % (a, b), ' %s-> %s' % (a, b), '%s\t->\t%s' % (a, b), '%s->\t%s' % (a, b), '%s\u00a0->\u00a0%s' % (a, b), '%s->\x0c%s' % (a, b)]      # (the last two: other white space than blank and tab)
    if '-' in key: a, b = key.split('-'); return ['%s - %s' % (a, b), '%s-%s' % (b, a), '%s - %s' % (b, a), ' %s -%s' % (a, b), '%s\t-\t%s' % (a, b), '%s\t-%s' % (b, a)]
    if '(' in key: return [key.replace(',', ', '), key.replace('(', ' ('), key.replace(',', ' ,'), key.replace(',', ',\t'), key.replace('(', '\t(')]
    return [key + ' ', ' ' + key]

def check_case(rep, case, name):
    rng = random.Random(case['seed']); what = case['what']
    sp_, head, embed, dens, pairs = eam_model(rng, fs=(what == 'fsdensity'), target='setfl_fs' if what == 'fsdensity' else 'setfl')
    while len(sp_) < 2 and what in ('pair', 'fsdensity'):
        sp_, head, embed, dens, pairs = eam_model(rng, fs=(what == 'fsdensity'), target='setfl_fs' if what == 'fsdensity' else 'setfl')
    tabl = [tuple(l.split(' : ')) for l in head if ' : ' in l]
    forms = [('f(r,A)', 'A*r'), ('g(r,B,C)', 'B+C*r')]
    pairs = pairs + [('%s-%s' % (sp_[0], sp_[0]), '>=0 f 2.0')] if False else pairs
    secs = {'Tabulation': tabl, 'EAM-Embed': list(embed), 'EAM-Density': list(dens), 'Pair': list(pairs), 'Potential-Form': list(forms)}
    tables = [('tab1', [('x', '0 1 2 3 4'), ('y', '1 2 3 4 5')])]
    dup_desc = None
    # vacuity guard: the model is accepted before its entry is duplicated (else "rejected" below would say nothing)
    try: tabulate_text(render([], [(n, e) for n, e in secs.items()] + [('Table-Form:' + n, e) for n, e in tables]))
    except Exception as e: rep.dev(name, case, 'the model without the duplicate is rejected: %s: %s' % (type(e).__name__, str(e)[:80]), 'accepted'); return
    if what in ('pair', 'embed', 'density', 'fsdensity', 'form'):
        sec = {'pair': 'Pair', 'embed': 'EAM-Embed', 'density': 'EAM-Density', 'fsdensity': 'EAM-Density', 'form': 'Potential-Form'}[what]
        k, v = rng.choice(secs[sec])
        alt = rng.choice([k] + variants(k, rng)) if case['variant'] else k
        if what == 'pair' and alt.replace(' ', '') == k.replace(' ', '') and len(set(k.split('-'))) == 1 and case['variant'] == 'reversed': pass
        secs[sec].append((alt, v)); dup_desc = '[%s] %r and %r' % (sec, k, alt)
    elif what == 'tableform':
        tables.append((rng.choice(['tab1', 'tab1 ', ' tab1']), [('x', '0 1 2 3'), ('y', '1 2 3 4')])); dup_desc = 'two [Table-Form:tab1]'
    elif what == 'table-vs-form':
        tables[0] = (rng.choice(['f', 'g']), tables[0][1]); dup_desc = 'table form and formula named %s' % tables[0][0]
    elif what == 'table-vs-builtin':
        bn = rng.choice(['as.buck', 'as.buck4', 'as.zero', 'as.polynomial', 'as.buck4']); tables[0] = (bn, tables[0][1]); dup_desc = 'table form named %s' % bn
    elif what == 'added-item':
        # an item added through ConfigParser(additional=...) / --add-item whose key is another spelling of a key of the file
        from atsim.potentials.config._config_parser import ConfigParserOverrideTuple
        sec = rng.choice(['Pair', 'EAM-Embed', 'Potential-Form'])
        k, v = rng.choice(secs[sec]); alt = rng.choice([k] + variants(k, rng)) if case['variant'] else k
        if sec == 'Pair' and alt.replace(' ', '').replace('\t', '') != k.replace(' ', ''): alt = k      # (reversed pairs are the parser's second test, after the addition)
        ini = render([], [(n, e) for n, e in secs.items()] + [('Table-Form:' + n, e) for n, e in tables])
        try:
            tabulate_text(None, ConfigParser(io.StringIO(ini), additional=[ConfigParserOverrideTuple(sec, alt, v)]))
            rep.dev(name, case, 'accepted silently: item [%s] %r added next to %r' % (sec, alt, k), 'configuration error')
        except ConfigurationException: rep.ok()
        except Exception as e: rep.dev(name, case, '%s: %s' % (type(e).__name__, str(e)[:80]), 'configuration error')
        # the same NEW item added twice (it is not in the file): the second addition defines it a second time
        nk = {'Pair': 'Zz-Zz', 'EAM-Embed': 'Zz', 'Potential-Form': 'h(r,Q)'}[sec]; nk2 = rng.choice([nk] + variants(nk, rng)) if case['variant'] else nk
        if sec == 'Pair' and nk2.replace(' ', '').replace('\t', '') != nk: nk2 = nk
        try:
            tabulate_text(None, ConfigParser(io.StringIO(ini), additional=[ConfigParserOverrideTuple(sec, nk, v), ConfigParserOverrideTuple(sec, nk2, v)]))
            rep.dev(name, dict(case, twice=True), 'accepted silently: item [%s] %r added twice (as %r and %r)' % (sec, nk, nk, nk2), 'configuration error')
        except ConfigurationException: rep.ok()
        except Exception as e: rep.dev(name, dict(case, twice=True), '%s: %s' % (type(e).__name__, str(e)[:80]), 'configuration error')
        return
    ini = render([], [(n, e) for n, e in secs.items()] + [('Table-Form:' + n, e) for n, e in tables])
    try:
        tabulate_text(ini)
        rep.dev(name, case, 'accepted silently: %s' % dup_desc, 'configuration error'); return
    except ConfigurationException: rep.ok()
    except Exception as e:
        rep.dev(name, case, '%s (%s): %s' % (type(e).__name__, dup_desc, str(e)[:80]), 'configuration error')

if __name__ == '__main__':
    pl = payload(); rep = Report('C20')
    if pl.get('mode') == 'replay': rep.case('replay', pl['input']); check_case(rep, pl['input'], 'replay')
    else:
        rng = random.Random(pl.get('seed', 0))
        kinds = ['pair', 'embed', 'density', 'fsdensity', 'form', 'tableform', 'table-vs-form', 'table-vs-builtin', 'added-item']
        for i in range(pl.get('n', 60)):
            c = dict(what=kinds[i % len(kinds)], seed=rng.randint(0, 10 ** 6), variant=rng.choice([None, 'ws', 'ws']))
            rep.case(c['what'], c); check_case(rep, c, 'seeded-%d' % i)
    rep.finish()

"""C05 — DL_POLY TABEAM: declared function count, block headers and values are faithful."""
import z3
from pyvc.core import *
from pyvc.solve import Obligation
from pyvc import tables
import contracts.common as K
import contracts.potential, contracts.lammps_table, contracts.dlpoly_table, contracts.pair_tabulation, contracts.gulp, contracts.setfl
from contracts.eam_common import *
import contracts.tabeam as TB
import contracts.eam_tabulation as ET

F = TB.FILE
FUNCTIONS = [(F, q) for q in ('_tabulateFunction', '_writeEmbeddingFunction', '_writeDensityFunction', '_writePairPotential', '_writePairPotentials',
                              '_writeTitle', '_writeTABEAM_exceptDensity', 'writeTABEAM', 'writeTABEAMFinnisSinclair')] + \
            [(ET.FILE, 'TABEAM_EAMTabulation.write'), (ET.FILE, 'TABEAM_FinnisSinclair_EAMTabulation.write'), (K.F_POT, 'Potential.__init__')]
SPECSEQS = [TB.trecs]

def _concrete_es(n):
    es = [z3.Const('e%d' % i, EAM['sort']) for i in range(n)]
    seq = z3.Unit(es[0]) if n == 1 else z3.Concat(*[z3.Unit(e) for e in es])
    return es, seq

def lemmas():
    out = []
    f = z3.Const('f', Fn); step = z3.Real('step'); n, q, i = z3.Ints('n q i')
    def L(name, hyps, goal, depth=1):
        out.append(Obligation('C05/lemma/' + name, hyps, goal, kind='lemma', function='props/C05.py', carries_property=True, unfold_depth=depth))
    # exactly n values: n/4 complete records of 4 plus a trailing record of n%4 (each value is one token; 4 tokens + 3 blanks + newline)
    def nvals(doc_len, n): return doc_len       # token count: record = 8 tokens (4 values), tail of m values = 2m tokens
    L('complete-records-hold-4-values-each', [n >= 0], z3.Length(TB.trecs(f, step, n / 4)) == 8 * (n / 4))
    L('tail-holds-n-mod-4-values', [n >= 0], z3.Length(TB.ttail(f, step, n)) == 2 * (n % 4))
    L('value-count-is-n', [n >= 0], (z3.Length(TB.tabulated(f, step, n))) / 2 == n)
    L('record-j-values', [q >= 0], TB.trec(f, step, q) == cat(*sum([[tok("%f", app(f, real(4 * q + k) * step)), TB.SP] for k in range(4)], [])[:-1] + [NL]))
    # header: n, 0.0, (n-1)*step
    L('block-header', [], TB.block_hdr("embe", [z3.StringVal("X")], n, step) == cat(tok("embe %s %d 0.0 %f", z3.StringVal("X"), n, real(n - 1) * step), NL))
    # declared count == number of blocks, for 1..4 elements with pairwise distinct labels (the statement's range).
    # The number of members of the key set {key(l_i,l_j)} is computed by unfolding the set for concrete n.
    sa, sb = z3.Strings('sa sb')
    L('pair-key-is-symmetric', [], key(sa, sb) == key(sb, sa))
    for nn in (1, 2, 3, 4):
        es, seq = _concrete_es(nn)
        labels = [EAM['species'](e) for e in es]
        distinct = [labels[a] != labels[b] for a in range(nn) for b in range(a + 1, nn)]
        S = TB.pairset(seq)
        keys = [key(labels[a], labels[b]) for a in range(nn) for b in range(a, nn)]
        k = z3.Const('kq', KeySort)
        # membership: exactly the n(n+1)/2 unordered pairs, which are pairwise distinct keys
        L('pair-key-set-n%d' % nn, distinct, z3.And(*([z3.Select(S, kk) for kk in keys] +
                                                      [keys[a] != keys[b] for a in range(len(keys)) for b in range(a + 1, len(keys))])), depth=nn * nn + nn + 2)
        # nothing but those keys: the loops store key(l_i, l_j) for every ORDERED pair; key is symmetric (lemma 'pair-key-is-symmetric',
        # proved once for two arbitrary strings and instantiated here), so only the n(n+1)/2 unordered ones occur
        sym = [key(labels[a], labels[b]) == key(labels[b], labels[a]) for a in range(nn) for b in range(a + 1, nn)]
        L('pair-key-set-n%d-nothing-else' % nn, distinct + sym + [z3.Select(S, k)], z3.Or(*[k == kk for kk in keys]), depth=nn * nn + nn + 2)
        cnt = real(nn) * (real(nn) + 5) / 2
        L('declared-count-n%d' % nn, [], cnt == len(keys) + nn + nn)
        cntfs = 3 * real(nn) * (real(nn) + 1) / 2
        L('declared-count-eeam-n%d' % nn, [], cntfs == len(keys) + nn + nn * nn)
    return out + tables.routing_obligations('C05', ['DL_POLY_EAM', 'DL_POLY_EAM_fs'])

MUTANTS = [
    (F, '_tabulateFunction', "if row:", "if len(row) == 4:", 'post'),
    (F, '_tabulateFunction', "float(i) * step", "float(i + 1) * step", 'preserve/0'),
    (F, '_writeEmbeddingFunction', "(nrho - 1) * float(drho)", "nrho * float(drho)", 'post'),
    (F, 'writeTABEAM', "numpots * (numpots + 5) / 2", "numpots * (numpots + 3) / 2", 'post'),
    (F, '_writePairPotentials', "pot = pairPotDict[k]", "pot = Potential(k[0], k[1], nullfunc)", 'preserve/3'),
    (F, 'writeTABEAMFinnisSinclair', "eamPotential.electronDensityFunction[speciesB]", "eamPotential.electronDensityFunction[speciesA]", 'preserve/1'),
    (F, '_writeDensityFunction', "if speciesA and speciesB:", "if speciesA and (not speciesB):", 'post'),
]
ASSUMPTIONS = ['A1: float as real', 'A4: sorted(set) is the strictly increasing sequence of exactly the members (its length for n distinct labels is the number of members: n(n+1)/2, by the key-set lemmas for n = 1..4)',
               'A7: DL_POLY TABEAM layout', 'labels pairwise distinct and non-empty; FS models declare a density for every ordered pair (else KeyError, see C16)']
NOT_DECIDED = ['the count lemma (the key set holds exactly the n(n+1)/2 unordered pairs) is proved for the statement\'s n = 1..4 by unfolding; not claimed for general n']
NOTES = ['the pair blocks are specified in the order the code emits them (sorted by canonical key); the statement does not fix an order, DL_POLY does not need one',
         'count lemma: proved for the statement\'s 1..4 elements by unfolding the key set; not claimed for general n',
         'title: the source slices the argument tuple instead of the string, so titles are not truncated to 100 characters (harmless)']

def oracle_payload(tier, seed, mode='search'): return dict(mode=mode, seed=seed, n=40 if tier == 'quick' else 1500)
def witness_for(ob, devs, run_oracle):
    if devs: d = devs[0]; return dict(deviates=True, input=d['input'], observed=d['observed'], expected=d['expected'])
    return dict(deviates=False)

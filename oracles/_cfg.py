"""helpers for the configuration-level oracles: model files, tabulation to text, potable CLI"""
from _common import *
from atsim.potentials.config import Configuration, ConfigParser, FilteredConfigParser, ConfigParserOverrideTuple
from atsim.potentials.config._common import ConfigurationException

def tabulate_text(ini, cp=None):
    """bytes produced for a model file (as text, or hex for xlsx)"""
    if cp is None: cp = ConfigParser(io.StringIO(ini))
    tab = Configuration().read_from_parser(cp)
    out = io.StringIO(); tab.write(out)
    return out.getvalue()

def potable(args, ini, want_out=True):
    d = tempfile.mkdtemp()
    try:
        cfg = os.path.join(d, 'model.ini'); open(cfg, 'w').write(ini)
        out = os.path.join(d, 'out.tab')
        code, so, se = potable_main([cfg] + ([out] if want_out else []) + list(args))
        text = open(out, 'rb').read().decode('latin-1') if os.path.exists(out) else None
        return code, so, se, text
    finally:
        import shutil; shutil.rmtree(d)

SPECIES = ['Al', 'Cu', 'Fe', 'O', 'U', 'Gd']

def pair_model(rng, n_species=None, target='LAMMPS'):
    sp_ = rng.sample(SPECIES, n_species or rng.randint(1, 3))
    pairs = [(a, b) for i, a in enumerate(sp_) for b in sp_[i:]]
    rng.shuffle(pairs)
    lines = ['[Tabulation]', 'target : %s' % target, 'nr : %d' % (12 if target != 'DLPOLY' else 12), 'cutoff : 5.5', '']
    entries = []
    for a, b in pairs:
        if rng.random() < 0.5: a, b = b, a
        entries.append(('%s-%s' % (a, b), 'as.polynomial %r %r' % (round(rng.uniform(-3, 3), 2), round(rng.uniform(-1, 1), 2))))
    return sp_, lines, entries

def eam_model(rng, fs=False, target=None):
    sp_ = rng.sample(SPECIES, rng.randint(1, 3))
    target = target or ('setfl_fs' if fs else 'setfl')
    head = ['[Tabulation]', 'target : %s' % target, 'nr : 6', 'cutoff : 5.0', 'nrho : 5', 'cutoff_rho : 10.0', '']
    embed = [('%s' % s, '>=0 as.polynomial %r %r' % (round(rng.uniform(-3, 3), 2), round(rng.uniform(-1, 1), 2))) for s in sp_]
    if fs: dens = [('%s->%s' % (a, b), '>=0 as.polynomial %r %r' % (round(rng.uniform(0.1, 3), 2), round(rng.uniform(-1, 1), 2))) for a in sp_ for b in sp_]
    else: dens = [('%s' % s, '>=0 as.polynomial %r %r' % (round(rng.uniform(0.1, 3), 2), round(rng.uniform(-1, 1), 2))) for s in sp_]
    pairs = [('%s-%s' % (a, b), '>=0 as.polynomial %r' % round(rng.uniform(-3, 3), 2)) for i, a in enumerate(sp_) for b in sp_[i:]]
    if len(sp_) > 1 and rng.random() < 0.4:
        # a species that has embedding/density entries but takes part in no declared pair interaction
        lonely = sp_[-1]; pairs = [p for p in pairs if lonely not in p[0].split('-')]
    return sp_, head, embed, dens, pairs

def render(head, sections):
    L = list(head)
    for name, entries in sections:
        L.append('[%s]' % name)
        for k, v in entries: L.append('%s : %s' % (k, v))
        L.append('')
    return '\n'.join(L) + '\n'

"""Contracts for the sum / product / pow modifiers of atsim/potentials/_modifiers.py (C09): the callable obtained is the left fold of
the corresponding combinator of atsim.potentials over the callables denoted by the argument definitions, in the order written."""
import z3
from .common import *
from . import builders as BU
from . import config_errors as CE      # the two spline factories and the spline constructors
from pyvc.spec import SpecSeq
from pyvc.symexec import reduce_fn

F_MOD = FILE = 'atsim/potentials/_modifiers.py'
F_API = 'atsim/potentials/__init__.py'
PFIL = z3.SeqSort(BU.PFI); FnL = z3.SeqSort(Fn)
PLUS, PRODUCT, POW = comb_const(F_API, 'plus'), comb_const(F_API, 'product'), comb_const(F_API, 'pow')
# the callables denoted by the argument definitions (C09's denotation, established by the form builder)
dens = SpecSeq('denoted_callables', [BU.PFB, PFIL], lambda b, pfs, k: z3.Unit(BU.DEN(b, pfs[k])), result=FnL, elem_len=1)

def folded(c, b, pfs): return reduce_fn(c, dens(b, pfs, z3.Length(pfs)), z3.Length(pfs) - 1)

REG.add(Contract(F_MOD, '_modifier_from_func_reduce',
    params=[('logger_name', T.Str), ('func', T.Comb), ('potential_forms', T.List(T.Obj('PFInstance'))), ('potential_form_builder', T.Obj('Potential_Form_Builder'))],
    result=T.Fn, ensures=lambda v, old, res: [z3.Length(v.potential_forms) >= 1, res == folded(v.func, v.potential_form_builder, v.potential_forms)],
    post_names=['at-least-one-argument', 'left-fold-of-the-combinator-over-the-denoted-callables-in-order'],
    invariants={0: lambda v, old: [v.pot_callables == dens(v.potential_form_builder, v.potential_forms, v._i0)]}, ghost={'pot_callables': T.Fn},
    raises_when=lambda v, old, exc: [z3.Or(z3.BoolVal(exc.cls in ('UnknownModifierException', 'UnknownPotentialFormException', 'ConfigurationException')),
                                           z3.And(z3.BoolVal(exc.cls == 'TypeError'), z3.Length(v.potential_forms) == 0))],
    on_raise=lambda v, old: [], carries=['post', 'preserve/0'], props=['C09']))

def _mod(name, comb):
    REG.add(Contract(F_MOD, name, params=[('potential_forms', T.List(T.Obj('PFInstance'))), ('potential_form_builder', T.Obj('Potential_Form_Builder'))], result=T.Fn,
        ensures=lambda v, old, res: [res == folded(comb, v.potential_form_builder, v.potential_forms)],
        post_names=['is-the-fold-of-atsim.potentials.%s' % name], on_raise=lambda v, old: [], carries=['post'], props=['C09']))
_mod('sum', PLUS); _mod('product', PRODUCT); _mod('pow', POW)

# ---- trans(f, as.constant X): argument validation with exact error conditions, result f(r + X)
# PFInstance stands for both tuple types of a definition chain: a PotentialFormInstanceTuple HAS potential_form / parameters,
# a PotentialModifierTuple does not (it has modifier / potential_forms)
_pfi = REG.classes['PFInstance']        # (fields declared in contracts/builders.py)
pf_label = field('PFInstance', 'potential_form', StrS); pf_is_modifier = field('PFInstance', 'potential_form?none', BoolS)
pf_params = field('PFInstance', 'parameters', z3.SeqSort(RealS)); pf_params_none = field('PFInstance', 'parameters?none', BoolS)

def _trans_ok(v):
    pfs = v.potential_forms; s2 = pfs[1]
    return z3.And(z3.Length(pfs) == 2, z3.Not(pf_is_modifier(s2)), pf_label(s2) == z3.StringVal('as.constant'), z3.Length(pf_params(s2)) == 1)
def _trans_post(v, old, res):
    r = z3.Real('r!t'); pfs = v.potential_forms
    return [_trans_ok(v), z3.ForAll([r], app(res, r) == app(BU.DEN(v.potential_form_builder, pfs[0]), r + pf_params(pfs[1])[0]))]
REG.add(Contract(F_MOD, 'trans', params=[('potential_forms', T.List(T.Obj('PFInstance'))), ('potential_form_builder', T.Obj('Potential_Form_Builder'))], result=T.Fn,
    requires=lambda v: [z3.ForAll([z3.Const('p!w', BU.PFI)], pf_is_modifier(z3.Const('p!w', BU.PFI)) == pf_params_none(z3.Const('p!w', BU.PFI)))],   # one tuple type or the other
    ensures=_trans_post, post_names=['returns-only-for-(f, as.constant X)', 'is-f(r+X)'],
    raises_when=lambda v, old, exc: [z3.BoolVal(exc.cls in ('ConfigurationException', 'UnknownModifierException', 'UnknownPotentialFormException')),
                                     z3.Implies(z3.BoolVal(exc.origin is None), z3.Not(_trans_ok(v)))],
    on_raise=lambda v, old: [], carries=['post', 'raises'], props=['C09', 'C16']))

# ---- spline(A >d SPLINE >a B): exactly which definitions are refused, always as configuration errors (C16); construction chain (C10)
pf_start = lambda p: field('RangeStart', 'start', RealS)(field('PFInstance', 'start', ObjSort('RangeStart'))(p))
pf_nostart = field('PFInstance', 'start?none', BoolS)
pf_next = field('PFInstance', 'next', BU.PFI); pf_last = field('PFInstance', 'next?none', BoolS)
EXP, B4 = z3.StringVal('exp_spline'), z3.StringVal('buck4_spline')

def _spline_ok(v):
    pfs = v.potential_forms; p1 = pfs[0]; p2 = pf_next(p1); p3 = pf_next(p2)
    d, a = pf_start(p2), pf_start(p3)
    ps = pf_params(p2)
    return z3.And(z3.Length(pfs) == 1, z3.Not(pf_last(p1)), z3.Not(pf_is_modifier(p2)), z3.Or(pf_label(p2) == EXP, pf_label(p2) == B4),
                  z3.Not(pf_last(p2)), pf_last(p3), pf_start(p1) < d, d < a,
                  z3.Implies(pf_label(p2) == EXP, z3.Length(ps) == 0),
                  z3.Implies(pf_label(p2) == B4, z3.And(z3.Length(ps) == 1, d < ps[0], ps[0] < a)))
_wf = lambda: [z3.ForAll([z3.Const('p!w', BU.PFI)], pf_is_modifier(z3.Const('p!w', BU.PFI)) == pf_params_none(z3.Const('p!w', BU.PFI)))]
REG.add(Contract(F_MOD, 'spline', params=[('potential_forms', T.List(T.Obj('PFInstance'))), ('potential_form_builder', T.Obj('Potential_Form_Builder'))],
    requires=lambda v: [pf_is_modifier(p_) == pf_params_none(p_) for p_ in (v.potential_forms[0], pf_next(v.potential_forms[0]), pf_next(pf_next(v.potential_forms[0])))] +   # each part is one tuple type or the other
                       [z3.Not(pf_nostart(p_)) for p_ in (v.potential_forms[0], pf_next(v.potential_forms[0]), pf_next(pf_next(v.potential_forms[0])))],          # and carries a range start (the parser supplies '>0' where none is written)
    ensures=lambda v, old, res: [_spline_ok(v)], post_names=['returns-only-for-a-well-formed-three-part-definition'],
    raises_when=lambda v, old, exc: [z3.BoolVal(exc.cls in ('ConfigurationException', 'UnknownModifierException', 'UnknownPotentialFormException')),
                                     z3.Implies(z3.BoolVal(exc.origin is None), z3.Not(_spline_ok(v)))],
    on_raise=lambda v, old: [], carries=['post', 'raises'], props=['C16', 'C10']))

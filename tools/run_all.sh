#!/bin/bash
# usage: run_all.sh [quick|thorough] [jobs]  — runs every claimed check on /repo as it stands (refuses a modified tree) and rewrites evidence/
tier=${1:-quick}; jobs=${2:-3}
cd /verif
if [ -n "$(git -C /repo status --short)" ]; then echo "refusing: /repo has uncommitted changes (a seeded change applied?)"; exit 9; fi
unset VERIF_EVIDENCE_DIR
mkdir -p .scratch/runall
ls props | grep -E '^C[0-9]+\.py$' | sed 's/\.py//' | xargs -P $jobs -I{} sh -c "python3-vt bin/check {} --tier $tier > .scratch/runall/{}.log 2>&1; echo \"{} exit=\$? \$(tail -1 .scratch/runall/{}.log | cut -c1-200)\""
grep -l "^VIOLATION\|^CHECKER-ERROR\|^UNDECIDED" .scratch/runall/*.log

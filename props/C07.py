"""C07 — offered first/second derivatives are the true derivatives of the energy."""
import ast, z3
import sympy as sp
from pyvc import symalg as B
from pyvc.core import Unsupported
from pyvc.solve import Obligation
from pyvc.extract import Module, get_func
import contracts.forms as FM
import contracts.common as K
import contracts.potential

REGULAR_AT_ORIGIN = ['_bornmayer', '_constant', '_zero', '_morse', '_exp_spline']      # finite value and derivatives at r = 0 (from the documented formulas)
F_INIT = 'atsim/potentials/__init__.py'
F_MOD = 'atsim/potentials/_modifiers.py'
FUNCTIONS = [(K.F_POT, 'Potential.__init__'), (contracts.potential.F_UTIL, 'gradient'), (contracts.potential.F_UTIL, 'deriv'), (contracts.potential.F_UTIL, 'num_deriv')]
r = B.R

def form_obligations(prop='C07'):
    out = []
    m = Module.get(FM.F)
    for cls, (params, _spec) in sorted(FM.FORMS.items()):
        where = '%s (class %s)' % (FM.F, cls)
        try:
            e = B.method_term(FM.F, cls, '__call__', [r] + params)
            d = B.method_term(FM.F, cls, 'deriv', [r] + params)
            d2 = B.method_term(FM.F, cls, 'deriv2', [r] + params)
        except Exception as ex:
            o = B.static_obligation('%s/potentialfunctions.py::%s/translate' % (prop, cls), False, cls, where, 'cannot translate: %s' % ex); o.result = 'unknown'; out.append(o); continue
        out.append(B.identity_obligation('%s/potentialfunctions.py::%s.deriv/is-d/dr-of-__call__' % (prop, cls), d, sp.diff(e, r), [r] + params, cls + '.deriv', where, FM.DOMAIN))
        out.append(B.identity_obligation('%s/potentialfunctions.py::%s.deriv2/is-d/dr-of-deriv' % (prop, cls), d2, sp.diff(d, r), [r] + params, cls + '.deriv2', where, FM.DOMAIN))
    # forms that are regular at the origin must be evaluable there (value and offered derivatives): no division by r,
    # no negative power of r in any evaluated sub-expression
    for cls in REGULAR_AT_ORIGIN:
        params = FM.FORMS[cls][0]
        for meth in ('__call__', 'deriv', 'deriv2'):
            try: bad = B.definedness_at_origin(FM.F, cls, meth, params)
            except Exception as ex: bad = ['cannot translate: %s' % ex]
            out.append(B.static_obligation('%s/potentialfunctions.py::%s.%s/defined-at-r=0' % (prop, cls, meth), not bad, cls + '.' + meth,
                                           '%s (class %s)' % (FM.F, cls), 'raises at r = 0: ' + '; '.join(bad)))
    # polynomial of any order: element i of deriv^k is the k-th derivative of element i of the energy; the dropped leading
    # elements are exactly those whose derivative vanishes identically
    where = '%s (class _polynomial)' % FM.F
    try:
        e0, k0, i, c = B.polynomial_term(FM.F, '_polynomial', '__call__')
        out.append(B.identity_obligation('%s/potentialfunctions.py::_polynomial.__call__/term-i' % prop, e0, c * r ** i, [r, i, c], '_polynomial.__call__', where))
        out.append(B.static_obligation('%s/potentialfunctions.py::_polynomial.__call__/no-term-dropped' % prop, k0 == 0, '_polynomial.__call__', where, 'slice [%d:]' % k0))
        prev = e0
        for meth, order in (('deriv', 1), ('deriv2', 2)):
            ek, kk, i, c = B.polynomial_term(FM.F, '_polynomial', meth)
            out.append(B.identity_obligation('%s/potentialfunctions.py::_polynomial.%s/term-i' % (prop, meth), ek, sp.diff(e0, r, order), [r, i, c], '_polynomial.' + meth, where))
            # dropped terms j < kk: their k-th derivative must be identically zero; kept term order: none may be dropped beyond that
            ok = all(sp.simplify(sp.diff(c * r ** j, r, order)) == 0 for j in range(kk)) and kk <= order
            out.append(B.static_obligation('%s/potentialfunctions.py::_polynomial.%s/dropped-terms-vanish' % (prop, meth), ok, '_polynomial.' + meth, where, 'slice [%d:] for derivative order %d' % (kk, order)))
            # every element that IS evaluated must be defined at r = 0 (a polynomial is regular there): r**(i-k) with i-k < 0 raises
            cf = B.polynomial_term.computed_from
            bad = [j for j in range(cf, order) if True]
            out.append(B.static_obligation('%s/potentialfunctions.py::_polynomial.%s/defined-at-r=0' % (prop, meth), not bad, '_polynomial.' + meth, where,
                                           'elements i = %s are evaluated as r**(i-%d) with a negative exponent: ZeroDivisionError at r = 0' % (bad, order)))
        sa = get_func(FM.F, '_polynomial._split_args')
        ok = ast.unparse(sa.body[-1]) == 'return (args[0], args[1:])'
        out.append(B.static_obligation('%s/potentialfunctions.py::_polynomial._split_args/r-then-coefficients' % prop, ok, '_polynomial._split_args', where, ast.unparse(sa.body[-1])))
    except Exception as ex:
        o = B.static_obligation('%s/potentialfunctions.py::_polynomial/shape' % prop, False, '_polynomial', where, 'unsupported shape: %s' % ex); o.result = 'unknown'; out.append(o)
    return out

def combinator_obligations(prop='C07'):
    out = []
    for comb in ('plus', 'product', 'pow'):
        where = '%s::%s' % (F_INIT, comb); fn = '__init__.py::' + comb
        try:
            ca = B.ClosureAnalysis(F_INIT, comb, {'a': B.undetermined('a'), 'b': B.undetermined('b')})
            e, d, d2 = ca.term('potential'), ca.term('deriv'), ca.term('deriv2')
        except Exception as ex:
            o = B.static_obligation('%s/%s/translate' % (prop, fn), False, comb, where, str(ex)); o.result = 'unknown'; out.append(o); continue
        fa, fb = sp.Function('a'), sp.Function('b')
        spec = {'plus': fa(r) + fb(r), 'product': fa(r) * fb(r), 'pow': fa(r) ** fb(r)}[comb]
        syms = [r]
        out.append(_ident('%s/%s.potential/is-%s' % (prop, fn, comb), e, spec, comb, where))
        out.append(_ident('%s/%s.deriv/is-d/dr-of-potential' % (prop, fn), d, sp.diff(e, r), comb, where))
        out.append(_ident('%s/%s.deriv2/is-d/dr-of-deriv' % (prop, fn), d2, sp.diff(d, r), comb, where))
        # dispatch: operand derivatives come from gradient() of that operand only; .deriv offered iff some operand offers it
        exp_b = {'deriv_a': ('gradient', 'a'), 'deriv_b': ('gradient', 'b'), 'deriv2_a': ('gradient', 'deriv_a'), 'deriv2_b': ('gradient', 'deriv_b')}
        out.append(B.static_obligation('%s/%s/operand-derivatives-by-gradient-of-that-operand' % (prop, fn), ca.bindings == exp_b, comb, where, str(ca.bindings)))
        att = ca.attached
        ok = att.get('deriv', (None,) * 3)[:2] == ('potential', 'deriv') and att.get('deriv2', (None,) * 3)[:2] == ('potential', 'deriv2') and \
             att['deriv'][2] == "hasattr(a, 'deriv') or hasattr(b, 'deriv')" and \
             att['deriv2'][2].endswith("hasattr(deriv_a, 'deriv') or hasattr(deriv_b, 'deriv')") and ca.returns == 'potential'
        out.append(B.static_obligation('%s/%s/offers-deriv-iff-an-operand-does' % (prop, fn), ok, comb, where, str(att)))
    # trans(f, X): f(r + X) and its derivatives
    where = '%s::trans' % F_MOD
    try:
        X = B.sym('X')
        ca = B.ClosureAnalysis(F_MOD, 'trans', {'potential_func': B.undetermined('f')})
        ca.env['trans_value'] = X
        e, d, d2 = ca.term('transformed'), ca.term('deriv'), ca.term('deriv2')
        f = sp.Function('f')
        out.append(_ident('%s/_modifiers.py::trans.transformed/is-f(r+X)' % prop, e, f(r + X), 'trans', where))
        out.append(_ident('%s/_modifiers.py::trans.deriv/is-d/dr' % prop, d, sp.diff(e, r), 'trans', where))
        out.append(_ident('%s/_modifiers.py::trans.deriv2/is-d/dr-of-deriv' % prop, d2, sp.diff(d, r), 'trans', where))
        att = ca.attached
        ok = att.get('deriv', (0, 0, 0))[2] == "hasattr(potential_func, 'deriv')" and att.get('deriv2', (0, 0, 0))[2] == "hasattr(potential_func, 'deriv2')" and ca.returns == 'transformed'
        out.append(B.static_obligation('%s/_modifiers.py::trans/offers-derivs-iff-argument-does' % prop, ok, 'trans', where, str(att)))
        tv = dict(getattr(ca, 'other_assign', [])).get('trans_value')
        out.append(B.static_obligation('%s/_modifiers.py::trans/shift-is-the-constant-parameter' % prop, tv == 'second_form.parameters[0]', 'trans', where, str(tv)))
    except Exception as ex:
        o = B.static_obligation('%s/_modifiers.py::trans/translate' % prop, False, 'trans', where, str(ex)); o.result = 'unknown'; out.append(o)
    return out

def _ident(name, lhs, rhs, function, where):
    d = sp.simplify(sp.expand((lhs - rhs).doit()))
    if d != 0 and d.has(sp.Piecewise):
        # a formula by cases: each case is compared under its own condition (an equality condition is substituted into the case)
        def _case_zero(e, c):
            for q in ([c] if isinstance(c, sp.Eq) else [a_ for a_ in getattr(c, 'args', ()) if isinstance(a_, sp.Eq)] if isinstance(c, sp.And) else []):
                e = e.subs(q.lhs, q.rhs)
            return sp.simplify(sp.expand(e)) == 0
        pw = sp.piecewise_fold(d)
        if isinstance(pw, sp.Piecewise) and all(_case_zero(e, c) for e, c in pw.args): d = sp.Integer(0)
    ok = (d == 0)
    o = B.static_obligation(name, ok, function, where, 'residual: %s' % str(d)[:300])
    o.kind = 'identity'; o.backend = 'sympy-exact (undetermined operands)'
    if not ok: o.meta = dict(residual=str(d))
    return o

F_SPL = 'atsim/potentials/spline/__init__.py'
def spline_obligations(prop='C07'):
    """splined potentials: value, deriv and deriv2 take the same region of the same three callables (shared with C10), and the exponential
    spline's offered derivatives are the derivatives of the callable that gives its value"""
    import props.C10 as C10
    out = []
    for o in C10.region_obligations():
        o.name = prop + o.name[3:]; out.append(o)
    g = B.undetermined('g'); x = B.sym('r')
    env = {'r': x, 'self._spline_callable': g, 'self._spline_callable.deriv': g.deriv, 'self._spline_callable.deriv2': g.deriv2}
    try:
        e = B.paths(F_SPL, 'Exp_Spline.__call__', env)
        for meth, n in (('deriv', 1), ('deriv2', 2)):
            ps = B.paths(F_SPL, 'Exp_Spline.' + meth, env)
            ok = len(e) == 1 and len(ps) == 1 and not e[0][0] and not ps[0][0]
            want = sp.diff(e[0][1], x, n) if ok else None
            # g.deriv / g.deriv2 are the first / second derivative of g (the exp_spline form: C07's own identities for _exp_spline)
            res = sp.simplify((ps[0][1] - want).doit().subs({g.deriv(x): sp.diff(g(x), x), g.deriv2(x): sp.diff(g(x), x, 2)}).doit()) if ok else None
            o = B.static_obligation('%s/spline/__init__.py::Exp_Spline.%s/is-derivative-%d-of-__call__' % (prop, meth, n), bool(ok and res == 0), 'Exp_Spline.' + meth, F_SPL, 'residual: %s' % str(res)[:200])
            o.kind = 'identity'; o.backend = 'sympy-exact (undetermined spline callable)'; out.append(o)
    except Exception as ex:
        o = B.static_obligation('%s/spline/__init__.py::Exp_Spline/translate' % prop, False, 'Exp_Spline', F_SPL, str(ex)); o.result = 'unknown'; out.append(o)
    return out

def float_range_obligations(prop='C07'):
    """A1 (float as real) is checked where it bit (zbl.deriv, DESIGN 9.9): over the statement's range of separations (out to 30 A) and the
    parameter box of the forms, no math.exp in deriv/deriv2 is given an argument larger than 700 (exp(700) is a float) or, beyond that, than the largest one the ENERGY
    of the same form needs -- so an offered derivative does not overflow where the energy is representable. Bounds by interval arithmetic on the arguments as
    written in the source. A bound that exceeds is not a proof of overflow: undecided, and the oracle (r = 12, 21, 29.5 A) looks for the witness."""
    out = []
    box = dict(FM.DOMAIN); box['r'] = (0.05, 30.0)
    for cls, (params, _spec) in sorted(FM.FORMS.items()):
        sup = {}
        for meth in ('__call__', 'deriv', 'deriv2'):
            del B._LAST_EXP_ARGS[:]
            try: B.method_term(FM.F, cls, meth, [r] + params)
            except Exception: sup[meth] = 'untranslated'; continue
            bs = [B.interval_sup(a, box) for a in list(B._LAST_EXP_ARGS)]
            sup[meth] = None if not bs else ('unbounded' if any(b is None for b in bs) else max(bs))
        if not any(isinstance(sup.get(m), (float, str)) for m in ('deriv', 'deriv2')): continue      # no exponential in the derivatives
        e0 = sup.get('__call__')
        for meth in ('deriv', 'deriv2'):
            v = sup.get(meth)
            if v is None: continue
            name = '%s/potentialfunctions.py::%s.%s/exp-arguments-within-those-of-the-energy' % (prop, cls, meth)
            if isinstance(v, str) or isinstance(e0, str):
                o = B.static_obligation(name, False, cls + '.' + meth, FM.F, 'exp argument %s' % (v if isinstance(v, str) else e0)); o.result = 'unknown'
            else:
                bound = max(700.0, e0 if e0 is not None else 0.0)       # exp(700) is a float; beyond that only what the energy itself needs
                ok = v <= bound + 1e-9 * max(1.0, abs(bound))
                o = B.static_obligation(name, ok, cls + '.' + meth, FM.F, 'sup of an exp argument over the range box: %.6g, allowed %.6g (float range, or what the energy needs)' % (v, bound))
                if not ok: o.result = 'unknown'       # an interval bound that exceeds does not show an overflow: the oracle decides
            o.kind = 'float-range'; o.backend = 'interval arithmetic (mpmath.iv) on the exp arguments as written'
            out.append(o)
    return out

def lemmas():
    out = form_obligations() + combinator_obligations() + spline_obligations() + float_range_obligations()
    # closure: exact(a) and exact(b) => exact(combinator(a, b)): by the three identities above with deriv_a = a', deriv2_a = a''
    # (gradient contract: analytic derivative when offered, verified by Engine A below); any nesting depth by induction.
    return out

MUTANTS = [
    (contracts.potential.F_UTIL, 'deriv', "return func.deriv(r)", "return func.deriv2(r)", 'post'),
    (contracts.potential.F_UTIL, 'num_deriv', "dU = func(r2) - func(r1)", "dU = func(r2) - func(r)", 'post'),
]
ASSUMPTIONS = ['A2: decimal literals in the source (pre-multiplied constants of coul, tang_toennies, zbl) agree with the exact derivative to 1e-9 relative per coefficient',
               'A3: real analysis as implemented by sympy 1.14 (diff, expand, powsimp): product/chain rule, exp/log laws, x^a x^b = x^(a+b) for x > 0',
               'operands of combinators are exact (induction hypothesis); operands without .deriv are differentiated numerically by gradient(): for those the offered derivative is the symmetric difference quotient, whose accuracy is not decidable by contracts']
NOT_DECIDED = ['accuracy of numerical fallbacks (h = 1e-6)', 'multi-range, spline and table-form derivative delegation: see C08, C10, C18 (their checks carry those obligations)']

def oracle_payload(tier, seed, mode='search'): return dict(mode=mode, seed=seed, n=30 if tier == 'quick' else 600)
def witness_for(ob, devs, run_oracle):
    if devs: d = devs[0]; return dict(deviates=True, input=d['input'], observed=d['observed'], expected=d['expected'])
    return dict(deviates=False)

ENGINE_B_FUNCTIONS = [(FM.F, '%s.%s' % (c, m)) for c in sorted(FM.FORMS) + ['_polynomial'] for m in ('__call__', 'deriv', 'deriv2')]
ENGINE_B_FUNCTIONS += [(F_INIT, 'plus'), (F_INIT, 'product'), (F_INIT, 'pow'), (F_MOD, 'trans')]

MODULE_MUTANTS = [
    (F_INIT, "2.0*deriv_a(r)*deriv_b(r)", "1.0*deriv_a(r)*deriv_b(r)", 'product.deriv2'),
    (FM.F, "42.0*C/r**8", "30.0*C/r**8", '_buck.deriv2'),
    (F_MOD, "return potential_func.deriv(r+trans_value)", "return potential_func.deriv(r)", 'trans.deriv'),
    (FM.F, "v = [float(i) * r**float(i-1) * c for (i,c) in list(enumerate(coefs))[1:]]", "v = [float(i) * r**float(i-1) * c for (i,c) in list(enumerate(coefs))[2:]]", '_polynomial.deriv'),
    (FM.F, "v = [float(i) * r**float(i-1) * c for (i,c) in list(enumerate(coefs))[1:]]", "v = [float(i) * r**float(i-1) * c for (i,c) in enumerate(coefs)][1:]", 'defined-at-r=0'),
    (FM.F, "    return A * math.exp(-r/rho)\n\n  def deriv(self, r, A, rho):", "    return buck(r, A,rho,0.0)\n\n  def deriv(self, r, A, rho):", '_bornmayer.__call__/defined-at-r=0'),
    (FM.F, "0.0080015380063920005238*C_10", "0.0080015380163920005238*C_10", '_tang_toennies.deriv'),
    (F_INIT, "deriv_b = gradient(b)\n    def deriv(r):\n      return deriv_a(r) + deriv_b(r)", "deriv_b = gradient(a)\n    def deriv(r):\n      return deriv_a(r) + deriv_b(r)", 'plus'),
]

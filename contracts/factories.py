"""Contracts for config/_tabulation_factories.py: defaults and argument order (C11, C01-C05)."""
import z3
from .common import *

FILE = 'atsim/potentials/config/_tabulation_factories.py'
# [Tabulation] as seen by the factories: the parsed values (properties of _TabulationSection, abstracted as fields)
REG.add_class(ClassDecl('atsim/potentials/config/_config_parser.py', '_TabulationSection',
                        {'cutoff': T.Opt(T.Real), 'nr': T.Opt(T.Int), 'cutoff_rho': T.Opt(T.Real), 'nrho': T.Opt(T.Int), 'target': T.Opt(T.Str)}))
REG.add_class(ClassDecl('atsim/potentials/config/_config_parser.py', 'ConfigParser', {'tabulation': T.Obj('_TabulationSection')}))
REG.add_class(ClassDecl(FILE, 'PairTabulationFactory', {'tabulation_target': T.Str}))
for cls in ('EAMTabulationFactory', 'DLPOLY_PairTabulationFactory'):
    REG.add_class(ClassDecl(FILE, cls, {}, bases=['PairTabulationFactory']))

TS = ObjSort('_TabulationSection')
def opt(name, sort):
    return (lambda s: field('_TabulationSection', name + '?none', BoolS)(s)), (lambda s: field('_TabulationSection', name, sort)(s))
cut_none, cut_val = opt('cutoff', RealS); nr_none, nr_val = opt('nr', IntS)
crho_none, crho_val = opt('cutoff_rho', RealS); nrho_none, nrho_val = opt('nrho', IntS)
tab = field('ConfigParser', 'tabulation', TS)

def _pair_post(v, old, res):
    t = tab(v.cp)
    return [res[0] == z3.If(cut_none(t), z3.RealVal('10.0'), cut_val(t)), res[1] == z3.If(nr_none(t), z3.IntVal(1001), nr_val(t))]

REG.add(Contract(FILE, 'PairTabulationFactory.extract_cutoffs',
    params=[('self', T.Obj('PairTabulationFactory')), ('cp', T.Obj('ConfigParser'))], result=T.NamedTuple('RCutoffTuple', [('cutoff', T.Real), ('nr', T.Int)]),
    ensures=_pair_post, post_names=['cutoff-default-10.0', 'nr-default-1001'], carries=['post'], props=['C11', 'C01']))

def _nr_eff(v): return z3.If(nr_none(tab(v.cp)), z3.IntVal(1001), nr_val(tab(v.cp)))
def _dl_post(v, old, res):
    return _pair_post(v, old, res) + [res[1] % 4 == 0, res[1] >= 8]
REG.add(Contract(FILE, 'DLPOLY_PairTabulationFactory.extract_cutoffs',
    params=[('self', T.Obj('DLPOLY_PairTabulationFactory')), ('cp', T.Obj('ConfigParser'))], result=T.NamedTuple('RCutoffTuple', [('cutoff', T.Real), ('nr', T.Int)]),
    ensures=_dl_post, post_names=['cutoff-default-10.0', 'nr-default-1001', 'only-multiples-of-4-return', 'at-least-8-rows (the step is cutoff/(nr-4))'],
    raises_when=lambda v, old, exc: [z3.BoolVal(exc.cls == 'ConfigurationException'), z3.Or(_nr_eff(v) % 4 != 0, _nr_eff(v) < 8)],
    carries=['post', 'raises'], props=['C02', 'C11', 'C16']))

REG.add_class(ClassDecl(FILE, 'LAMMPS_PairTabulationFactory', {}, bases=('PairTabulationFactory',)))
REG.add(Contract(FILE, 'LAMMPS_PairTabulationFactory.extract_cutoffs',
    params=[('self', T.Obj('LAMMPS_PairTabulationFactory')), ('cp', T.Obj('ConfigParser'))], result=T.NamedTuple('RCutoffTuple', [('cutoff', T.Real), ('nr', T.Int)]),
    ensures=lambda v, old, res: _pair_post(v, old, res) + [res[1] >= 3], post_names=['cutoff-default-10.0', 'nr-default-1001', 'at-least-3-rows (r = 0 is not written, the step is cutoff/(nr-1))'],
    raises_when=lambda v, old, exc: [z3.BoolVal(exc.cls == 'ConfigurationException'), _nr_eff(v) < 3],
    carries=['post', 'raises'], props=['C01', 'C11', 'C16']))

def _eam_post(v, old, res):
    t = tab(v.cp)
    return _pair_post(v, old, res) + [res[2] == z3.If(crho_none(t), z3.RealVal('100.0'), crho_val(t)), res[3] == z3.If(nrho_none(t), z3.IntVal(1001), nrho_val(t))]
REG.add(Contract(FILE, 'EAMTabulationFactory.extract_cutoffs',
    params=[('self', T.Obj('EAMTabulationFactory')), ('cp', T.Obj('ConfigParser'))], result=T.NamedTuple('R_Rho_CutoffTuple', [('cutoff', T.Real), ('nr', T.Int), ('cutoff_rho', T.Real), ('nrho', T.Int)]),
    ensures=_eam_post, post_names=['cutoff-default-10.0', 'nr-default-1001', 'cutoff_rho-default-100.0', 'nrho-default-1001'], carries=['post'], props=['C11', 'C03']))

"""C01 oracle: parse a LAMMPS table produced by the real code back and compare it with the model."""
from _common import *
import atsim.potentials as ap
from atsim.potentials import Potential
from atsim.potentials.pair_tabulation import LAMMPS_PairTabulation

def parse_lammps(text):
    blocks = []
    for chunk in text.split('\n\n'):
        pass
    lines = text.split('\n')
    i = 0; out = []
    while i < len(lines):
        if lines[i].strip() == '': i += 1; continue
        key = lines[i]; hdr = lines[i + 1].split(); assert lines[i + 2] == '', 'blank line after header'
        assert hdr[0] == 'N' and hdr[2] == 'R', hdr
        N, lo, hi = int(hdr[1]), float(hdr[3]), float(hdr[4])
        rows = []
        i += 3
        while i < len(lines) and lines[i].strip() != '' and len(lines[i].split()) == 4:
            t = lines[i].split(); rows.append((int(t[0]), float(t[1]), float(t[2]), float(t[3]))); i += 1
        out.append(dict(key=key, N=N, lo=lo, hi=hi, rows=rows))
    return out

def expected_force(spec, f, r, h=1e-6):
    """statement: minus the derivative of the same energy function (analytic when offered, else the central
    difference of the same callable — compared with the exact derivative to a tolerance covering h^2 error)"""
    return -f.d(r)

def run_case(case):
    cutoff, nr = case['cutoff'], case['nr']
    pots, fs = [], []
    for p in case['pots']:
        f = mk_callable(p['fn']); fs.append(f)
        pots.append(Potential(p['A'], p['B'], f))
    out = io.StringIO()
    if case['route'] == 'class': LAMMPS_PairTabulation(pots, cutoff, nr).write(out)
    elif case['route'] == 'class-reused':
        # the same tabulation object written before and after the model changes (a potential appended to its list): every
        # write reflects the model as it is then
        plist = list(pots[:-1]) if len(pots) > 1 else [Potential('Q', 'Q', mk_callable(dict(kind='poly', coefs=[1.0, 2.0])))]
        tab = LAMMPS_PairTabulation(plist, cutoff, nr)
        tab.write(io.StringIO())
        del plist[:]; plist.extend(pots)
        tab.write(out)
    elif case['route'] == 'writePotentials': ap.writePotentials('LAMMPS', pots, cutoff, nr, out)
    else: raise ValueError(case['route'])
    return out.getvalue(), fs

def check_case(rep, case, name):
    text, fs = run_case(case)
    cutoff, nr = case['cutoff'], case['nr']
    N, dr = nr - 1, cutoff / (nr - 1)
    try: blocks = parse_lammps(text)
    except Exception as e:
        rep.dev(name, case, 'unparseable table: %r' % (e,), 'a LAMMPS table'); return
    if len(blocks) != len(case['pots']):
        rep.dev(name, case, '%d blocks' % len(blocks), '%d blocks (one per potential)' % len(case['pots'])); return
    for b, p, f in zip(blocks, case['pots'], fs):
        exp_key = '%s-%s' % (p['A'], p['B'])
        if b['key'] != exp_key: rep.dev(name, case, 'block key %r' % b['key'], exp_key); return
        if b['N'] != N or len(b['rows']) != N:
            rep.dev(name, case, 'N=%d, %d rows' % (b['N'], len(b['rows'])), 'N=%d rows' % N); return
        if not close(b['lo'], printed('%.8f', dr), 0, 1.5e-8) or not close(b['hi'], printed('%.8f', cutoff), 0, 1.5e-8):
            rep.dev(name, case, 'R %r %r' % (b['lo'], b['hi']), 'R %.8f %.8f' % (dr, cutoff)); return
        for k, (n, r, e, fo) in enumerate(b['rows']):
            rk = (k + 1) * dr
            if n != k + 1 or not close(r, rk, 0, 1.5e-8):
                rep.dev(name, case, 'row %d: n=%d r=%r' % (k, n, r), 'n=%d r=%.8f' % (k + 1, rk)); return
            ee, fe = f(rk), expected_force(p, f, rk)
            if not close(e, ee, 1e-7, 2e-8):
                rep.dev(name, case, 'row %d energy %r' % (n, e), 'E(%r)=%r' % (rk, ee)); return
            tol = 1e-7 if p['fn'].get('deriv', True) else 2e-5
            if not close(fo, fe, tol, tol):
                rep.dev(name, case, 'row %d force %r' % (n, fo), '-dE/dr(%r)=%r' % (rk, fe)); return
            rep.ok(4)

def potable_cases(rep, rng, n):
    """the potable route (statement: 'through both the Python API and potable files'): models made of built-in forms under modifiers and of
    custom [Potential-Form] formulas that call a helper formula, read one after the other IN ONE PROCESS -- consecutive files keep the text of the
    custom form and change only the helper it calls, so anything remembered from an earlier file shows in the next table."""
    from _expr import gen, to_config, exact, min_r
    from atsim.potentials.config import Configuration
    import math
    for i in range(n):
        t = gen(rng, rng.randint(0, 2))
        f0, f1, _ = exact(t)
        nr = rng.choice([11, 26, 51]); cutoff = rng.choice([5.0, 6.5, 8.0]); A = round(rng.uniform(50, 500), 1); npow = rng.choice([2, 4])
        for step, L in enumerate([round(rng.uniform(0.8, 1.2), 3), round(rng.uniform(1.8, 2.6), 3)]):
            ini = ('[Tabulation]\ntarget : LAMMPS\nnr : %d\ncutoff : %r\n\n[Pair]\nA-B : %s\nC-D : pairf %r %d\n\n[Potential-Form]\npairf(r_, A_, n_) = A_ * damp(r_) / r_^n_\ndamp(r_) = exp(-r_/%r)\n'
                   % (nr, cutoff, to_config(t), A, npow, L))
            case = dict(kind='potable', step=step, ini=ini); rep.case('potable/step%d' % step, case)
            try:
                out = io.StringIO(); Configuration().read(io.StringIO(ini)).write(out); blocks = parse_lammps(out.getvalue())
            except Exception as e:
                rep.dev('potable-%d' % i, case, 'exception %r' % (e,), 'a LAMMPS table'); break
            dr = cutoff / (nr - 1); bad = None
            keys = [b['key'] for b in blocks]
            if keys != ['A-B', 'C-D']: rep.dev('potable-%d' % i, case, 'blocks %r' % keys, "['A-B', 'C-D']"); break
            for b, fe, fd, lo in ((blocks[0], lambda x: float(f0(x)), lambda x: float(f1(x)), min_r(t)),
                                  (blocks[1], lambda x: A * math.exp(-x / L) / x ** npow, lambda x: A * math.exp(-x / L) * (-1.0 / L / x ** npow - npow / x ** (npow + 1)), 0.0)):
                if b['N'] != nr - 1 or len(b['rows']) != nr - 1: bad = ('rows', b['N'], nr - 1); break
                for k, (n_, r_, e, fo) in enumerate(b['rows']):
                    rk = (k + 1) * dr
                    if rk < max(lo, 0.3): continue
                    try: ee, de = fe(rk), fd(rk)
                    except Exception: continue
                    if not (abs(ee) < 1e12): continue
                    if not close(e, ee, 1e-7, 2e-8): bad = ('%s energy at %r' % (b['key'], rk), e, ee); break
                    if not close(fo, -de, 2e-5, 2e-5): bad = ('%s force at %r' % (b['key'], rk), fo, -de); break
                if bad: break
            if bad: rep.dev('potable-%d' % i, case, '%s: %r' % bad[:2], bad[2]); break
            rep.ok(2 * (nr - 1))

def gen_case(rng):
    nr = rng.choice([3, 4, 5, 7, 10, 30, 54, 100, 101, 200, rng.randint(3, 300)])
    cutoff = rng.choice([1.0, 2.5, 6.5, 8.0, 9.0, 10.0, 12.0, round(rng.uniform(0.5, 15), 2)])
    npots = rng.randint(1, 3)
    pots = [dict(A=rng.choice(LABELS), B=rng.choice(LABELS), fn=rand_callable_spec(rng)) for _ in range(npots)]
    if rng.random() < 0.2:
        # a dyadic grid (row separations exactly representable) and an energy function with a simple root on one of its rows
        cutoff, nr = 8.0, rng.choice([17, 33, 65])
        dr = cutoff / (nr - 1)
        pots[0]['fn'] = root_on_grid_spec(rng, dr * rng.randint(1, nr - 2))
    route = rng.choice(['class', 'writePotentials', 'class', 'class-reused'])
    return dict(route=route, cutoff=cutoff, nr=nr, pots=pots)

if __name__ == '__main__':
    pl = payload()
    rep = Report('C01')
    if pl.get('mode') == 'replay' and pl['input'].get('kind') == 'potable':
        potable_cases(rep, random.Random(pl.get('seed', 0)), 8)
    elif pl.get('mode') == 'replay':
        rep.case('replay', pl['input']); check_case(rep, pl['input'], 'replay')
    else:
        rng = random.Random(pl.get('seed', 0))
        for c in pl.get('cases', []):
            rep.case('model', c); check_case(rep, c, 'model')
        potable_cases(rep, rng, max(3, pl.get('n', 40) // 5))
        for i in range(pl.get('n', 40)):
            c = gen_case(rng); rep.case(c['route'], c); check_case(rep, c, 'seeded-%d' % i)
    rep.finish()

"""Contracts for pair_tabulation.py and the writePotentials() dispatcher."""
import z3
from .common import *
from . import lammps_table as LT

FILE = 'atsim/potentials/pair_tabulation.py'
F_INIT = 'atsim/potentials/__init__.py'
_fields = {'_nr': T.Int, '_cutoff': T.Real, '_potentials': T.List(T.Obj('Potential')), '_target': T.Str}
REG.add_class(ClassDecl(FILE, 'PairTabulation_AbstractBase', _fields))
for cls in ('LAMMPS_PairTabulation', 'DLPoly_PairTabulation', 'GULP_PairTabulation'):
    REG.add_class(ClassDecl(FILE, cls, {}, bases=['PairTabulation_AbstractBase']))

def tab(cls):
    return dict(nr=field(cls, '_nr', IntS), cutoff=field(cls, '_cutoff', RealS),
                pots=field(cls, '_potentials', z3.SeqSort(Pot)))

def lammps_tab_file(pots, cutoff, nr):
    """C01 statement: N = nr-1 rows from lo = dr to hi = cutoff, dr = cutoff/(nr-1)"""
    return LT.lammps_file(pots, cutoff / real(nr - 1), cutoff, nr - 1)

_L = tab('LAMMPS_PairTabulation')
REG.add(Contract(FILE, 'LAMMPS_PairTabulation.write',
    params=[('self', T.Obj('LAMMPS_PairTabulation')), ('fp', T.Doc)],
    requires=lambda v: [_L['nr'](v.self) >= 3, _L['cutoff'](v.self) > 0],
    modifies=['fp'],
    ensures=lambda v, old, res: [v.fp == cat(old.fp, lammps_tab_file(_L['pots'](v.self), _L['cutoff'](v.self), _L['nr'](v.self)))],
    on_raise=lambda v, old: [v.fp == old.fp],
    carries=['post'], props=['C01', 'C17']))

REG.add(Contract(FILE, 'LAMMPS_PairTabulation.__init__',
    params=[('self', T.New('LAMMPS_PairTabulation')), ('potentials', T.List(T.Obj('Potential'))), ('cutoff', T.Real), ('nr', T.Int)],
    ensures=lambda v, old, res: [v.field('self', '_potentials') == v.potentials, v.field('self', '_cutoff') == v.cutoff,
                                 v.field('self', '_nr') == v.nr],
    post_names=['potentials', 'cutoff', 'nr'], carries=['post'], props=['C01']))

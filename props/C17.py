"""C17 — a failed tabulation never leaves a partial table behind."""
import z3
from pyvc.core import *
from pyvc.solve import Obligation
import contracts.common as K
import contracts.potential
import contracts.lammps_table as LT
import contracts.dlpoly_table as DT
import contracts.pair_tabulation as PT
import contracts.gulp as GU
import contracts.setfl as SF
import contracts.tabeam as TB
import contracts.eam_tabulation as ET
import contracts.actions as ACT
import contracts.excel_eam as XL
import contracts.excel as XS

# every function on a path from a tabulation's write() to an evaluation of a user callable: each carries an exceptional
# postcondition "the caller's document is unchanged" (writers that stream into a buffer handed to them say so: on_raise = []
# and their callers hand them a local StringIO)
FUNCTIONS = [(LT.FILE, '_writeSinglePotential'), (LT.FILE, 'writePotentials'), (PT.FILE, 'LAMMPS_PairTabulation.write'),
             (DT.FILE, '_writePotential'), (DT.FILE, 'writePotentials'), (PT.FILE, 'DLPoly_PairTabulation.write'),
             (PT.FILE, 'GULP_PairTabulation._write_pot'), (PT.FILE, 'GULP_PairTabulation.write'), (PT.F_INIT, 'writePotentials'),
             (SF.FILE, '_writeSetFLEmbeddingFunction'), (SF.FILE, '_writeDensityFunction'), (SF.FILE, '_writeSetFLDensityFunction'),
             (SF.FILE, '_writeSetFLDensityFunctionFinnisSinclair'), (SF.FILE, '_writeSetFLPairPots'), (SF.FILE, 'writeSetFL'), (SF.FILE, 'writeSetFLFinnisSinclair'),
             (TB.FILE, '_tabulateFunction'), (TB.FILE, '_writeEmbeddingFunction'), (TB.FILE, '_writeDensityFunction'), (TB.FILE, '_writePairPotential'),
             (TB.FILE, '_writePairPotentials'), (TB.FILE, '_writeTABEAM_exceptDensity'), (TB.FILE, 'writeTABEAM'), (TB.FILE, 'writeTABEAMFinnisSinclair'),
             (ET.FILE, 'SetFL_EAMTabulation.write'), (ET.FILE, 'SetFL_FS_EAMTabulation.write'), (ET.FILE, 'TABEAM_EAMTabulation.write'),
             (ET.FILE, 'TABEAM_FinnisSinclair_EAMTabulation.write'), (ET.FILE, 'ADP_EAMTabulation.write'),
             (ACT.FILE, 'action_tabulate'),
             (XL.FILE, 'Excel_EAMTabulation._build_workbook'), (PT.FILE, 'Excel_PairTabulation._build_workbook')]      # potable: the named file holds the whole table, or (on any failure) is empty or was never opened

def lemmas():
    """every public write() has the exceptional postcondition fp == old(fp): collected from the registry so that a contract
    that silently dropped its on_raise clause is noticed"""
    from pyvc.registry import REG
    out = []
    for f, q in FUNCTIONS:
        if q.endswith('.write') or (f, q) == (PT.F_INIT, 'writePotentials'):
            c = REG.get(f, q)
            ok = c is not None and c.on_raise is not None and len(c.modifies) == 1
            o = Obligation('C17/%s::%s/has-all-or-nothing-contract' % (f.split('/')[-1], q), [], z3.BoolVal(bool(ok)), kind='contract-shape', function=q, carries_property=True)
            o.result = 'proved' if ok else 'failed'; o.backend = 'registry'
            out.append(o)
    return out

MUTANTS = [
    (XL.FILE, 'Excel_EAMTabulation._build_workbook', "self._inner_tabulation = None\n        raise", "raise", 'on-raise'),      # the defect repaired by e34f81b
    (ACT.FILE, 'action_tabulate', "tabulation.write(outfile)", "outfile.write('# potable\\n')\n        tabulation.write(outfile)", 'on-raise'),
    (LT.FILE, '_writeSinglePotential', "'force': force}, file=sbuild)", "'force': force}, file=out)", 'on-raise'),
    (PT.FILE, 'GULP_PairTabulation.write', "self._write_pot(pot, sbuild)", "self._write_pot(pot, fp)", 'on-raise'),
    (ET.FILE, 'ADP_EAMTabulation.write', "self._write_dipole(sbuild)", "self._write_dipole(fp)", 'on-raise'),
    (SF.FILE, 'writeSetFL', "writeSetFL", "writeSetFL", 'skip') if False else
    (DT.FILE, 'writePotentials', "_writeTableHeader(meshResolution, cutoff, gridPoints, outputbuilder)", "_writeTableHeader(meshResolution, cutoff, gridPoints, out)", 'init/0'),
    (TB.FILE, 'writeTABEAM', "_writeTABEAM_exceptDensity(nrho, drho, nr, dr, eampots, pairpots, title, numpots, outputbuilder)", "_writeTABEAM_exceptDensity(nrho, drho, nr, dr, eampots, pairpots, title, numpots, out)", 'on-raise'),
]
ASSUMPTIONS = ['every evaluation of a user callable (energy, force, embedding, density, dipole, quadrupole) may raise: raises(f, r) is unconstrained',
               'A4: StringIO.write / getvalue; open(name, "w") creates or truncates the file before write() is called (so the file is empty or absent when write() raised without writing)',
               'potable: action_tabulate (contracts/actions.py) is verified against ONE assumed contract for the write() of whatever tabulation object the configuration layer returns: whole table or nothing -- which is what the contracts of the eight text writers say and prove; for the Excel writers it is the bounded oracle that stands behind that assumption']
BOUNDED = [dict(name='Excel targets (workbook assembled in memory, written once through a temporary file) and action_tabulate', bound='every target, failure positions {1, 2, n/3, n/2, n-1, n} of all n evaluations', technique='concrete oracle with a callable failing at its k-th evaluation')]

def oracle_payload(tier, seed, mode='search'): return dict(mode=mode, seed=seed, n=10 if tier == 'quick' else 300)
def witness_for(ob, devs, run_oracle):
    if devs: d = devs[0]; return dict(deviates=True, input=d['input'], observed=d['observed'], expected=d['expected'])
    return dict(deviates=False)

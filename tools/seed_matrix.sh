#!/bin/bash
export VERIF_EVIDENCE_DIR=/verif/.scratch/seed-evidence   # never overwrite evidence/ with a run on a modified tree
# runs, for every seeded change, the quick check of the property it was written for; prints one line per seed
cd /verif
for d in seeded/*/; do
  id=$(basename $d); prop=${id%_*}
  git -C /repo apply /verif/$d/patch.diff 2>/dev/null || { echo "$id APPLY-FAILED"; continue; }
  out=$(timeout 1200 python3-vt bin/check $prop 2>&1); code=$?
  git -C /repo checkout -- . 
  v=$(echo "$out" | grep -c '^VIOLATION'); nf=$(echo "$out" | grep '^VIOLATION' | grep -c 'no-failing-input-found'); first=$(echo "$out" | grep '^VIOLATION' | head -1 | sed 's/.*replay=[^ ]*\/\([^/ ]*\)\.json.*/\1/' | cut -c1-90)
  und=$(echo "$out" | grep -c '^UNDECIDED'); err=$(echo "$out" | grep -c '^CHECKER-ERROR')
  echo "$id exit=$code violations=$v (without-input=$nf) undecided=$und checker-errors=$err first=$first"
done

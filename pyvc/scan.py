"""AST scans used as frame / read-set / purity obligations (decided by enumeration of the sites in the current source)."""
import ast, os
from .extract import Module, REPO
from . import symalg as B

def attribute_stores_on_self(relpath, clsname):
    m = Module.get(relpath)
    out = []
    for s in m.classes[clsname].body:
        if isinstance(s, ast.FunctionDef):
            for n in ast.walk(s):
                if isinstance(n, ast.Attribute) and isinstance(n.ctx, ast.Store) and isinstance(n.value, ast.Name) and n.value.id == 'self':
                    out.append((s.name, n.attr, n.lineno))
    return out

def attribute_reads(relpaths, varnames):
    """attributes read from variables named in `varnames` (e.g. cp, cfg) in the given files -> {attr: [(file, line)]}"""
    out = {}
    for rp in relpaths:
        m = Module.get(rp)
        for n in ast.walk(m.tree):
            if isinstance(n, ast.Attribute) and isinstance(n.value, ast.Name) and n.value.id in varnames and isinstance(n.ctx, ast.Load):
                out.setdefault(n.attr, []).append((rp, n.lineno))
    return out

def package_files(sub):
    root = os.path.join(REPO, sub)
    out = []
    for dp, dn, fn in os.walk(root):
        for f in fn:
            if f.endswith('.py'): out.append(os.path.relpath(os.path.join(dp, f), REPO))
    return sorted(out)

def mutable_default_args(relpath):
    """(qualname, parameter, default source) for list/dict/set/call defaults"""
    m = Module.get(relpath)
    out = []
    for q, fi in m.funcs.items():
        a = fi.node.args
        names = [x.arg for x in a.args]
        for nm, d in zip(names[len(names) - len(a.defaults):], a.defaults):
            if isinstance(d, (ast.List, ast.Dict, ast.Set)) or (isinstance(d, ast.Call)):
                out.append((q, nm, ast.unparse(d)))
    return out

def stores_to_param_or_global(fi, params):
    """statements of a function that mutate one of `params` (attribute/subscript store, mutating method call)"""
    MUT = {'append', 'extend', 'update', 'add', 'pop', 'remove', 'clear', 'insert', 'setdefault', 'sort', 'reverse', '__setitem__'}
    out = []
    for n in ast.walk(fi.node):
        if isinstance(n, (ast.Attribute, ast.Subscript)) and isinstance(n.ctx, ast.Store):
            root = n.value
            while isinstance(root, (ast.Attribute, ast.Subscript)): root = root.value
            if isinstance(root, ast.Name) and root.id in params: out.append(ast.unparse(n))
        if isinstance(n, ast.Call) and isinstance(n.func, ast.Attribute) and n.func.attr in MUT:
            root = n.func.value
            while isinstance(root, (ast.Attribute, ast.Subscript)): root = root.value
            if isinstance(root, ast.Name) and root.id in params: out.append(ast.unparse(n))
    return out

def set_iteration_sites(relpath):
    """for-loops and comprehensions whose iterable is syntactically a set (set(...) call, set display, set algebra on such names)
    and is not wrapped in sorted(): -> [(qualname, line, source)]"""
    m = Module.get(relpath)
    out = []
    for q, fi in m.funcs.items():
        setnames = set()
        for n in ast.walk(fi.node):
            if isinstance(n, ast.Assign) and len(n.targets) == 1 and isinstance(n.targets[0], ast.Name) and _is_set_expr(n.value, setnames):
                setnames.add(n.targets[0].id)
        for n in ast.walk(fi.node):
            its = []
            if isinstance(n, ast.For): its.append(n.iter)
            if isinstance(n, (ast.ListComp, ast.GeneratorExp, ast.DictComp)): its += [g.iter for g in n.generators]
            if isinstance(n, ast.Call) and isinstance(n.func, ast.Name) and n.func.id in ('list', 'tuple') and n.args: its.append(n.args[0])
            for it in its:
                if _is_set_expr(it, setnames): out.append((q, it.lineno, ast.unparse(it)))
    return out

def _is_set_expr(e, setnames):
    if isinstance(e, ast.Set) or isinstance(e, ast.SetComp): return True
    if isinstance(e, ast.Call) and isinstance(e.func, ast.Name) and e.func.id in ('set', 'frozenset'): return True
    if isinstance(e, ast.Name) and e.id in setnames: return True
    if isinstance(e, ast.BinOp) and isinstance(e.op, (ast.BitOr, ast.BitAnd, ast.BitXor, ast.Sub)) and (_is_set_expr(e.left, setnames) or _is_set_expr(e.right, setnames)): return True
    if isinstance(e, ast.Call) and isinstance(e.func, ast.Attribute) and e.func.attr in ('keys',) and False: return True
    return False

def decorators_and_globals(relpath):
    """caching decorators, global statements, module-level mutable state written from functions: candidates for hidden state"""
    m = Module.get(relpath)
    out = []
    for q, fi in m.funcs.items():
        for d in fi.node.decorator_list:
            src = ast.unparse(d)
            if src not in ('property', 'classmethod', 'staticmethod', 'potential', 'modifier') and not src.endswith('.setter'):
                out.append((q, 'decorator ' + src))
        for n in ast.walk(fi.node):
            if isinstance(n, (ast.Global, ast.Nonlocal)): out.append((q, ast.unparse(n)))
    return out

"""Engine B: closed forms, derivatives, spline algebra.

The return expression of a real function (with the straight-line local assignments before it and class-level
constants) is translated FROM THE AST into an exact sympy term: float literals become the exact decimal they are
written as, math.exp/log/sqrt/pi map to sympy, calls to sibling potential objects are translated by substituting
the callee's own translated body.  Obligations are identities between such terms (code == documented formula,
deriv == d/dr of the code's own energy term, ...).

Deciding an identity  L == R :
  1. exact:      sympy.simplify / expand of L - R is 0                      -> proved (backend 'sympy-exact')
  2. tolerance:  L - R expanded into exponential-polynomial terms; terms grouped by a canonical key in which decimal
                 constants are rounded to 10 significant digits; every residual coefficient is checked against the
                 size of the coefficients that cancelled: |residual| <= 1e-9 * scale (assumption A2), the ground
                 inequalities are discharged by z3                      -> proved (backend 'sympy+z3 (A2 tolerance)')
  3. otherwise a witness point is searched numerically (mpmath, 50 digits); found  -> failed (with the point)
                                                               not found            -> unknown
"""
import ast, random, fractions
import sympy as sp
import mpmath
import z3
from .extract import Module, get_func
from .core import Unsupported
from .solve import Obligation

TOL = sp.Rational(1, 10 ** 9)

def sym(name, **kw):
    kw.setdefault('real', True)
    return sp.Symbol(name, **kw)

R = sym('r', positive=True)

class Translator(object):
    """AST -> sympy for straight-line numeric functions"""
    def __init__(self, module, cls=None, env=None, self_obj=None):
        self.module, self.cls, self.env = module, cls, dict(env or {})
        self.depth = 0
        self.defined_if = []       # sub-expressions that must be non-zero for the evaluation not to raise (divisors, bases of negative powers)

    def num(self, v):
        if isinstance(v, bool): raise Unsupported('bool constant in formula')
        if isinstance(v, int): return sp.Integer(v)
        if isinstance(v, float): return sp.Rational(repr(v)) if 'e' not in repr(v) and 'inf' not in repr(v) else sp.Rational(fractions.Fraction(repr(v)))
        raise Unsupported('constant %r' % (v,))

    def ev(self, n):
        if isinstance(n, ast.Constant): return self.num(n.value)
        if isinstance(n, ast.Name):
            if n.id in self.env: return self.env[n.id]
            raise Unsupported('free name %s in formula' % n.id)
        if isinstance(n, ast.UnaryOp):
            v = self.ev(n.operand)
            if isinstance(n.op, ast.USub): return -v
            if isinstance(n.op, ast.UAdd): return v
        if isinstance(n, ast.BinOp):
            l, r = self.ev(n.left), self.ev(n.right)
            if isinstance(n.op, ast.Add): return l + r
            if isinstance(n.op, ast.Sub): return l - r
            if isinstance(n.op, ast.Mult): return l * r
            if isinstance(n.op, ast.Div):
                self.defined_if.append(r)
                return l / r
            if isinstance(n.op, ast.Pow):
                if not (getattr(r, 'is_nonnegative', None) is True): self.defined_if.append(('pow', l, r))
                return l ** r
        if isinstance(n, ast.Attribute):
            # math.pi ; self.Ck1 (class constant)
            if isinstance(n.value, ast.Name) and n.value.id == 'math' and n.attr == 'pi': return sp.pi
            if isinstance(n.value, ast.Name) and n.value.id == 'self' and self.cls:
                a = self.module.class_attr(self.cls, n.attr)
                if a is not None: return self.ev(a)
            if isinstance(n.value, ast.Name) and n.value.id == 'self' and ('self.' + n.attr) in self.env:
                return self.env['self.' + n.attr]
        if isinstance(n, ast.Call):
            f = n.func
            args = [self.ev(a) for a in n.args]
            if isinstance(f, ast.Attribute) and isinstance(f.value, ast.Name) and f.value.id == 'math':
                if f.attr == 'exp':
                    _LAST_EXP_ARGS.append(args[0])      # (float range: the arguments of math.exp as written, before any algebra merges exponentials)
                    return sp.exp(args[0])
                if f.attr == 'log': return sp.log(args[0])
                if f.attr == 'sqrt': return sp.sqrt(args[0])
                raise Unsupported('math.%s' % f.attr)
            if isinstance(f, ast.Name) and f.id == 'float': return args[0]
            if isinstance(f, ast.Name) and f.id in self.env and callable(self.env[f.id]):
                return self.env[f.id](*args)
            # sibling potential object: buck(r, A, rho, 0.0) / buck.deriv(...) / self(r, ...)
            tgt = None
            if isinstance(f, ast.Name): tgt = (f.id, '__call__')
            elif isinstance(f, ast.Attribute) and isinstance(f.value, ast.Name) and f.attr in ('deriv', 'deriv2'): tgt = (f.value.id, f.attr)
            if tgt:
                name, meth = tgt
                if name == 'self' and self.cls: cls = self.cls
                else:
                    inst = self.module.consts.get(name)          # buck = _buck()
                    if not (isinstance(inst, ast.Call) and isinstance(inst.func, ast.Name)): raise Unsupported('call to %s' % name)
                    cls = inst.func.id
                if name == 'self' and meth == '__call__' and isinstance(f, ast.Name): meth = '__call__'
                return translate_method(self.module, cls, meth, args, depth=self.depth + 1)
        raise Unsupported('formula construct %s' % ast.dump(n)[:80])

def translate_method(module, cls, meth, args, depth=0):
    if depth > 4: raise Unsupported('formula call depth')
    fi = module.funcs['%s.%s' % (cls, meth)]
    params = [a.arg for a in fi.node.args.args][1:]
    if fi.node.args.vararg: raise Unsupported('varargs formula')
    if len(params) != len(args): raise Unsupported('%s.%s called with %d arguments' % (cls, meth, len(args)))
    t = Translator(module, cls, dict(zip(params, args))); t.depth = depth
    out = run_body(t, fi.body)
    _LAST_DEFINED_IF.extend(t.defined_if)
    return out

_LAST_DEFINED_IF = []
_LAST_EXP_ARGS = []

def _cond_term(t, n):
    """condition of an `if` in a formula body -> sympy relational"""
    if isinstance(n, ast.Compare) and len(n.ops) == 1 and type(n.ops[0]) in (ast.Lt, ast.LtE, ast.Gt, ast.GtE, ast.Eq, ast.NotEq):
        l, r_ = t.ev(n.left), t.ev(n.comparators[0])
        return {ast.Lt: sp.Lt, ast.LtE: sp.Le, ast.Gt: sp.Gt, ast.GtE: sp.Ge, ast.Eq: sp.Eq, ast.NotEq: sp.Ne}[type(n.ops[0])](l, r_)
    if isinstance(n, ast.BoolOp):
        vs = [_cond_term(t, v) for v in n.values]
        return sp.Or(*vs) if isinstance(n.op, ast.Or) else sp.And(*vs)
    if isinstance(n, ast.UnaryOp) and isinstance(n.op, ast.Not): return sp.Not(_cond_term(t, n.operand))
    raise Unsupported('condition %s in a formula body' % ast.unparse(n))

def run_body(t, body):
    for i, s in enumerate(body):
        if isinstance(s, ast.Assign) and len(s.targets) == 1 and isinstance(s.targets[0], ast.Name):
            t.env[s.targets[0].id] = t.ev(s.value)
        elif isinstance(s, ast.Return):
            return t.ev(s.value)
        elif isinstance(s, ast.If):
            # a formula by cases: the term is piecewise (each branch continues with the statements after the `if`)
            import copy
            c = _cond_term(t, s.test)
            rest = list(body[i + 1:])
            t1 = copy.copy(t); t1.env = dict(t.env); t2 = copy.copy(t); t2.env = dict(t.env)
            return sp.Piecewise((run_body(t1, list(s.body) + rest), c), (run_body(t2, list(s.orelse) + rest), True))
        else:
            raise Unsupported('statement %s in a formula body' % type(s).__name__)
    raise Unsupported('formula without return')

def method_term(relpath, cls, meth, symbols):
    """sympy term of Class.meth(self, *symbols)"""
    return translate_method(Module.get(relpath), cls, meth, list(symbols))

# ------------------------------------------------------------------------------------------------
# deciding identities
# ------------------------------------------------------------------------------------------------
def _round_num(x, digits=10):
    if x == 0: return sp.Integer(0)
    f = sp.Float(x, 30)
    return sp.nsimplify(sp.Float(f, digits), rational=True) if False else sp.Rational(str(sp.Float(f, digits)))

def _canon_key(term):
    """key of a product term with numeric factors (also inside exp arguments and exponents) rounded to 10 digits"""
    def rnd(e):
        if e.is_Number: return _round_num(e) if not e.is_Integer else e
        if e.args: return e.func(*[rnd(a) for a in e.args])
        return e
    return sp.srepr(sp.expand(rnd(term)))

def split_terms(expr):
    expr = sp.expand(sp.powsimp(sp.expand(expr), combine='exp'))
    terms = sp.Add.make_args(expr)
    groups = {}
    for t in terms:
        c, rest = t.as_coeff_Mul()
        rest = sp.powsimp(rest, combine='exp')
        # canonicalise exp(a)*exp(b) and move numeric parts of exp arguments into the key after rounding
        k = _canon_key(rest)
        g = groups.setdefault(k, [])
        g.append((sp.Rational(c) if c.is_Rational else sp.Rational(str(sp.Float(c, 40))), rest))
    return groups

def decide_identity(lhs, rhs, symbols, domain=None, name='identity', seed=0):
    """-> (result, backend, detail)"""
    diff = lhs - rhs
    try:
        d0 = sp.simplify(sp.expand(diff))
        if d0 == 0: return 'proved', 'sympy-exact', {}
    except Exception:
        pass
    # tolerance route: both sides expanded separately into exponential-polynomial terms; coefficients compared per key
    bad = []
    try:
        gl, gr = split_terms(lhs), split_terms(rhs)
        worst = 0.0; checks = []
        for k in set(gl) | set(gr):
            cl = sum(c for c, _ in gl.get(k, [])); cr = sum(c for c, _ in gr.get(k, []))
            scale = max(abs(cl), abs(cr))
            if scale == 0: continue
            checks.append((cl - cr, scale))
            if abs(cl - cr) > TOL * scale:
                rep = (gl.get(k) or gr.get(k))[0][1]
                bad.append((str(rep)[:80], float(cl), float(cr)))
            else: worst = max(worst, float(abs(cl - cr) / scale))
        if not bad:
            s = z3.Solver(); fs = []
            for resid, scale in checks:
                a = z3.RealVal(str(sp.Rational(resid))); b = z3.RealVal(str(sp.Rational(scale)))
                fs.append(z3.And(a <= z3.RealVal('1/1000000000') * b, -a <= z3.RealVal('1/1000000000') * b))
            s.add(z3.Not(z3.And(*fs)) if fs else z3.BoolVal(False))
            if s.check() == z3.unsat:
                return 'proved', 'sympy+z3 (A2 tolerance 1e-9)', dict(groups=len(checks), max_rel_residual=worst)
    except Exception as e:
        bad = [('normalisation failed: %s' % e, 0, 0)]
    # numeric witness
    w = find_witness(diff, symbols, domain, seed)
    if w is not None: return 'failed', 'sympy+mpmath witness', dict(witness=w, unmatched=bad[:5] if bad else None)
    return 'unknown', 'sympy', dict(unmatched=bad[:5] if bad else None)

def find_witness(diff, symbols, domain=None, seed=0, tries=60, tol=1e-7):
    rng = random.Random(seed)
    mpmath.mp.dps = 50
    f = sp.lambdify(symbols, diff, modules='mpmath')
    best = None
    for _ in range(tries):
        pt = {}
        for s in symbols:
            lo, hi = (domain or {}).get(str(s), (0.3, 3.0))
            if isinstance(lo, int) and isinstance(hi, int): pt[s] = rng.randint(lo, hi)
            else: pt[s] = round(rng.uniform(lo, hi), 3)
        try:
            v = f(*[mpmath.mpf(pt[s]) for s in symbols])
            v = abs(complex(v))
        except Exception:
            continue
        if v > tol and (best is None or v > best[1]): best = ({str(k): float(x) for k, x in pt.items()}, float(v))
    if best: return dict(point=best[0], abs_difference=best[1])
    return None

def identity_obligation(name, lhs, rhs, symbols, function, where, domain=None):
    r, backend, detail = decide_identity(lhs, rhs, symbols, domain)
    o = Obligation(name, [], z3.BoolVal(r == 'proved'), kind='identity', function=function, where=where, carries_property=True)
    o.result, o.backend, o.reason = r, backend, (None if r == 'proved' else str(detail)[:600])
    o.meta = detail
    o.model = detail.get('witness') if isinstance(detail, dict) else None
    return o


# ------------------------------------------------------------------------------------------------
# combinators: closures over undetermined functions
# ------------------------------------------------------------------------------------------------
class SFn(object):
    """an undetermined (or translated) function of one real variable with its exact derivatives"""
    def __init__(self, f): self.f = f
    def __call__(self, x): return self.f(x)
    @property
    def deriv(self):
        f = self.f
        return SFn(lambda x: sp.diff(f(R), R).subs(R, x) if not x.has(R) or True else None) if False else SFn(lambda x: _dsub(f, x))
    @property
    def deriv2(self): return self.deriv.deriv

_T = sym('t_', positive=True)
def _dsub(f, x):
    return sp.diff(f(_T), _T).subs(_T, x)

def undetermined(name):
    F = sp.Function(name)
    return SFn(lambda x: F(x))

class ClosureAnalysis(object):
    """walks the body of a combinator (plus/product/pow/trans): records which names are bound to gradient(X), which
    nested functions are attached as .deriv/.deriv2 and under which hasattr condition, and translates the nested
    functions' bodies into terms over undetermined operand functions"""
    def __init__(self, relpath, qualname, operands):
        self.fi = get_func(relpath, qualname)
        self.module = self.fi.module
        self.env = dict(operands)            # name -> SFn
        self.defs = {}                       # nested def name -> FunctionDef
        self.bindings = {}                   # name -> ('gradient', argname)
        self.attached = {}                   # attr -> (closure name, condition source)
        self.returns = None
        self._walk(self.fi.body, cond=None)

    def _walk(self, stmts, cond):
        for s in stmts:
            if isinstance(s, ast.FunctionDef): self.defs[s.name] = s
            elif isinstance(s, ast.Assign) and len(s.targets) == 1:
                t, v = s.targets[0], s.value
                if isinstance(t, ast.Name) and isinstance(v, ast.Call) and isinstance(v.func, ast.Name) and v.func.id == 'gradient' and len(v.args) == 1 and isinstance(v.args[0], ast.Name):
                    src = v.args[0].id
                    self.bindings[t.id] = ('gradient', src)
                    if src in self.env: self.env[t.id] = self.env[src].deriv
                elif isinstance(t, ast.Attribute) and isinstance(t.value, ast.Name) and isinstance(v, ast.Name):
                    self.attached[t.attr] = (t.value.id, v.id, cond)
                elif isinstance(t, ast.Name):
                    self.other_assign = getattr(self, 'other_assign', []) + [(t.id, ast.unparse(v))]
                    try:
                        tr = Translator(self.module, None, self._scalar_env())
                        self.env[t.id] = tr.ev(v)
                    except Unsupported:
                        pass
            elif isinstance(s, ast.If):
                self._walk(s.body, ast.unparse(s.test) if cond is None else cond + ' and ' + ast.unparse(s.test))
                if s.orelse: self._walk(s.orelse, 'not (%s)' % ast.unparse(s.test))
            elif isinstance(s, ast.Return):
                self.returns = ast.unparse(s.value) if s.value is not None else None
            elif isinstance(s, (ast.Import, ast.ImportFrom, ast.Expr, ast.Raise)):
                pass
            else:
                raise Unsupported('statement %s in combinator %s' % (type(s).__name__, self.fi.qualname))

    def _scalar_env(self):
        return {k: v for k, v in self.env.items() if not isinstance(v, SFn)}

    def term(self, closure, arg=None):
        """term of nested function `closure` applied to `arg` (default: the symbol r)"""
        arg = R if arg is None else arg
        node = self.defs[closure]
        pname = node.args.args[0].arg
        env = dict(self.env)
        for nm in self.defs:
            env[nm] = (lambda nm_: (lambda x: self.term(nm_, x)))(nm)
        env[pname] = arg
        t = _ClosureTranslator(self.module, None, env)
        from .extract import FuncInfo
        body = FuncInfo(self.module, closure, node).body
        return run_body(t, body)

class _ClosureTranslator(Translator):
    def ev(self, n):
        if isinstance(n, ast.Call):
            f = n.func
            if isinstance(f, ast.Name) and f.id in self.env and (isinstance(self.env[f.id], SFn) or callable(self.env[f.id])):
                return self.env[f.id](*[self.ev(a) for a in n.args])
            if isinstance(f, ast.Attribute) and isinstance(f.value, ast.Name) and f.value.id in self.env and isinstance(self.env[f.value.id], SFn) \
               and f.attr in ('deriv', 'deriv2'):
                return getattr(self.env[f.value.id], f.attr)(*[self.ev(a) for a in n.args])
        return Translator.ev(self, n)

def static_obligation(name, ok, function, where, why=None, hard=True):
    """obligation decided by reading the structure of the AST.  hard=False: a mismatch means the proof no longer applies
    to the code as written (undecided; the concrete oracle decides), not that the property is violated"""
    o = Obligation(name, [], z3.BoolVal(bool(ok)), kind='structure', function=function, where=where, carries_property=True)
    o.result, o.backend, o.reason = ('proved' if ok else ('failed' if hard else 'unknown')), 'ast-structure', (None if ok else why)
    return o

def source_shape(prop, relpath, qualname, description, expected_fragments, forbidden=()):
    """the normalised source (ast.unparse) of a small glue function contains the expected statements"""
    try:
        fi = get_func(relpath, qualname)
        import re as _re
        src = _re.sub(r"\bu(['\"])", r"\1", ast.unparse(ast.Module(body=fi.body, type_ignores=[])))      # u'' prefixes are dropped
    except Exception as e:
        return static_obligation('%s/%s::%s/%s' % (prop, relpath.split('/')[-1], qualname, description), False, qualname, relpath, 'function missing: %s' % e, hard=False)
    ws = lambda t: ' '.join(t.split())          # layout (indentation, line breaks) is not part of the shape
    nsrc = ws(src)
    missing = [f for f in expected_fragments if ws(f) not in nsrc] + ['forbidden: ' + f for f in forbidden if ws(f) in nsrc]
    return static_obligation('%s/%s::%s/%s' % (prop, relpath.split('/')[-1], qualname, description), not missing, qualname,
                             '%s:%d-%d' % (relpath, fi.lines[0], fi.lines[1]), 'expected fragments not found: %s' % missing, hard=False)


# ------------------------------------------------------------------------------------------------
# polynomial of any order: v = [<elt> for (i, c) in enumerate(coefs)][k:]; return sum([0] + v)
# ------------------------------------------------------------------------------------------------
def polynomial_term(relpath, cls, meth):
    """-> (element term as a function of symbolic index i and coefficient c, slice start k)"""
    fi = get_func(relpath, '%s.%s' % (cls, meth))
    comp, k = None, 0
    for s in fi.body:
        if isinstance(s, ast.Assign) and isinstance(s.targets[0], ast.Name) and s.targets[0].id == 'v':
            v = s.value
            if isinstance(v, ast.Subscript) and isinstance(v.slice, ast.Slice):
                if v.slice.upper is not None or v.slice.step is not None or not isinstance(v.slice.lower, ast.Constant): raise Unsupported('polynomial slice')
                k = v.slice.lower.value; v = v.value
            if not isinstance(v, ast.ListComp): raise Unsupported('polynomial body shape')
            comp = v
    ret = fi.body[-1]
    if comp is None or not isinstance(ret, ast.Return): raise Unsupported('polynomial body shape')
    rs = ast.unparse(ret.value)
    if rs not in ('sum(v)', 'sum([0] + v)'): raise Unsupported('polynomial return %s' % rs)
    g = comp.generators[0]
    it = ast.unparse(g.iter)
    if it.startswith('list(enumerate(coefs))[') and it.endswith(':]') and k == 0:
        k = int(it[len('list(enumerate(coefs))['):-2]); computed_from = k      # only indices >= k are evaluated at all
    elif it == 'enumerate(coefs)': computed_from = 0
    else: raise Unsupported('polynomial comprehension over %s' % it)
    if ast.unparse(g.target) not in ('(i, c)', 'i, c') or g.ifs: raise Unsupported('polynomial comprehension')
    polynomial_term.computed_from = computed_from
    # r, coefs = self._split_args(args)  with _split_args returning (args[0], args[1:]) is checked separately
    i = sp.Symbol('i', integer=True, nonnegative=True); c = sym('c')
    t = Translator(fi.module, cls, {'r': R, 'i': i, 'c': c})
    return t.ev(comp.elt), k, i, c


# ------------------------------------------------------------------------------------------------
# piecewise functions and linear systems (splines)
# ------------------------------------------------------------------------------------------------
class AttrTranslator(_ClosureTranslator):
    """names and attribute chains are looked up by their source text first (self.detachmentX -> symbol)"""
    def ev(self, n):
        if isinstance(n, (ast.Name, ast.Attribute)):
            key = ast.unparse(n)
            if key in self.env and not callable(self.env[key]): return self.env[key]
        if isinstance(n, ast.Call):
            key = ast.unparse(n.func)
            if key in self.env and callable(self.env[key]): return self.env[key](*[self.ev(a) for a in n.args])
            if key == 'np.array' and len(n.args) == 1: return self.ev(n.args[0])
            if key == 'np.reshape' and len(n.args) == 2:
                flat = self.ev(n.args[0]); shape = ast.literal_eval(n.args[1])
                if len(flat) != shape[0] * shape[1]: raise Unsupported('reshape size')
                return [flat[i * shape[1]:(i + 1) * shape[1]] for i in range(shape[0])]
            if isinstance(n.func, ast.Name) and n.func.id == 'min' and len(n.args) == 1 and isinstance(n.args[0], ast.List):
                return sp.Min(*[self.ev(e) for e in n.args[0].elts])
        if isinstance(n, ast.Compare) and len(n.ops) == 1:
            l, r_ = self.ev(n.left), self.ev(n.comparators[0])
            return {ast.Lt: sp.Lt, ast.LtE: sp.Le, ast.Gt: sp.Gt, ast.GtE: sp.Ge, ast.Eq: sp.Eq}[type(n.ops[0])](l, r_)
        if isinstance(n, ast.BoolOp):
            vs = [self.ev(v) for v in n.values]
            return sp.Or(*vs) if isinstance(n.op, ast.Or) else sp.And(*vs)
        if isinstance(n, ast.UnaryOp) and isinstance(n.op, ast.Not): return sp.Not(self.ev(n.operand))
        if isinstance(n, (ast.List, ast.Tuple)): return [self.ev(e) for e in n.elts]
        return _ClosureTranslator.ev(self, n)

def paths(relpath, qualname, env):
    """-> [(condition, value term)] for a function made of assignments, if/elif/else and returns; plus final env per path"""
    fi = get_func(relpath, qualname)
    out = []
    def run(stmts, env, cond):
        env = dict(env)
        for i, s in enumerate(stmts):
            if isinstance(s, (ast.Import, ast.ImportFrom)): continue
            if isinstance(s, ast.Assign) and len(s.targets) == 1 and isinstance(s.targets[0], ast.Name):
                try: env[s.targets[0].id] = AttrTranslator(fi.module, fi.cls, env).ev(s.value)
                except Unsupported: env[s.targets[0].id] = ('opaque', ast.unparse(s.value))
            elif isinstance(s, ast.AugAssign) and isinstance(s.target, ast.Name):
                t = AttrTranslator(fi.module, fi.cls, env)
                v = t.ev(s.value); cur = env[s.target.id]
                env[s.target.id] = cur + v if isinstance(s.op, ast.Add) else cur - v if isinstance(s.op, ast.Sub) else cur * v
            elif isinstance(s, ast.If):
                c = AttrTranslator(fi.module, fi.cls, env).ev(s.test)
                rest = stmts[i + 1:]
                run(list(s.body) + rest, env, cond + [c])
                run(list(s.orelse) + rest, env, cond + [sp.Not(c)])
                return
            elif isinstance(s, ast.Return):
                try: val = AttrTranslator(fi.module, fi.cls, env).ev(s.value)
                except Unsupported: val = ('opaque', ast.unparse(s.value))
                out.append((cond, val, env)); return
            elif isinstance(s, ast.Expr):
                env.setdefault('_exprs', []); env['_exprs'] = env['_exprs'] + [ast.unparse(s.value)]
            elif isinstance(s, ast.Assign) and len(s.targets) == 1 and isinstance(s.targets[0], ast.Attribute):
                env['_attr_assign'] = env.get('_attr_assign', []) + [ast.unparse(s)]      # checked by source_shape obligations
            else:
                raise Unsupported('statement %s in %s' % (type(s).__name__, qualname))
        out.append((cond, None, env))
    run(fi.body, env, [])
    return out


def definedness_at_origin(relpath, cls, meth, params, extra_subs=None):
    """-> list of sub-expressions whose evaluation at r = 0 raises (division by zero / zero to a negative power)"""
    del _LAST_DEFINED_IF[:]
    method_term(relpath, cls, meth, [R] + list(params))
    bad = []
    for c in list(_LAST_DEFINED_IF):
        if isinstance(c, tuple):
            _, base, ex = c
            b0 = sp.sympify(base).subs(R, 0)
            if extra_subs: b0 = b0.subs(extra_subs); ex = sp.sympify(ex).subs(extra_subs)
            if b0 == 0 and not (sp.sympify(ex).is_nonnegative is True): bad.append('%s ** %s' % (base, ex))
        else:
            d0 = sp.sympify(c).subs(R, 0)
            if extra_subs: d0 = d0.subs(extra_subs)
            if d0 == 0: bad.append('division by %s' % (c,))
    return bad


def interval_sup(expr, box, default=(0.3, 3.0)):
    """an upper bound of a sympy term over a box of parameter ranges, by interval arithmetic (mpmath.iv; sound up to the rounding mpmath.iv
    itself accounts for). Returns None when the term cannot be evaluated on the box (division by an interval containing zero ...)."""
    from mpmath import iv
    syms = sorted(expr.free_symbols, key=str)
    f = sp.lambdify(syms, expr, modules=[{'exp': iv.exp, 'log': iv.log, 'sqrt': iv.sqrt, 'mpf': iv.mpf, 'pi': iv.pi}, 'mpmath'])      # (constants as intervals too)
    try:
        v = f(*[iv.mpf(list(box.get(str(x), default))) for x in syms])
        return float(iv.mpf(v).b)
    except Exception:
        return None

import io, warnings, logging
warnings.simplefilter("ignore")
logging.disable(logging.CRITICAL)
from atsim.potentials.config import Configuration
s="""[Tabulation]
target: setfl
nr: 3
nrho: 3
[EAM-Embed]
Al: as.zero
[EAM-Density]
Al: as.zero
Cu: as.zero
Ni: as.zero
Fe: as.zero
[Pair]
Al-Al: as.zero
"""
t=Configuration().read(io.StringIO(s))
print([p.species for p in t.eam_potentials])

"""Contracts for atsim/potentials/_lammps_writeTABLE.py and LAMMPS_PairTabulation (C01, C17)."""
import z3
from .common import *

FILE = 'atsim/potentials/_lammps_writeTABLE.py'

def grid_r(minr, maxr, G, k):
    """separation of 0-based row k"""
    return minr + real(k) * (maxr - minr) / (real(G) - 1)

def row(pot, minr, maxr, G, k):
    r = grid_r(minr, maxr, G, k)
    return cat(tok("%s %.8f %.8f %.8f", k + 1, r, E(pot, r), Fo(pot, r)), NL)

def hdr(pot, minr, maxr, G):
    return cat(tok("%s-%s", pot_A(pot), pot_B(pot)), NL,
               tok("N %d R %.8f %.8f", G, minr, maxr), NL, NL)

rows = SpecSeq('lmp_rows', [Pot, RealS, RealS, IntS], row, elem_len=8)

def block(pot, minr, maxr, G):
    return cat(hdr(pot, minr, maxr, G), rows(pot, minr, maxr, G, G))

PotList = z3.SeqSort(Pot)
blocks = SpecSeq('lmp_blocks', [PotList, RealS, RealS, IntS],
                 lambda ps, minr, maxr, G, k: z3.Unit(block(ps[k], minr, maxr, G)), result=DocList, elem_len=1)

def lammps_file(ps, minr, maxr, G):
    from pyvc.symexec import join_fn
    return join_fn(lit_doc("\n"), blocks(ps, minr, maxr, G, z3.Length(ps)))

REG.add(Contract(FILE, '_writeSinglePotential',
    params=[('pot', T.Obj('Potential')), ('minr', T.Real), ('maxr', T.Real), ('gridPoints', T.Int), ('out', T.Doc)],
    requires=lambda v: [v.gridPoints >= 2],
    modifies=['out'],
    ensures=lambda v, old, res: [v.out == cat(old.out, block(v.pot, v.minr, v.maxr, v.gridPoints))],
    invariants={0: lambda v, old: [v.sbuild == cat(hdr(v.pot, v.minr, v.maxr, v.gridPoints),
                                                   rows(v.pot, v.minr, v.maxr, v.gridPoints, v._i0 - 1)),
                                   v.out == old.out]},
    on_raise=lambda v, old: [v.out == old.out],
    carries=['post', 'preserve/0'], props=['C01', 'C17']))

REG.add(Contract(FILE, 'writePotentials',
    params=[('potentials', T.List(T.Obj('Potential'))), ('minr', T.Real), ('maxr', T.Real), ('gridPoints', T.Int), ('out', T.Doc)],
    requires=lambda v: [v.gridPoints >= 2],
    modifies=['out'],
    ensures=lambda v, old, res: [v.out == cat(old.out, lammps_file(v.potentials, v.minr, v.maxr, v.gridPoints))],
    invariants={0: lambda v, old: [v.potlines == blocks(v.potentials, v.minr, v.maxr, v.gridPoints, v._i0), v.out == old.out]},
    ghost={'potlines': T.Text},
    on_raise=lambda v, old: [v.out == old.out],
    carries=['post', 'preserve/0'], props=['C01', 'C17']))

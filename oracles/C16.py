"""C16 oracle: malformed models -> configuration error (potable prints 'configuration error - ...'); valid models accepted."""
from _cfg import *

BASE = {
 'Tabulation': [('target', 'LAMMPS'), ('nr', '12'), ('cutoff', '5.5')],
 'Pair': [('O-O', 'as.buck 1000.0 0.3 32.0'), ('O-U', 'sum(as.buck 1200.0 0.31 0.0, as.morse 1.6 2.4 0.5)'), ('U-U', '>0 as.zbl 92 92 >=0.8 as.polynomial 1.0 2.0')],
 'Potential-Form': [('myf(r, a, b)', 'a*r + b')],
}
def model(mods=None, extra=None, drop=()):
    secs = {k: list(v) for k, v in BASE.items() if k not in drop}
    for (sec, key), val in (mods or {}).items():
        es = secs.setdefault(sec, [])
        for i, (k, v) in enumerate(es):
            if k == key: es[i] = (k, val); break
        else: es.append((key, val))
    return render([], list(secs.items()) + (extra or []))

EAM = ('[Tabulation]\ntarget : setfl\nnr : 6\ncutoff : 5.0\nnrho : 5\ncutoff_rho : 10.0\n\n[EAM-Embed]\nAl : as.polynomial 0 1\n\n[EAM-Density]\nAl : as.polynomial 1 0\n\n[Pair]\nAl-Al : as.polynomial 1\n')
FS = EAM.replace('setfl', 'setfl_fs').replace('[EAM-Density]\nAl :', '[EAM-Density]\nAl->Al :')

MALFORMED = [
 ('unknown-target', model({('Tabulation', 'target'): 'NOTACODE'})),
 ('unknown-form', model({('Pair', 'O-O'): 'as.nothere 1 2'})),
 ('unknown-modifier', model({('Pair', 'O-O'): 'frob(as.buck 1 2 3)'})),
 ('too-few-parameters', model({('Pair', 'O-O'): 'as.buck 1000.0 0.3'})),
 ('too-many-parameters', model({('Pair', 'O-O'): 'as.buck 1000.0 0.3 32.0 1.0'})),
 ('custom-form-arity', model({('Pair', 'O-O'): 'myf 1.0'})),
 ('key-without-dash', model({('Pair', 'O'): 'as.buck 1000.0 0.3 32.0'})),
 ('key-with-two-dashes', model({('Pair', 'A-B-C'): 'as.buck 1000.0 0.3 32.0'})),
 ('fs-key-two-arrows', FS.replace('Al->Al :', 'Al->Al->Al :')),
 ('fs-key-no-arrow', FS.replace('Al->Al :', 'Al :')),
 ('nr-not-a-number', model({('Tabulation', 'nr'): 'twelve'})),
 ('cutoff-not-a-number', model({('Tabulation', 'cutoff'): '5,5'})),
 ('nr-one', model({('Tabulation', 'nr'): '1'})),
 ('nr-two-lammps', model({('Tabulation', 'target'): 'LAMMPS', ('Tabulation', 'nr'): '2'})),
 ('nr-four-dlpoly', model({('Tabulation', 'target'): 'DL_POLY', ('Tabulation', 'nr'): '4'})),
 ('nrho-one', EAM.replace('nrho : 5', 'nrho : 1')),
 ('step-larger-than-cutoff', '[Tabulation]\ntarget : GULP\ndr : 9.5\ncutoff : 5.5\n\n[Pair]\nO-O : as.buck 1000.0 0.3 32.0\n'),
 ('all-three-grid-options', model({('Tabulation', 'dr'): '0.5'})),
 ('negative-cutoff', model({('Tabulation', 'cutoff'): '-5.5'})),
 ('dlpoly-rows-not-multiple-of-4', model({('Tabulation', 'target'): 'DL_POLY', ('Tabulation', 'nr'): '13'})),
 ('not-an-ini-file', 'this is not\nan ini file at all\n'),
 ('unresolvable-placeholder', model({('Pair', 'O-O'): 'as.buck ${nothere} 0.3 32.0'})),
 ('cyclic-placeholder-self', '[Variables]\nrho : ${rho}\n\n' + model({('Pair', 'O-O'): 'as.buck 1000.0 ${rho} 32.0'})),
 ('cyclic-placeholder-pair', '[Variables]\nA : ${B}\nB : ${A}\n\n' + model({('Pair', 'O-O'): 'as.buck ${A} 0.3 32.0'})),
 ('bad-placeholder-syntax', model({('Pair', 'O-O'): 'as.buck $1000.0 0.3 32.0'})),
 ('spline-one-part', model({('Pair', 'O-O'): 'spline(as.buck 1000.0 0.3 32.0)'})),
 ('spline-two-parts', model({('Pair', 'O-O'): 'spline(as.zbl 8 8 >=0.8 exp_spline)'})),
 ('spline-four-parts', model({('Pair', 'O-O'): 'spline(as.zbl 8 8 >=0.8 exp_spline >=1.4 as.buck 1000.0 0.3 32.0 >=3 as.zero)'})),
 ('exp_spline-with-parameter', model({('Pair', 'O-O'): 'spline(as.zbl 8 8 >=0.8 exp_spline 1.0 >=1.4 as.buck 1000.0 0.3 32.0)'})),
 ('spline-unknown-type', model({('Pair', 'O-O'): 'spline(as.zbl 8 8 >=0.8 as.buck 1 2 3 >=1.4 as.buck 1000.0 0.3 32.0)'})),
 ('buck4_spline-missing-r_min', model({('Pair', 'O-O'): 'spline(as.bornmayer 1000.0 0.3 >=0.8 buck4_spline >=1.4 as.buck 0 1 32.0)'})),
 ('buck4_spline-r_min-above-attach', model({('Pair', 'O-O'): 'spline(as.bornmayer 1000.0 0.3 >=0.8 buck4_spline 5.0 >=1.4 as.buck 0 1 32.0)'})),
 ('buck4_spline-r_min-below-detach', model({('Pair', 'O-O'): 'spline(as.bornmayer 1000.0 0.3 >=0.8 buck4_spline 0.2 >=1.4 as.buck 0 1 32.0)'})),
 ('trans-modifier-as-shift', model({('Pair', 'O-O'): 'trans(as.buck 1000.0 0.3 32.0, sum(as.constant 1.0, as.constant 2.0))'})),
 ('trans-shift-with-two-parameters', model({('Pair', 'O-O'): 'trans(as.buck 1000.0 0.3 32.0, as.constant 1.0 2.0)'})),
 ('trans-one-argument', model({('Pair', 'O-O'): 'trans(as.buck 1000.0 0.3 32.0)'})),
 ('spline-modifier-as-spline-type', model({('Pair', 'O-O'): 'spline(as.bornmayer 1000.0 0.3 >=0.8 sum(as.constant 1.0, as.constant 2.0) >=1.4 as.buck 1000.0 0.3 32.0)'})),
 ('spline-ranges-out-of-order', model({('Pair', 'O-O'): 'spline(as.zbl 8 8 >=1.8 exp_spline >=1.4 as.buck 1000.0 0.3 32.0)'})),
 ('trans-without-constant', model({('Pair', 'O-O'): 'trans(as.buck 1000.0 0.3 32.0, as.zero)'})),
 ('trans-three-arguments', model({('Pair', 'O-O'): 'trans(as.buck 1000.0 0.3 32.0, as.constant 1, as.constant 2)'})),
 ('table-x-only', model({('Pair', 'O-O'): 'tab'}, extra=[('Table-Form:tab', [('x', '0 1 2 3 4')])])),
 ('table-y-only', model({('Pair', 'O-O'): 'tab'}, extra=[('Table-Form:tab', [('y', '0 1 2 3 4')])])),
 ('table-two-points', model({('Pair', 'O-O'): 'tab'}, extra=[('Table-Form:tab', [('x', '0 1'), ('y', '1 2')])])),
 ('table-length-mismatch', model({('Pair', 'O-O'): 'tab'}, extra=[('Table-Form:tab', [('x', '0 1 2 3 4'), ('y', '1 2 3')])])),
 ('table-odd-xy', model({('Pair', 'O-O'): 'tab'}, extra=[('Table-Form:tab', [('xy', '0 1 2 3 4')])])),
 ('table-non-numeric', model({('Pair', 'O-O'): 'tab'}, extra=[('Table-Form:tab', [('x', '0 1 b 3 4'), ('y', '1 2 3 4 5')])])),
 ('table-unknown-interpolation', model({('Pair', 'O-O'): 'tab'}, extra=[('Table-Form:tab', [('interpolation', 'linearish'), ('x', '0 1 2 3 4'), ('y', '1 2 3 4 5')])])),
 ('table-x-and-xy', model({('Pair', 'O-O'): 'tab'}, extra=[('Table-Form:tab', [('x', '0 1 2 3 4'), ('y', '1 2 3 4 5'), ('xy', '0 1 1 2')])])),
 ('species-atomic-number-text', EAM + '\n[Species]\nAl.atomic_number : x\n'),
 ('species-mass-text', EAM + '\n[Species]\nAl.atomic_mass : heavy\n'),
 ('eam-target-without-embed', EAM.replace('[EAM-Embed]\nAl : as.polynomial 0 1\n', '')),
 ('bad-formula', model({('Potential-Form', 'myf(r, a, b)'): 'a*r +* b', ('Pair', 'O-O'): 'myf 1.0 2.0'})),
 ('bad-signature', model({('Potential-Form', 'myf(r, a, b'): 'a*r + b'})),
 ('range-marker-garbage', model({('Pair', 'O-O'): '>abc as.buck 1000.0 0.3 32.0'})),
 ('empty-definition', model({('Pair', 'O-O'): ''})),
 ('duplicate-section', model() + '\n[Pair]\nZr-Zr : as.zero\n'),
]
DOCUMENTED_TARGETS = ['LAMMPS', 'DLPOLY', 'DL_POLY', 'GULP', 'excel', 'setfl', 'lammps_eam_alloy', 'LAMMPS_eam_alloy', 'setfl_fs', 'DL_POLY_EAM', 'DL_POLY_EAM_fs', 'excel_eam', 'excel_eam_fs', 'eam_adp']
VALID = [('base', model()), ('eam', EAM), ('fs', FS),
         ('table-cubic_spline', model({('Pair', 'O-O'): 'tab'}, extra=[('Table-Form:tab', [('interpolation', 'cubic_spline'), ('x', '0 1 2 3 4'), ('y', '1 2 3 4 5')])])),
         ('spline-exp', model({('Pair', 'O-O'): 'spline(as.zbl 8 8 >=0.8 exp_spline >=1.4 as.buck 1000.0 0.3 32.0)'})),
         ('trans-of-a-modifier', model({('Pair', 'O-O'): 'trans(sum(as.buck 1000.0 0.3 32.0, as.constant 1.0), as.constant 0.5)'})),
         ('spline-modifier-start', model({('Pair', 'O-O'): 'spline(sum(as.bornmayer 1000.0 0.3, as.constant 1.0) >=0.8 exp_spline >=1.4 as.buck 1000.0 0.3 32.0)'})),
         ('spline-modifier-end', model({('Pair', 'O-O'): 'spline(as.bornmayer 1000.0 0.3 >=0.8 exp_spline >=1.4 sum(as.buck 1000.0 0.3 32.0, as.constant 1.0))'})),
         ('spline-buck4-modifier-both-ends', model({('Pair', 'O-O'): 'spline(product(as.bornmayer 1000.0 0.3, as.constant 1.0) >=0.8 buck4_spline 1.1 >=1.4 sum(as.buck 0 1 32.0, as.constant 0.0))'})),
         ('spline-buck4', model({('Pair', 'O-O'): 'spline(as.bornmayer 1000.0 0.3 >=0.8 buck4_spline 1.1 >=1.4 as.buck 0 1 32.0)'})),
         ('variables', '[Variables]\nnsteps : 12\nrho : 0.32\n\n' + model({('Tabulation', 'nr'): '${nsteps}', ('Pair', 'O-O'): 'as.buck 500 ${rho} 32.0'}))]

def classify(ini):
    code, so, se, text = potable([], ini)
    if code == 0: return 'accepted', text
    if isinstance(code, str): return code, None
    if 'configuration error' in se: return 'configuration-error', text
    return 'other-exit(%r): %s' % (code, se[-100:]), text

def check_case(rep, case, name):
    kind, ini = case['kind'], case['ini']
    res, text = classify(ini)
    if kind == 'malformed':
        if res != 'configuration-error': rep.dev(name, case, res, 'configuration error'); return
        if text: rep.dev(name, case, 'configuration error but %d bytes were written' % len(text), 'no table'); return
    else:
        if res != 'accepted': rep.dev(name, case, res, 'accepted'); return
    rep.ok()

if __name__ == '__main__':
    pl = payload(); rep = Report('C16')
    if pl.get('mode') == 'replay': rep.case('replay', pl['input']); check_case(rep, pl['input'], 'replay')
    else:
        for nm, ini in MALFORMED:
            c = dict(kind='malformed', name=nm, ini=ini); rep.case('malformed', c); check_case(rep, c, nm)
        for nm, ini in VALID:
            c = dict(kind='valid', name=nm, ini=ini); rep.case('valid', c); check_case(rep, c, nm)
        for t in DOCUMENTED_TARGETS:
            src = FS if t.endswith('_fs') else (EAM if ('eam' in t.lower() or t == 'setfl') else model())
            import re
            ini = re.sub(r'target : \S+', 'target : ' + t, src)
            if t == 'eam_adp': ini += '\n[EAM-ADP-Dipole]\nAl-Al : as.polynomial 0.5\n\n[EAM-ADP-Quadrupole]\nAl-Al : as.polynomial 0.25\n'
            c = dict(kind='valid', name='target-' + t, ini=ini); rep.case('valid-target', c); check_case(rep, c, 'target-' + t)
    rep.finish()

"""C06 oracle: every built-in form through its four access routes against the documented formula (50-digit evaluation)."""
from _expr import *
from atsim.potentials import potentialfunctions as pfn

def routes(name, params):
    out = {}
    out['function'] = lambda x: getattr(pfn, name)(x, *params)
    out['factory'] = getattr(pf, name)(*params)
    out['as.NAME'] = from_config('>=0 ' + to_config(('leaf', name, params)))
    if params or True:
        sig = 'myform(r_)'; expr = 'as.%s(%s)' % (name, ','.join(['r_'] + [repr(p) for p in params]))
        out['custom-formula'] = from_config('>=0 myform', '\n[Potential-Form]\n%s = %s\n' % (sig, expr))
    return out

def check_case(rep, case, name):
    nm, params = case['form'], case['params']
    f0, f1, f2 = exact(('leaf', nm, params))
    try: rs = routes(nm, params)
    except Exception as e: rep.dev(name, case, 'exception %r' % (e,), 'four routes'); return
    for route, f in rs.items():
        if case.get('route') and route != case['route']: continue
        for x in case['rs']:
            if x < min_r(('leaf', nm, params)): continue
            want = float(f0(x))
            try: got = f(x)
            except Exception as e: rep.dev(name, dict(case, route=route, rs=[x]), 'exception %r' % (e,), want); return
            if abs(got - want) > 1e-9 * max(1.0, abs(want)): rep.dev(name, dict(case, route=route, rs=[x]), '%s(%r)=%r' % (route, x, got), want); return
            rep.ok()

def buck4_reference(A, rho, C, d, m, a):
    """the documented four-range Buckingham form solved independently: Born-Mayer up to d, a fifth-order polynomial on [d, m], a third-order
    polynomial on [m, a] (both with zero slope at m, value and curvature continuous there), -C/r^6 beyond a; value, slope and curvature
    continuous at d and a (ten linear conditions)"""
    import numpy as np
    M = np.zeros((10, 10)); b = np.zeros(10)
    p5 = lambda x, n: [(math.factorial(i) / math.factorial(i - n)) * x ** (i - n) if i >= n else 0.0 for i in range(6)]
    p3 = lambda x, n: [(math.factorial(i) / math.factorial(i - n)) * x ** (i - n) if i >= n else 0.0 for i in range(4)]
    bm = [A * math.exp(-d / rho), -A / rho * math.exp(-d / rho), A / rho ** 2 * math.exp(-d / rho)]
    dp = [-C / a ** 6, 6 * C / a ** 7, -42 * C / a ** 8]
    for n in range(3): M[n, :6] = p5(d, n); b[n] = bm[n]
    M[3, :6] = p5(m, 1); M[4, 6:] = p3(m, 1)
    M[5, :6] = p5(m, 0); M[5, 6:] = [-v for v in p3(m, 0)]
    M[6, :6] = p5(m, 2); M[6, 6:] = [-v for v in p3(m, 2)]
    for n in range(3): M[7 + n, 6:] = p3(a, n); b[7 + n] = dp[n]
    co = np.linalg.solve(M, b)
    def f(r):
        if r <= d: return A * math.exp(-r / rho)
        if r <= m: return float(sum(c * r ** i for i, c in enumerate(co[:6])))
        if r <= a: return float(sum(c * r ** i for i, c in enumerate(co[6:])))
        return -C / r ** 6
    return f

def buck4_cases(rep, rng, n):
    plist = [[905.7, 0.3, 0.0, 1.5, 2.5, 3.25], [1000.0, 0.3, 30.0, 1.0, 2.0, 3.0], [0.0, 0.3, 25.0, 1.2, 2.1, 2.6]]
    for _ in range(n): plist.append([round(rng.uniform(500, 5000), 1), round(rng.uniform(0.25, 0.4), 3), rng.choice([0.0, round(rng.uniform(5, 100), 1)]), 1.2, 2.1, 2.6])
    for params in plist:
        case = dict(form='buck4', params=params); rep.case('buck4', case)
        ref = buck4_reference(*params)
        try: rs = {'factory': pf.buck4(*params), 'as.NAME': from_config('>=0 as.buck4 ' + ' '.join(repr(p) for p in params))}
        except Exception as e: rep.dev('buck4-%s' % params, case, 'exception %r' % (e,), 'two routes'); continue
        d, m, a = params[3:]
        bad = None
        for route, f in rs.items():
            for x in (0.5 * d, d, (d + m) / 2, m, (m + a) / 2, a, a + 0.8):
                want = ref(x); got = f(x)
                if abs(got - want) > 1e-7 * max(1.0, abs(want)): bad = (route, x, got, want); break
            if bad: break
        if bad: rep.dev('buck4-%s' % params, dict(case, route=bad[0], rs=[bad[1]]), '%s(%r)=%r' % (bad[0], bad[1], bad[2]), bad[3])
        else: rep.ok()

if __name__ == '__main__':
    pl = payload(); rep = Report('C06')
    if pl.get('mode') == 'replay' and pl['input'].get('form') == 'buck4': buck4_cases(rep, random.Random(0), 0)
    elif pl.get('mode') == 'replay': rep.case('replay', pl['input']); check_case(rep, pl['input'], 'replay')
    else:
        rng = random.Random(pl.get('seed', 0))
        buck4_cases(rep, rng, 3)
        for rnd_i in range(pl.get('n', 1)):
            order = sorted(LEAVES); rng.shuffle(order)       # the order of evaluation varies: forms must not depend on history
            for nm in order:
                c = dict(form=nm, params=[rnd(p) for p in LEAVES[nm][0](rng)], rs=[round(rng.uniform(0.5, 6), 3) for _ in range(3)] + [1.0])
                rep.case(nm, c); check_case(rep, c, '%s-%d' % (nm, rnd_i))
        # one parameter exactly zero (the statement's "including zero ... parameters"): a short-cut taken for a vanishing coefficient must not drop other terms
        for nm in sorted(LEAVES):
            base = [rnd(p) for p in LEAVES[nm][0](rng)]
            for i_ in range(len(base)):
                ps = list(base); ps[i_] = 0 if isinstance(base[i_], int) else 0.0
                try:
                    if not math.isfinite(float(exact(('leaf', nm, ps))[0](1.3))): continue
                except Exception: continue            # the documented formula itself is undefined for this zero (a length scale): not a parameter set of the form's domain
                c = dict(form=nm, params=ps, rs=[0.9, 1.3, 2.7]); rep.case(nm + '/zero-parameter', c); check_case(rep, c, '%s-zero-%d' % (nm, i_))
        # one file that uses a form twice with parameter vectors that agree to six significant figures; and more than 32 parametrisations of one
        # form in one process followed by the first ones again (both routes that keep a factory): every use evaluates ITS OWN parameters
        import math
        from atsim.potentials.config import Configuration
        for nm, p1, p2 in (('buck', [1388.771, 0.3623, 175.0], [1388.774, 0.3623, 175.0]), ('polynomial', [0, 1000000, -3], [0, 1000001, -3]), ('bornmayer', [1200.0, 0.3000001], [1200.0, 0.3000004]),
                           ('lj', [0.2500001, 2.5], [0.2500003, 2.5])):
            ini = '[Tabulation]\ntarget : LAMMPS\nnr : 11\ncutoff : 10.0\n\n[Pair]\nA-A : >=0 %s\nA-B : >=0 %s\n' % (to_config(('leaf', nm, p1)), to_config(('leaf', nm, p2)))
            c = dict(form=nm, params=p2, near=p1, rs=[0.9, 1.7]); rep.case(nm + '/near-equal-parameters', c)
            try:
                tab = Configuration().read(io.StringIO(ini)); f2 = [p_ for p_ in tab.potentials if p_.speciesB == 'B'][0].potentialFunction; w2 = exact(('leaf', nm, p2))[0]
                bad = [(x, f2(x), float(w2(x))) for x in c['rs'] if abs(f2(x) - float(w2(x))) > 1e-10 * max(1.0, abs(float(w2(x))))]
                if bad: rep.dev('%s-near-equal' % nm, dict(c, route='as.NAME', ini=ini), 'second entry at %r = %r' % bad[0][:2], bad[0][2])
                else: rep.ok(2)
            except Exception as e: rep.dev('%s-near-equal' % nm, dict(c, ini=ini), 'exception %r' % (e,), 'two potentials')
        for nm in ('buck', 'morse'):
            plist = [[rnd(p) for p in LEAVES[nm][0](rng)] for _ in range(40)]
            c = dict(form=nm, params=plist[0], many=40, rs=[1.1, 2.3]); rep.case(nm + '/many-parametrisations', c)
            try:
                fac = getattr(pf, nm); fs = [fac(*p) for p in plist]; again = [fac(*p) for p in plist[:6]]
                lines = ['P%d-Q%d : >=0 %s' % (i, i, to_config(('leaf', nm, p))) for i, p in enumerate(plist + plist[:6])]
                tab = Configuration().read(io.StringIO('[Tabulation]\ntarget : LAMMPS\nnr : 11\ncutoff : 10.0\n\n[Pair]\n' + '\n'.join(lines) + '\n'))
                cfg = {p_.speciesA: p_.potentialFunction for p_ in tab.potentials}
                bad = None
                for i, p in enumerate(plist[:6]):
                    w = exact(('leaf', nm, p))[0]
                    for x in c['rs']:
                        for route, g in (('factory', again[i]), ('as.NAME', cfg['P%d' % (40 + i)])):
                            if abs(g(x) - float(w(x))) > 1e-9 * max(1.0, abs(float(w(x)))): bad = (route, i, x, g(x), float(w(x)))
                        for route, g in (('factory.deriv', getattr(again[i], 'deriv', None)),):
                            if g is not None and abs(g(x) - float(exact(('leaf', nm, p))[1](x))) > 1e-7 * max(1.0, abs(float(exact(('leaf', nm, p))[1](x)))): bad = (route, i, x, g(x), float(exact(('leaf', nm, p))[1](x)))
                if bad: rep.dev('%s-many' % nm, dict(c, route=bad[0], params=plist[bad[1]], rs=[bad[2]]), '%s of parameter set %d requested again after 40 others, at %r: %r' % (bad[0], bad[1], bad[2], bad[3]), bad[4])
                else: rep.ok(24)
            except Exception as e: rep.dev('%s-many' % nm, c, 'exception %r' % (e,), 'potentials')
        # same unordered charge product, different pairs (history dependence through caches keyed on derived quantities)
        for nm, plist in (('zbl', [[6, 6], [2, 18], [4, 9], [3, 12]]), ('coul', [[2, 2], [1, 4], [4, 1]]), ('lj', [[0.1, 2.0], [0.2, 1.0]])):
            for params in plist:
                c = dict(form=nm, params=params, rs=[0.8, 1.7, 3.1]); rep.case(nm, c); check_case(rep, c, '%s-%s' % (nm, params))
    rep.finish()

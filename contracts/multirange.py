"""Contracts for _multi_range_potential_form.py (C08, C07)."""
import z3
from .common import *

FILE = 'atsim/potentials/_multi_range_potential_form.py'
REG.add_class(ClassDecl(FILE, 'Multi_Range_Defn', {'_range_type': T.Str, '_start': T.Real, '_potential_form': T.Fn, '_deriv_callable': T.Fn, '_deriv2_callable': T.Fn}))
_mf = {'default_value': T.Real, '_range_defns': T.List(T.Obj('Multi_Range_Defn'))}
REG.add_class(ClassDecl(FILE, 'Multi_Range_Potential_Form', _mf))
REG.add_class(ClassDecl(FILE, 'Multi_Range_Potential_Form_Deriv', {}, bases=['Multi_Range_Potential_Form']))
REG.add_class(ClassDecl(FILE, 'Multi_Range_Potential_Form_Deriv2', {}, bases=['Multi_Range_Potential_Form']))

RD = ObjSort('Multi_Range_Defn'); RDList = z3.SeqSort(RD)
start = field('Multi_Range_Defn', '_start', RealS); rtype = field('Multi_Range_Defn', '_range_type', StrS)
pform = field('Multi_Range_Defn', '_potential_form', Fn); dcall = field('Multi_Range_Defn', '_deriv_callable', Fn); d2call = field('Multi_Range_Defn', '_deriv2_callable', Fn)
GE, GT = z3.StringVal('>='), z3.StringVal('>')

def holds(t, r):
    """the range t contains r: r > start, or r >= start for an inclusive range"""
    return z3.Or(r > start(t), z3.And(r == start(t), rtype(t) == GE))

def canonical(rt):
    """what the range_defns setter establishes (sort with _range_defn_cmp): start ascending, at equal start '>=' before '>';
    markers are one of the two strings"""
    i, j = z3.Int('i!c'), z3.Int('j!c')
    n = z3.Length(rt)
    return [z3.ForAll([i, j], z3.Implies(z3.And(0 <= i, i < j, j < n),
                                         z3.And(start(rt[i]) <= start(rt[j]),
                                                z3.Implies(start(rt[i]) == start(rt[j]), z3.Not(z3.And(rtype(rt[i]) == GT, rtype(rt[j]) == GE)))))),
            z3.ForAll([i], z3.Implies(z3.And(0 <= i, i < n), z3.Or(rtype(rt[i]) == GE, rtype(rt[i]) == GT)))]

def key_le(a, b):
    """canonical order of ranges: by start, at equal start '>=' before '>'"""
    return z3.Or(start(a) < start(b), z3.And(start(a) == start(b), z3.Or(rtype(a) == GE, rtype(b) == GT)))

def selected(rt, r, res_isnone, res):
    """C08 statement: the selected range contains r and no range that contains r comes later in canonical order (greatest
    start; at a shared start the inclusive one exactly at the boundary, the exclusive one beyond it); None iff no range contains r"""
    j, i = z3.Int('j!s'), z3.Int('i!s')
    n = z3.Length(rt)
    return [z3.ForAll([j], z3.Implies(z3.And(res_isnone, 0 <= j, j < n), z3.Not(holds(rt[j], r)))),
            z3.Implies(z3.Not(res_isnone), holds(res, r)),
            z3.ForAll([j], z3.Implies(z3.And(z3.Not(res_isnone), 0 <= j, j < n, holds(rt[j], r)), key_le(rt[j], res))),
            z3.Implies(z3.Not(res_isnone), z3.Exists([i], z3.And(0 <= i, i < n, rt[i] == res)))]

_rt = field('Multi_Range_Potential_Form', '_range_defns', RDList)

def _search_inv(v, old):
    rt = _rt(v.self); k = v._i0; r = v.r
    last = v.val('last')         # Opt
    j = z3.Int('j!i')
    return [z3.Length(rt) >= 1, r >= start(rt[0]), z3.Not(z3.And(r == start(rt[0]), rtype(rt[0]) == GT)),
            last.isnone == (k == 0), z3.Implies(k > 0, last.val.z == rt[k - 1]),
            z3.Implies(k > 0, r > start(rt[k - 1])),       # every range passed so far starts below r
            # no earlier element made the loop return
            z3.ForAll([j], z3.Implies(z3.And(0 <= j, j < k), z3.Not(z3.And(r == start(rt[j]), rtype(rt[j]) == GE)))),
            z3.ForAll([j], z3.Implies(z3.And(1 <= j, j < k), z3.Not(z3.And(r <= start(rt[j]), r > start(rt[j - 1])))))]

REG.add(Contract(FILE, 'Multi_Range_Potential_Form._range_search',
    params=[('self', T.Obj('Multi_Range_Potential_Form')), ('r', T.Real)],
    requires=lambda v: canonical(_rt(v.self)),
    result=T.Opt(T.Obj('Multi_Range_Defn')),
    ensures=lambda v, old, res: selected(_rt(v.self), v.r, res.isnone, res.val.z),
    post_names=['none-iff-no-range-contains-r', 'selected-contains-r', 'no-later-range-contains-r', 'selected-is-one-of-the-ranges'],
    invariants={0: _search_inv}, ghost={'last': T.Opt(T.Obj('Multi_Range_Defn'))}, instantiate_int_foralls=True,
    carries=['post'], props=['C08', 'C07']))

# the result of the (pure, deterministic) search is given a name so that callers can talk about "the selected range"
SELNONE = z3.Function('mr_none', RDList, RealS, BoolS)
SEL = z3.Function('mr_sel', RDList, RealS, RD)
REG.get(FILE, 'Multi_Range_Potential_Form._range_search').names_result = \
    lambda v, res: [res.isnone == SELNONE(_rt(v.self), v.r), z3.Implies(z3.Not(res.isnone), res.val.z == SEL(_rt(v.self), v.r))]
_dv = field('Multi_Range_Potential_Form', 'default_value', RealS)

def _mr(cls, meth, value_of, none_value, props):
    # the three classes share the fields of Multi_Range_Potential_Form; methods are looked up along the MRO
    rtf = field(cls, '_range_defns', RDList)
    return Contract(FILE, '%s.%s' % (cls, meth), params=[('self', T.Obj(cls)), ('r', T.Real)],
        requires=lambda v: canonical(rtf(v.self)), result=T.Real,
        ensures=lambda v, old, res: [res == z3.If(SELNONE(rtf(v.self), v.r), none_value(v), app(value_of(SEL(rtf(v.self), v.r)), v.r))],
        carries=['post'], props=props)

REG.add(_mr('Multi_Range_Potential_Form', '__call__', pform, lambda v: _dv(v.self), ['C08']))
REG.add(_mr('Multi_Range_Potential_Form_Deriv', 'deriv', dcall, lambda v: z3.RealVal(0), ['C08', 'C07']))
REG.add(_mr('Multi_Range_Potential_Form_Deriv2', 'deriv2', d2call, lambda v: z3.RealVal(0), ['C08', 'C07']))
# the search contract must be reachable for the subclasses' self type as well
for _cls in ('Multi_Range_Potential_Form_Deriv', 'Multi_Range_Potential_Form_Deriv2'):
    pass

def _r(): return z3.Real('r!q')
REG.add(Contract(FILE, 'Multi_Range_Defn.__init__',
    params=[('self', T.New('Multi_Range_Defn')), ('range_type', T.Str), ('start', T.Real), ('potential_form', T.Fn)],
    ensures=lambda v, old, res: [v.field('self', '_range_type') == v.range_type, v.field('self', '_start') == v.start,
                                 v.field('self', '_potential_form') == v.potential_form,
                                 z3.ForAll([_r()], app(v.field('self', '_deriv_callable'), _r()) == gradspec(v.potential_form, z3.RealVal('1/1000000'), _r())),
                                 # second derivative: gradient of the gradient wrapper = deriv2 when offered
                                 z3.Implies(has_deriv2(v.potential_form),
                                            z3.ForAll([_r()], app(v.field('self', '_deriv2_callable'), _r()) == app(d2fn(v.potential_form), _r())))],
    post_names=['marker', 'start', 'form', 'deriv-is-gradient-of-the-form', 'deriv2-is-the-forms-deriv2-when-offered'],
    carries=['post'], props=['C08', 'C07']))

REG.add(Contract(FILE, '_range_defn_cmp',
    params=[('a', T.Obj('Multi_Range_Defn')), ('b', T.Obj('Multi_Range_Defn'))], result=T.Int,
    requires=lambda v: [z3.Or(rtype(v.a) == GE, rtype(v.a) == GT), z3.Or(rtype(v.b) == GE, rtype(v.b) == GT)],
    ensures=lambda v, old, res: [(res < 0) == z3.And(key_le(v.a, v.b), z3.Not(key_le(v.b, v.a))),
                                 (res > 0) == z3.And(key_le(v.b, v.a), z3.Not(key_le(v.a, v.b))),
                                 (res == 0) == z3.And(start(v.a) == start(v.b), rtype(v.a) == rtype(v.b))],
    post_names=['negative-iff-a-strictly-before-b', 'positive-iff-b-strictly-before-a', 'zero-iff-same-key'],
    carries=['post'], props=['C08']))
REG.get(FILE, '_range_defn_cmp').order_le = key_le      # cmp(a, b) <= 0 iff a comes no later than b in canonical order (lemma 'comparator-order' below)

# the setter sorts with that comparator: it establishes `canonical`, the precondition of the range search
def _valid_markers(rt):
    i = z3.Int('i!vm')
    return z3.ForAll([i], z3.Implies(z3.And(0 <= i, i < z3.Length(rt)), z3.Or(rtype(rt[i]) == GE, rtype(rt[i]) == GT)))
def _setter_post(v, old, res):
    rt = v.field('self', '_range_defns'); x = z3.Const('x!sp', RD)
    return canonical(rt) + [z3.Length(rt) == z3.Length(v.range_defns), z3.ForAll([x], z3.Contains(rt, z3.Unit(x)) == z3.Contains(v.range_defns, z3.Unit(x)))]
REG.add(Contract(FILE, 'Multi_Range_Potential_Form.range_defns.setter',
    params=[('self', T.New('Multi_Range_Potential_Form')), ('range_defns', T.List(T.Obj('Multi_Range_Defn')))],
    requires=lambda v: [_valid_markers(v.range_defns)], ensures=_setter_post,
    post_names=['start-ascending-inclusive-before-exclusive', 'markers-valid', 'same-number-of-ranges', 'same-ranges'], instantiate_int_foralls=True,
    carries=['post'], props=['C08']))

# the constructor: default value 0.0 unless given, the ranges sorted by the setter (callers in the handled subset pass no keyword arguments)
REG.add(Contract(FILE, 'Multi_Range_Potential_Form.__init__',
    params=[('self', T.New('Multi_Range_Potential_Form')), ('range_defns', T.List(T.Obj('Multi_Range_Defn')))],
    requires=lambda v: [_valid_markers(v.range_defns)],
    ensures=lambda v, old, res: [v.field('self', 'default_value') == 0] + _setter_post(v, old, res),
    post_names=['default-value-zero-without-keyword', 'start-ascending-inclusive-before-exclusive', 'markers-valid', 'same-number-of-ranges', 'same-ranges'],
    instantiate_int_foralls=True, carries=['post'], props=['C08']))

# create_Multi_Range_Potential_Form: the class is chosen by the derivatives the ranges' forms offer (some deriv2 -> _Deriv2; else some
# deriv -> _Deriv; else the base class), the object is built over exactly the given ranges with the default value 0.0
from pyvc.spec import SpecAcc
any_d2 = SpecAcc('some_range_offers_deriv2', [RDList], lambda rt: z3.BoolVal(False), lambda rt, t, prev: z3.Or(prev, has_deriv2(pform(rt[t]))), result=BoolS)
any_d1 = SpecAcc('some_range_offers_deriv', [RDList], lambda rt: z3.BoolVal(False), lambda rt, t, prev: z3.Or(prev, has_deriv(pform(rt[t]))), result=BoolS)
def _create_post(v, old, res):
    rt = old.range_tuples; n = z3.Length(rt)
    cls = res.sort().name()[len('Obj_'):]
    d2, d1 = any_d2(rt, n), any_d1(rt, n)
    want = {'Multi_Range_Potential_Form_Deriv2': d2, 'Multi_Range_Potential_Form_Deriv': z3.And(z3.Not(d2), d1),
            'Multi_Range_Potential_Form': z3.And(z3.Not(d2), z3.Not(d1))}.get(cls, z3.BoolVal(False))
    got = field(cls, '_range_defns', RDList)(res); x = z3.Const('x!cp', RD)
    return [want, field(cls, 'default_value', RealS)(res) == 0] + canonical(got) + \
           [z3.Length(got) == n, z3.ForAll([x], z3.Contains(got, z3.Unit(x)) == z3.Contains(rt, z3.Unit(x)))]
REG.add(Contract(FILE, 'create_Multi_Range_Potential_Form@construction',
    params=[('range_tuples', T.List(T.Obj('Multi_Range_Defn')))], result=T.Any,
    requires=lambda v: [_valid_markers(v.range_tuples)], ensures=_create_post,
    post_names=['class-by-offered-derivatives', 'default-value-zero', 'start-ascending-inclusive-before-exclusive', 'markers-valid', 'same-number-of-ranges', 'same-ranges'],
    invariants={0: lambda v, old: [v.any_deriv2 == any_d2(old.range_tuples, v._i0), v.any_deriv == any_d1(old.range_tuples, v._i0)]},
    instantiate_int_foralls=True, carries=['post'], props=['C08']))

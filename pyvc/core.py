"""pyvc core: SMT sorts, symbolic values, canonical formatting tokens.

Everything here is shared by the symbolic executor (symexec.py), the spec library
(spec.py) and the sidecar contracts.  Engines run under python3-vt and only read /repo
as text.
"""
import re
import z3

# ----------------------------------------------------------------------------------
# sorts
# ----------------------------------------------------------------------------------
IntS, RealS, BoolS, StrS = z3.IntSort(), z3.RealSort(), z3.BoolSort(), z3.StringSort()

_Val = z3.Datatype('Val')
_Val.declare('VI', ('vi', IntS))
_Val.declare('VR', ('vr', RealS))
_Val.declare('VS', ('vs', StrS))
_Val.declare('VN')
Val = _Val.create()

# A token is either a literal chunk of text (identified by the id of the chunk in a
# table kept by this module) or a conversion field applied to one value.
_Tok = z3.Datatype('Tok')
_Tok.declare('Lit', ('lit', IntS))
_Tok.declare('Fld', ('spec', IntS), ('arg', Val))
Tok = _Tok.create()
Doc = z3.SeqSort(Tok)          # a piece of text / a whole file
DocList = z3.SeqSort(Doc)      # a Python list of strings
ValList = z3.SeqSort(Val)      # a Python list of scalars
Fn = z3.DeclareSort('Fn')      # a Python callable of one real argument

_obj_sorts = {}
def ObjSort(cls):
    if cls not in _obj_sorts:
        _obj_sorts[cls] = z3.DeclareSort('Obj_' + cls)
    return _obj_sorts[cls]

# a binary combinator of callables passed around as a value (functools.reduce(plus, fs)): comb2(c, f, g) is the callable c(f, g)
CombS = z3.DeclareSort('Comb')
comb2 = z3.Function('comb2', CombS, Fn, Fn, Fn)
def comb_const(file, qualname): return z3.Const('comb:%s::%s' % (file, qualname), CombS)

# application of a callable, and "this evaluation raises"
app = z3.Function('app', Fn, RealS, RealS)
raises = z3.Function('raises', Fn, RealS, BoolS)
has_deriv = z3.Function('has_deriv', Fn, BoolS)
has_deriv2 = z3.Function('has_deriv2', Fn, BoolS)
dfn = z3.Function('dfn', Fn, Fn)        # the callable stored as .deriv
d2fn = z3.Function('d2fn', Fn, Fn)      # the callable stored as .deriv2

# eta(g): the plain Python function  lambda r: g(r)  — same values, same failures, no .deriv/.deriv2 attributes
eta = z3.Function('eta', Fn, Fn)
def eta_axioms():
    g, r = z3.Const('g!eta', Fn), z3.Real('r!eta')
    return [z3.ForAll([g, r], app(eta(g), r) == app(g, r), patterns=[app(eta(g), r)]),
            z3.ForAll([g, r], raises(eta(g), r) == raises(g, r), patterns=[raises(eta(g), r)]),
            z3.ForAll([g], z3.And(z3.Not(has_deriv(eta(g))), z3.Not(has_deriv2(eta(g)))), patterns=[eta(g)])]

_fields = {}
def field(cls, name, sort):
    """selector function for attribute `name` of objects of class `cls`"""
    key = (cls, name)
    if key not in _fields:
        _fields[key] = z3.Function('%s.%s' % (cls, name), ObjSort(cls), sort)
    f = _fields[key]
    assert f.range() == sort, (cls, name, f.range(), sort)
    return f

# ----------------------------------------------------------------------------------
# canonical templates
# ----------------------------------------------------------------------------------
_LITS = {}     # chunk text -> id
_SPECS = {}    # (conv, flags, width, prec) -> id
_LIT_BY_ID, _SPEC_BY_ID = {}, {}

def lit_id(text):
    if text not in _LITS:
        _LITS[text] = len(_LITS) + 1
        _LIT_BY_ID[_LITS[text]] = text
    return _LITS[text]

def spec_id(spec):
    if spec not in _SPECS:
        _SPECS[spec] = len(_SPECS) + 1
        _SPEC_BY_ID[_SPECS[spec]] = spec
    return _SPECS[spec]

def lit_text(i): return _LIT_BY_ID[i]
def spec_of(i): return _SPEC_BY_ID[i]

_PCT = re.compile(r'%(?:\((\w+)\))?([-+ #0]*)(\d+)?(?:\.(\d+))?([sdfeEgGirx%])')
_BRACE = re.compile(r'\{(\w*)(?::([^{}]*))?\}|\{\{|\}\}')
_BSPEC = re.compile(r'^(?:(.)?([<>=^]))?([-+ ])?(#)?(0)?(\d+)?(?:\.(\d+))?([sdfeEgGn%])?$')

class Template(object):
    """A parsed format string: list of ('lit', text) and ('fld', key, spec)."""
    def __init__(self, parts): self.parts = parts
    def keys(self): return [p[1] for p in self.parts if p[0] == 'fld']

def parse_percent(t):
    parts, pos, n = [], 0, 0
    for m in _PCT.finditer(t):
        if m.start() > pos: parts.append(('lit', t[pos:m.start()]))
        pos = m.end()
        name, flags, width, prec, conv = m.groups()
        if conv == '%':
            parts.append(('lit', '%')); continue
        if conv == 'i': conv = 'd'
        flags = ''.join(sorted(set(flags)))
        spec = (conv, flags, int(width) if width else None, int(prec) if prec else None)
        parts.append(('fld', name if name is not None else n, spec)); n += 1
    if pos < len(t): parts.append(('lit', t[pos:]))
    return Template(_merge_lits(parts))

def parse_brace(t):
    parts, pos, n = [], 0, 0
    for m in _BRACE.finditer(t):
        if m.start() > pos: parts.append(('lit', t[pos:m.start()]))
        pos = m.end()
        if m.group(0) == '{{': parts.append(('lit', '{')); continue
        if m.group(0) == '}}': parts.append(('lit', '}')); continue
        key, fs = m.group(1), m.group(2) or ''
        bm = _BSPEC.match(fs)
        if not bm: raise Unsupported('format spec %r' % fs)
        fill, align, sign, alt, zero, width, prec, conv = bm.groups()
        if fill or align: raise Unsupported('format spec %r' % fs)
        flags = ''.join(sorted(set((sign or '').replace('-', '') + (alt or '') + (zero or ''))))
        spec = (conv or 's', flags, int(width) if width else None, int(prec) if prec else None)
        if key == '': key = n; n += 1
        elif key.isdigit(): key = int(key)
        parts.append(('fld', key, spec))
    if pos < len(t): parts.append(('lit', t[pos:]))
    return Template(_merge_lits(parts))

def _merge_lits(parts):
    out = []
    for p in parts:
        if p[0] == 'lit' and out and out[-1][0] == 'lit': out[-1] = ('lit', out[-1][1] + p[1])
        else: out.append(p)
    return out

class Unsupported(Exception):
    """construct outside the handled subset -> checker error, never a verdict"""

# ----------------------------------------------------------------------------------
# document construction
# ----------------------------------------------------------------------------------
EMPTY = z3.Empty(Doc)

def cat(*docs):
    docs = [d for d in docs if not z3.eq(d, EMPTY)] if len(docs) > 1 else list(docs)
    if not docs: return EMPTY
    if len(docs) == 1: return docs[0]
    return z3.Concat(*docs)

def lit_doc(text):
    """literal text -> Doc; newlines are separate tokens, so print(x) == write(x + '\\n')"""
    if text == '': return EMPTY
    toks = []
    for chunk in re.split(r'(\n)', text):
        if chunk == '': continue
        toks.append(z3.Unit(Tok.Lit(lit_id(chunk))))
    return cat(*toks)

NL = lit_doc('\n')

def to_val(z):
    s = z.sort()
    if s == Val: return z
    if s == IntS: return Val.VI(z)
    if s == RealS: return Val.VR(z)
    if s == StrS: return Val.VS(z)
    if s == BoolS: return Val.VI(z3.If(z, 1, 0))
    raise Unsupported('cannot put %s into a format field' % s)

def trunc(x):
    """Python int() of a real: truncation toward zero"""
    return z3.If(x >= 0, z3.ToInt(x), -z3.ToInt(-x))

def fld_doc(spec, z):
    """one conversion applied to one scalar -> Doc (a single token)"""
    conv = spec[0]
    if conv == 'd' and z.sort() == RealS:
        z = trunc(z)                      # "%d" % 6.0 == "6"
    if conv in 'feEgG' and z.sort() == IntS:
        z = z3.ToReal(z)                  # "%f" % 3 == "%f" % 3.0
    return z3.Unit(Tok.Fld(spec_id(spec), to_val(z)))

def tok(template, *args, **kw):
    """Spec-side constructor: a %-style or {}-style template applied to z3 terms.
    Produces the same Doc as the executor produces for the same template and values,
    whatever the naming of the fields (%(r).8f == %.8f == {:.8f} == {r:.8f})."""
    t = parse_brace(template) if ('{' in template and '%' not in template) else parse_percent(template)
    docs, i = [], 0
    for p in t.parts:
        if p[0] == 'lit': docs.append(lit_doc(p[1]))
        else:
            key = p[1]
            if isinstance(key, str) and key in kw: a = kw[key]
            else: a = args[i]; i += 1
            a = coerce_py(a)
            if a.sort() == Doc:
                if p[2] != ('s', '', None, None): raise Unsupported('text in a formatted field')
                docs.append(a)
            else: docs.append(fld_doc(p[2], a))
    return cat(*docs)

def coerce_py(a):
    if isinstance(a, bool): return z3.BoolVal(a)
    if isinstance(a, int): return z3.IntVal(a)
    if isinstance(a, float): return z3.RealVal(repr(a))
    if isinstance(a, str): return z3.StringVal(a)
    return a

def real(x):
    x = coerce_py(x)
    return z3.ToReal(x) if x.sort() == IntS else x

def rdiv(a, b):
    return real(a) / real(b)


def forall(vs, body, pattern=None):
    """ForAll with an explicit trigger when z3 accepts it (terms containing ite / predicates are not valid triggers;
    such formulas only occur as goals, which the executor skolemises)"""
    if pattern is not None:
        try: return z3.ForAll(vs, body, patterns=[pattern])
        except z3.Z3Exception: pass
    return z3.ForAll(vs, body)

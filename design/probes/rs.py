import z3, time
n=z3.Int('n'); r=z3.Real('r')
start=z3.Function('start', z3.IntSort(), z3.RealSort()); incl=z3.Function('incl', z3.IntSort(), z3.BoolSort())
i,j,a,b=z3.Ints('i j a b')
sorted_pre = z3.ForAll([a,b], z3.Implies(z3.And(0<=a, a<b, b<n), z3.Or(start(a)<start(b), z3.And(start(a)==start(b), incl(a), z3.Not(incl(b))))))
def q(x): return z3.Or(r>start(x), z3.And(incl(x), r==start(x)))
def spec(res): # res index or -1
    return z3.And(z3.Implies(res>=0, z3.And(res<n, q(res), z3.ForAll([j], z3.Implies(z3.And(res<j, j<n), z3.Not(q(j)))))),
                  z3.Implies(res<0, z3.ForAll([j], z3.Implies(z3.And(0<=j, j<n), z3.Not(q(j))))))
def chk(name, hyps, goal):
    s=z3.Solver(); s.set('timeout',20000); s.add(sorted_pre, n>=0, *hyps); s.add(z3.Not(goal))
    t=time.time(); res=s.check(); print(name, res, round(time.time()-t,3))
    return res
# early exit
pre_none = z3.Or(n==0, r<start(0), z3.And(r==start(0), z3.Not(incl(0))))
chk("early-none", [pre_none], spec(z3.IntVal(-1)))
passed = z3.Not(pre_none)
last=z3.Int('last')
Inv = lambda i,last: z3.And(0<=i, i<=n, last==i-1, z3.ForAll([j], z3.Implies(z3.And(0<=j, j<i), r>start(j))))
chk("inv-init", [passed], Inv(z3.IntVal(0), z3.IntVal(-1)))
hy=[passed, Inv(i,last), i<n]
b1 = z3.And(r==start(i), incl(i))
b2 = z3.And(last>=0, r<=start(i), r>start(last))
chk("branch1-return-t", hy+[b1], spec(i))
chk("branch2-return-last", hy+[z3.Not(b1), b2], spec(last))
chk("branch3-preserve", hy+[z3.Not(b1), z3.Not(b2)], Inv(i+1, i))
ex=[passed, Inv(n,last)]
chk("exit-return-last", ex+[last>=0, r>start(last)], spec(last))
chk("exit-none", ex+[z3.Not(z3.And(last>=0, r>start(last)))], spec(z3.IntVal(-1)))
# mutant: elif uses r < t.start instead of <=
b2m = z3.And(last>=0, r<start(i), r>start(last))
chk("MUT branch3-preserve (<= -> <)", hy+[z3.Not(b1), z3.Not(b2m)], Inv(i+1, i))

"""Contract for _TableFormSection.check_for_duplicate_table_forms (C20): the sections of the file are accepted iff no two
[Table-Form:NAME] headers carry the same NAME after stripping (so 'Table-Form:tab1' and 'Table-Form: tab1 ' are one table form)."""
import z3
from .common import *
from .ext_configparser import *
from . import duplicates as DU
from pyvc.spec import SpecAcc
from pyvc.symexec import strip_ws

F_CP = FILE = 'atsim/potentials/config/_config_parser.py'
StrL = z3.SeqSort(StrS)
PREFIX = z3.StringVal('Table-Form:')
sections_of = z3.Function('sections_of', DU.RCP, StrL)
REG.add(Contract('<ext>', 'RawCP.sections', params=[('self', T.Obj('RawCP'))], result=T.List(T.Str), ensures=lambda v, old, res: [res == sections_of(v.self)], external=True,
    note='configparser.sections(): the section names of the file in order (the default section is not listed); the strict parser has rejected equal names', props=['C20']))

def relevant(s): return z3.PrefixOf(PREFIX, s)
def label(s): return strip_ws(z3.SubString(s, 11, z3.Length(s) - 11))
REG.add_class(ClassDecl(F_CP, '_TableFormSection', {}))
REG.add(Contract(F_CP, '_TableFormSection.is_relevant_section', params=[('cls', T.Any), ('section_name', T.Str)], result=T.Bool,
    ensures=lambda v, old, res: [res == relevant(v.section_name)], trusted=True,
    note="A6 (regular expressions): re.compile('^Table-Form:(.*)$').match(name) succeeds iff name starts with 'Table-Form:' (section names contain no line break)", props=['C20']))
REG.add(Contract(F_CP, '_TableFormSection._parse_name', params=[('cls', T.Any), ('section_name', T.Str)], result=T.Str,
    requires=lambda v: [relevant(v.section_name)],        # (m.groups() of a failed match: AttributeError on None)
    ensures=lambda v, old, res: [res == label(v.section_name)], trusted=True,
    note="A6: group 1 of that match is the text after the prefix; the name is that text stripped", props=['C20']))

# number of [Table-Form:...] headers among the first n section names whose label is L
count_of = SpecAcc('table_forms_named', [StrS, StrL], lambda L, S: z3.IntVal(0), lambda L, S, t, prev: prev + z3.If(z3.And(relevant(S[t]), label(S[t]) == L), 1, 0), result=IntS)
SeenT = T.Dict(T.Str, T.List(T.Str))

def _fa(vs, body, pats):
    try: return z3.ForAll(vs, body, patterns=pats)
    except z3.Z3Exception: return z3.ForAll(vs, body)      # (constant arrays: the pattern simplifies away)
def _seen_state(d, S, n):
    L = z3.String('L!tf')
    return [_fa([L], z3.Select(d.has, L) == (count_of(L, S, n) >= 1), [z3.Select(d.has, L)]),
            _fa([L], z3.Implies(z3.Select(d.has, L), z3.Length(z3.Select(d.get, L)) == count_of(L, S, n)), [z3.Select(d.get, L)]),
            _fa([L], count_of(L, S, n) >= 0, [count_of(L, S, n)])]
def _S(v): return sections_of(v.cfg_parser)
from pyvc.symexec import keys_list_fn
from pyvc.spec import SpecSeq
quoted = SpecSeq('quoted_names', [StrL], lambda xs, k: z3.Unit(cat(lit_doc("'"), tok('%s', xs[k]), lit_doc("'"))), result=DocList, elem_len=1)      # the names as the message shows them
def _checked(v, old):
    """the first k keys of the (unspecified) listing of `seen` have at most one section each; `seen` is as the first loop left it"""
    j = z3.Int('j!ck'); d = v.seen; lst = keys_list_fn(T.Str)(d.has); S = _S(old)
    return _seen_state(d, S, z3.Length(S)) + [z3.ForAll([j], z3.Implies(z3.And(0 <= j, j < v._i1), z3.Length(z3.Select(d.get, lst[j])) <= 1))]
def _post(v, old, res):
    L = z3.String('L!tp'); S = _S(old)
    return [z3.ForAll([L], count_of(L, S, z3.Length(S)) <= 1)]
def _raises(v, old, exc):
    L = z3.String('L!tr'); S = _S(old)
    return [z3.BoolVal(exc.cls == 'ConfigParserDuplicateEntryException'), z3.Exists([L], count_of(L, S, z3.Length(S)) >= 2)]
REG.add(Contract(F_CP, '_TableFormSection.check_for_duplicate_table_forms', params=[('cls', T.Any), ('cfg_parser', T.Obj('RawCP'))],
    ensures=_post, post_names=['accepted-only-if-no-label-names-two-table-form-sections'],
    invariants={0: lambda v, old: _seen_state(v.seen, _S(old), v._i0), 1: _checked}, ghost={'seen': SeenT}, comprehensions={0: (quoted, lambda v: [v.v])},
    raises_when=_raises, on_raise=lambda v, old: [], raises_classes=['ConfigParserDuplicateEntryException'], instantiate_int_foralls=True,
    carries=['post', 'raises', 'preserve/0'], props=['C20']))

"""C07 oracle: offered deriv/deriv2 against the exact derivative of the documented/composed energy."""
from _expr import *
from atsim.potentials import Potential

def relclose(a, b, tol):
    return abs(a - b) <= tol * max(1.0, abs(a), abs(b))

def check_case(rep, case, name):
    t = case['tree']
    try:
        f = from_config(to_config(t)) if case['route'] == 'config' else to_api(t)
        f0, f1, f2 = exact(t)
    except Exception as e:
        rep.dev(name, case, 'exception %r' % (e,), 'a potential'); return
    regular_at_0 = t[0] == 'leaf' and t[1] in ('polynomial', 'constant', 'zero', 'morse', 'exp_spline', 'bornmayer')
    for x in case['rs']:
        if x != 0.0 and x < min_r(t): continue
        if x == 0.0 and regular_at_0:
            # forms that are regular at the origin: value and offered derivatives exist there
            try:
                vals = (f(x), f.deriv(x) if hasattr(f, 'deriv') else None, f.deriv2(x) if hasattr(f, 'deriv2') else None)
            except Exception as e:
                rep.dev(name, dict(case, rs=[x]), 'exception %r at r=0' % (e,), 'value %r, derivative %r' % (float(sp.limit(to_sympy(t), r, 0, '+')), float(sp.limit(sp.diff(to_sympy(t), r), r, 0, '+')))); return
            want = (float(sp.limit(to_sympy(t), r, 0, '+')), float(sp.limit(sp.diff(to_sympy(t), r), r, 0, '+')), float(sp.limit(sp.diff(to_sympy(t), r, 2), r, 0, '+')))
            for g, w, lbl in zip(vals, want, ('energy', 'deriv', 'deriv2')):
                if g is not None and not relclose(g, w, 1e-8): rep.dev(name, dict(case, rs=[x]), '%s(0)=%r' % (lbl, g), w); return
            rep.ok(3); continue
        if x == 0.0: continue
        try:
            u, e0 = f(x), float(f0(x))
        except Exception as e: continue
        if not (abs(e0) < 1e12): continue
        if not relclose(u, e0, 1e-8): rep.dev(name, dict(case, rs=[x]), 'energy(%r)=%r' % (x, u), e0); return
        if hasattr(f, 'deriv'):
            try: d, e1 = f.deriv(x), float(f1(x))
            except Exception as e:
                # the energy is defined here (above) but the offered derivative cannot be evaluated
                rep.dev(name, dict(case, rs=[x]), 'deriv(%r) raises %r' % (x, e), float(f1(x))); return
            # a component without analytic derivative is differentiated numerically (h = 1e-6): tolerance covers that
            if not relclose(d, e1, 2e-5): rep.dev(name, dict(case, rs=[x]), 'deriv(%r)=%r' % (x, d), e1); return
            fo = Potential('A', 'B', f).force(x)
            if not relclose(fo, -e1, 2e-5): rep.dev(name, dict(case, rs=[x]), 'force(%r)=%r' % (x, fo), -e1); return
        if hasattr(f, 'deriv2'):
            try: d, e2 = f.deriv2(x), float(f2(x))
            except Exception as e:
                rep.dev(name, dict(case, rs=[x]), 'deriv2(%r) raises %r' % (x, e), float(f2(x))); return
            if not relclose(d, e2, 5e-4): rep.dev(name, dict(case, rs=[x]), 'deriv2(%r)=%r' % (x, d), e2); return
        rep.ok(3)

def gen_case(rng):
    t = gen(rng, rng.randint(0, 3))
    return dict(route=rng.choice(['api', 'config']), tree=t, rs=[round(rng.uniform(0.6, 6.0), 3) for _ in range(4)] + [0.25, 1.0, 2.0, round(rng.uniform(6.0, 30.0), 2)])

if __name__ == '__main__':
    pl = payload(); rep = Report('C07')
    if pl.get('mode') == 'replay': rep.case('replay', pl['input']); check_case(rep, pl['input'], 'replay')
    else:
        rng = random.Random(pl.get('seed', 0))
        for name in sorted(LEAVES):      # every built-in form once
            c = dict(route='api', tree=('leaf', name, [rnd(p) for p in LEAVES[name][0](rng)]), rs=[0.0, 0.7, 1.3, 2.9, 5.5, 12.0, 21.0, 29.5]); rep.case('leaf', c); check_case(rep, c, 'leaf-' + name)
        for i in range(pl.get('n', 30)):
            c = gen_case(rng); rep.case(c['route'], c); check_case(rep, c, 'seeded-%d' % i)
    rep.finish()

"""C09 oracle: generated potable definitions (modifiers to depth 3, ranges, custom formulas) against the documented meaning
(exact sympy term) and against the same composition through the Python API; formatting variants give the same potential."""
from _expr import *
import math as _m

def fmt_variant(defn, rng):
    """whitespace, line continuation and ':'/'=' variants of `A-B : defn`"""
    v = rng.choice(['plain', 'spaces', 'continuation', 'equals'])
    sep = ' : '
    if v == 'spaces': defn = defn.replace(',', ' , ').replace('(', '( ').replace(')', ' )'); sep = '   :  '
    elif v == 'continuation': defn = defn.replace(', ', ',\n      ').replace(' >', '\n      >')
    elif v == 'equals': sep = ' = '
    return v, 'A-B%s%s' % (sep, defn)

def build(line, extra=''):
    from atsim.potentials.config import Configuration
    ini = '[Tabulation]\ntarget : LAMMPS\nnr : 11\ncutoff : 10.0\n\n[Pair]\n%s\n%s' % (line, extra)
    return Configuration().read(io.StringIO(ini)).potentials[0].potentialFunction

CUSTOM = [  # (forms section, use, python reference)
    ("myf(r, a, b) = a*r + b\ndbl(r, c) = 2*myf(r, c, 1.5)", "dbl 0.75", lambda r: 2 * (0.75 * r + 1.5)),
    ("g(r, A, rho) = as.buck(r, A, rho, 0.0) + pymath.log(r + 1)", "g 1000.0 0.3", lambda r: 1000.0 * _m.exp(-r / 0.3) + _m.log(r + 1)),
    ("h(r, n) = if(r < 2, r^n, pymath.sqrt(r) / n)", "h 3", lambda r: r ** 3 if r < 2 else _m.sqrt(r) / 3),
    ("p(r, a) = a - r / 4 + pymath.fmod(r - 2.5, a)", "p 1.5", lambda r: 1.5 - r / 4 + _m.fmod(r - 2.5, 1.5)),
    ("q(r,x,y)=x*r^2-y*r\nw(r) = q(r, 1.0, 2.0) * q(r, 0.5, 0.25)", "w", lambda r: (r * r - 2 * r) * (0.5 * r * r - 0.25 * r)),
    ("s(r, a) = pymath.floor(a*r) + pymath.atan2(r, a) + pymath.hypot(r, a) + pymath.ceil(r)", "s 2.0", lambda r: _m.floor(2 * r) + _m.atan2(r, 2.0) + _m.hypot(r, 2.0) + _m.ceil(r)),
]

def check_case(rep, case, name):
    if case['kind'] == 'text':
        f = build('A-B : ' + case['defn'])
        rep.dev(name, case, 'value at r=%r: %r' % (case.get('r'), f(case.get('r', 0.0))), 'see the search run') if False else rep.ok(); return
    if case['kind'] == 'tree':
        t = case['tree']; rng = random.Random(case['seed'])
        defn = to_config(t)
        if case.get('ranges'):
            a, b = case['ranges']; defn = '>=0 %s >%r as.constant 0.5 >=%r %s' % (defn, a, b, to_config(('leaf', 'polynomial', [1.0, 0.25])))
        v, line = fmt_variant(defn, rng)
        try:
            f = build(line); f0, _, _ = exact(t); api = to_api(t)
        except Exception as e: rep.dev(name, case, 'exception %r (%s)' % (e, v), 'a potential'); return
        for x in case['rs']:
            if x < min_r(t) + (t[2] if t[0] == 'trans' else 0): continue
            if case.get('ranges') and x > case['ranges'][0]:
                a, b = case['ranges']; want = 0.5 if x < b else 1.0 + 0.25 * x
            else:
                try: want = float(f0(x))
                except Exception: continue
                try:
                    wa = api(x)
                    if abs(wa - want) > 1e-8 * max(1.0, abs(want)): rep.dev(name, dict(case, rs=[x]), 'Python API composition at %r: %r' % (x, wa), want); return
                except Exception: pass
            if not (abs(want) < 1e12): continue
            try: got = f(x)
            except Exception as e: rep.dev(name, dict(case, rs=[x]), 'exception %r at r=%r (%s)' % (e, x, v), want); return
            if abs(got - want) > 1e-8 * max(1.0, abs(want)): rep.dev(name, dict(case, rs=[x]), 'potable (%s) at r=%r: %r' % (v, x, got), want); return
            rep.ok()
    else:
        forms, use, ref = CUSTOM[case['index']]
        rng = random.Random(case['seed'])
        lines = forms.split('\n')
        if case.get('reorder'): lines = list(reversed(lines))
        if case.get('callspace'):
            # the same formulas with white space between a form's name and its argument list where one form calls another: `g (r, 2.0)`
            import re
            names_ = [l.split('(')[0].strip() for l in lines if '(' in l]
            def _sp(l):
                i_ = l.index('=') if '=' in l else -1
                if i_ < 0: return l
                rhs = l[i_ + 1:]
                for n_ in names_: rhs = re.sub(r'(?<![A-Za-z0-9_.])%s\(' % re.escape(n_), n_ + ' (', rhs)
                return l[:i_ + 1] + rhs
            lines = [_sp(l) for l in lines]
        if case.get('colon'): lines = [l.replace(' = ', ' : ', 1) if ' = ' in l else l.replace('=', ':', 1) for l in lines]
        where = case.get('where', 'Pair')
        try:
            f = build('A-B : %s' % (use if not case.get('wrap') else 'sum(%s, as.constant 1.0)' % use), '\n[Potential-Form]\n' + '\n'.join(lines) + '\n')
        except Exception as e: rep.dev(name, case, 'exception %r' % (e,), 'a potential'); return
        for x in case['rs']:
            want = ref(x) + (1.0 if case.get('wrap') else 0.0)
            try: got = f(x)
            except Exception as e: rep.dev(name, dict(case, rs=[x]), 'exception at r=%r: %s' % (x, str(e)[:160]), want); return
            if abs(got - want) > 1e-9 * max(1.0, abs(want)): rep.dev(name, dict(case, rs=[x]), 'custom form at r=%r: %r' % (x, got), want); return
            rep.ok()

def gen_case(rng, i):
    if i % 4 == 3:
        return dict(kind='custom', index=rng.randrange(len(CUSTOM)), seed=rng.randint(0, 10 ** 6), reorder=rng.random() < 0.5, colon=rng.random() < 0.5, wrap=rng.random() < 0.4, callspace=rng.random() < 0.5,
                    rs=[round(rng.uniform(0.2, 6), 3) for _ in range(4)] + [1.0, 2.0, 2.5])
    d, a = round(rng.uniform(1.0, 2.5), 2), None
    return dict(kind='tree', tree=gen(rng, rng.randint(0, 3)), seed=rng.randint(0, 10 ** 6), ranges=([d, round(d + rng.uniform(0.5, 2), 2)] if rng.random() < 0.3 else None),
                rs=[round(rng.uniform(0.3, 6.0), 3) for _ in range(4)] + [0.5, 1.0, 3.0])

if __name__ == '__main__':
    pl = payload(); rep = Report('C09')
    if pl.get('mode') == 'replay': rep.case('replay', pl['input']); check_case(rep, pl['input'], 'replay')
    else:
        rng = random.Random(pl.get('seed', 0))
        for i in range(len(CUSTOM)):
            c = dict(kind='custom', index=i, seed=i, rs=[0.4, 1.0, 1.9, 2.0, 2.6, 4.7]); rep.case('custom', c); check_case(rep, c, 'custom-%d' % i)
        # trans() under an enclosing range that includes the origin: f(0 + X), also nested
        for k, (defn, ref) in enumerate([('>=0 trans(as.buck 1000.0 0.3 32.0, as.constant 2.0)', lambda r: 1000.0 * _m.exp(-(r + 2.0) / 0.3) - 32.0 / (r + 2.0) ** 6),
                                         ('>=0 sum(as.constant 0.5, trans(as.polynomial 1.0 2.0, as.constant 1.5))', lambda r: 0.5 + 1.0 + 2.0 * (r + 1.5)),
                                         ('>=0 trans(trans(as.polynomial 0.0 1.0, as.constant 1.0), as.constant 0.25)', lambda r: r + 1.25)]):
            try:
                f = build('A-B : ' + defn); rep.case('trans-at-origin', defn)
                # arguments of sum() carry the implicit '>0' range themselves, so the origin is only meaningful for a bare trans()
                for x in ((0.0, 0.5, 2.0) if defn.startswith('>=0 trans(') else (0.5, 2.0)):
                    if abs(f(x) - ref(x)) > 1e-9 * max(1.0, abs(ref(x))): rep.dev('trans-at-origin-%d' % k, dict(kind='text', defn=defn, r=x), 'value at r=%r: %r' % (x, f(x)), ref(x)); break
                else: rep.ok()
            except Exception as e: rep.dev('trans-at-origin-%d' % k, dict(kind='text', defn=defn), 'exception %r' % (e,), 'a potential')
        # modifiers nested in modifiers where the inner one carries its own ranges ("at any nesting depth"), and pow at a point where
        # base and exponent both vanish (0.0 ** 0.0 is 1.0)
        step = lambda r, s_: 1.0 if r >= s_ else 0.0
        for k, (defn, ref, xs) in enumerate([
                ('sum(as.constant 1.0, >=2.05 sum(as.constant 3.0, as.constant 4.0))', lambda r: 1.0 + 7.0 * step(r, 2.05), (0.5, 2.0, 2.05, 3.0)),
                ('sum(sum(as.constant 1.0, as.constant 2.0) >=3.05 as.zero, as.constant 5.0)', lambda r: 5.0 + (3.0 if r < 3.05 else 0.0), (0.5, 3.0, 3.05, 4.0)),
                ('product(as.constant 2.0, sum(as.constant 1.0, >=1.5 sum(as.constant 1.0, as.constant 1.0)))', lambda r: 2.0 * (1.0 + 2.0 * step(r, 1.5)), (0.5, 1.5, 2.5)),
                ('sum(as.constant 1.0, sum(as.constant 2.0, >=2.5 product(as.constant 3.0, as.constant 2.0)))', lambda r: 3.0 + 6.0 * step(r, 2.5), (1.0, 2.5, 4.0)),
                ('pow(as.polynomial -2.0 1.0, as.polynomial -2.0 1.0)', lambda r: (r - 2.0) ** (r - 2.0) if r != 2.0 else 1.0, (2.0, 3.0, 4.5)),
                ('pow(as.polynomial -2.0 1.0, as.polynomial 0.0 1.0 >=1.5 as.zero)', lambda r: (r - 2.0) ** (r if r < 1.5 else 0.0), (2.0, 2.5, 3.0))]):
            rep.case('nested-with-ranges', defn)
            try:
                f = build('A-B : ' + defn)
                for x in xs:
                    want = ref(x); got = f(x)
                    if abs(got - want) > 1e-9 * max(1.0, abs(want)): rep.dev('nested-with-ranges-%d' % k, dict(kind='text', defn=defn, r=x), 'value at r=%r: %r' % (x, got), want); break
                else: rep.ok()
            except Exception as e: rep.dev('nested-with-ranges-%d' % k, dict(kind='text', defn=defn), 'exception %r' % (e,), 'a potential')
        for i in range(pl.get('n', 60)):
            c = gen_case(rng, i); rep.case(c['kind'], c); check_case(rep, c, 'seeded-%d' % i)
    rep.finish()

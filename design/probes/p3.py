import io, warnings, logging
warnings.simplefilter("ignore"); logging.disable(logging.CRITICAL)
from atsim.potentials.config import ConfigParser, FilteredConfigParser
from atsim.potentials.tools.potable import _make_config_parser
s="[Tabulation]\ntarget: LAMMPS\n[Pair]\nO-O : as.zero\nU-O : as.zero\n"
cp=ConfigParser(io.StringIO(s))
print("API exclude=[] ->", [p.species for p in FilteredConfigParser(cp, exclude=[]).pair])
cp=ConfigParser(io.StringIO(s))
print("API include=[] ->", [p.species for p in FilteredConfigParser(cp, include=[]).pair])
cp=_make_config_parser(io.StringIO(s), None,None,None, [], False)
print("CLI include [] ->", [p.species for p in cp.pair])
# DLPOLY API empty model nr%4 != 0
from atsim.potentials import writePotentials
o=io.StringIO(); writePotentials('DL_POLY', [], 5.0, 10, o); print("DLPOLY empty, nr=10: bytes", len(o.getvalue()))
# LAMMPS path sanity for replay-like oracle
from atsim.potentials import Potential
o=io.StringIO(); writePotentials('LAMMPS', [Potential('A','B', lambda r: r*r)], 2.0, 5, o); print(o.getvalue())

"""Contracts for the duplicate tests of the configuration parser (C20): a [Pair] section is accepted iff no two of its keys name
the same unordered pair of (stripped) labels."""
import z3
from .common import *
from .ext_configparser import *
from . import factories as _F        # declares ConfigParser
from pyvc.symexec import split_on, strip_ws

F_CP = FILE = 'atsim/potentials/config/_config_parser.py'
REG.add_class(ClassDecl('<ext>', 'RawCP', {}, external=True))        # the strict configparser.ConfigParser subclass held by ConfigParser
REG.classes['ConfigParser'].fields['_config_parser'] = T.Obj('RawCP')
RCP = ObjSort('RawCP'); StrList = z3.SeqSort(StrS)
has_sec = z3.Function('has_section', RCP, StrS, BoolS); sec_of = z3.Function('section_of', RCP, StrS, SP); sec_keys = z3.Function('sec_keys', SP, StrList)
rawcp = field('ConfigParser', '_config_parser', RCP)

REG.add(Contract('<ext>', 'RawCP.has_section', params=[('self', T.Obj('RawCP')), ('section', T.Str)], result=T.Bool,
    ensures=lambda v, old, res: [res == has_sec(v.self, v.section)], external=True, note='configparser.has_section(name)', props=['C20']))
n_opts = z3.Function('n_opts', RCP, StrS, IntS); sec_len = z3.Function('sec_len', SP, IntS)
REG.add(Contract('<ext>', 'RawCP.__getitem__', params=[('self', T.Obj('RawCP')), ('key', T.Str)], result=T.Obj('SectionProxy'),
    ensures=lambda v, old, res: [res == sec_of(v.self, v.key), sec_len(res) == n_opts(v.self, v.key)], may_raise=lambda v: [('KeyError', z3.Not(has_sec(v.self, v.key)))],
    external=True, note='parser[name]: the section proxy (its length is the number of own options: options() override, C15); KeyError when there is no such section', props=['C14', 'C20']))
REG.add(Contract('<ext>', 'SectionProxy.__len__', params=[('self', T.Obj('SectionProxy'))], result=T.Int, ensures=lambda v, old, res: [res == sec_len(v.self)], external=True,
    note='len(section proxy)', props=['C14']))
def _keys_are_options(sp):
    i = z3.Int('i!sk')
    return z3.ForAll([i], z3.Implies(z3.And(0 <= i, i < z3.Length(sec_keys(sp))), sec_has(sp, sec_keys(sp)[i])), patterns=[sec_keys(sp)[i]])
REG.add(Contract('<ext>', 'SectionProxy.__iter__', params=[('self', T.Obj('SectionProxy'))], result=T.List(T.Str),
    ensures=lambda v, old, res: [res == sec_keys(v.self), _keys_are_options(v.self)], external=True,
    note='iterating a section proxy yields its option names (after optionxform) in file order; the strict parser has already rejected equal names (A5)', props=['C20']))

DASH = z3.StringVal('-')
def lab_a(k): return strip_ws(split_on(k, DASH)[0])
def lab_b(k): return strip_ws(split_on(k, DASH)[1])
def wellformed(k): return z3.Length(split_on(k, DASH)) == 2

REG.add(Contract(F_CP, 'ConfigParser._pair_species_func', params=[('self', T.Obj('ConfigParser')), ('k', T.Str)],
    result=T.NamedTuple('SpeciesTuple', [('species_a', T.Str), ('species_b', T.Str)]),
    ensures=lambda v, old, res: [wellformed(v.k), res[0] == lab_a(v.k), res[1] == lab_b(v.k)],
    post_names=['returns-only-for-A-B', 'first-label-stripped', 'second-label-stripped'],
    raises_when=lambda v, old, exc: [z3.BoolVal(exc.cls == 'ConfigParserException'), z3.Not(wellformed(v.k))], on_raise=lambda v, old: [z3.Not(wellformed(v.k))],
    raises_classes=['ConfigParserException'], carries=['post', 'raises'], props=['C20', 'C16']))

def same_pair(k1, k2):
    """the two keys name the same unordered pair of labels"""
    return z3.Or(z3.And(lab_a(k1) == lab_a(k2), lab_b(k1) == lab_b(k2)), z3.And(lab_a(k1) == lab_b(k2), lab_b(k1) == lab_a(k2)))

def _keys(v): return sec_keys(sec_of(rawcp(v.self), z3.StringVal('Pair')))
def no_dups(keys, n):
    i, j = z3.Int('i!d'), z3.Int('j!d')
    return z3.ForAll([i, j], z3.Implies(z3.And(0 <= i, i < j, j < n), z3.Not(same_pair(keys[i], keys[j]))))
def has_dup(keys, n):
    i, j = z3.Int('i!e'), z3.Int('j!e')
    return z3.Exists([i, j], z3.And(0 <= i, i < j, j < n, same_pair(keys[i], keys[j])))

PairKey = T.Tuple(T.Str, T.Str)
def _mk(a, b):
    from pyvc.symexec import TupleSort
    return TupleSort([StrS, StrS]).mk(a, b)
def _dup_inv(v, old):
    """after k keys: none of them repeats an earlier one (either order), every one is well formed, and `seen` holds exactly their label pairs"""
    keys, k = _keys(v), v._i0
    j = z3.Int('j!s'); a, b = z3.Strings('a!s b!s')
    seen = v.seen.has
    return [no_dups(keys, k),
            z3.ForAll([j], z3.Implies(z3.And(0 <= j, j < k), wellformed(keys[j]))),
            z3.ForAll([j], z3.Implies(z3.And(0 <= j, j < k), z3.Select(seen, _mk(lab_a(keys[j]), lab_b(keys[j]))))),
            z3.ForAll([a, b], z3.Implies(z3.Select(seen, _mk(a, b)), z3.Exists([j], z3.And(0 <= j, j < k, lab_a(keys[j]) == a, lab_b(keys[j]) == b))))]

def _dup_post(v, old, res):
    keys = _keys(v)
    return [z3.Implies(has_sec(rawcp(v.self), z3.StringVal('Pair')), no_dups(keys, z3.Length(keys)))]

def _dup_raises(v, old, exc):
    keys = _keys(v)
    if exc.cls == 'ConfigParserDuplicateEntryException':
        return [has_dup(keys, z3.Length(keys))]
    j = z3.Int('j!r')
    return [z3.BoolVal(exc.cls == 'ConfigParserException'), z3.Exists([j], z3.And(0 <= j, j < z3.Length(keys), z3.Not(wellformed(keys[j]))))]

REG.add(Contract(F_CP, 'ConfigParser._check_for_duplicate_pairs', params=[('self', T.Obj('ConfigParser'))],
    ensures=_dup_post, post_names=['accepted-only-if-no-two-keys-name-the-same-unordered-pair'],
    invariants={0: _dup_inv}, ghost={'seen': T.Set(PairKey)},
    raises_when=_dup_raises, on_raise=lambda v, old: [], instantiate_int_foralls=True, raises_classes=['ConfigParserDuplicateEntryException', 'ConfigParserException'],
    carries=['post', 'raises', 'preserve/0'], props=['C20']))

from _eam import *
def parse_tabeam(text):
    lines = text.split('\n')
    title = lines[0]; count = int(lines[1].split()[0])
    blocks = []; i = 2
    while i < len(lines):
        if not lines[i].strip(): i += 1; continue
        h = lines[i].split(); kind = h[0]
        assert kind in ('pair', 'embe', 'dens'), 'block header %r' % lines[i]
        n, start, end = int(h[-3]), float(h[-2]), float(h[-1]); species = h[1:-3]
        i += 1; vals = []
        while i < len(lines) and lines[i].strip() and lines[i].split()[0] not in ('pair', 'embe', 'dens'):
            t = lines[i].split(); assert len(t) <= 4, 'record with %d values' % len(t)
            vals += [float(x) for x in t]; i += 1
        blocks.append(dict(kind=kind, species=species, n=n, start=start, end=end, vals=vals))
    return title, count, blocks

"""C02 — DL_POLY TABLE: header, 4-per-record layout, energies and -r dU/dr faithful."""
import z3
from pyvc.core import *
from pyvc.solve import Obligation
from pyvc import tables
import contracts.common as K
import contracts.potential, contracts.lammps_table, contracts.gulp
import contracts.dlpoly_table as DT
import contracts.pair_tabulation as PT
import contracts.builders as BU
import contracts.factories as FCc

F = DT.FILE
FUNCTIONS = [(F, '_writePotential'), (F, '_calculateForce'), (F, '_writeTableHeader'), (F, 'writePotentials'),
             (PT.FILE, 'DLPoly_PairTabulation.write'), (PT.FILE, 'DLPoly_PairTabulation.__init__'), (PT.F_INIT, 'writePotentials'),
             (K.F_POT, 'Potential.__init__'), (FCc.FILE, 'DLPOLY_PairTabulationFactory.extract_cutoffs')] + [(BU.FILE, 'Pair_Potentials_From_Tuples_Builder.__init__'), (BU.FILE, 'Pair_Potentials_From_Tuples_Builder._create_potential'), (BU.FILE, 'Pair_Potentials_From_Tuples_Builder._init_potentials')]
SPECSEQS = [DT.erecs, DT.frecs, DT.acc]

def lemmas():
    out = []
    G, k, j = z3.Int('ngrid'), z3.Int('k'), z3.Int('j')
    c = z3.Real('cutoff'); p = z3.Const('p', K.Pot)
    m = c / (real(G) - 4)
    pre = [G >= 8, G % 4 == 0, c > 0]
    def L(name, hyps, goal, depth=1):
        o = Obligation('C02/lemma/' + name, pre + hyps, goal, kind='lemma', function='props/C02.py', carries_property=True, unfold_depth=depth); out.append(o)
    # the k-th value (k = 1..ngrid) sits in record (k-1)/4, slot (k-1)%4, and is evaluated at k*delpot
    L('accumulated-r-is-k*delpot', [k >= 0, DT.acc(m, k) == real(k) * m], DT.acc(m, k) == real(k) * (c / (real(G) - 4)))
    L('exactly-ngrid-energies', [], 4 * (G / 4) == G)
    L('records-of-four', [j >= 0, j < G / 4], DT.erec(p, m, j) == tok(DT.REC, *[K.E(p, DT.acc(m, 4 * j + i)) for i in (1, 2, 3, 4)]))
    L('force-is-minus-r-dVdr', DT.W_def() + K._pot_invariant(p) + [k >= 1],
      DT.W(p, DT.acc(m, k)) == -DT.acc(m, k) * K.gradspec(K.pot_fn(p), K.pot_h(p), DT.acc(m, k)))
    L('header-fields', [], DT.table_header(m, c, G) == cat(lit_doc(" " * 80 + "\n"), tok("%15.8e%15.8e%10d\n", c / (real(G) - 4), c, G)))
    L('energy-block-length', [], z3.Length(DT.erecs(p, m, G / 4)) == 9 * (G / 4))
    return out + tables.routing_obligations('C02', ['DL_POLY', 'DLPOLY'])

MUTANTS = [
    (F, '_writePotential', "l.append(potential.energy(r))", "l.append(potential.force(r))", 'preserve/0'),
    (F, '_calculateForce', "return r * dUdr", "return dUdr", 'post'),
    (F, 'writePotentials', "gridPoints - 4.0", "gridPoints - 3.0", 'init/0'),
    (F, '_writePotential', "if gridPoints % 4 != 0:", "if gridPoints % 4 == 1:", 'post/only-multiples'),
    (F, '_writeTableHeader', "delpot=delpot, cutpot=cutpot", "delpot=cutpot, cutpot=delpot", 'post'),
    (PT.FILE, 'DLPoly_PairTabulation.write', "self.cutoff, self.nr", "self.cutoff, self.nr - 1", 'post'),
]
ASSUMPTIONS = ['A1: float arithmetic treated as real arithmetic (the accumulated r += delpot equals k*delpot; differs by <= k*2^-53 relative in IEEE)',
               'A7: DL_POLY TABLE layout (delpot, cutpot, ngrid; four values per record; forces stored as -r dU/dr)',
               'C07 conclusion used as premise: an offered .deriv is the true derivative']
NOTES = ['with an EMPTY potential list the API writes a header-only file even when ngrid % 4 != 0 (the check sits in the per-potential writer): outside the statement, which quantifies over pair models; the contract says so in its postcondition (or len(potentials)==0)',
         'the potable route is decided up to the dispatch tables (route obligations) and the factory\'s modulus check (see C16/C11 for the parser); the Configuration->Potential list construction is exercised by the oracle (bounded)']

def oracle_payload(tier, seed, mode='search'):
    return dict(mode=mode, seed=seed, n=40 if tier == 'quick' else 1200)
def witness_for(ob, devs, run_oracle):
    if devs: d = devs[0]; return dict(deviates=True, input=d['input'], observed=d['observed'], expected=d['expected'])
    return dict(deviates=False)

"""Contract for ConfigParser.species (C03, C16): the [Species] section as a two-level dictionary species -> property -> converted value."""
import z3
from .common import *
from .ext_configparser import *
from . import duplicates as DU
from . import config_errors as CE
from pyvc.spec import SpecSeq
from pyvc.symexec import split_on_max, strip_ws

F_CP = FILE = 'atsim/potentials/config/_config_parser.py'
REG.classes['ConfigParserSp'].fields['_config_parser'] = T.Obj('RawCP')
CPS = ObjSort('ConfigParserSp'); sp_raw = field('ConfigParserSp', '_config_parser', DU.RCP)
Inner = T.Dict(T.Str, T.Val); Outer = T.Dict(T.Str, Inner); IS, OS = Inner.sort(), Outer.sort()
DOT = z3.StringVal('.'); SPECIES = z3.StringVal('Species')
def toks(k): return split_on_max(k, DOT, z3.IntVal(1))
def sp_of(k): return strip_ws(toks(k)[0])
def prop_of(k): return strip_ws(toks(k)[1])
def wellformed_key(k): return z3.Length(toks(k)) == 2
stripped = SpecSeq('stripped_tokens', [z3.SeqSort(StrS)], lambda ts, j: z3.Unit(strip_ws(ts[j])), result=z3.SeqSort(StrS), elem_len=1)
conv = z3.Function('species_value', StrS, StrS, Val)      # what _convert_species_type returns for (property, text): named here, characterised by its own contract (config_errors.py)

def _section(v): return DU.sec_of(sp_raw(v.self), SPECIES)
def _keys(v): return DU.sec_keys(_section(v))
def _hg(d): return (OS.has(d), OS.get(d)) if z3.is_expr(d) else (d.has, d.get)
def has2(d, a, b): h, g = _hg(d); return z3.And(z3.Select(h, a), z3.Select(IS.has(z3.Select(g, a)), b))
def get2(d, a, b): h, g = _hg(d); return z3.Select(IS.get(z3.Select(g, a)), b)
def distinct_items(keys, n):
    i, j = z3.Int('i!di'), z3.Int('j!di')
    return z3.ForAll([i, j], z3.Implies(z3.And(0 <= i, i < j, j < n), z3.Not(z3.And(sp_of(keys[i]) == sp_of(keys[j]), prop_of(keys[i]) == prop_of(keys[j])))))
def table(d, v, n):
    keys = _keys(v); a, b = z3.Strings('a!st b!st'); j = z3.Int('j!st')
    return [z3.ForAll([j], z3.Implies(z3.And(0 <= j, j < n), z3.And(has2(d, sp_of(keys[j]), prop_of(keys[j])),
                                                                    get2(d, sp_of(keys[j]), prop_of(keys[j])) == conv(prop_of(keys[j]), sec_get(_section(v), keys[j]))))),
            z3.ForAll([a, b], z3.Implies(has2(d, a, b), z3.Exists([j], z3.And(0 <= j, j < n, sp_of(keys[j]) == a, prop_of(keys[j]) == b))))]
def _post(v, old, res):
    present = DU.has_sec(sp_raw(v.self), SPECIES); keys = _keys(v); a, b = z3.Strings('a!sq b!sq')
    return [z3.Implies(present, z3.And(*table(res, v, z3.Length(keys)))), z3.Implies(z3.Not(present), z3.ForAll([a, b], z3.Not(has2(res, a, b))))]
def _raises(v, old, exc):
    keys = _keys(v); j = z3.Int('j!sr')
    if exc.origin is None: return [z3.BoolVal(exc.cls == 'ConfigParserException'), z3.Exists([j], z3.And(0 <= j, j < z3.Length(keys), z3.Not(wellformed_key(keys[j]))))]
    return [z3.BoolVal(exc.cls == 'ConfigParserException')]
REG.add(Contract(F_CP, 'ConfigParser.species', params=[('self', T.Obj('ConfigParserSp'))], result=Outer,
    requires=lambda v: [distinct_items(_keys(v), z3.Length(_keys(v)))],        # the strict parser rejects equal keys (after optionxform, which removes every blank)
    ensures=_post, post_names=['one-item-per-SPECIES.PROPERTY-key-with-the-converted-value-and-nothing-else', 'empty-without-a-[Species]-section'],
    invariants={0: lambda v, old: table(v.d, v, v._i0)}, ghost={'d': Outer}, comprehensions={0: (stripped, lambda v: [v.tokens])},
    raises_when=_raises, on_raise=lambda v, old: [], raises_classes=['ConfigParserException'], instantiate_int_foralls=True,
    carries=['post', 'preserve/0', 'raises'], props=['C03', 'C16']))
# the conversion is named at the call site by the spec function conv
REG.get(F_CP, 'ConfigParser._convert_species_type').names_result = lambda v, res: [res == conv(v.property_name, v.v)]

"""C02 oracle: DL_POLY TABLE read back and compared with the model."""
from _common import *
import atsim.potentials as ap
from atsim.potentials import Potential
from atsim.potentials.pair_tabulation import DLPoly_PairTabulation

def run_case(case):
    pots, fs = [], []
    for p in case['pots']:
        f = mk_callable(p['fn']); fs.append(f); pots.append(Potential(p['A'], p['B'], f))
    out = io.StringIO()
    try:
        if case['route'] == 'class': DLPoly_PairTabulation(pots, case['cutoff'], case['nr']).write(out)
        elif case['route'] == 'class-reused':
            plist = [Potential('Q', 'Q', mk_callable(dict(kind='poly', coefs=[1.0, 2.0])))]
            tab = DLPoly_PairTabulation(plist, case['cutoff'], case['nr'])
            try: tab.write(io.StringIO())
            except Exception: pass
            del plist[:]; plist.extend(pots)
            tab.write(out)
        else: ap.writePotentials('DL_POLY', pots, case['cutoff'], case['nr'], out)
    except Exception as e:
        return out.getvalue(), fs, e
    return out.getvalue(), fs, None

def check_case(rep, case, name):
    text, fs, exc = run_case(case)
    cutoff, n = case['cutoff'], case['nr']
    if n % 4 != 0:
        if exc is None or text != '': rep.dev(name, case, 'no rejection (exc=%r, %d bytes written)' % (exc, len(text)), 'rejected, nothing written')
        else: rep.ok()
        return
    if exc is not None: rep.dev(name, case, 'exception %r' % (exc,), 'a table'); return
    lines = text.split('\n')
    delpot = cutoff / (n - 4)
    if len(lines[0]) != 80 or lines[0].strip(): rep.dev(name, case, 'title line %r' % lines[0], '80 blanks'); return
    h = lines[1]
    try: got = (float(h[0:15]), float(h[15:30]), int(h[30:40]))
    except Exception as e: rep.dev(name, case, 'header %r' % h, 'delpot cutpot ngrid in 15/15/10 columns'); return
    if not close(got[0], delpot, 2e-8) or not close(got[1], cutoff, 2e-8) or got[2] != n:
        rep.dev(name, case, 'header %r' % (got,), '(%r, %r, %d)' % (delpot, cutoff, n)); return
    i = 2
    for p, f in zip(case['pots'], fs):
        if lines[i] != '%8s%8s' % (p['A'], p['B']): rep.dev(name, case, 'block header %r' % lines[i], '%8s%8s' % (p['A'], p['B'])); return
        i += 1
        vals = []; prec = []
        for _ in range(2 * n // 4):
            l = lines[i]; i += 1
            if len(l) != 60: rep.dev(name, case, 'record %r' % l, 'four 15-character fields'); return
            vals += [float(l[j:j + 15]) for j in (0, 15, 30, 45)]
            # 'to the printed precision': a field with a three-digit exponent has six decimals, all others seven
            prec += [2e-7 if len(l[j:j + 15].split('e')[0].split('.')[1]) >= 7 else 2e-6 for j in (0, 15, 30, 45)]
        es, fo = vals[:n], vals[n:]
        for k in range(1, n + 1):
            r = k * delpot
            if not close(es[k - 1], f(r), prec[k - 1], 1e-12): rep.dev(name, case, 'energy %d = %r' % (k, es[k - 1]), 'V(%r)=%r' % (r, f(r))); return
            want = -r * f.d(r)
            tol = prec[n + k - 1] if p['fn'].get('deriv', True) else 3e-5
            if not close(fo[k - 1], want, tol, tol * 1e-3): rep.dev(name, case, 'force value %d = %r' % (k, fo[k - 1]), '-r dV/dr at %r = %r' % (r, want)); return
            rep.ok(2)
    if [l for l in lines[i:] if l.strip()]: rep.dev(name, case, 'trailing lines %r' % lines[i:i + 2], 'end of file')

def gen_case(rng):
    nr = rng.choice([8, 12, 16, 20, 100, 104, 2104, 4 * rng.randint(2, 60), rng.randint(5, 200)])
    pots = [dict(A=rng.choice(LABELS), B=rng.choice(LABELS), fn=rand_callable_spec(rng)) for _ in range(rng.randint(1, 3))]
    if rng.random() < 0.2:
        # a dyadic grid and an energy function with a simple root exactly on one of its rows (V = 0 there, dV/dr is not)
        nr = rng.choice([36, 68, 132]); delpot = 8.0 / (nr - 4)
        pots[0]['fn'] = root_on_grid_spec(rng, delpot * rng.randint(1, nr - 1))
        return dict(route=rng.choice(['class', 'writePotentials', 'class-reused']), cutoff=8.0, nr=nr, pots=pots)
    return dict(route=rng.choice(['class', 'writePotentials', 'class-reused']), cutoff=rng.choice([1.0, 6.5, 7.0, 10.0, round(rng.uniform(0.5, 15), 2)]), nr=nr, pots=pots)

def factory_cases(rep):
    """potable route: every way of fixing the row count ends in a TABLE with ngrid % 4 == 0 or in a configuration error with no file"""
    import tempfile, os
    for nm, tab, want_cut in (('nr-omitted', 'cutoff : 6.0', 6.0), ('nr-1001', 'cutoff : 6.0\nnr : 1001', 6.0), ('nr-1000', 'cutoff : 6.0\nnr : 1000', 6.0), ('dr-and-cutoff', 'cutoff : 6.0\ndr : 0.01', 6.0),
                    ('dr-and-cutoff-multiple-of-4', 'cutoff : 6.0\ndr : 0.006006006006006006', 6.0), ('nr-and-dr', 'nr : 16\ndr : 0.25', 3.75), ('nr-and-dr-fine', 'nr : 2000\ndr : 0.005', 9.995),
                    ('dr-and-cutoff-coarse', 'cutoff : 5.75\ndr : 0.25', 5.75)):
        for target in ('DL_POLY', 'DLPOLY'):
            case = dict(kind='potable-row-count', name=nm, target=target)
            rep.case('potable/' + nm, case)
            d = tempfile.mkdtemp()
            try:
                cfg = os.path.join(d, 'm.aspot'); outp = os.path.join(d, 'TABLE')
                open(cfg, 'w').write('[Tabulation]\ntarget : %s\n%s\n[Pair]\nO-O : as.buck 1000.0 0.3 32.0\n' % (target, tab))
                code, so, se = potable_main([cfg, outp])
                text = open(outp).read() if os.path.exists(outp) else None
                if code == 0 and text:
                    try: n = int(text.split('\n')[1][30:40])
                    except Exception: n = None
                    if n is None or n % 4 != 0: rep.dev('potable-' + nm, case, 'TABLE with ngrid %r' % n, 'ngrid divisible by four')
                    else:
                        # the header and the records of the potable route: delpot = cutpot/(ngrid-4) whichever keys fixed the grid, energies on the k*delpot grid
                        import math
                        hl = text.split('\n')[1]; delpot, cutpot = float(hl[0:15]), float(hl[15:30])
                        vals = ' '.join(text.split('\n')[3:3 + 3]).split()
                        want = [1000.0 * math.exp(-(k * cutpot / (n - 4)) / 0.3) - 32.0 / (k * cutpot / (n - 4)) ** 6 for k in range(1, 9)]
                        if abs(delpot - cutpot / (n - 4)) > 1e-7 * delpot:
                            rep.dev('potable-' + nm, case, 'header delpot %r cutpot %r ngrid %r' % (delpot, cutpot, n), 'delpot = cutpot/(ngrid-4) = %r' % (cutpot / (n - 4)))
                        elif want_cut is not None and abs(cutpot - want_cut) > 1e-7 * want_cut:
                            rep.dev('potable-' + nm, case, 'header cutpot %r' % cutpot, 'cutpot = %r' % want_cut)
                        elif any(abs(float(g) - w) > 2e-7 * max(1.0, abs(w)) for g, w in zip(vals[0:8], want)):
                            rep.dev('potable-' + nm, case, 'energies 1..8: %r' % (vals[0:8],), 'V(k*cutpot/(ngrid-4)): %r' % (want,))
                        else: rep.ok()
                elif 'configuration error' in se and not text: rep.ok()
                else: rep.dev('potable-' + nm, case, 'exit %r, stderr %r, output file %s' % (code, se[-150:], 'absent' if text is None else '%d bytes' % len(text)),
                              'a TABLE with ngrid % 4 == 0, or a configuration error and no output file')
            finally:
                import shutil; shutil.rmtree(d, ignore_errors=True)

if __name__ == '__main__':
    pl = payload(); rep = Report('C02')
    if pl.get('mode') == 'replay' and pl['input'].get('kind') == 'potable-row-count': factory_cases(rep)
    elif pl.get('mode') == 'replay': rep.case('replay', pl['input']); check_case(rep, pl['input'], 'replay')
    else:
        rng = random.Random(pl.get('seed', 0))
        factory_cases(rep)
        # magnitudes with three-digit exponents (a steep Born-Mayer tail, a huge amplitude): the records still are four 15-character fields
        for j, spec in enumerate([dict(kind='exp', A=1000.0, b=1.0 / 0.03, deriv=True), dict(kind='exp', A=1e120, b=0.5, deriv=True), dict(kind='exp', A=2.5e-80, b=8.0, deriv=False)]):
            c = dict(route=['class', 'writePotentials', 'class'][j], cutoff=10.0, nr=[8, 12, 16][j], pots=[dict(A='O', B='U', fn=spec)]); rep.case('extreme-magnitudes', c); check_case(rep, c, 'extreme-%d' % j)
        # a model without potentials: the row count rule does not depend on there being a block to write
        for j, nr_ in enumerate([10, 12, 7]):
            c = dict(route=['writePotentials', 'class', 'class'][j], cutoff=10.0, nr=nr_, pots=[]); rep.case('no-potentials' + ('/reject' if nr_ % 4 else ''), c); check_case(rep, c, 'no-potentials-%d' % nr_)
        for i in range(pl.get('n', 40)):
            c = gen_case(rng); rep.case(c['route'] + ('/reject' if c['nr'] % 4 else '') + ('/root-on-grid' if c['cutoff'] == 8.0 and c['nr'] in (36, 68, 132) else ''), c); check_case(rep, c, 'seeded-%d' % i)
    rep.finish()

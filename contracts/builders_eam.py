"""Contracts for the Finnis-Sinclair part of config/_eam_potential_builder.py (C04, C20): one density function per declared A->B,
a second declaration of the same A->B is rejected."""
import z3
from .common import *
from . import builders as BU

F_EB = FILE = 'atsim/potentials/config/_eam_potential_builder.py'
REG.add_class(ClassDecl('atsim/potentials/config/_common.py', 'EAMFSSpeciesTuple', {'from_species': T.Str, 'to_species': T.Str}, external=True))
REG.add_class(ClassDecl('atsim/potentials/config/_common.py', 'EAMFSDensityTuple', {'species': T.Obj('EAMFSSpeciesTuple'), 'potential_form_instance': T.Obj('PFInstance')}, external=True))
REG.add_class(ClassDecl(F_EB, 'EAM_Potential_Builder_FS', {}))
DT = ObjSort('EAMFSDensityTuple'); DTL = z3.SeqSort(DT); FSp = ObjSort('EAMFSSpeciesTuple')
d_sp = field('EAMFSDensityTuple', 'species', FSp); d_inst = field('EAMFSDensityTuple', 'potential_form_instance', BU.PFI)
sp_from = field('EAMFSSpeciesTuple', 'from_species', StrS); sp_to = field('EAMFSSpeciesTuple', 'to_species', StrS)
def frm(t): return sp_from(d_sp(t))
def to(t): return sp_to(d_sp(t))
Inner = T.Dict(T.Str, T.Fn); Outer = T.Dict(T.Str, Inner); IS = Inner.sort()

OS = Outer.sort()
def _hg(d): return (OS.has(d), OS.get(d)) if z3.is_expr(d) else (d.has, d.get)       # a dict as one term (result) or as a pair of arrays (variable)
def has2(d, a, b): h, g = _hg(d); return z3.And(z3.Select(h, a), z3.Select(IS.has(z3.Select(g, a)), b))
def get2(d, a, b): h, g = _hg(d); return z3.Select(IS.get(z3.Select(g, a)), b)
def no_dups(rows, n):
    i, j = z3.Int('i!f'), z3.Int('j!f')
    return z3.ForAll([i, j], z3.Implies(z3.And(0 <= i, i < j, j < n), z3.Not(z3.And(frm(rows[i]) == frm(rows[j]), to(rows[i]) == to(rows[j])))))
def table_is(d, rows, n, pfb):
    a, b = z3.Strings('a!f b!f'); j = z3.Int('j!g')
    return [z3.ForAll([a, b], z3.Implies(has2(d, a, b), z3.Exists([j], z3.And(0 <= j, j < n, frm(rows[j]) == a, to(rows[j]) == b)))),
            z3.ForAll([j], z3.Implies(z3.And(0 <= j, j < n), z3.And(has2(d, frm(rows[j]), to(rows[j])), get2(d, frm(rows[j]), to(rows[j])) == BU.DEN(pfb, d_inst(rows[j])))))]

def _inv(v, old):
    return [no_dups(v.density, v._i0)] + table_is(v.outdict, v.density, v._i0, v.potential_form_builder)
def _post(v, old, res):
    n = z3.Length(v.density)
    return [no_dups(v.density, n)] + table_is(res, v.density, n, v.potential_form_builder)
def _raises(v, old, exc):
    i, j = z3.Int('i!h'), z3.Int('j!h'); rows = v.density
    if exc.origin is None and exc.cls == 'ConfigurationException':
        return [z3.Exists([i, j], z3.And(0 <= i, i < j, j < z3.Length(rows), frm(rows[i]) == frm(rows[j]), to(rows[i]) == to(rows[j])))]
    return [z3.BoolVal(exc.cls in ('ConfigurationException', 'UnknownModifierException', 'UnknownPotentialFormException'))]

REG.add(Contract(F_EB, 'EAM_Potential_Builder_FS._density_to_potential_form_dict',
    params=[('self', T.Obj('EAM_Potential_Builder_FS')), ('density', T.List(T.Obj('EAMFSDensityTuple'))), ('potential_form_builder', T.Obj('Potential_Form_Builder'))],
    result=Outer, ensures=_post, post_names=['no-A->B-declared-twice', 'only-declared-pairs', 'every-declared-pair-with-the-function-its-definition-denotes'],
    invariants={0: _inv}, ghost={'outdict': Outer}, raises_when=_raises, on_raise=lambda v, old: [], instantiate_int_foralls=True,
    carries=['post', 'preserve/0', 'raises'], props=['C04', 'C20']))

# ---------------------------------------------------------------- element order of EAM tables (C03, C04, C12): [EAM-Embed] order, then the zero-filled species in sorted order
from pyvc.spec import SpecSeq
from pyvc.symexec import odict_wf
REG.add_class(ClassDecl('atsim/potentials/config/_common.py', 'EAMTuple', {'species': T.Str, 'potential_form_instance': T.Obj('PFInstance')}, external=True))    # EAMEmbedTuple / EAMDensityTuple rows
REG.add_class(ClassDecl(F_EB, 'EAM_Potential_Builder_O', {}, pyname='EAM_Potential_Builder'))
ET_ = ObjSort('EAMTuple'); ETL = z3.SeqSort(ET_)
e_sp = field('EAMTuple', 'species', StrS); e_inst = field('EAMTuple', 'potential_form_instance', BU.PFI)
species_seq = SpecSeq('eam_species_seq', [ETL], lambda rows, k: z3.Unit(e_sp(rows[k])), result=z3.SeqSort(StrS), elem_len=1)
FnDict = T.ODict(T.Str, T.Fn)

StrArr = z3.ArraySort(StrS, BoolS)
embed_members = z3.Function('species_with_embedding', ETL, StrArr)
def embed_members_def():
    rows = z3.Const('rows!em', ETL); x = z3.String('x!em'); j = z3.Int('j!em')
    return [z3.ForAll([rows, x], z3.Select(embed_members(rows), x) == z3.Exists([j], z3.And(0 <= j, j < z3.Length(rows), e_sp(rows[j]) == x)), patterns=[z3.Select(embed_members(rows), x)])]
def distinct_species(rows, n):
    i, j = z3.Int('i!u'), z3.Int('j!u')
    return z3.ForAll([i, j], z3.Implies(z3.And(0 <= i, i < j, j < n), e_sp(rows[i]) != e_sp(rows[j])))
def _tp_values(d, rows, pfb):
    j = z3.Int('j!tv')
    return z3.ForAll([j], z3.Implies(z3.And(0 <= j, j < z3.Length(rows)), z3.Select(d.get, e_sp(rows[j])) == BU.DEN(pfb, e_inst(rows[j]))), patterns=[rows[j]])
def _tp_table(d, rows, n, pfb):
    x = z3.String('x!t'); j = z3.Int('j!t')
    return [d.order == species_seq(rows, n),
            z3.ForAll([j], z3.Implies(z3.And(0 <= j, j < n), z3.And(z3.Select(d.has, e_sp(rows[j])), z3.Select(d.get, e_sp(rows[j])) == BU.DEN(pfb, e_inst(rows[j]))))),
            z3.ForAll([x], z3.Implies(z3.Select(d.has, x), z3.Exists([j], z3.And(0 <= j, j < n, e_sp(rows[j]) == x))))]
REG.add(Contract(F_EB, 'EAM_Potential_Builder._to_potential_form_dict',
    params=[('self', T.Obj('EAM_Potential_Builder_O')), ('tuple_list', T.List(T.Obj('EAMTuple'))), ('potential_form_builder', T.Obj('Potential_Form_Builder'))],
    requires=lambda v: [distinct_species(v.tuple_list, z3.Length(v.tuple_list))],        # the strict parser rejects a section with the same key twice (C20)
    # (the key set is named by embed_members rather than spelled out with quantifiers: the spelled-out form sets off a matching loop at call sites)
    result=FnDict, ensures=lambda v, old, res: [res.order == species_seq(v.tuple_list, z3.Length(v.tuple_list)), _tp_values(res, v.tuple_list, v.potential_form_builder), res.has == embed_members(v.tuple_list)],
    post_names=['keys-in-the-order-of-the-entries', 'each-entry-with-the-function-its-definition-denotes', 'key-set-is-exactly-the-species-of-the-entries'],
    definitions=embed_members_def,
    invariants={0: lambda v, old: _tp_table(v.d, v.tuple_list, v._i0, v.potential_form_builder)}, ghost={'d': FnDict}, instantiate_int_foralls=True,
    raises_when=lambda v, old, exc: [z3.BoolVal(exc.cls in ('ConfigurationException', 'UnknownModifierException', 'UnknownPotentialFormException'))], on_raise=lambda v, old: [],
    raises_classes=['ConfigurationException', 'UnknownModifierException', 'UnknownPotentialFormException'],
    carries=['post', 'preserve/0'], props=['C03', 'C12']))

StrSet = T.Set(T.Str)
def _species_set_post(rows_name):
    def post(v, old, res):
        x = z3.String('x!s'); rows = getattr(v, rows_name)
        return [z3.ForAll([x], z3.Select(res.has, x) == z3.Contains(species_seq(rows, z3.Length(rows)), z3.Unit(x)))]
    return post
for _n, _a in (('_embed_species', 'embed'), ('_density_species', 'density')):
    REG.add(Contract(F_EB, 'EAM_Potential_Builder.' + _n, params=[('self', T.Obj('EAM_Potential_Builder_O')), (_a, T.List(T.Obj('EAMTuple')))], result=StrSet,
        ensures=_species_set_post(_a), post_names=['exactly-the-species-of-the-entries'], comprehensions={0: (species_seq, lambda v, _a=_a: [getattr(v, _a)])},
        instantiate_int_foralls=True, carries=['post'], props=['C03', 'C12']))

from pyvc.values import ConstFactory, FnV
from pyvc.symexec import sorted_keys_fn
ZERO_FN = z3.Const('as.zero', Fn)
REG.add_class(ClassDecl('<ext>', 'EAMConfigView', {'eam_density': T.List(T.Obj('EAMTuple')), 'eam_embed': T.List(T.Obj('EAMTuple'))}, external=True))   # what the builder reads from its (filtered) parser
cv_density = field('EAMConfigView', 'eam_density', ETL); cv_embed = field('EAMConfigView', 'eam_embed', ETL)
sorted_strs = sorted_keys_fn(T.Str); StrArr = z3.ArraySort(StrS, BoolS)
def sorted_axioms():
    """A4: sorted(set of str): strictly increasing, exactly the members (for every set)"""
    S = z3.Const('S!sa', StrArr); i, j = z3.Int('i!sa'), z3.Int('j!sa'); x = z3.String('x!sa'); ks = sorted_strs(S)
    return [z3.ForAll([S, i, j], z3.Implies(z3.And(0 <= i, i < j, j < z3.Length(ks)), ks[i] < ks[j]), patterns=[z3.MultiPattern(ks[i], ks[j])]),
            z3.ForAll([S, i], z3.Implies(z3.And(0 <= i, i < z3.Length(ks)), z3.Select(S, ks[i])), patterns=[ks[i]]),
            z3.ForAll([S, x], z3.Implies(z3.Select(S, x), z3.Contains(ks, z3.Unit(x))), patterns=[z3.Select(S, x), z3.Contains(ks, z3.Unit(x))])]
null_set = z3.Function('species_without_embedding', StrArr, ETL, StrArr)     # species with a density function but no embedding function
def null_set_def():
    H = z3.Const('H!ns', StrArr); rows = z3.Const('rows!ns', ETL); x = z3.String('x!ns')
    return [z3.ForAll([H, rows, x], z3.Select(null_set(H, rows), x) == z3.And(z3.Contains(species_seq(rows, z3.Length(rows)), z3.Unit(x)), z3.Not(z3.Select(H, x))),
                      patterns=[z3.Select(null_set(H, rows), x)])]
def null_embed_set(old_has, rows): return null_set(old_has, rows)

def _null_state(d, old_d, ks, k):
    """after the first k zero-filled species: the old entries untouched, then ks[0..k) in that order, each with the zero function"""
    x = z3.String('x!z'); j = z3.Int('j!z')
    return [d.order == z3.Concat(old_d.order, z3.SubSeq(ks, 0, k)),
            z3.ForAll([x], z3.Select(d.has, x) == z3.Or(z3.Select(old_d.has, x), z3.Exists([j], z3.And(0 <= j, j < k, ks[j] == x)))),
            z3.ForAll([x], z3.Implies(z3.Select(old_d.has, x), z3.Select(d.get, x) == z3.Select(old_d.get, x))),
            z3.ForAll([j], z3.Implies(z3.And(0 <= j, j < k), z3.Select(d.get, ks[j]) == ZERO_FN))]
def _null_ks(v, old):
    return sorted_strs(v.null_embed_species.has)
REG.add(Contract(F_EB, 'EAM_Potential_Builder._add_null_embedding_functions',
    params=[('self', T.Obj('EAM_Potential_Builder_O')), ('cp', T.Obj('EAMConfigView')), ('embed_dict', FnDict), ('density_dict', T.Dict(T.Str, T.Fn))], modifies=['embed_dict'],
    ensures=lambda v, old, res: _null_state(v.embed_dict, old.embed_dict, sorted_strs(null_embed_set(old.embed_dict.has, cv_density(v.cp))), z3.Length(sorted_strs(null_embed_set(old.embed_dict.has, cv_density(v.cp))))),
    post_names=['old-order-then-the-zero-filled-species-sorted', 'exactly-those-keys', 'old-entries-untouched', 'zero-function-for-the-new-ones'],
    invariants={0: lambda v, old: _null_state(v.embed_dict, old.embed_dict, _null_ks(v, old), v._i0) + [v.null_embed_species.has == null_set(old.embed_dict.has, cv_density(v.cp))]},
    abstract_globals={'zero': ConstFactory(FnV(ZERO_FN))}, instantiate_int_foralls=True, definitions=lambda: sorted_axioms() + null_set_def(),
    carries=['post', 'preserve/0'], props=['C03', 'C12']))

# zero densities for every species of the model that has none (the density dictionary is only ever looked up by key)
def all_species_set(embed_has, rows):
    """species with an embedding function (after zero filling) or a density function"""
    x = z3.String('x!as')
    return lambda x_: z3.Or(z3.Select(embed_has, x_), z3.Contains(species_seq(rows, z3.Length(rows)), z3.Unit(x_)))
def _nd_state(d, old_d, member):
    x = z3.String('x!nd')
    return [z3.ForAll([x], z3.Select(d.has, x) == z3.Or(z3.Select(old_d.has, x), member(x))),
            z3.ForAll([x], z3.Implies(z3.Select(old_d.has, x), z3.Select(d.get, x) == z3.Select(old_d.get, x))),
            z3.ForAll([x], z3.Implies(z3.And(member(x), z3.Not(z3.Select(old_d.has, x))), z3.Select(d.get, x) == ZERO_FN))]
def _nd_inv(v, old):
    lst = keys_list_fn_str(v.all_species.has); j = z3.Int('j!ni')
    return _nd_state(v.density_dict, old.density_dict, lambda x_: z3.Exists([j], z3.And(0 <= j, j < v._i0, lst[j] == x_))) + \
           [z3.ForAll([z3.String('x!nj')], z3.Select(v.all_species.has, z3.String('x!nj')) == all_species_set(v.embed_dict.has, cv_density(v.cp))(z3.String('x!nj')))]
from pyvc.symexec import keys_list_fn
keys_list_fn_str = keys_list_fn(T.Str)
REG.add(Contract(F_EB, 'EAM_Potential_Builder._add_null_density_functions',
    params=[('self', T.Obj('EAM_Potential_Builder_O')), ('cp', T.Obj('EAMConfigView')), ('embed_dict', FnDict), ('density_dict', T.Dict(T.Str, T.Fn))], modifies=['density_dict'],
    ensures=lambda v, old, res: _nd_state(v.density_dict, old.density_dict, all_species_set(v.embed_dict.has, cv_density(v.cp))),
    post_names=['every-species-of-the-model-has-a-density', 'declared-densities-untouched', 'zero-density-for-the-others'],
    invariants={0: _nd_inv}, abstract_globals={'zero': ConstFactory(FnV(ZERO_FN))}, instantiate_int_foralls=True,
    carries=['post', 'preserve/0'], props=['C03', 'C12']))

# ---------------------------------------------------------------- _init_eampotentials: one EAMPotential per element, in [EAM-Embed] order then the zero-filled species sorted
from . import refdata as RDc
from .eam_common import EAM
_ebo = REG.classes['EAM_Potential_Builder_O']; _ebo.fields.update({'add_undefined': T.Bool, '_reference_data': T.Obj('Reference_Data')})
eb_add = field('EAM_Potential_Builder_O', 'add_undefined', BoolS); eb_rd2 = field('EAM_Potential_Builder_O', '_reference_data', RDc.RD)
REG.classes['EAM_Potential_Builder'].view_of = 'EAM_Potential_Builder_O'        # the getters' contracts (refdata.py) see the same object through their own class

def element_order(s, cp):
    """the statement's element order: the [EAM-Embed] entries in file order, then (when zero filling is on) the species that only have a
    density function, sorted"""
    E, D = cv_embed(cp), cv_density(cp)
    base = species_seq(E, z3.Length(E))
    return z3.If(eb_add(s), z3.Concat(base, sorted_strs(null_set(embed_members(E), D))), base)

def _init_pre(v):
    x = z3.String('x!wt')
    return [distinct_species(cv_embed(v.cp), z3.Length(cv_embed(v.cp))), distinct_species(cv_density(v.cp), z3.Length(cv_density(v.cp))),
            z3.ForAll([x], RDc.well_typed(eb_rd2(v.self), x))]
def _init_inv(v, old):
    j = z3.Int('j!ip'); od = v.embed_dict.order
    return [z3.Length(v.potlist) == v._i0, od == element_order(v.self, v.cp),
            z3.ForAll([j], z3.Implies(z3.And(0 <= j, j < v._i0), EAM['species'](v.potlist[j]) == od[j]))] + _dens_cover(v)
def _dens_cover(v):
    x = z3.String('x!dc')
    return [z3.ForAll([x], z3.Implies(z3.Select(v.embed_dict.has, x), z3.Select(v.density_dict.has, x)))]
def _init_post2(v, old, res):
    j = z3.Int('j!iq'); od = element_order(v.self, v.cp)
    return [z3.Length(res) == z3.Length(od), z3.ForAll([j], z3.Implies(z3.And(0 <= j, j < z3.Length(od)), EAM['species'](res[j]) == od[j]))]
REG.add(Contract(F_EB, 'EAM_Potential_Builder._init_eampotentials',
    params=[('self', T.Obj('EAM_Potential_Builder_O')), ('cp', T.Obj('EAMConfigView')), ('potential_form_registry', T.Obj('Registry')), ('modifier_registry', T.Obj('Registry'))],
    requires=_init_pre, result=T.List(T.Obj('EAMPotential')), ensures=_init_post2,
    post_names=['one-element-per-species', 'in-[EAM-Embed]-order-then-the-zero-filled-species-sorted'],
    invariants={0: _init_inv}, ghost={'potlist': T.Obj('EAMPotential')}, instantiate_int_foralls=True,
    raises_when=lambda v, old, exc: [z3.BoolVal(exc.cls in ('ConfigurationException', 'UnknownModifierException', 'UnknownPotentialFormException'))], on_raise=lambda v, old: [],
    carries=['post', 'preserve/0', 'raises'], props=['C03', 'C12']))

# ---------------------------------------------------------------- Finnis-Sinclair variant: species of A->B rows, zero filling of the A->B table
fs_species_seq = SpecSeq('fs_species_seq', [DTL], lambda rows, k: z3.Concat(z3.Unit(frm(rows[k])), z3.Unit(to(rows[k]))), result=z3.SeqSort(StrS), elem_len=2)
REG.classes['EAM_Potential_Builder_FS'].bases = ()     # (verified on its own class; methods it inherits are looked up through the Python class)
REG.add(Contract(F_EB, 'EAM_Potential_Builder_FS._density_species', params=[('self', T.Obj('EAM_Potential_Builder_FS')), ('density', T.List(T.Obj('EAMFSDensityTuple')))], result=StrSet,
    ensures=lambda v, old, res: [z3.ForAll([z3.String('x!fd')], z3.Select(res.has, z3.String('x!fd')) == z3.Contains(fs_species_seq(v.density, z3.Length(v.density)), z3.Unit(z3.String('x!fd'))))],
    post_names=['every-species-named-on-either-side-of-an-A->B-row'],
    invariants={0: lambda v, old: [v.species_list == fs_species_seq(v.density, v._i0)]}, ghost={'species_list': T.Str},
    carries=['post', 'preserve/0'], props=['C04']))

REG.add_class(ClassDecl('<ext>', 'EAMFSConfigView', {'eam_density_fs': T.List(T.Obj('EAMFSDensityTuple')), 'eam_embed': T.List(T.Obj('EAMTuple'))}, external=True))
cvfs_density = field('EAMFSConfigView', 'eam_density_fs', DTL)
def fs_all_species(embed_has, rows):
    return lambda x_: z3.Or(z3.Select(embed_has, x_), z3.Contains(fs_species_seq(rows, z3.Length(rows)), z3.Unit(x_)))
def _fsnd_state(d, old_d, member):
    """after zero filling: every pair (a, b) of species of the model has a density; declared ones are untouched, the others are zero"""
    a, b = z3.Strings('a!fz b!fz')
    return [z3.ForAll([a, b], has2(d, a, b) == z3.Or(has2(old_d, a, b), z3.And(member(a), member(b)))),
            z3.ForAll([a, b], z3.Implies(has2(old_d, a, b), get2(d, a, b) == get2(old_d, a, b))),
            z3.ForAll([a, b], z3.Implies(z3.And(member(a), member(b), z3.Not(has2(old_d, a, b))), get2(d, a, b) == ZERO_FN))]

def _fsnd_outer(v, old):
    L = keys_list_fn_str(v.all_species.has); j = z3.Int('j!fo'); i = v._i0
    allm = lambda x_: z3.Select(v.all_species.has, x_)
    a, b = z3.Strings('a!fo b!fo')
    done = lambda a_: z3.Exists([j], z3.And(0 <= j, j < i, L[j] == a_))
    return [z3.ForAll([a, b], has2(v.density_dict, a, b) == z3.Or(has2(old.density_dict, a, b), z3.And(done(a), allm(b)))),
            z3.ForAll([a, b], z3.Implies(has2(old.density_dict, a, b), get2(v.density_dict, a, b) == get2(old.density_dict, a, b))),
            z3.ForAll([a, b], z3.Implies(z3.And(done(a), allm(b), z3.Not(has2(old.density_dict, a, b))), get2(v.density_dict, a, b) == ZERO_FN)),
            z3.ForAll([a], allm(a) == fs_all_species(v.embed_dict.has, cvfs_density(v.cp))(a))]
def _fsnd_inner(v, old):
    L = keys_list_fn_str(v.all_species.has); j = z3.Int('j!fi'); i, k = v._i0, v._i1
    allm = lambda x_: z3.Select(v.all_species.has, x_)
    a, b = z3.Strings('a!fi b!fi')
    done = lambda a_: z3.Exists([j], z3.And(0 <= j, j < i, L[j] == a_))
    cur = lambda a_, b_: z3.And(a_ == L[i], z3.Exists([j], z3.And(0 <= j, j < k, L[j] == b_)))
    return [v.s == L[i], 0 <= i, i < z3.Length(L), z3.Select(v.density_dict.has, L[i]),
            z3.ForAll([a, b], has2(v.density_dict, a, b) == z3.Or(has2(old.density_dict, a, b), z3.And(done(a), allm(b)), cur(a, b))),
            z3.ForAll([a, b], z3.Implies(has2(old.density_dict, a, b), get2(v.density_dict, a, b) == get2(old.density_dict, a, b))),
            z3.ForAll([a, b], z3.Implies(z3.And(z3.Or(z3.And(done(a), allm(b)), cur(a, b)), z3.Not(has2(old.density_dict, a, b))), get2(v.density_dict, a, b) == ZERO_FN)),
            z3.ForAll([a], allm(a) == fs_all_species(v.embed_dict.has, cvfs_density(v.cp))(a))]
REG.add(Contract(F_EB, 'EAM_Potential_Builder_FS._add_null_density_functions',
    params=[('self', T.Obj('EAM_Potential_Builder_FS')), ('cp', T.Obj('EAMFSConfigView')), ('embed_dict', FnDict), ('density_dict', Outer)], modifies=['density_dict'],
    ensures=lambda v, old, res: _fsnd_state(v.density_dict, old.density_dict, fs_all_species(v.embed_dict.has, cvfs_density(v.cp))),
    post_names=['every-pair-of-species-of-the-model-has-a-density', 'declared-densities-untouched', 'zero-density-for-the-undeclared-pairs'],
    invariants={0: _fsnd_outer, 1: _fsnd_inner}, abstract_globals={'zero': ConstFactory(FnV(ZERO_FN))}, instantiate_int_foralls=True,
    carries=['post', 'preserve/0', 'preserve/1'], props=['C04']))

"""Contracts for atsim/potentials/_dlpoly_writeTABLE.py and DLPoly_PairTabulation (C02, C17)."""
import z3
from .common import *

FILE = 'atsim/potentials/_dlpoly_writeTABLE.py'
REC = " % 14.7e % 14.7e % 14.7e % 14.7e\n"

def V(pot, r): return E(pot, r)
# -r dV/dr (force() is -dV/dr).  Opaque in the writer's proof (keeps its queries linear); revealed for
# _calculateForce and in the property lemma.
W = z3.Function('dl_W', Pot, RealS, RealS)
def W_def():
    p, r = z3.Const('p!w', Pot), z3.Real('r!w')
    return [z3.ForAll([p, r], W(p, r) == r * Fo(p, r), patterns=[W(p, r)])]

# accumulated separation after k additions of m (r = 0.0; r += m ...).  Closed form k*m proved by induction.
from pyvc.spec import SpecAcc
acc = SpecAcc('dl_acc', [RealS], lambda m: z3.RealVal(0), lambda m, t, prev: prev + m, closed=lambda m, t: real(t) * m)

def erec(pot, m, j):
    return tok(REC, *[V(pot, acc(m, 4 * j + i)) for i in (1, 2, 3, 4)])
def frec(pot, m, j):
    return tok(REC, *[W(pot, acc(m, 4 * j + i)) for i in (1, 2, 3, 4)])

erecs = SpecSeq('dl_erecs', [Pot, RealS], erec, elem_len=9)
frecs = SpecSeq('dl_frecs', [Pot, RealS], frec, elem_len=9)

def pot_header(pot): return tok("%8s%8s\n", pot_A(pot), pot_B(pot))

def pot_block(pot, G, m):
    return cat(pot_header(pot), erecs(pot, m, G / 4), frecs(pot, m, G / 4))

def table_header(delpot, cutpot, ngrid):
    return cat(lit_doc(" " * 80 + "\n"), tok("%15.8e%15.8e%10d\n", delpot, cutpot, ngrid))

PotList = z3.SeqSort(Pot)
blocks = SpecSeq('dl_blocks', [PotList, IntS, RealS], lambda ps, G, m, k: pot_block(ps[k], G, m))

def dlpoly_file(ps, cutoff, G):
    """C02 statement: delpot = cutoff/(ngrid-4), cutpot = cutoff, ngrid; then one block per potential"""
    m = cutoff / (real(G) - 4)
    return cat(table_header(m, cutoff, G), blocks(ps, G, m, z3.Length(ps)))

def _buf(l, k, m, f):
    """the 4-value buffer holds the values of the current, incomplete record"""
    q = k / 4
    return [z3.Length(l) == k % 4] + [z3.Implies(j < k % 4, l[j] == f(acc(m, 4 * q + j + 1))) for j in (0, 1, 2)]

REG.add(Contract(FILE, '_formatRecord', params=[('values', T.List(T.Real))], requires=lambda v: [z3.Length(v.values) == 4], result=T.Text,
    ensures=lambda v, old, res: [res == tok(REC, v.values[0], v.values[1], v.values[2], v.values[3])], trusted=True,
    note='one record of four values: the record token of the specification. Its rendering (each value in a field of exactly 15 characters: " % 14.7e", with six decimals when the exponent has three digits) is text formatting and string length, outside the executor; the fixed width is decided by the concrete oracle (records of 60 characters, magnitudes with three-digit exponents included)',
    props=['C02', 'C17']))
REG.add(Contract(FILE, '_writePotential',
    params=[('potential', T.Obj('Potential')), ('cutoff', T.Real), ('gridPoints', T.Int), ('meshResolution', T.Real), ('out', T.Doc)],
    requires=lambda v: [v.gridPoints >= 0],
    modifies=['out'],
    ensures=lambda v, old, res: [v.gridPoints % 4 == 0,
                                 v.out == cat(old.out, pot_block(v.potential, v.gridPoints, v.meshResolution))],
    post_names=['only-multiples-of-4-return', 'block'],
    invariants={
        0: lambda v, old: [v.out == old.out, v.gridPoints % 4 == 0, v.r == acc(v.meshResolution, v._i0),
                           v.outputbuilder == cat(pot_header(v.potential), erecs(v.potential, v.meshResolution, v._i0 / 4))]
                          + _buf(v.l, v._i0, v.meshResolution, lambda r: V(v.potential, r)),
        1: lambda v, old: [v.out == old.out, v.gridPoints % 4 == 0, v.r == acc(v.meshResolution, v._i1),
                           v.outputbuilder == cat(pot_header(v.potential), erecs(v.potential, v.meshResolution, v.gridPoints / 4),
                                                  frecs(v.potential, v.meshResolution, v._i1 / 4))]
                          + _buf(v.l, v._i1, v.meshResolution, lambda r: W(v.potential, r)),
    },
    ghost={'l': T.Real}, unfold_depth=2,
    on_raise=lambda v, old: [v.out == old.out],
    raises_when=lambda v, old, exc: [z3.Or(exc.cls == '<any>', z3.BoolVal(exc.cls == 'WritePotentialException'))] if False else
                                    ([v.gridPoints % 4 != 0] if exc.cls == 'WritePotentialException' else []),
    carries=['post', 'preserve/0', 'preserve/1', 'raises'], props=['C02', 'C17']))

REG.add(Contract(FILE, '_calculateForce',
    params=[('pot', T.Obj('Potential')), ('r', T.Real)], result=T.Real,
    ensures=lambda v, old, res: [res == W(v.pot, v.r)],
    definitions=W_def, carries=['post'], props=['C02']))

REG.add(Contract(FILE, '_writeTableHeader',
    params=[('delpot', T.Real), ('cutpot', T.Real), ('ngrid', T.Int), ('out', T.Doc)],
    modifies=['out'],
    ensures=lambda v, old, res: [v.out == cat(old.out, table_header(v.delpot, v.cutpot, v.ngrid))],
    carries=['post'], props=['C02']))

REG.add(Contract(FILE, 'writePotentials',
    params=[('potentials', T.List(T.Obj('Potential'))), ('cutoff', T.Real), ('gridPoints', T.Int), ('out', T.Doc)],
    requires=lambda v: [v.gridPoints >= 0, v.gridPoints != 4],
    modifies=['out'],
    ensures=lambda v, old, res: [v.gridPoints % 4 == 0,
                                 v.out == cat(old.out, dlpoly_file(v.potentials, v.cutoff, v.gridPoints))],
    post_names=['only-multiples-of-4-return', 'file'],
    invariants={0: lambda v, old: [v.out == old.out, v.meshResolution == v.cutoff / (real(v.gridPoints) - 4),
                                   v.gridPoints % 4 == 0,
                                   v.outputbuilder == cat(table_header(v.meshResolution, v.cutoff, v.gridPoints),
                                                          blocks(v.potentials, v.gridPoints, v.meshResolution, v._i0))]},
    on_raise=lambda v, old: [v.out == old.out],
    carries=['post', 'preserve/0'], props=['C02', 'C17']))

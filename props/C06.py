"""C06 — built-in potential forms evaluate their documented formula and argument order."""
import ast, z3
import sympy as sp
from pyvc import symalg as B
from pyvc.extract import Module, get_func
import contracts.forms as FM
import props.C07 as C07

F_FORMS = 'atsim/potentials/potentialforms.py'
F_UTIL = 'atsim/potentials/_util.py'
F_PF = 'atsim/potentials/config/_potential_form.py'
F_PY = 'atsim/potentials/config/_python_potential_function.py'
F_CX = 'atsim/potentials/config/_cexprtk_potential_function.py'
F_REG = 'atsim/potentials/config/_potential_form_registry.py'
import contracts.routes as RT
# Engine A: the arity rule and the binding order of the access routes (the source-shape obligations on the same functions stay as tripwires)
FUNCTIONS = [(RT.F_UTIL, '_rpartial.__call__'), (RT.F_PF, '_Check_Call.required_arg_len'), (RT.F_PF, '_Check_Call.args_valid'), (RT.F_PF, '_Check_Call.__call__'),
             (RT.F_PY, '_Python_Potential_Function.__call__'), (RT.F_FORMS, '_FunctionFactory.__call__')]
MUTANTS = [
    (RT.F_UTIL, '_rpartial.__call__', "args + self.args", "self.args + args", 'post'),
    (RT.F_PF, '_Check_Call.required_arg_len', "argl = argl - 1", "argl = argl - 0", 'post'),
    (RT.F_PF, '_Check_Call.args_valid', "len(args) == self.required_arg_len()", "len(args) >= self.required_arg_len()", 'post'),
    (RT.F_PF, '_Check_Call.__call__', "if not self.args_valid(*args):", "if self.args_valid(*args):", 'post'),
    (RT.F_PY, '_Python_Potential_Function.__call__', "self._pyfunc(*args)", "self._pyfunc(*args[1:])", 'post'),
    (RT.F_FORMS, '_FunctionFactory.__call__', "_rpartial(self._func.deriv, *args)", "_rpartial(self._func.deriv2, *args)", 'post'),
    (RT.F_FORMS, '_FunctionFactory.__call__', "wrapper = _rpartial(self._func, *args)", "wrapper = _rpartial(self._func, *args[1:])", 'post'),
]
r = B.R

def lemmas():
    out = []
    m = Module.get(FM.F)
    # (i) every class evaluates the documented closed form with the documented parameter order
    for cls, (params, spec) in sorted(FM.FORMS.items()):
        where = '%s (class %s)' % (FM.F, cls)
        try:
            fi = get_func(FM.F, cls + '.__call__')
            code_params = [a.arg for a in fi.node.args.args][2:]
            e = B.method_term(FM.F, cls, '__call__', [r] + params)
        except Exception as ex:
            o = B.static_obligation('C06/potentialfunctions.py::%s/translate' % cls, False, cls, where, str(ex), hard=False); out.append(o); continue
        out.append(B.static_obligation('C06/potentialfunctions.py::%s.__call__/arity' % cls, len(code_params) == len(params), cls, where,
                                       'code takes %s, documented signature has %d parameters' % (code_params, len(params))))
        out.append(B.identity_obligation('C06/potentialfunctions.py::%s.__call__/is-documented-formula' % cls, e, spec(*params), [r] + params, cls + '.__call__', where, FM.DOMAIN))
    # polynomial of any order
    out += [o for o in C07.form_obligations('C06') if '_polynomial.__call__' in o.name or '_split_args' in o.name]
    # instances: name = _name()  for every documented form, and nothing else callable
    inst = {k: v.func.id for k, v in m.consts.items() if isinstance(v, ast.Call) and isinstance(v.func, ast.Name) and v.func.id.startswith('_')}
    out.append(B.static_obligation('C06/potentialfunctions.py/instances', inst == {n: '_' + n for n in FM.EXPECTED_NAMES}, 'module', FM.F, str(inst)))
    # (ii) the four access routes hand the parameters on unchanged and in order
    S = B.source_shape
    out.append(S('C06', F_UTIL, '_rpartial.__call__', 'r-first-then-bound-parameters', ['return self.func(*args + self.args, **kwargs)']))
    out.append(S('C06', F_FORMS, '_FunctionFactory.__call__', 'binds-parameters-in-order',
                 ['wrapper = _rpartial(self._func, *args)', "wrapper.deriv = _rpartial(self._func.deriv, *args)", "wrapper.deriv2 = _rpartial(self._func.deriv2, *args)", 'return wrapper']))
    mf = Module.get(F_FORMS)
    fac = {k: ast.unparse(v) for k, v in mf.consts.items() if isinstance(v, ast.Call) and isinstance(v.func, ast.Name) and v.func.id == '_FunctionFactory'}
    out.append(B.static_obligation('C06/potentialforms.py/factory-of-the-same-named-function', fac == {n: '_FunctionFactory(potentialfunctions.%s)' % n for n in FM.EXPECTED_NAMES},
                                   'module', F_FORMS, str(fac)))
    out.append(S('C06', F_PF, 'Potential_Form.__call__', 'checks-arity-then-binds', ['self._check_call(*args)', 'f = self._functionfactory(*args)', 'return f']))
    out.append(S('C06', F_PF, 'Potential_Form.__init__', 'factory-of-the-wrapped-function', ['self._functionfactory = _FunctionFactory(potential_function)', 'self._check_call = _Check_Call(self.signature)']))
    out.append(S('C06', F_PF, '_Check_Call.required_arg_len', 'r-is-not-a-parameter-of-a-form', ['argl = len(self.signature.parameter_names)', 'if not self.is_func_call:\n    argl = argl - 1', 'return argl']))
    out.append(S('C06', F_PF, '_Check_Call.args_valid', 'exact-arity-or-varargs', ['return self.signature.is_varargs or len(args) == self.required_arg_len()']))
    out.append(S('C06', F_PY, '_Python_Potential_Function.__call__', 'passes-arguments-through', ['self._check_call(*args)', 'return self._pyfunc(*args)']))
    out.append(S('C06', F_CX, '_Cexptrk_Potential_Function.__call__', 'binds-parameters-positionally',
                 ['parameter_names = self._potential_form_tuple.signature.parameter_names', 'for pn, v in zip(parameter_names, args):\n    self._local_symbol_table.variables[pn] = v']))
    out.append(S('C06', F_REG, 'Potential_Form_Registry._register_standard', 'as.NAME-is-potentialfunctions.NAME',
                 ['for name, pyfunc in inspect.getmembers(potentialfunctions, _iscallable):', 'name = self._make_standard_name(name)',
                  'func = _Python_Potential_Function(d, pyfunc)', 'pf = Potential_Form(func)', 'potential_forms[name] = pf']))
    out.append(S('C06', F_REG, 'Potential_Form_Registry._make_standard_name', 'as.-prefix', ['return self._standard_namespace + name']))
    return out

ASSUMPTIONS = C07.ASSUMPTIONS[:2] + ['A6: cexprtk evaluates as.NAME(r, p...) by calling the registered Python callable with those arguments',
              'ZBL: the manual\'s formula is ill-formed (Z1/Z2 without 1/r, undefined S(r), different fit constants); the oracle is the universal ZBL screening function with the in-source constants (documentation note, DESIGN §4 C06)',
              'Tang-Toennies: manual formula (atomic units, N = 5) composed with the unit conversion stated in the source (r/0.5292, x 27.211)']
NOTES = ['routes (ii) are decided structurally (normalised source of the glue functions) plus the oracle on the real code; buck4 is C10\'s']
BOUNDED = [dict(name='the four access routes evaluated on the real code (function, factory, as.NAME in a section, as.NAME(r,...) in a custom formula)', bound='every form, seeded parameters, 4 separations each; quick 1 / thorough 40 parameter sets per form', technique='concrete oracle')]

def oracle_payload(tier, seed, mode='search'): return dict(mode=mode, seed=seed, n=1 if tier == 'quick' else 40)
def witness_for(ob, devs, run_oracle):
    if devs: d = devs[0]; return dict(deviates=True, input=d['input'], observed=d['observed'], expected=d['expected'])
    return dict(deviates=False)

ENGINE_B_FUNCTIONS = [(FM.F, '%s.%s' % (c, m)) for c in sorted(FM.FORMS) + ['_polynomial'] for m in ('__call__', 'deriv', 'deriv2')]
ENGINE_B_FUNCTIONS += [(F_UTIL, '_rpartial.__call__'), (F_FORMS, '_FunctionFactory.__call__'), (F_PF, 'Potential_Form.__call__'), (F_PF, '_Check_Call.required_arg_len'), (F_PY, '_Python_Potential_Function.__call__'), (F_CX, '_Cexptrk_Potential_Function.__call__'), (F_REG, 'Potential_Form_Registry._register_standard')]

MODULE_MUTANTS = [
    (FM.F, "return A * math.exp(-r/rho) - (C/r**6)", "return rho * math.exp(-r/A) - (C/r**6)", '_buck.__call__'),
    (F_UTIL, "return self.func(*(args + self.args), **kwargs)", "return self.func(*(self.args + args), **kwargs)", '_rpartial'),
    (F_PF, "argl = argl-1", "argl = argl", 'required_arg_len'),
    (FM.F, "Ck2=0.5099", "Ck2=0.5098", '_zbl.__call__'),
    (FM.F, "def __call__(self, r, gamma, r_star, D):", "def __call__(self, r, r_star, gamma, D):", '_morse.__call__'),
]

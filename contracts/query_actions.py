"""Contracts for potable's query actions (C14): tools/potable/_query_actions.py.  An item of the file is SECTION_NAME:KEY with its value;
_list_section lists the items of one section in file order, _item_value looks one up (the key is the text after the LAST colon)."""
import z3
from .common import *
from .ext_configparser import *
from . import duplicates as DU
from pyvc.spec import SpecSeq
from pyvc.symexec import TupleSort

FILE = F_QA = 'atsim/potentials/tools/potable/_query_actions.py'
F_CP = 'atsim/potentials/config/_config_parser.py'
raw_of = DU.rawcp       # the parser object's strict INI parser; the property raw_config_parser returns it (verified below; A6 for views: wrapt passes the attribute through)
REG.add(Contract(F_CP, 'ConfigParser.raw_config_parser', params=[('self', T.Obj('ConfigParser'))], result=T.Obj('RawCP'),
    ensures=lambda v, old, res: [res == DU.rawcp(v.self)], raises_when=lambda v, old, exc: [z3.BoolVal(False)], on_raise=lambda v, old: [], raises_classes=[], carries=['post'], props=['C14']))
ItemT = T.Tuple(T.Text, T.Str); ItemS = TupleSort([Doc, StrS]); ItemL = z3.SeqSort(ItemS)
def item_of(sp, section, k):
    """(label, value) of the k-th option of a section: label = SECTION_NAME:KEY as the listing prints it"""
    key = DU.sec_keys(sp)[k]
    return ItemS.mk(tok("{section}:{key}", section, key), sec_get(sp, key))
section_items = SpecSeq('section_items', [SP, StrS], lambda sp, section, k: z3.Unit(item_of(sp, section, k)), result=ItemL, elem_len=1)

REG.add(Contract(F_QA, '_list_section', params=[('cp', T.Obj('ConfigParser')), ('section', T.Str)], result=T.List(ItemT),
    requires=lambda v: [DU.has_sec(raw_of(v.cp), v.section)],      # (KeyError otherwise: callers pass names of sections that exist)
    ensures=lambda v, old, res: [res == section_items(DU.sec_of(raw_of(v.cp), v.section), v.section, z3.Length(DU.sec_keys(DU.sec_of(raw_of(v.cp), v.section))))],
    post_names=['every-option-of-the-section-once-in-file-order-with-its-value'],
    invariants={0: lambda v, old: [v.outlist == section_items(DU.sec_of(raw_of(v.cp), old.section), old.section, v._i0)]},
    ghost={'outlist': ItemT}, raises_when=lambda v, old, exc: [z3.BoolVal(False)], on_raise=lambda v, old: [], raises_classes=[],
    carries=['post', 'preserve/0'], props=['C14']))

from . import potable_cli as CLI
NOVAL = z3.BoolVal(False)
REG.add(Contract(F_QA, '_item_value', params=[('cp', T.Obj('ConfigParser')), ('key', T.Str)], result=T.Str,
    requires=lambda v: [CLI.item_ok(v.key, NOVAL), DU.has_sec(raw_of(v.cp), CLI.item_sec(v.key, NOVAL)),
                        sec_has(DU.sec_of(raw_of(v.cp), CLI.item_sec(v.key, NOVAL)), CLI.item_key(v.key, NOVAL))],       # an item of the file (a missing one: KeyError, outside the statement)
    ensures=lambda v, old, res: [res == sec_get(DU.sec_of(raw_of(v.cp), CLI.item_sec(v.key, NOVAL)), CLI.item_key(v.key, NOVAL))],
    post_names=['the-value-of-the-item-SECTION_NAME:KEY'], definitions=CLI.item_definitions,
    raises_when=lambda v, old, exc: [z3.BoolVal(False)], on_raise=lambda v, old: [], raises_classes=[], carries=['post'], props=['C14']))

# ---------------------------------------------------------------- ConfigParser.parsed_sections / the listing of the whole file
StrL = z3.SeqSort(StrS)
def _sv(x): return z3.StringVal(x)
def _in(lst, x): return z3.Contains(lst, z3.Unit(_sv(x)))
FIXED = [('Tabulation', 'tabulation'), ('Pair', 'pair'), ('EAM-Embed', 'eam_embed'), ('Potential-Form', 'potential_form'), ('Table-Form', 'table_form')]
def _ps_post(v, old, res):
    raw = DU.rawcp(v.self)
    out = [_in(res, attr) == DU.has_sec(raw, _sv(sec)) for sec, attr in FIXED]
    out.append(z3.Or(_in(res, 'eam_density'), _in(res, 'eam_density_fs')) == DU.has_sec(raw, _sv('EAM-Density')))
    return out
def _ps_inv(v, old):
    """while looking for a '->' key: the flag is still down (the loop leaves at the first such key)"""
    return [z3.Not(v.isFS)]
REG.add(Contract(F_CP, 'ConfigParser.parsed_sections', params=[('self', T.Obj('ConfigParser'))], result=T.List(T.Str),
    ensures=_ps_post, post_names=['%s-iff-[%s]' % (a, s_) for s_, a in FIXED] + ['one-of-the-two-density-names-iff-[EAM-Density]'],
    invariants={0: _ps_inv}, ghost={'sections': T.Str}, raises_when=lambda v, old, exc: [z3.BoolVal(False)], on_raise=lambda v, old: [], raises_classes=[],
    carries=['post'], props=['C14']))

# ---- items of a list of sections, section after section
from pyvc.spec import SpecAcc, FilterSeq
from . import tableform_dups as TFD
def _sec_items(raw, name):
    sp = DU.sec_of(raw, name)
    return section_items(sp, name, z3.Length(DU.sec_keys(sp)))
items_of_sections = SpecAcc('items_of_sections', [DU.RCP, StrL], lambda raw, secs: z3.Empty(ItemL), lambda raw, secs, t, prev: z3.Concat(prev, _sec_items(raw, secs[t])), result=ItemL)
def _all_exist(raw, secs):
    j = z3.Int('j!ae')
    return z3.ForAll([j], z3.Implies(z3.And(0 <= j, j < z3.Length(secs)), DU.has_sec(raw, secs[j])))
REG.add(Contract(F_QA, '_parse_raw', params=[('cp', T.Obj('ConfigParser')), ('orphan_sections', T.List(T.Str))], result=T.List(ItemT),
    requires=lambda v: [_all_exist(raw_of(v.cp), v.orphan_sections)],
    ensures=lambda v, old, res: [res == items_of_sections(raw_of(v.cp), v.orphan_sections, z3.Length(v.orphan_sections))],
    post_names=['the-items-of-the-named-sections-section-after-section'],
    invariants={0: lambda v, old: [v.outlist == items_of_sections(raw_of(v.cp), v.orphan_sections, v._i0)]}, ghost={'outlist': ItemT},
    raises_when=lambda v, old, exc: [z3.BoolVal(False)], on_raise=lambda v, old: [], raises_classes=[], instantiate_int_foralls=True,
    carries=['post', 'preserve/0'], props=['C14']))

# ---- the whole listing: the five sections with fixed names (those present), then every other section in file order, then [Variables]
LISTED = ['Pair', 'Potential-Form', 'Tabulation', 'EAM-Embed', 'EAM-Density']      # order of the listing
def is_other(s): return z3.And(*[s != _sv(n) for n in LISTED])
other_sections = FilterSeq('other_sections', [StrL], lambda S, k: is_other(S[k]), lambda S, k: S[k], StrS); other_sections.want_positions_lemma = True
REG.classes['RawCP'].fields['default_section'] = T.Str
VarsT = T.ODict(T.Str, T.Str)
var_keys = z3.Function('variables_of', DU.RCP, StrL); var_val = z3.Function('variable_value', DU.RCP, StrS, StrS)
dflt_sec = field('RawCP', 'default_section', StrS)
def _defaults_post(v, old, res):
    k = z3.String('k!df')
    return [res.order == var_keys(v.self), z3.ForAll([k], z3.Select(res.get, k) == var_val(v.self, k), patterns=[z3.Select(res.get, k)])]
REG.add(Contract('<ext>', 'RawCP.defaults', params=[('self', T.Obj('RawCP'))], result=VarsT, ensures=_defaults_post, external=True,
    note='configparser.defaults(): the ordered dictionary of the default section ([Variables]): its keys in file order with their (raw) values', props=['C14']))
# A5 facts about sections(): every listed name is a section
def _sections_exist(raw):
    j = z3.Int('j!se'); S = TFD.sections_of(raw)
    return z3.ForAll([j], z3.Implies(z3.And(0 <= j, j < z3.Length(S)), DU.has_sec(raw, S[j])), patterns=[S[j]])
_c_sections = REG.get('<ext>', 'RawCP.sections'); _old_ens = _c_sections.ensures
_c_sections.ensures = lambda v, old, res: _old_ens(v, old, res) + [_sections_exist(v.self)]
var_items = SpecSeq('variable_items', [DU.RCP], lambda raw, k: z3.Unit(ItemS.mk(tok("{section}:{key}", dflt_sec(raw), var_keys(raw)[k]), var_val(raw, var_keys(raw)[k]))), result=ItemL, elem_len=1)
def _members_by_position():
    """a valid fact of the theory of sequences, stated for the matcher: the item at a position is a member"""
    q = z3.Const('q!mp', StrL); i = z3.Int('i!mp')
    return z3.ForAll([q, i], z3.Implies(z3.And(0 <= i, i < z3.Length(q)), z3.Contains(q, z3.Unit(q[i]))), patterns=[q[i]])
def fixed_part(raw, upto=len(LISTED)):
    out = z3.Empty(ItemL)
    for n in LISTED[:upto]: out = z3.Concat(out, z3.If(DU.has_sec(raw, _sv(n)), _sec_items(raw, _sv(n)), z3.Empty(ItemL)))
    return out
def whole_listing(raw, nvars):
    S = TFD.sections_of(raw); others = other_sections(S, z3.Length(S))
    return z3.Concat(fixed_part(raw), items_of_sections(raw, others, z3.Length(others)), var_items(raw, nvars))
REG.add(Contract(F_QA, '_list_items', params=[('cp', T.Obj('ConfigParser'))], result=T.List(ItemT),
    ensures=lambda v, old, res: [res == whole_listing(raw_of(v.cp), z3.Length(var_keys(raw_of(v.cp))))],
    post_names=['fixed-sections-then-every-other-section-in-file-order-then-the-variables'],
    comprehensions={0: (other_sections, lambda v: [TFD.sections_of(raw_of(v.cp))])},
    invariants={0: lambda v, old: [v.items == whole_listing(raw_of(v.cp), v._i0)]}, ghost={'items': ItemT},
    definitions=lambda: [other_sections.positions_lemma()],
    raises_when=lambda v, old, exc: [z3.BoolVal(False)], on_raise=lambda v, old: [], raises_classes=[], instantiate_int_foralls=True,
    carries=['post', 'preserve/0', 'comprehension'], props=['C14']))

# ---- the two listing actions: what goes to standard output
def _label(items, k): return ItemS.accessor(0, 0)(items[k])
def _value(items, k): return ItemS.accessor(0, 1)(items[k])
listing_lines = SpecSeq('listing_lines', [ItemL], lambda items, k: tok("{}={}\n", _label(items, k), _value(items, k)), result=Doc)            # SECTION_NAME:KEY=VALUE
label_lines = SpecSeq('label_lines', [ItemL], lambda items, k: tok("{}\n", _label(items, k)), result=Doc)                                   # SECTION_NAME:KEY
def _listing(cp): return whole_listing(raw_of(cp), z3.Length(var_keys(raw_of(cp))))
for _q, _spec in (('action_list_items', listing_lines), ('action_list_item_labels', label_lines)):
    REG.add(Contract(F_QA, _q, params=[('cp', T.Obj('ConfigParser'))],
        ensures=lambda v, old, res, _spec=_spec: [v.stdout == cat(old.stdout, _spec(_listing(v.cp), z3.Length(_listing(v.cp))))],
        post_names=['one-line-per-item-of-the-listing-in-its-order'],
        invariants={0: lambda v, old, _spec=_spec: [v.stdout == cat(old.stdout, _spec(v.items, v._i0)), v.items == _listing(v.cp)]},
        raises_when=lambda v, old, exc: [z3.BoolVal(False)], on_raise=lambda v, old: [], raises_classes=[],
        carries=['post', 'preserve/0'], props=['C14']))

"""C17 oracle: a callable that fails at its k-th evaluation; write() must leave the output empty (whole table or nothing)."""
from _eam import *
from atsim.potentials import pair_tabulation as PTm, eam_tabulation as ETm

class Boom(Exception): pass
class Counter(object):
    def __init__(self, k): self.n = 0; self.k = k
    def tick(self):
        self.n += 1
        if self.n == self.k: raise Boom('evaluation %d fails' % self.k)
def failing(f, ctr):
    class F(object):
        def __call__(self, r): ctr.tick(); return f(r)
    g = F()
    return g

TARGETS = ['LAMMPS', 'DLPOLY', 'GULP', 'excel', 'setfl', 'setfl_fs', 'DL_POLY_EAM', 'DL_POLY_EAM_fs', 'eam_adp', 'excel_eam', 'excel_eam_fs']

def build(case, ctr):
    t = case['target']; m = case['model']; fs = t.endswith('_fs')
    eams, pots, fns, pf = build_eam(m, fs=fs)
    pots = [Potential(p.speciesA, p.speciesB, failing(p.potentialFunction, ctr)) for p in pots]
    for e in eams:
        e.embeddingFunction = failing(e.embeddingFunction, ctr)
        if fs: e.electronDensityFunction = {k: failing(v, ctr) for k, v in e.electronDensityFunction.items()}
        else: e.electronDensityFunction = failing(e.electronDensityFunction, ctr)
    nr = m['nr'] if t != 'DLPOLY' else 4 * max(2, m['nr'] // 4 + 1)
    a = (pots, eams, m['cutoff'], nr, m['cutoff_rho'], m['nrho'])
    if t == 'LAMMPS': return PTm.LAMMPS_PairTabulation(pots, m['cutoff'], max(nr, 3))
    if t == 'DLPOLY': return PTm.DLPoly_PairTabulation(pots, m['cutoff'], nr)
    if t == 'GULP': return PTm.GULP_PairTabulation(pots, m['cutoff'], nr)
    if t == 'excel': return PTm.Excel_PairTabulation(pots, m['cutoff'], nr)
    if t == 'setfl': return ETm.SetFL_EAMTabulation(*a)
    if t == 'setfl_fs': return ETm.SetFL_FS_EAMTabulation(*a)
    if t == 'DL_POLY_EAM': return ETm.TABEAM_EAMTabulation(*a)
    if t == 'DL_POLY_EAM_fs': return ETm.TABEAM_FinnisSinclair_EAMTabulation(*a)
    if t == 'excel_eam': return ETm.Excel_EAMTabulation(*a)
    if t == 'excel_eam_fs': return ETm.Excel_FinnisSinclair_EAMTabulation(*a)
    if t == 'eam_adp':
        dips = [Potential(p.speciesA, p.speciesB, failing(lambda r: 1.0 + r, ctr)) for p in pots]
        quads = [Potential(p.speciesA, p.speciesB, failing(lambda r: 2.0 - r, ctr)) for p in pots]
        return ETm.ADP_EAMTabulation(pots, eams, dips, quads, m['cutoff'], nr, m['cutoff_rho'], m['nrho'])

def total_evals(case):
    ctr = Counter(-1); tab = build(case, ctr)
    out = io.BytesIO() if case['target'].startswith('excel') else io.StringIO()
    tab.write(out)
    return ctr.n

def check_case(rep, case, name):
    try: total = total_evals(case)
    except Exception as e: rep.dev(name, case, 'healthy model fails: %r' % (e,), 'a table'); return
    if total == 0: return
    ks = case.get('ks') or sorted({1, 2, max(1, total // 3), max(1, total // 2), total - 1, total} - {0})
    for k in ks:
        if k > total: continue
        ctr = Counter(k); tab = build(case, ctr)
        d = tempfile.mkdtemp(); path = os.path.join(d, 'out.tab')
        raised = None
        try:
            with tab.open_fp(path) as fp: tab.write(fp)
        except Boom as e: raised = e
        size = os.path.getsize(path) if os.path.exists(path) else 0
        import shutil; shutil.rmtree(d)
        if raised is None: rep.dev(name, dict(case, ks=[k]), 'evaluation %d of %d failed but write() returned normally' % (k, total), 'the failure propagates'); return
        if size != 0: rep.dev(name, dict(case, ks=[k]), '%d bytes left in the output after a failure at evaluation %d of %d' % (size, k, total), 'empty or absent file'); return
        rep.ok()
        # the same tabulation object written again after the failure (a caller that retries, or writes to a second file): only
        # evaluation number k fails, so this write succeeds -- it emits the whole table (or, if it raises, nothing)
        if case['target'].startswith('excel'):
            # Excel targets: compare cell contents (the archive carries time stamps)
            import openpyxl
            def cells(b):
                wb = openpyxl.load_workbook(io.BytesIO(b)); return [(ws.title, [[c.value for c in row] for row in ws.iter_rows()]) for ws in wb]
            out2 = io.BytesIO(); raised2 = None
            try: tab.write(out2)
            except Boom as e: raised2 = e
            if raised2 is None:
                full = io.BytesIO(); build(case, Counter(-1)).write(full)
                if cells(out2.getvalue()) != cells(full.getvalue()):
                    got = [(t_, len(r_)) for t_, r_ in cells(out2.getvalue())]; want = [(t_, len(r_)) for t_, r_ in cells(full.getvalue())]
                    rep.dev(name, dict(case, ks=[k]), 'second write() of the object after a failure at evaluation %d of %d returned normally with sheets %r (the complete workbook has %r)' % (k, total, got, want), 'the whole table or nothing'); return
            elif out2.getvalue() != b'':
                rep.dev(name, dict(case, ks=[k]), 'second write() after a failure left %d bytes' % len(out2.getvalue()), 'nothing'); return
            rep.ok()
        if not case['target'].startswith('excel'):
            out2 = io.StringIO(); raised2 = None
            try: tab.write(out2)
            except Boom as e: raised2 = e
            if raised2 is None and out2.getvalue() != '':
                full = io.StringIO(); build(case, Counter(-1)).write(full)
                if out2.getvalue() != full.getvalue():
                    rep.dev(name, dict(case, ks=[k]), 'second write() of the object after a failure at evaluation %d of %d returned normally with %d bytes (the complete table has %d)' % (k, total, len(out2.getvalue()), len(full.getvalue())), 'the whole table or nothing'); return
            elif raised2 is not None and out2.getvalue() != '':
                rep.dev(name, dict(case, ks=[k]), 'second write() after a failure left %d bytes' % len(out2.getvalue()), 'nothing'); return
            rep.ok()

def gen_case(rng, target=None):
    target = target or rng.choice(TARGETS)
    m = mk_eam_model(rng, fs=target.endswith('_fs'))
    if not m['pairs']: m['pairs'] = [dict(A=m['elements'][0]['species'], B=m['elements'][0]['species'], fn=rand_callable_spec(rng))]
    if target in ('LAMMPS', 'DLPOLY', 'GULP', 'excel') and len(m['pairs']) < 2:
        # at least two pair interactions: a writer that emits one interaction at a time is only exposed by a failure in a LATER one
        a0 = m['elements'][0]['species']
        m['pairs'].append(dict(A=a0, B='Zz', fn=rand_callable_spec(rng)))
    return dict(target=target, model=m)

if __name__ == '__main__':
    pl = payload(); rep = Report('C17')
    if pl.get('mode') == 'replay': rep.case('replay', pl['input']); check_case(rep, pl['input'], 'replay')
    else:
        rng = random.Random(pl.get('seed', 0))
        for t in TARGETS:
            c = gen_case(rng, t); rep.case(t, c); check_case(rep, c, 'target-' + t)
        for i in range(pl.get('n', 20)):
            c = gen_case(rng); rep.case(c['target'], c); check_case(rep, c, 'seeded-%d' % i)
    rep.finish()

"""Throw-away spike: symbolic execution of real functions (AST) -> z3 obligations."""
import ast, z3, time, re, sys

# ---------- sorts ----------
Val = z3.Datatype('Val'); Val.declare('I', ('i', z3.IntSort())); Val.declare('R', ('r', z3.RealSort())); Val.declare('S', ('s', z3.StringSort())); Val = Val.create()
Tok = z3.Datatype('Tok'); Tok.declare('T', ('fmt', z3.IntSort()), ('args', z3.SeqSort(Val))); Tok = Tok.create()
Doc = z3.SeqSort(Tok)
Pot = z3.DeclareSort('Pot')
E = z3.Function('energy', Pot, z3.RealSort(), z3.RealSort())
F = z3.Function('force', Pot, z3.RealSort(), z3.RealSort())
spA = z3.Function('speciesA', Pot, z3.StringSort()); spB = z3.Function('speciesB', Pot, z3.StringSort())

FMT = {}
def canon_template(t):
    # canonicalise %-templates: %(name)X -> %X ; returns (canonical string, [names or None])
    names = re.findall(r'%\((\w+)\)', t)
    c = re.sub(r'%\(\w+\)', '%', t)
    return c, names
def fmt_id(c):
    return FMT.setdefault(c, len(FMT))
def wrap(v):
    s = v.sort()
    if s == z3.IntSort(): return Val.I(v)
    if s == z3.RealSort(): return Val.R(v)
    if s == z3.StringSort(): return Val.S(v)
    raise Exception(s)
def seq_of(vals):
    if not vals: return z3.Empty(z3.SeqSort(Val))
    u = [z3.Unit(wrap(v)) for v in vals]
    return u[0] if len(u)==1 else z3.Concat(*u)
def mk_tok(template, vals):
    return Tok.T(fmt_id(template), seq_of(vals))

class Obl:
    def __init__(s, name, pc, goal): s.name, s.pc, s.goal = name, list(pc), goal
    def check(s, timeout=10000):
        sol = z3.Solver(); sol.set('timeout', timeout); sol.add(*s.pc); sol.add(z3.Not(s.goal))
        t=time.time(); r = sol.check(); dt=time.time()-t
        return r, dt, (sol.model() if r==z3.sat else None)

class Exec:
    def __init__(self, fn, env, contracts, invariants, inouts):
        self.fn=fn; self.env=dict(env); self.pc=[]; self.obls=[]; self.contracts=contracts; self.inv=invariants; self.loop_no=0
    # ----- expressions -----
    def ev(self, n):
        if isinstance(n, ast.Constant):
            v=n.value
            if isinstance(v,bool): return z3.BoolVal(v)
            if isinstance(v,int): return z3.IntVal(v)
            if isinstance(v,float): return z3.RealVal(repr(v))
            if isinstance(v,str): return ('strlit', v)
            if v is None: return ('none',)
        if isinstance(n, ast.Name): return self.env[n.id]
        if isinstance(n, ast.BinOp):
            if isinstance(n.op, ast.Mod) and isinstance(n.left, ast.Constant) and isinstance(n.left.value, str):
                return self.format(n.left.value, n.right)
            l=self.ev(n.left); r=self.ev(n.right)
            l,r = self.coerce(l,r)
            if isinstance(n.op, ast.Add): return l+r
            if isinstance(n.op, ast.Sub): return l-r
            if isinstance(n.op, ast.Mult): return l*r
            if isinstance(n.op, ast.Div): return z3.ToReal(l)/z3.ToReal(r) if l.sort()==z3.IntSort() else l/r
        if isinstance(n, ast.Call):
            f=n.func
            if isinstance(f, ast.Name) and f.id=='float':
                a=self.ev(n.args[0]); return z3.ToReal(a) if a.sort()==z3.IntSort() else a
            if isinstance(f, ast.Name) and f.id=='StringIO': return z3.Empty(Doc)
            if isinstance(f, ast.Attribute):
                recv = self.ev(f.value)
                if f.attr=='getvalue': return recv
                if f.attr in ('energy','force') : 
                    a=self.ev(n.args[0]); return (E if f.attr=='energy' else F)(recv, a)
                if f.attr=='format' and isinstance(recv, tuple) and recv[0]=='strlit':
                    kw = {k.arg: self.ev(k.value) for k in n.keywords}
                    tmpl = recv[1]; names = re.findall(r'\{(\w+)', tmpl)
                    c = re.sub(r'\{\w+', '{', tmpl)
                    return ('text', [mk_tok(c, [kw[x] for x in names])])
        if isinstance(n, ast.Attribute):
            recv=self.ev(n.value)
            if n.attr=='speciesA': return spA(recv)
            if n.attr=='speciesB': return spB(recv)
            if n.attr=='cutoff' : return self.env['self.cutoff']
        if isinstance(n, ast.Compare) and len(n.ops)==1:
            l=self.ev(n.left); r=self.ev(n.comparators[0]); l,r=self.coerce(l,r)
            op=n.ops[0]
            return {ast.Lt: lambda:l<r, ast.LtE: lambda:l<=r, ast.Gt: lambda:l>r, ast.GtE: lambda:l>=r, ast.Eq: lambda:l==r}[type(op)]()
        raise Exception("unsupported expr "+ast.dump(n)[:120])
    def coerce(self,l,r):
        if l.sort()==z3.IntSort() and r.sort()==z3.RealSort(): l=z3.ToReal(l)
        if r.sort()==z3.IntSort() and l.sort()==z3.RealSort(): r=z3.ToReal(r)
        return l,r
    def format(self, tmpl, argnode):
        c, names = canon_template(tmpl)
        if isinstance(argnode, ast.Dict):
            d = {k.value: self.ev(v) for k,v in zip(argnode.keys, argnode.values)}
            vals=[d[x] for x in names]
        elif isinstance(argnode, ast.Tuple): vals=[self.ev(e) for e in argnode.elts]
        else: vals=[self.ev(argnode)]
        return ('text', [mk_tok(c, vals)])
    # ----- statements -----
    def run(self, stmts):
        for s in stmts: self.stmt(s)
    def append_doc(self, target_name, text, newline):
        if isinstance(text, tuple) and text[0]=='strlit': toks=[mk_tok(text[1], [])]
        elif isinstance(text, tuple) and text[0]=='text': toks=text[1]
        else:  # a Doc term (splice)
            self.env[target_name] = z3.Concat(self.env[target_name], text); return
        if newline: toks = toks + [mk_tok("\n", [])]
        d=self.env[target_name]
        for t in toks: d = z3.Concat(d, z3.Unit(t))
        self.env[target_name]=d
    def stmt(self, s):
        if isinstance(s, ast.Expr) and isinstance(s.value, ast.Constant): return   # docstring
        if isinstance(s, ast.Assign):
            self.env[s.targets[0].id] = self.ev(s.value); return
        if isinstance(s, ast.Expr) and isinstance(s.value, ast.Call):
            c=s.value
            if isinstance(c.func, ast.Name) and c.func.id=='print':
                tgt=[k.value.id for k in c.keywords if k.arg=='file'][0]
                self.append_doc(tgt, self.ev(c.args[0]), True); return
            if isinstance(c.func, ast.Attribute) and c.func.attr=='write':
                self.append_doc(c.func.value.id, self.ev(c.args[0]), False); return
        if isinstance(s, ast.For):
            return self.loop(s)
        raise Exception("unsupported stmt "+ast.dump(s)[:120])
    def loop(self, s):
        inv = self.inv[self.loop_no]; self.loop_no+=1
        it=s.iter
        assert isinstance(it, ast.Call) and it.func.id=='range'
        if len(it.args)==2: lo=self.ev(it.args[0]); hi=self.ev(it.args[1])
        else: lo=z3.IntVal(0); hi=self.ev(it.args[0])
        var=s.target.id
        # 1. establish
        env0=dict(self.env); env0[var]=lo
        self.obls.append(Obl(f"{self.fn}/loop{self.loop_no-1}/init", self.pc, inv(env0)))
        # 2. havoc modified vars
        mod = {t.id for st in ast.walk(s) for t in ([st.targets[0]] if isinstance(st, ast.Assign) else []) if isinstance(t, ast.Name)}
        mod |= {k.value.id for c in ast.walk(s) if isinstance(c, ast.Call) and isinstance(c.func, ast.Name) and c.func.id=='print' for k in c.keywords if k.arg=='file'}
        mod |= {c.func.value.id for c in ast.walk(s) if isinstance(c, ast.Call) and isinstance(c.func, ast.Attribute) and c.func.attr=='write'}
        saved=dict(self.env)
        k=z3.Int(f"{var}!k")
        for m in mod:
            if m in self.env: self.env[m]=z3.FreshConst(self.env[m].sort(), m)
        self.env[var]=k
        pc_saved=list(self.pc)
        self.pc += [k>=lo, k<hi, inv(self.env)]
        self.run(s.body)
        env1=dict(self.env); env1[var]=k+1
        self.obls.append(Obl(f"{self.fn}/loop{self.loop_no-1}/preserve", self.pc, inv(env1)))
        # 3. exit
        self.pc=pc_saved
        for m in mod:
            if m in saved: self.env[m]=z3.FreshConst(saved[m].sort(), m+"_x")
        kx=z3.Int(f"{var}!exit"); self.env[var]=kx
        self.pc += [kx == z3.If(hi>=lo, hi, lo), inv(self.env)]

def getfn(path, name):
    tree=ast.parse(open(path).read())
    for n in ast.walk(tree):
        if isinstance(n, ast.FunctionDef) and n.name==name: return n

# ---------- spec library ----------
def gen_axioms(name, elem, n_terms):
    """gen(k) = [elem(0..k-1)] ; returns function symbol and unfolding instances at given terms"""
    g = z3.Function(name, z3.IntSort(), Doc)
    ax=[g(0)==z3.Empty(Doc)]
    for t in n_terms:
        ax.append(z3.Implies(t>=0, g(t+1)==z3.Concat(g(t), elem(t))))
    return g, ax

# =============== 1. _writeSinglePotential ===============
def verify_single(mutate=None):
    fn=getfn('/repo/atsim/potentials/_lammps_writeTABLE.py','_writeSinglePotential')
    if mutate: fn=mutate(fn)
    pot=z3.Const('pot',Pot); minr,maxr=z3.Reals('minr maxr'); G=z3.Int('gridPoints'); out0=z3.Const('out0',Doc)
    env={'pot':pot,'minr':minr,'maxr':maxr,'gridPoints':G,'out':out0}
    pre=[G>=2]
    def rr(k): return minr + z3.ToReal(k)*(maxr-minr)/(z3.ToReal(G)-1)
    def row(k):  # k = 0-based
        c,_=canon_template(u"%(n)s %(r).8f %(energy).8f %(force).8f")
        return z3.Concat(z3.Unit(mk_tok(c,[k+1, rr(k), E(pot,rr(k)), F(pot,rr(k))])), z3.Unit(mk_tok("\n",[])))
    hdr = z3.Concat(*[z3.Unit(t) for t in [mk_tok("%s-%s",[spA(pot),spB(pot)]), mk_tok("\n",[]),
           mk_tok(canon_template(u"N %(gridpoints)d R %(minr).8f %(maxr).8f")[0],[G,minr,maxr]), mk_tok("\n",[]), mk_tok("",[]), mk_tok("\n",[])]])
    kk=z3.Int('n!k')
    rows, ax = gen_axioms('rows', row, [kk-1, G-1])
    ex=Exec('_writeSinglePotential', env, {}, [lambda e: e['sbuild']==z3.Concat(hdr, rows(e['n']-1))], ['out'])
    ex.pc=pre+ax
    ex.run(fn.body)
    ex.obls.append(Obl('_writeSinglePotential/post', ex.pc, ex.env['out']==z3.Concat(out0, hdr, rows(G))))
    return ex.obls

def mut_n(fn):
    src=ast.unparse(fn).replace("float(n - 1)","float(n)")
    return ast.parse(src).body[0]
def mut_force(fn):
    src=ast.unparse(fn).replace("force = pot.force(r)","force = pot.energy(r)")
    return ast.parse(src).body[0]
def mut_range(fn):
    src=ast.unparse(fn).replace("range(1, gridPoints + 1)","range(1, gridPoints)")
    return ast.parse(src).body[0]

for label, m in (("real",None),("mut n-1->n",mut_n),("mut force->energy",mut_force),("mut range",mut_range)):
    print("==", label)
    for o in verify_single(m):
        r,dt,model=o.check()
        print("  ", o.name, r, round(dt,3))

"""Contracts for the access routes of the built-in forms (C06): parameters are bound AFTER the separation and in the order given.

  _rpartial.__call__(*args)      calls the wrapped callable with  args ++ bound arguments  (r first, then the parameters the factory was given)
  _Check_Call.required_arg_len   a form takes one argument fewer than its signature names (r is not a parameter of a form), a function call all of them
"""
import z3
from .common import *

F_UTIL = 'atsim/potentials/_util.py'
F_PF = 'atsim/potentials/config/_potential_form.py'
REG.add_class(ClassDecl('<ext>', 'PyFunc', {}, external=True))
REG.add_class(ClassDecl(F_UTIL, '_rpartial', {'func': T.Obj('PyFunc'), 'args': T.List(T.Real), 'keywords': T.Dict(T.Str, T.Real)}))
RL = z3.SeqSort(RealS)
pycall = z3.Function('pycall', ObjSort('PyFunc'), RL, RealS)          # the value of a Python callable applied to a list of positional arguments
REG.add(Contract('<ext>', 'PyFunc.__call__', params=[('self', T.Obj('PyFunc')), ('params', T.List(T.Real))], result=T.Real,
    ensures=lambda v, old, res: [res == pycall(v.self, v.params)], external=True,
    note='a Python callable applied to positional arguments: a function of the callable and the argument list (no keywords are passed in the handled subset)', props=['C06']))
rp_func = field('_rpartial', 'func', ObjSort('PyFunc')); rp_args = field('_rpartial', 'args', RL)
REG.add(Contract(F_UTIL, '_rpartial.__call__', params=[('self', T.Obj('_rpartial')), ('args', T.List(T.Real))], result=T.Real,
    ensures=lambda v, old, res: [res == pycall(rp_func(v.self), z3.Concat(v.args, rp_args(v.self)))],
    post_names=['call-arguments-first-then-the-bound-parameters-in-order'], carries=['post'], props=['C06'],
    note='functools.partial stores func, args, keywords (A4); verified for calls without keyword arguments'))

# ---------------------------------------------------------------- _Check_Call: the arity rule of forms and of function calls
REG.add_class(ClassDecl('<ext>', 'PFSignature', {'parameter_names': T.List(T.Str), 'is_varargs': T.Bool, 'label': T.Str}, external=True))
REG.add_class(ClassDecl(F_PF, '_Check_Call', {'signature': T.Obj('PFSignature'), 'is_func_call': T.Bool}))
SG = ObjSort('PFSignature'); CC = ObjSort('_Check_Call')
sg_names = field('PFSignature', 'parameter_names', z3.SeqSort(StrS)); sg_var = field('PFSignature', 'is_varargs', BoolS)
cc_sig = field('_Check_Call', 'signature', SG); cc_func = field('_Check_Call', 'is_func_call', BoolS)
def required(c):
    """a form `as.NAME p1 p2 ..` takes the parameters AFTER r; a function call `as.NAME(r, p1, ..)` takes all of them"""
    return z3.Length(sg_names(cc_sig(c))) - z3.If(cc_func(c), 0, 1)
def valid(c, n): return z3.Or(sg_var(cc_sig(c)), n == required(c))
REG.add(Contract(F_PF, '_Check_Call.required_arg_len', params=[('self', T.Obj('_Check_Call'))], result=T.Int,
    ensures=lambda v, old, res: [res == required(v.self)], post_names=['r-is-not-a-parameter-of-a-form'], carries=['post'], props=['C06', 'C16']))
REG.add(Contract(F_PF, '_Check_Call.args_valid', params=[('self', T.Obj('_Check_Call')), ('args', T.List(T.Real))], result=T.Bool,
    ensures=lambda v, old, res: [res == valid(v.self, z3.Length(v.args))], post_names=['exact-arity-or-varargs'], carries=['post'], props=['C06', 'C16']))

"""C11 — any two of nr/dr/cutoff (nrho/drho/cutoff_rho) fix the grid actually tabulated."""
import z3
from pyvc.core import *
from pyvc.solve import Obligation
from pyvc import symalg as B
import contracts.common as K
import contracts.potential, contracts.lammps_table, contracts.pair_tabulation, contracts.dlpoly_table, contracts.gulp
import contracts.config_tabulation as CT
import contracts.factories as FC
import contracts.rawparser as RPc

F = CT.FILE
import contracts.excel as XS
FUNCTIONS = [(F, '_TabulationCutoff._init_cutoff'), (FC.FILE, 'PairTabulationFactory.extract_cutoffs'), (FC.FILE, 'EAMTabulationFactory.extract_cutoffs'),
             (FC.FILE, 'DLPOLY_PairTabulationFactory.extract_cutoffs'), (FC.FILE, 'LAMMPS_PairTabulationFactory.extract_cutoffs'), (contracts.pair_tabulation.FILE, 'LAMMPS_PairTabulation.write'),
             # 'the two that are given': a key [Tabulation] does not define is absent (a variable of the same name does not stand in for it), so the default applies
             ('atsim/potentials/config/_config_parser.py', '_RawConfigParser.get'), ('atsim/potentials/config/_config_parser.py', '_RawConfigParser.has_option'),
             # the grids of the spreadsheet targets: value k is k*cutoff/(n-1) (generators, eager view: contracts/excel.py)
             ('atsim/potentials/pair_tabulation.py', '_r_value_iterator'), ('atsim/potentials/eam_tabulation.py', '_rho_value_iterator')]

def lemmas():
    out = []
    cut, dr = z3.Reals('cut dr'); k, nr = z3.Ints('k nr')
    def L(name, hyps, goal): out.append(Obligation('C11/lemma/' + name, hyps, goal, kind='lemma', function='props/C11.py', carries_property=True))
    L('quotient-of-a-whole-multiple', [dr > 0, cut == real(k) * dr], cut / dr == real(k))
    # nr with dr: the tabulation's step cutoff/(nr-1) is the given dr again, and the last row is at the cutoff
    L('nr+dr-gives-back-dr', [nr >= 2, dr > 0, cut == real(nr - 1) * dr], cut / real(nr - 1) == dr)
    # cutoff with dr (whole multiple k): k+1 rows spaced dr apart ending at cutoff
    L('cutoff+dr-rows-spaced-dr', [k >= 1, dr > 0, cut == real(k) * dr, nr == k + 1], z3.And(cut / real(nr - 1) == dr, real(nr - 1) * dr == cut))
    S = B.source_shape
    # both grids use the same logic with their own option names
    out.append(S('C11', F, '_TabulationSection._init_cutoff', 'both-grids-by-the-same-code',
                 ["r_cutoff = _TabulationCutoff('R_Cutoff').create_cutoff(tabulation_section)",
                  "density_cutoff = _TabulationCutoff('Density_Cutoff', 'nrho', 'drho', 'cutoff_rho').create_cutoff(tabulation_section)",
                  'self._r_cutoff = r_cutoff', 'self._density_cutoff = density_cutoff']))
    out.append(S('C11', F, '_TabulationCutoff.__init__', 'default-option-names', ['self._nr_attr = nr_attr', 'self._dr_attr = dr_attr', 'self._cutoff_attr = cutoff_attr']))
    out.append(S('C11', F, '_TabulationCutoff.create_cutoff', 'absent-section-gives-None',
                 ['nr = None', 'cutoff = None', 'if cp_tabulation_section:\n    nr, cutoff = self._init_cutoff(cp_tabulation_section)', 'return tclass(nr, cutoff)']))
    for prop_, fld in (('cutoff', '_r_cutoff.cutoff'), ('nr', '_r_cutoff.nr'), ('cutoff_rho', '_density_cutoff.cutoff_rho'), ('nrho', '_density_cutoff.nrho')):
        out.append(S('C11', F, '_TabulationSection.' + prop_, 'reads-its-own-grid', ['return self.' + fld]))
    out.append(S('C11', contracts.pair_tabulation.FILE, 'PairTabulation_AbstractBase.dr', 'dr=cutoff/(nr-1)', ['return self.cutoff / float(self.nr - 1)']))
    out.append(S('C11', 'atsim/potentials/eam_tabulation.py', '_EAMTabulationAbstractbase.drho', 'drho=cutoff_rho/(nrho-1)', ['return self.cutoff_rho / float(self.nrho - 1)']))
    out.append(S('C11', contracts.pair_tabulation.FILE, '_r_value_iterator', 'nr-points-on-the-r-grid', ['for n in range(tabulation.nr):', 'yield (float(n) * tabulation.cutoff / (float(tabulation.nr) - 1))']))
    out.append(S('C11', 'atsim/potentials/eam_tabulation.py', '_rho_value_iterator', 'nrho-points-on-the-rho-grid', ['for n in range(tabulation.nrho):', 'yield (float(n) * tabulation.cutoff_rho / (float(tabulation.nrho) - 1))']))
    out.append(S('C11', FC.FILE, 'PairTabulationFactory.extract_tabulation_args', 'argument-order', ['return [potobjs, r_cutoff.cutoff, r_cutoff.nr]']))
    out.append(S('C11', FC.FILE, 'EAMTabulationFactory.extract_tabulation_args', 'argument-order', ['args = [potobjs, eam_potentials, r_cutoff.cutoff, r_cutoff.nr, r_cutoff.cutoff_rho, r_cutoff.nrho]', 'return args']))
    out.append(S('C11', FC.FILE, 'PairTabulationFactory.create_tabulation', 'constructs-with-those-arguments', ['r_cutoff = self.extract_cutoffs(cp)', 'tabulation = self.tabulation_class(*tabulationargs)', 'return tabulation']))
    return out

MUTANTS = [
    (F, '_TabulationCutoff._init_cutoff', "nr = int(round(cutoff / dr, 8)) + 1", "nr = int(cutoff / dr + 1)", 'float-int-robust'),
    (F, '_TabulationCutoff._init_cutoff', "cutoff = (nr - 1) * dr", "cutoff = nr * dr", 'post/nr+dr'),
    (F, '_TabulationCutoff._init_cutoff', "if nr and dr and cutoff:", "if nr and dr and cutoff and False:", 'post/all-three'),
    (F, '_TabulationCutoff._init_cutoff', "if not cutoff is None and cutoff <= 0:", "if not cutoff is None and cutoff < 0:", 'post/cutoff-positive'),
    (FC.FILE, 'PairTabulationFactory.extract_cutoffs', "nr = 1001", "nr = 1000", 'post/nr-default'),
    (FC.FILE, 'EAMTabulationFactory.extract_cutoffs', "cutoff_rho = 100.0", "cutoff_rho = 10.0", 'post/cutoff_rho-default'),
]
ASSUMPTIONS = ['rounding model for the one place where an integer is derived from a float quotient: the computed quotient differs from the exact one by at most 3 ulp (two decimal literals rounded on input, one rounded division), |x| <= 20001; round(x, 8) modelled as floor(x*1e8 + 1/2)/1e8',
               'A1 elsewhere: float as real', 'A5: SectionProxy.get(option) returns the option text or None; int()/float() of text raise ValueError unless it is a numeral',
               'cp.tabulation (a cached property) is abstracted as a field of the parser object']
NOTES = ['a value written as 0 is "not given" for the two-of-three test (truthiness) but is still rejected as non-positive: proved as part of the postconditions',
         'fixed: the row count used int(cutoff/dr + 1) (see known_findings.json)']

def oracle_payload(tier, seed, mode='search'): return dict(mode=mode, seed=seed, n=300 if tier == 'quick' else 20000)
def witness_for(ob, devs, run_oracle):
    if devs: d = devs[0]; return dict(deviates=True, input=d['input'], observed=d['observed'], expected=d['expected'])
    return dict(deviates=False)

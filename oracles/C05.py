"""C05 oracle: TABEAM read back: declared count, block headers, n values f(i*step)."""
from _tabeam import *
from atsim.potentials.eam_tabulation import TABEAM_EAMTabulation, TABEAM_FinnisSinclair_EAMTabulation
import itertools

def run(model, route):
    fs = 'fs' in route
    eams, pots, fns, pf = build_eam(model, fs=fs)
    if model.get('extra_density_key') and fs:
        for e in eams: e.electronDensityFunction['Xx'] = Poly([1.0, 2.0])      # a species that is not tabulated
    if model.get('history'):
        # same callable objects tabulated before with other parameters (in-place change afterwards)
        route0 = route
        out0 = io.StringIO(); nr, nrho = model['nr'], model['nrho']
        dr, drho = model['cutoff'] / (nr - 1), model['cutoff_rho'] / (nrho - 1)
        for emb, dens in fns.values():
            if isinstance(emb, Poly): emb.c[0] += 1.5
        (ap.writeTABEAMFinnisSinclair if fs else ap.writeTABEAM)(nrho, drho, nr, dr, eams, pots, out0, 'earlier')
        for emb, dens in fns.values():
            if isinstance(emb, Poly): emb.c[0] -= 1.5
    out = io.StringIO(); nr, nrho = model['nr'], model['nrho']
    dr, drho = model['cutoff'] / (nr - 1), model['cutoff_rho'] / (nrho - 1)
    if route == 'writeTABEAM': ap.writeTABEAM(nrho, drho, nr, dr, eams, pots, out, 'title')
    elif route == 'writeTABEAM_fs': ap.writeTABEAMFinnisSinclair(nrho, drho, nr, dr, eams, pots, out, 'title')
    elif route == 'class': TABEAM_EAMTabulation(pots, eams, model['cutoff'], nr, model['cutoff_rho'], nrho).write(out)
    else: TABEAM_FinnisSinclair_EAMTabulation(pots, eams, model['cutoff'], nr, model['cutoff_rho'], nrho).write(out)
    return out.getvalue(), fns, pf

def check_vals(rep, name, case, b, f, step, what):
    if b['n'] != len(b['vals']): rep.dev(name, case, '%s: header n=%d but %d values' % (what, b['n'], len(b['vals'])), 'exactly n values'); return False
    if b['start'] != 0.0 or not close(b['end'], (b['n'] - 1) * step, 0, 1e-6): rep.dev(name, case, '%s: range %r %r' % (what, b['start'], b['end']), (0.0, (b['n'] - 1) * step)); return False
    for i, v in enumerate(b['vals']):
        want = f(i * step) if f is not None else 0.0
        if not close(v, want, 0, 1e-6): rep.dev(name, case, '%s[%d]=%r' % (what, i, v), want); return False
    rep.ok(len(b['vals'])); return True

def check_case(rep, case, name):
    model, route = case['model'], case['route']; fs = 'fs' in route
    try: text, fns, pf = run(model, route)
    except Exception as e: rep.dev(name, case, 'exception %r' % (e,), 'a TABEAM file'); return
    try: title, count, blocks = parse_tabeam(text)
    except Exception as e: rep.dev(name, case, 'unparseable: %r' % (e,), 'a TABEAM file'); return
    labels = [e['species'] for e in model['elements']]; n = len(labels)
    nr, nrho = model['nr'], model['nrho']; dr, drho = model['cutoff'] / (nr - 1), model['cutoff_rho'] / (nrho - 1)
    if count != len(blocks): rep.dev(name, case, 'declared %d functions, %d blocks follow' % (count, len(blocks)), 'equal'); return
    pairs = [b for b in blocks if b['kind'] == 'pair']; embs = [b for b in blocks if b['kind'] == 'embe']; dens = [b for b in blocks if b['kind'] == 'dens']
    want_pairs = {frozenset((a, b)) for a in labels for b in labels}
    got_pairs = [frozenset(b['species']) for b in pairs]
    if len(got_pairs) != len(set(got_pairs)) or set(got_pairs) != want_pairs:
        rep.dev(name, case, 'pair blocks %r' % [sorted(x) for x in got_pairs], 'exactly one per unordered element pair'); return
    for b in pairs:
        a_, b_ = (b['species'] + b['species'])[:2] if len(b['species']) == 1 else b['species']
        if not check_vals(rep, name, case, b, pair_lookup(model, pf, a_, b_), dr, 'pair %s %s' % (a_, b_)): return
        if b['n'] != nr: rep.dev(name, case, 'pair n=%d' % b['n'], nr); return
    if sorted(b['species'][0] for b in embs) != sorted(labels) or any(len(b['species']) != 1 for b in embs):
        rep.dev(name, case, 'embe blocks %r' % [b['species'] for b in embs], 'one per element'); return
    for b in embs:
        if b['n'] != nrho or not check_vals(rep, name, case, b, fns[b['species'][0]][0], drho, 'embe ' + b['species'][0]): 
            if b['n'] != nrho: rep.dev(name, case, 'embe n=%d' % b['n'], nrho)
            return
    if fs:
        want = sorted((a, b) for a in labels for b in labels)
        if sorted(tuple(b['species']) for b in dens) != want: rep.dev(name, case, 'dens blocks %r' % [b['species'] for b in dens], 'one per ordered pair'); return
        for b in dens:
            A, B = b['species']
            if b['n'] != nr or not check_vals(rep, name, case, b, fns[A][1][B], dr, 'dens %s %s' % (A, B)): return
    else:
        if sorted(tuple(b['species']) for b in dens) != sorted((l,) for l in labels): rep.dev(name, case, 'dens blocks %r' % [b['species'] for b in dens], 'one per element'); return
        for b in dens:
            if b['n'] != nr or not check_vals(rep, name, case, b, fns[b['species'][0]][1], dr, 'dens ' + b['species'][0]): return

def gen_case(rng):
    route = rng.choice(['writeTABEAM', 'writeTABEAM_fs', 'class', 'class_fs'])
    m = mk_eam_model(rng, fs='fs' in route)
    if 'fs' in route and rng.random() < 0.3: m['extra_density_key'] = True
    if rng.random() < 0.25: m['history'] = True
    return dict(route=route, model=m)

if __name__ == '__main__':
    pl = payload(); rep = Report('C05')
    if pl.get('mode') == 'replay': rep.case('replay', pl['input']); check_case(rep, pl['input'], 'replay')
    else:
        rng = random.Random(pl.get('seed', 0))
        for i in range(pl.get('n', 40)):
            c = gen_case(rng); rep.case(c['route'], c); check_case(rep, c, 'seeded-%d' % i)
    rep.finish()

"""Contracts for the potable command line front end (C13, C14): atsim/potentials/tools/potable/__init__.py.
_create_override_tuple turns SECTION:KEY[=VALUE] into an edit; _make_config_parser collects the edits (last one given per item wins,
removals after overrides), hands them to ConfigParser and wraps the parser in the filtered view the species options ask for."""
import z3
from .common import *
from . import overrides as OVR
from . import filtered as FLT
from pyvc.symexec import split_on_max

FILE = F_CLI = 'atsim/potentials/tools/potable/__init__.py'
COLON, EQ = z3.StringVal(':'), z3.StringVal('=')
OV = OVR.OV; o_sec, o_key, o_val, o_none = OVR.o_sec, OVR.o_key, OVR.o_val, OVR.o_none

REG.add(Contract('<ext>', 'ConfigParserOverrideTuple.__init__',
    params=[('self', T.Obj('ConfigParserOverrideTuple')), ('section', T.Str), ('key', T.Str), ('value', T.Opt(T.Str))],
    ensures=lambda v, old, res: [o_sec(v.self) == v.section, o_key(v.self) == v.key, o_none(v.self) == v.val('value').isnone,
                                 z3.Implies(z3.Not(v.val('value').isnone), o_val(v.self) == v._ex.term_of(v.val('value').val, v._st))],
    external=True, note='collections.namedtuple constructor: the fields are the arguments', props=['C14']))

# ---- SECTION_NAME:KEY[=VALUE].  Option keys contain neither ':' nor '=' (they are the INI delimiters); section names may contain colons
# ([Table-Form:NAME]).  So for an item with a value, the value is the text after the first '=' that follows the first colon; and in the rest
# (all of the item when there is no value) the key is the text after the LAST colon, the section name the text before it.
# (named by spec functions; their definitions by text positions are revealed only where the text is taken apart: _create_override_tuple)
item_sec = z3.Function('item_section', StrS, BoolS, StrS); item_key = z3.Function('item_key', StrS, BoolS, StrS); item_val = z3.Function('item_value', StrS, StrS)
item_ok = z3.Function('item_wellformed', StrS, BoolS, BoolS)
def _eq_pos(t): return z3.IndexOf(t, EQ, z3.IndexOf(t, COLON, 0))          # the first '=' at or after the first colon
def _left(t, hv): return z3.If(hv, z3.SubString(t, 0, _eq_pos(t)), t)       # SECTION_NAME:KEY
def splits_at_last_colon(left, sec, key):
    return z3.And(left == z3.Concat(sec, COLON, key), z3.Not(z3.Contains(key, COLON)))
def item_definitions():
    t = z3.String('t!it'); hv = z3.Bool('hv!it')
    return [z3.ForAll([t, hv], z3.Implies(item_ok(t, hv), splits_at_last_colon(_left(t, hv), item_sec(t, hv), item_key(t, hv))), patterns=[item_sec(t, hv)]),
            z3.ForAll([t, hv], z3.Implies(item_ok(t, hv), splits_at_last_colon(_left(t, hv), item_sec(t, hv), item_key(t, hv))), patterns=[item_key(t, hv)]),
            z3.ForAll([t], item_val(t) == z3.SubString(t, _eq_pos(t) + 1, z3.Length(t) - _eq_pos(t) - 1), patterns=[item_val(t)]),
            z3.ForAll([t, hv], item_ok(t, hv) == z3.And(z3.Contains(t, COLON), z3.Implies(hv, _eq_pos(t) >= 0)), patterns=[item_ok(t, hv)])]
def is_edit(o, t, has_value):
    """the edit o is the one the command line item t denotes"""
    return z3.And(o_sec(o) == item_sec(t, has_value), o_key(o) == item_key(t, has_value), o_none(o) == z3.Not(has_value), z3.Implies(has_value, o_val(o) == item_val(t)))

REG.add(Contract(F_CLI, '_create_override_tuple', params=[('key', T.Str), ('has_value', T.Bool)], defaults={'has_value': True}, result=T.Obj('ConfigParserOverrideTuple'),
    requires=lambda v: [item_ok(v.key, v.has_value)],      # malformed items (the TODO in the source): ValueError from the unpacking -- outside C14, which quantifies over operations on a section and key
    ensures=lambda v, old, res: [is_edit(res, old.key, old.has_value)], post_names=['is-the-edit-the-item-denotes'], definitions=item_definitions,
    carries=['post'], props=['C14']))

# ---- ConfigParser(fp, overrides, additional): the parser state is the file with the edits applied (contract of _init_config_parser)
from . import duplicates as DU
from pyvc.symexec import chain_flat_fn, view_source_fn, odict_wf, TupleSort
F_CP = OVR.F_CP
CPo = ObjSort('ConfigParser'); OVL = OVR.OVL
cp_fp = z3.Function('constructed_from_file', CPo, OVR.TF); cp_ov = z3.Function('constructed_with_overrides', CPo, OVL); cp_ad = z3.Function('constructed_with_additions', CPo, OVL)
from . import tableform_dups as TFD
def _cp_init_post(v, old, res):
    """the parser object holds the file with the edits applied (contract of _init_config_parser) and has passed both duplicate checks"""
    raw = v.field('self', '_config_parser')
    S1 = OVR.ov_fold(OVR.parsed(v.fp), v.overrides, z3.Length(v.overrides)); L = z3.String('L!ci'); secs = TFD.sections_of(raw); keys = DU.sec_keys(DU.sec_of(raw, z3.StringVal('Pair')))
    return [raw == OVR.add_fold(S1, v.additional, z3.Length(v.additional)),
            z3.Implies(DU.has_sec(raw, z3.StringVal('Pair')), DU.no_dups(keys, z3.Length(keys))),
            z3.ForAll([L], TFD.count_of(L, secs, z3.Length(secs)) <= 1)]
_CFG_ERRORS = ['ConfigParserException', 'ConfigParserDuplicateEntryException', 'ConfigOverrideException', 'ConfigOverrideDuplicateException']
REG.add(Contract(F_CP, 'ConfigParser.__init__',
    params=[('self', T.New('ConfigParser')), ('fp', T.Obj('TextFile')), ('overrides', T.List(T.Obj('ConfigParserOverrideTuple'))), ('additional', T.List(T.Obj('ConfigParserOverrideTuple')))],
    requires=OVR._additions_have_values,
    ensures=_cp_init_post, post_names=['holds-the-file-with-the-edits-applied', 'no-pair-defined-twice', 'no-table-form-defined-twice'],
    raises_when=lambda v, old, exc: [z3.BoolVal(exc.cls in _CFG_ERRORS)], on_raise=lambda v, old: [], raises_classes=['ConfigurationException'],
    definitions=OVR.model_axioms, carries=['post', 'raises'], props=['C14', 'C20']))
REG.get(F_CP, 'ConfigParser.__init__').names_self = lambda v, old: [cp_fp(v.self) == v.fp, cp_ov(v.self) == v.overrides, cp_ad(v.self) == v.additional]
# the filtered view reads four list properties of the parser it wraps
for _n, _t in (('pair', 'PairEntry'), ('eam_density_fs', 'PairEntry'), ('eam_embed', 'SingleEntry'), ('eam_density', 'SingleEntry')):
    REG.classes['ConfigParser'].fields[_n] = T.List(T.Obj(_t))
REG.classes['WrappedParser'].view_of = 'ConfigParser'
viewed = view_source_fn('WrappedParser', 'ConfigParser')
REG.classes['FilteredConfigParser'].proxy_of = ('ConfigParser', lambda z: viewed(FLT.wrapped(z)))      # A6: what the view does not define itself (raw_config_parser, parsed_sections ...) is the wrapped parser's

StrL = z3.SeqSort(StrS); StrLL = z3.SeqSort(StrL)
flat = chain_flat_fn(T.Str)
KS = TupleSort([StrS, StrS])
def kof(t, hv): return KS.mk(item_sec(t, z3.BoolVal(hv)), item_key(t, z3.BoolVal(hv)))
def keyof(o): return KS.mk(o_sec(o), o_key(o))
items_fn = z3.Function('items_given', BoolS, StrLL, StrL)
def items_definitions():
    x = z3.Const('x!ig', StrLL)
    return [z3.ForAll([x], items_fn(z3.BoolVal(True), x) == z3.Empty(StrL), patterns=[items_fn(z3.BoolVal(True), x)]),
            z3.ForAll([x], items_fn(z3.BoolVal(False), x) == flat(x), patterns=[items_fn(z3.BoolVal(False), x)])]
def _flat_of(optv, ns):
    """the items of one option kind in command line order (none when the option was not given)"""
    return items_fn(optv.isnone, ns._ex.term_of(optv.val, ns._st))
def _items(ns):
    return _flat_of(ns.val('overrides'), ns), _flat_of(ns.val('remove'), ns), _flat_of(ns.val('additional'), ns)

# ---- which edit is handed on for an item x = (section, key): the LAST removal given for x if there is one, else the LAST override given for x
from pyvc.spec import SpecAcc
# index in the first n items of the last one addressing x, or -1 (defined by recursion on n; unfolded where it is applied to the terms of a query)
last_ov = SpecAcc('last_override_of', [KS, StrL], lambda x, F: z3.IntVal(-1), lambda x, F, t, prev: z3.If(kof(F[t], True) == x, t, prev), result=IntS)
last_rm = SpecAcc('last_removal_of', [KS, StrL], lambda x, F: z3.IntVal(-1), lambda x, F, t, prev: z3.If(kof(F[t], False) == x, t, prev), result=IntS)
def mentioned(x, F0, F1, i0, i1): return z3.Or(last_ov(x, F0, i0) >= 0, last_rm(x, F1, i1) >= 0)
def handed_on(o, x, F0, F1, i0, i1):
    """o is the edit the command line's last word on item x denotes"""
    rm = last_rm(x, F1, i1) >= 0
    return z3.If(rm, is_edit(o, F1[last_rm(x, F1, i1)], z3.BoolVal(False)), is_edit(o, F0[last_ov(x, F0, i0)], z3.BoolVal(True)))
def last_wf(fn, hv, F, i):
    x = z3.Const('x!lw', KS)
    return z3.ForAll([x], z3.And(fn(x, F, i) >= -1, fn(x, F, i) < i, z3.Implies(fn(x, F, i) >= 0, kof(F[fn(x, F, i)], hv) == x)), patterns=[fn(x, F, i)])

def order_by_index(d):
    """the same two facts as odict_wf's first clause, spelled with positions (what the solvers can use for order[k])"""
    x = z3.Const('x!oi', KS); i = z3.Int('i!oi')
    return [z3.ForAll([i], z3.Implies(z3.And(0 <= i, i < z3.Length(d.order)), z3.Select(d.has, d.order[i]))),
            z3.ForAll([x], z3.Implies(z3.Select(d.has, x), z3.Exists([i], z3.And(0 <= i, i < z3.Length(d.order), d.order[i] == x))))]

def _dict_state(d, F0, F1, i0, i1):
    x = z3.Const('x!ds', KS)
    return odict_wf(d) + order_by_index(d) + [
        z3.ForAll([x], z3.Select(d.has, x) == mentioned(x, F0, F1, i0, i1), patterns=[z3.Select(d.has, x)]),
        z3.ForAll([x], z3.Implies(z3.Select(d.has, x), handed_on(z3.Select(d.get, x), x, F0, F1, i0, i1)), patterns=[z3.Select(d.get, x)]),
        last_wf(last_ov, True, F0, i0), last_wf(last_rm, False, F1, i1)]

def _adds_state(L, F2, n):
    j = z3.Int('j!ad')
    return [z3.Length(L) == n, z3.ForAll([j], z3.Implies(z3.And(0 <= j, j < n), is_edit(L[j], F2[j], z3.BoolVal(True))))]

def _wellformed_items(v):
    F0, F1, F2 = _items(v); j = z3.Int('j!wf')
    return [z3.ForAll([j], z3.Implies(z3.And(0 <= j, j < z3.Length(F0)), item_ok(F0[j], z3.BoolVal(True)))),
            z3.ForAll([j], z3.Implies(z3.And(0 <= j, j < z3.Length(F1)), item_ok(F1[j], z3.BoolVal(False)))),
            z3.ForAll([j], z3.Implies(z3.And(0 <= j, j < z3.Length(F2)), item_ok(F2[j], z3.BoolVal(True))))]

def same_members(a, b):
    x = z3.String('x!sm')
    return z3.ForAll([x], z3.Contains(a, z3.Unit(x)) == z3.Contains(b, z3.Unit(x)))

def _parser_of(res):
    """the ConfigParser behind the result: the result itself, or the parser a filtered view presents"""
    if res.sort() == CPo: return res, None
    return viewed(FLT.wrapped(res)), res

def _mk_post(v, old, res):
    F0, F1, F2 = _items(old); P, view = _parser_of(res)
    OL, AL = cp_ov(P), cp_ad(P); k, k2 = z3.Int('k!mp'), z3.Int('k2!mp'); x = z3.Const('x!mp', KS)
    n0, n1 = z3.Length(F0), z3.Length(F1)
    sp = old.val('species')
    out = [cp_fp(P) == old.cfg_file,
           z3.ForAll([k], z3.Implies(z3.And(0 <= k, k < z3.Length(OL)), z3.And(mentioned(keyof(OL[k]), F0, F1, n0, n1), handed_on(OL[k], keyof(OL[k]), F0, F1, n0, n1)))),
           z3.ForAll([x], z3.Implies(mentioned(x, F0, F1, n0, n1), z3.Exists([k], z3.And(0 <= k, k < z3.Length(OL), keyof(OL[k]) == x)))),
           z3.ForAll([k, k2], z3.Implies(z3.And(0 <= k, k < k2, k2 < z3.Length(OL)), keyof(OL[k]) != keyof(OL[k2])))] + _adds_state(AL, F2, z3.Length(F2))
    S = old._ex.term_of(sp.val, old._st)
    if view is None: out.append(z3.Or(sp.isnone, z3.And(old.exclude_flag, z3.Length(S) == 0)))     # no view: nothing was asked for (excluding no species is asking for nothing)
    else: out += [z3.Not(sp.isnone), FLT.xflag(view) == old.exclude_flag, same_members(FLT.slist(view), S)]
    return out

REG.add(Contract(F_CLI, '_make_config_parser',
    params=[('cfg_file', T.Obj('TextFile')), ('overrides', T.Opt(T.List(T.List(T.Str)))), ('additional', T.Opt(T.List(T.List(T.Str)))), ('remove', T.Opt(T.List(T.List(T.Str)))),
            ('species', T.Opt(T.List(T.Str))), ('exclude_flag', T.Bool)],
    requires=_wellformed_items, result=T.Any, ensures=_mk_post,
    post_names=['reads-the-named-file', 'each-edit-handed-on-is-the-last-one-given-for-its-item', 'no-edited-item-is-lost', 'one-edit-per-item',
                'additions-count', 'additions-in-command-line-order', 'filter-as-asked', 'filter-mode', 'filter-species'],      # (without a view only the first of the three filter clauses exists)
    invariants={0: lambda v, old: _dict_state(v.override_dict, _items(old)[0], _items(old)[1], v._i0, z3.IntVal(0)),
                1: lambda v, old: _dict_state(v.override_dict, _items(old)[0], _items(old)[1], z3.Length(_items(old)[0]), v._i1),
                2: lambda v, old: _adds_state(v.additional_list, flat(old._ex.term_of(old.val('additional').val, old._st)), v._i2)},      # (inside the loop the option was given: its items are the flattened lists)
    ghost={'override_dict': T.ODict(T.Tuple(T.Str, T.Str), T.Obj('ConfigParserOverrideTuple')), 'additional_list': T.Obj('ConfigParserOverrideTuple')},
    raises_when=lambda v, old, exc: [z3.BoolVal(exc.cls == 'ConfigurationException')], on_raise=lambda v, old: [], raises_classes=['ConfigurationException'],
    definitions=items_definitions, instantiate_int_foralls=True, carries=['post', 'preserve/0', 'preserve/1', 'preserve/2'], props=['C13', 'C14']))
REG.get(F_CLI, '_make_config_parser').result_variants = [T.Obj('ConfigParser'), T.Obj('FilteredConfigParser')]

# ---- _do_tabulation: which parser the options ask for (C13: --include-species S / --exclude-species S for ANY S, the empty one included)
F_QA = 'atsim/potentials/tools/potable/_query_actions.py'; F_ACT = 'atsim/potentials/tools/potable/_actions.py'
REG.add_class(ClassDecl('<ext>', 'CLIArgs', {'include_species': T.Opt(T.List(T.Str)), 'exclude_species': T.Opt(T.List(T.Str)), 'config_file': T.Obj('TextFile'),
    'override_item': T.Opt(T.List(T.List(T.Str))), 'add_item': T.Opt(T.List(T.List(T.Str))), 'remove_item': T.Opt(T.List(T.List(T.Str))),
    'list_items': T.Bool, 'list_item_labels': T.Bool, 'item_value': T.Opt(T.List(T.Str)), 'out_filename': T.Opt(T.Str)}, external=True))     # argparse.Namespace of _parse_command_line
REG.add_class(ClassDecl('<ext>', 'ArgParser', {}, external=True))
REG.add(Contract('<ext>', 'ArgParser.error', params=[('self', T.Obj('ArgParser')), ('message', T.Any)], ensures=lambda v, old, res: [],
    may_raise=lambda v: [('SystemExit', z3.BoolVal(True))], external=True, note='argparse.ArgumentParser.error(message): prints the usage and exits (SystemExit)', props=['C13']))
from . import actions as ACT      # action_tabulate: verified contract (C17)
for _f, _q, _ps in ((F_QA, 'action_item_value', ['cp', 'key']),):      # (the two listing actions: verified contracts in contracts/query_actions.py)
    REG.add(Contract(_f, _q, params=[(n_, T.Any) for n_ in _ps], ensures=lambda v, old, res: [], trusted=True, may_raise=lambda v: [('ConfigurationException', z3.Bool('action_rejects_model'))],
        note='an action of the front end applied to the parser it is given (what it writes is C01-C05, C14, C19); may end in a configuration error', props=['C13']))

AR = ObjSort('CLIArgs')
def _afield(n, srt): return field('CLIArgs', n, srt)
a_inc, a_exc = _afield('include_species', z3.SeqSort(StrS)), _afield('exclude_species', z3.SeqSort(StrS))
a_inc_none, a_exc_none = _afield('include_species?none', BoolS), _afield('exclude_species?none', BoolS)
def _asked(cp, args):
    """cp is the (view of the) parser the species options ask for"""
    if cp.sort() == CPo: return [a_inc_none(args), z3.Or(a_exc_none(args), z3.Length(a_exc(args)) == 0)]      # unfiltered: no include set, and nothing to exclude
    return [z3.Not(z3.And(a_inc_none(args), a_exc_none(args))),
            z3.Implies(z3.Not(a_inc_none(args)), z3.And(z3.Not(FLT.xflag(cp)), same_members(FLT.slist(cp), a_inc(args)))),                     # --include-species S (S may be empty): include mode with S
            z3.Implies(z3.And(a_inc_none(args), z3.Not(a_exc_none(args))), z3.And(FLT.xflag(cp), same_members(FLT.slist(cp), a_exc(args))))]    # --exclude-species S: exclude mode with S
def _args_items_ok(a):
    out = []; j = z3.Int('j!ai')
    for fname, hv in (('override_item', True), ('remove_item', False), ('add_item', True)):
        F = items_fn(_afield(fname + '?none', BoolS)(a), _afield(fname, StrLL)(a))
        out.append(z3.ForAll([j], z3.Implies(z3.And(0 <= j, j < z3.Length(F)), item_ok(F[j], z3.BoolVal(hv)))))
    return out
def _do_exit(v, old):
    if 'cp' not in v._frame: return []            # the parser could not be made (configuration error of the file or the edits)
    return _asked(v._ex.term_of(v._frame['cp'], v._st), old.args)
REG.add(Contract(F_CLI, '_do_tabulation', params=[('p', T.Obj('ArgParser')), ('args', T.Obj('CLIArgs'))],
    requires=lambda v: _args_items_ok(v.args),      # items of the form SECTION:KEY[=VALUE] (see _create_override_tuple)
    ensures=lambda v, old, res: [z3.BoolVal(False)], post_names=['always-leaves-through-sys.exit-or-an-error'],
    # what leaves: sys.exit, a configuration error (main() turns it into a usage error), or whatever escapes the tabulate action (an evaluation failing part-way: C17)
    on_raise=_do_exit, raises_when=lambda v, old, exc: [z3.BoolVal(exc.cls in ('SystemExit', 'ConfigurationException') or exc.origin == 'action_tabulate')],
    raises_classes=['SystemExit', 'ConfigurationException', 'Exception', 'OSError'],      # (Exception / OSError: an evaluation failing while the table is written, the file that cannot be opened: C17)
    carries=['on_raise'], props=['C13']))

# ---- main(): a configuration error becomes a usage error of the command line (C16: never a traceback for a malformed model)
REG.add(Contract(F_CLI, '_setup_logging', params=[], ensures=lambda v, old, res: [], trusted=True, note='logging.basicConfig(level, format): no effect on the outcome', props=['C16']))
REG.add(Contract(F_CLI, '_parse_command_line', params=[('cli_args', T.Any)], defaults={'cli_args': None}, result=T.Tuple(T.Obj('ArgParser'), T.Obj('CLIArgs')),
    ensures=lambda v, old, res: _args_items_ok(res[1]), trusted=True, may_raise=lambda v: [('SystemExit', z3.Bool('usage_error_or_help'))],
    note='argparse: the parser and the namespace of the command line (SystemExit for --help and for arguments argparse refuses); items of the form SECTION_NAME:KEY[=VALUE] (see _create_override_tuple)', props=['C16']))
REG.add(Contract(F_CLI, 'main', params=[],
    ensures=lambda v, old, res: [z3.BoolVal(False)], post_names=['always-leaves-through-sys.exit-or-an-error'],
    # no ConfigurationException leaves main(): it is handed to ArgumentParser.error, which exits with status 2 and the message 'configuration error - ...'
    raises_when=lambda v, old, exc: [z3.BoolVal(exc.cls in ('SystemExit', 'Exception', 'OSError'))], on_raise=lambda v, old: [],      # (the last two: evaluation failures while writing, C17 -- not configuration errors)
    carries=['raises'], props=['C16']))

from . import query_actions as _QA      # registers the verified contracts of the listing actions called by _do_tabulation

#!/usr/bin/env python3
"""Regenerates MANIFEST.json from the table below (claimed properties = those with a props/Cxx.py listed in CLAIMED)."""
import json, os, sys
VERIF = os.path.dirname(os.path.dirname(os.path.abspath(__file__)))
sys.path.insert(0, VERIF)
from tools.manifest_table import CLAIMED, NOT_APPLICABLE
props = [json.loads(l) for l in open(os.path.join(VERIF, 'properties.jsonl'))]
checks = []
for p in props:
    pid = p['id']
    if pid not in CLAIMED: continue
    c = CLAIMED[pid]
    checks.append(dict(
        property_id=pid,
        quick_cmd='python3-vt bin/check %s --tier quick' % pid,
        thorough_cmd='python3-vt bin/check %s --tier thorough' % pid,
        evidence_file='evidence/%s.json' % pid,
        replay_cmd_template='python3-vt bin/check %s --replay {path}' % pid,
        engine='pyvc',
        level_claimed=dict(category='proof', text=c['text'], design_ref=c.get('design_ref', 'DESIGN.md §4 ' + pid)),
        level_note=c['note'],
        technique=c.get('technique', 'contract-based deductive verification: sidecar pre/postconditions and loop invariants on the real functions; VCs generated from the AST of /repo on every run and discharged by z3/cvc5; failing obligations replayed on the real code')))
na = [dict(property_id=p['id'], reason=NOT_APPLICABLE.get(p['id'], 'not yet claimed: contracts for this property are still being written (work in progress, see DESIGN.md §4)')) for p in props if p['id'] not in CLAIMED]
m = dict(version=1,
         setup_cmd='mkdir -p .scratch && (test -d .scratch/deps/sympy || /venv/bin/python -m pip install -q --no-index --find-links /opt/veriftools/wheels --target .scratch/deps sympy mpmath) && python3-vt -c "import z3, sympy" && /venv/bin/python -c "import atsim.potentials"',
         hooks=dict(guard='ATSIM_POTENTIALS_VERIF', enable='no source hooks: contracts are sidecar files under /verif/contracts, VCs are generated from the AST of /repo', 
                    baseline_off_cmd='cd /repo && /venv/bin/python -m pytest -ra -q -p no:cacheprovider --timeout=900 --continue-on-collection-errors',
                    source_commits=[], add_only=True),
         engines=[dict(name='pyvc', path='pyvc/', serves_properties=sorted(CLAIMED), kind_free_text='own VC generator: symbolic execution of the real Python AST against sidecar contracts -> SMT (z3 5.1 python API, z3/cvc5 CLI race), Engine B: AST -> sympy identities'),],
         checks=checks, not_applicable=na,
         notes='exit codes: 0 held, 1 VIOLATION, 2 undecided (solver unknown), 3 checker error. Known findings: known_findings.json. Seeded changes: seeded/.')
json.dump(m, open(os.path.join(VERIF, 'MANIFEST.json'), 'w'), indent=1)
print('claimed', sorted(CLAIMED), 'not claimed', [x['property_id'] for x in na])

"""Contracts for the own-keys methods of _RawConfigParser (C15): a section other than [Variables] sees exactly its own options."""
import z3
from .common import *
from pyvc.values import DictSort

F_CP = FILE = 'atsim/potentials/config/_config_parser.py'
Inner = T.Dict(T.Str, T.Str)
REG.add_class(ClassDecl(F_CP, 'RawParserImpl', {'_sections': T.Dict(T.Str, Inner), '_defaults': Inner, 'default_section': T.Str}, pyname='_RawConfigParser'))
RPI = ObjSort('RawParserImpl'); IS = Inner.sort(); StrList = z3.SeqSort(StrS)
secs_has = field('RawParserImpl', '_sections.has', z3.ArraySort(StrS, BoolS)); secs_get = field('RawParserImpl', '_sections.get', z3.ArraySort(StrS, IS))
defs_has = field('RawParserImpl', '_defaults.has', z3.ArraySort(StrS, BoolS)); dsec = field('RawParserImpl', 'default_section', StrS)
nf = z3.Function('optionxform', StrS, StrS)

def own(p, s, k): return z3.And(z3.Select(secs_has(p), s), z3.Select(IS.has(z3.Select(secs_get(p), s)), k))     # section s itself defines key k
def is_default(p, s): return z3.Or(z3.Length(s) == 0, s == dsec(p))

REG.add(Contract(F_CP, '_RawConfigParser.optionxform', params=[('self', T.Obj('RawParserImpl')), ('option', T.Str)], result=T.Str,
    ensures=lambda v, old, res: [res == nf(v.option)], trusted=True,
    note='names the key normal form (strip, remove blanks and tabs: structural contract in C14/C20); callers need only that it is a function of the key', props=['C15']))

REG.add(Contract(F_CP, '_RawConfigParser.has_option', params=[('self', T.Obj('RawParserImpl')), ('section', T.Str), ('option', T.Str)], result=T.Bool,
    ensures=lambda v, old, res: [res == z3.If(is_default(v.self, v.section), z3.Select(defs_has(v.self), nf(old.option)), own(v.self, v.section, nf(old.option)))],
    post_names=['own-keys-only-outside-the-variables-section'], raises_when=lambda v, old, exc: [z3.BoolVal(False)], carries=['post'], props=['C15', 'C14']))

def _options_post(v, old, res):
    x = z3.String('x!o'); p, s = v.self, v.section
    return [z3.ForAll([x], z3.Contains(res, z3.Unit(x)) == z3.If(s == dsec(p), z3.Select(defs_has(p), x), own(p, s, x)))]
REG.add(Contract(F_CP, '_RawConfigParser.options', params=[('self', T.Obj('RawParserImpl')), ('section', T.Str)], result=T.List(T.Str),
    ensures=_options_post, post_names=['lists-exactly-the-own-keys'],
    raises_when=lambda v, old, exc: [z3.BoolVal(exc.cls == 'NoSectionError'), z3.Not(z3.Select(secs_has(v.self), v.section)), v.section != dsec(v.self)],
    on_raise=lambda v, old: [], carries=['post', 'raises'], props=['C15']))

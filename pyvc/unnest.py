"""No sequences of sequences in solver queries.

z3 (4.8.12 and 5.1.0) answers `unsat` on satisfiable inputs that mix quantifiers with sequences whose elements are themselves
sequences -- lists of str are Seq(String), lists of lists of str Seq(Seq(String)), lists of documents Seq(Seq(Tok)): see
pyvc/selftest/solver/.  Every query is therefore translated, just before it reaches a solver, into an isomorphic one in which the
element sort of a sequence is never a sequence sort: an element that is a sequence is *boxed* in a one-constructor datatype

    Seq(String)        ->  Seq(Box_String)                 box : String -> Box_String,  unbox its inverse (datatype axioms)
    Seq(Seq(String))   ->  Seq(Box_Seq_Box_String)

Constants and uninterpreted functions are re-declared over the translated sorts (one new symbol per old symbol), the sequence
operations are re-applied on the translated arguments (unit boxes its argument, nth unboxes its result), datatypes with fields of
a nested sort are re-declared field by field, arrays component by component.  The translation is a bijection on sorts and terms
(a one-constructor, one-field datatype is isomorphic to its field sort), so a query and its translation are equisatisfiable.
"""
import z3

_box = {}; _dt = {}; _sorts = {}; _decls = {}; _keep = []

def _is_seq(s): return s.kind() == z3.Z3_SEQ_SORT
def _is_string(s): return _is_seq(s) and s.is_string()

def box_sort(e):
    k = str(e)
    if k not in _box:
        d = z3.Datatype('Box_' + ''.join(ch if ch.isalnum() else '_' for ch in k))
        d.declare('box', ('unbox', e))
        _box[k] = d.create()
    return _box[k]

def T(s):
    """translated sort"""
    k = s.get_id()
    if k in _sorts: return _sorts[k]
    _keep.append(s)
    r = s
    kind = s.kind()
    if kind == z3.Z3_SEQ_SORT and not s.is_string():
        e = T(s.basis())
        r = z3.SeqSort(box_sort(e)) if _is_seq(e) else (z3.SeqSort(e) if e.get_id() != s.basis().get_id() else s)
    elif kind == z3.Z3_ARRAY_SORT:
        d, g = T(s.domain()), T(s.range())
        if d.get_id() != s.domain().get_id() or g.get_id() != s.range().get_id(): r = z3.ArraySort(d, g)
    elif kind == z3.Z3_DATATYPE_SORT:
        r = _T_datatype(s)
    _sorts[k] = r
    return r

def _T_datatype(s):
    name = s.name()
    if name in _dt: return _dt[name]
    if name.startswith('Box_'): _dt[name] = s; return s
    _dt[name] = s          # (recursive occurrences: unchanged -- recursive datatypes of the encodings hold no sequences of sequences)
    changed = False; cons = []
    for i in range(s.num_constructors()):
        c = s.constructor(i); fields = []
        for j in range(c.arity()):
            a = s.accessor(i, j); fs = a.range()
            ft = fs if fs.get_id() == s.get_id() else T(fs)
            if ft.get_id() != fs.get_id(): changed = True
            fields.append((a.name(), ft))
        cons.append((c.name(), fields))
    if not changed: return s
    d = z3.Datatype(name + '_u')
    for cn, fields in cons: d.declare(cn, *fields)
    r = d.create(); _dt[name] = r
    return r

def _needs(s): return T(s).get_id() != s.get_id()

def _decl(d):
    """translated declaration of an uninterpreted symbol"""
    k = d.get_id()
    if k in _decls: return _decls[k]
    _keep.append(d)
    dom = [d.domain(i) for i in range(d.arity())]; rng = d.range()
    if not any(_needs(x) for x in dom + [rng]): r = d
    else: r = z3.Function(d.name() + '!u', *([T(x) for x in dom] + [T(rng)])) if d.arity() else z3.Const(d.name() + '!u', T(rng)).decl()
    _decls[k] = r
    return r

def _elem_boxed(seq_sort):
    return _is_seq(seq_sort) and not seq_sort.is_string() and seq_sort.basis().kind() == z3.Z3_DATATYPE_SORT and seq_sort.basis().name().startswith('Box_')

class Unnest(object):
    def __init__(self): self.cache = {}

    def tr(self, e):
        i = e.get_id()
        if i in self.cache: return self.cache[i][1]
        r = self._tr(e)
        self.cache[i] = (e, r)          # (the key term is kept alive: z3 re-uses the ids of terms that are freed)
        return r

    def _quant(self, e):
        n = e.num_vars()
        old = [z3.FreshConst(e.var_sort(k), 'bv') for k in range(n)]
        body = self.tr(z3.substitute_vars(e.body(), *reversed(old)))
        new = [self.tr(c) for c in old]
        pats = []
        for pi in range(e.num_patterns()):
            p = e.pattern(pi)
            terms = [self.tr(z3.substitute_vars(p.arg(k), *reversed(old))) for k in range(p.num_args())]
            pats.append(z3.MultiPattern(*terms) if len(terms) > 1 else terms[0])
        if e.is_lambda(): return z3.Lambda(new, body)
        mk = z3.ForAll if e.is_forall() else z3.Exists
        if e.is_forall():
            try: return mk(new, body, patterns=pats) if pats else mk(new, body)
            except z3.Z3Exception: return mk(new, body)
        return mk(new, body)

    def _tr(self, e):
        if z3.is_quantifier(e): return self._quant(e)
        if z3.is_var(e): raise z3.Z3Exception('free de Bruijn variable')
        if not z3.is_app(e): return e
        d = e.decl(); k = d.kind(); nm = d.name()
        args = [self.tr(c) for c in e.children()]
        srt = e.sort()
        if k == z3.Z3_OP_UNINTERPRETED:
            nd = _decl(d)
            if nd.get_id() == d.get_id() and all(a.get_id() == c.get_id() for a, c in zip(args, e.children())): return e
            return nd(*args) if d.arity() else nd()
        same = all(a.get_id() == c.get_id() for a, c in zip(args, e.children()))
        if same and not _needs(srt): return e
        # --- sequence operations, re-applied on the translated arguments
        if nm == 'seq.unit':
            ts = T(srt)
            return z3.Unit(ts.basis().constructor(0)(args[0])) if _elem_boxed(ts) else z3.Unit(args[0])
        if nm == 'seq.empty' or (k == z3.Z3_OP_SEQ_EMPTY): return z3.Empty(T(srt))
        if nm in ('seq.nth', 'seq.nth_i', 'seq.nth_u'):
            x = args[0][args[1]]
            return args[0].sort().basis().accessor(0, 0)(x) if _elem_boxed(args[0].sort()) else x
        if nm == 'seq.++' or k == z3.Z3_OP_SEQ_CONCAT: return z3.Concat(*args)
        if nm == 'seq.len': return z3.Length(args[0])
        if nm == 'seq.extract': return z3.SubSeq(args[0], args[1], args[2])
        if nm == 'seq.at': return z3.SubSeq(args[0], args[1], z3.IntVal(1))
        if nm == 'seq.contains': return z3.Contains(args[0], args[1])
        if nm == 'seq.prefixof': return z3.PrefixOf(args[0], args[1])
        if nm == 'seq.suffixof': return z3.SuffixOf(args[0], args[1])
        if nm == 'seq.indexof': return z3.IndexOf(args[0], args[1], args[2]) if len(args) == 3 else z3.IndexOf(args[0], args[1], 0)
        if nm == 'seq.replace': return z3.Replace(args[0], args[1], args[2])
        # --- core
        if k == z3.Z3_OP_EQ:
            if args[0].sort().get_id() != args[1].sort().get_id():
                raise z3.Z3Exception('unnest: sides of an equation translated to different sorts: %s : %s  /  %s : %s' % (str(e.arg(0))[:80], args[0].sort(), str(e.arg(1))[:80], args[1].sort()))
            return args[0] == args[1]
        if k == z3.Z3_OP_DISTINCT: return z3.Distinct(*args)
        if k == z3.Z3_OP_ITE: return z3.If(args[0], args[1], args[2])
        if k == z3.Z3_OP_SELECT: return z3.Select(args[0], args[1])
        if k == z3.Z3_OP_STORE: return z3.Store(args[0], args[1], args[2])
        if k == z3.Z3_OP_CONST_ARRAY: return z3.K(T(srt).domain(), args[0])
        # --- datatypes re-declared field by field
        if k in (z3.Z3_OP_DT_CONSTRUCTOR, z3.Z3_OP_DT_ACCESSOR, z3.Z3_OP_DT_RECOGNISER, z3.Z3_OP_DT_IS):
            ds = d.range() if k == z3.Z3_OP_DT_CONSTRUCTOR else d.domain(0)
            nds = T(ds)
            if nds.get_id() == ds.get_id(): return d(*args)
            for ci in range(ds.num_constructors()):
                if k == z3.Z3_OP_DT_CONSTRUCTOR and ds.constructor(ci).name() == nm: return nds.constructor(ci)(*args)
                if k in (z3.Z3_OP_DT_RECOGNISER, z3.Z3_OP_DT_IS) and ds.recognizer(ci).get_id() == d.get_id(): return nds.recognizer(ci)(*args)
                for aj in range(ds.constructor(ci).arity()):
                    if k == z3.Z3_OP_DT_ACCESSOR and ds.accessor(ci, aj).get_id() == d.get_id(): return nds.accessor(ci, aj)(*args)
            raise z3.Z3Exception('datatype operation %s not found' % nm)
        if same: return e
        try: return d(*args)
        except z3.Z3Exception:
            raise z3.Z3Exception('unnest: operation %s over a sequence of sequences is not handled' % nm)

_shared = Unnest()
def unnest(fs):
    # one translator per process: path conditions are translated again and again as they grow, and share almost all their formulas
    return [_shared.tr(f) for f in fs]

def has_nested(fs):
    """does any term of the formulas have a sequence-of-sequences sort (after translation this must be False)"""
    seen = set(); stack = list(fs)
    while stack:
        e = stack.pop()
        if e.get_id() in seen: continue
        seen.add(e.get_id())
        if z3.is_quantifier(e):
            for k in range(e.num_vars()):
                s = e.var_sort(k)
                if _is_seq(s) and not s.is_string() and _is_seq(s.basis()): return True
            stack.append(e.body()); continue
        if z3.is_app(e):
            s = e.sort()
            if _is_seq(s) and not s.is_string() and _is_seq(s.basis()): return True
            stack.extend(e.children())
    return False

"""Contracts for config/_pair_potential_builder.py: one Potential per [Pair]-like tuple, in order, with that tuple's labels
and the function denoted by its definition (C01-C05, C19: the potable route)."""
import z3
from .common import *
from . import potential as _P

FILE = 'atsim/potentials/config/_pair_potential_builder.py'
F_PFB = 'atsim/potentials/config/_potential_form_builder.py'
REG.add_class(ClassDecl('atsim/potentials/config/_common.py', 'SpeciesTuple', {'species_a': T.Str, 'species_b': T.Str}, external=True))
# PFInstance stands for both tuple types of a definition chain: a PotentialFormInstanceTuple HAS potential_form / parameters, a PotentialModifierTuple
# HAS modifier / potential_forms (reading an attribute the tuple lacks is an AttributeError); both have start (None without a range marker) and next
REG.add_class(ClassDecl('atsim/potentials/config/_common.py', 'RangeStart', {'range_type': T.Str, 'start': T.Real}, external=True, pyname='MultiRangeDefinitionTuple'))
REG.add_class(ClassDecl('atsim/potentials/config/_common.py', 'PFInstance',
    {'potential_form': T.Opt(T.Str), 'parameters': T.Opt(T.List(T.Real)), 'modifier': T.Opt(T.Str), 'potential_forms': T.Opt(T.List(T.Obj('PFInstance'))),
     'start': T.Opt(T.Obj('RangeStart')), 'next': T.Opt(T.Obj('PFInstance'))},
    external=True, optional_attrs=('potential_form', 'parameters', 'modifier', 'potential_forms')))
REG.classes['PFInstance'].namedtuple = True
REG.add_class(ClassDecl('atsim/potentials/config/_common.py', 'PairPotentialTuple', {'species': T.Obj('SpeciesTuple'), 'potential_form_instance': T.Obj('PFInstance')}, external=True))
REG.add_class(ClassDecl(F_PFB, 'Potential_Form_Builder', {}, external=True))
REG.add_class(ClassDecl('<ext>', 'Registry', {}, external=True))
REG.add_class(ClassDecl(FILE, 'Pair_Potentials_From_Tuples_Builder',
    {'potential_tuples': T.List(T.Obj('PairPotentialTuple')), 'potential_form_registry': T.Obj('Registry'), 'modifier_registry': T.Obj('Registry'), 'log_section_name': T.Str}))

PPT = ObjSort('PairPotentialTuple'); PFI = ObjSort('PFInstance'); PFB = ObjSort('Potential_Form_Builder'); RG = ObjSort('Registry')
sp_of = field('PairPotentialTuple', 'species', ObjSort('SpeciesTuple')); inst_of = field('PairPotentialTuple', 'potential_form_instance', PFI)
sp_a = field('SpeciesTuple', 'species_a', StrS); sp_b = field('SpeciesTuple', 'species_b', StrS)
# the callable a definition denotes (C09's denotation, established by the form builder; opaque here)
DEN = z3.Function('denotes', PFB, PFI, Fn)
MKB = z3.Function('form_builder_of', RG, RG, PFB)     # Potential_Form_Builder(registry, modifiers): a function of its two registries

REG.add(Contract('<ext>', 'Potential_Form_Builder.create_potential_function',
    params=[('self', T.Obj('Potential_Form_Builder')), ('potential_form_instance', T.Obj('PFInstance'))], result=T.Fn,
    ensures=lambda v, old, res: [res == DEN(v.self, v.potential_form_instance)],
    may_raise=lambda v: [('UnknownModifierException', z3.Bool('unknown_modifier')), ('UnknownPotentialFormException', z3.Bool('unknown_form')), ('ConfigurationException', z3.Bool('bad_definition'))],
    external=True, note='Potential_Form_Builder.create_potential_function(t) returns the callable denoted by the definition t (C09) or raises one of its three configuration errors',
    props=['C01', 'C09']))
REG.add(Contract(F_PFB, 'Potential_Form_Builder.__init__',
    params=[('self', T.New('Potential_Form_Builder')), ('potential_form_registry', T.Obj('Registry')), ('modifier_registry', T.Obj('Registry'))],
    ensures=lambda v, old, res: [], trusted=True, note='stores its two registries (2 assignments)', props=['C01']))

def _pot_is(p, t, b):
    return z3.And(pot_A(p) == sp_a(sp_of(t)), pot_B(p) == sp_b(sp_of(t)), pot_fn(p) == DEN(b, inst_of(t)))

REG.add(Contract(FILE, 'Pair_Potentials_From_Tuples_Builder._create_potential',
    params=[('self', T.Obj('Pair_Potentials_From_Tuples_Builder')), ('potrow', T.Obj('PairPotentialTuple')), ('mrpfb', T.Obj('Potential_Form_Builder'))],
    result=T.Obj('Potential'),
    ensures=lambda v, old, res: [_pot_is(res, v.potrow, v.mrpfb)], on_raise=lambda v, old: [],
    raises_classes=['UnknownModifierException', 'UnknownPotentialFormException', 'ConfigurationException'],
    carries=['post'], props=['C01', 'C02', 'C19']))

_tuples = field('Pair_Potentials_From_Tuples_Builder', 'potential_tuples', z3.SeqSort(PPT))
def _init_inv(v, old):
    j = z3.Int('j!p'); k = v._i0
    return [z3.Length(v.pots) == k, z3.ForAll([j], z3.Implies(z3.And(0 <= j, j < k), _pot_is(v.pots[j], _tuples(v.self)[j], v.pfb)))]

def _init_post(v, old, res):
    j = z3.Int('j!q'); ts = _tuples(v.self)
    b = z3.Const('the_builder', PFB)
    return [z3.Length(res) == z3.Length(ts),
            z3.Exists([b], z3.ForAll([j], z3.Implies(z3.And(0 <= j, j < z3.Length(ts)), _pot_is(res[j], ts[j], b))))]

REG.add(Contract(FILE, 'Pair_Potentials_From_Tuples_Builder._init_potentials',
    params=[('self', T.Obj('Pair_Potentials_From_Tuples_Builder'))], result=T.List(T.Obj('Potential')),
    ensures=_init_post, post_names=['one-potential-per-tuple', 'in-order-with-that-tuples-labels-and-function'],
    invariants={0: _init_inv}, ghost={'pots': T.Obj('Potential')}, instantiate_int_foralls=True,
    raises_when=lambda v, old, exc: [z3.BoolVal(exc.cls in ('Unknown_Modifier_Exception', 'ConfigurationException'))], on_raise=lambda v, old: [],
    carries=['post', 'preserve/0', 'raises'], props=['C01', 'C02', 'C16', 'C19']))

# the lazily initialised, cached list: either the cache (which then satisfies the same postcondition, class invariant) or a fresh _init_potentials()
REG.add(Contract(FILE, 'Pair_Potentials_From_Tuples_Builder.__init__',
    params=[('self', T.New('Pair_Potentials_From_Tuples_Builder')), ('potential_tuples', T.List(T.Obj('PairPotentialTuple'))),
            ('potential_form_registry', T.Obj('Registry')), ('modifier_registry', T.Obj('Registry')), ('log_section_name', T.Str)],
    ensures=lambda v, old, res: [v.field('self', 'potential_tuples') == v.potential_tuples,
                                 v.field('self', 'log_section_name') == v.log_section_name,
                                 v.field('self', 'potential_form_registry') == v.potential_form_registry,
                                 v.field('self', 'modifier_registry') == v.modifier_registry],
    post_names=['keeps-the-tuples-in-order', 'section-name', 'forms', 'modifiers'], carries=['post'], props=['C01', 'C02', 'C19']))

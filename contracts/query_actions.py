"""Contracts for potable's query actions (C14): tools/potable/_query_actions.py.  An item of the file is SECTION_NAME:KEY with its value;
_list_section lists the items of one section in file order, _item_value looks one up (the key is the text after the LAST colon)."""
import z3
from .common import *
from .ext_configparser import *
from . import duplicates as DU
from pyvc.spec import SpecSeq
from pyvc.symexec import TupleSort

FILE = F_QA = 'atsim/potentials/tools/potable/_query_actions.py'
REG.classes['ConfigParser'].fields['raw_config_parser'] = T.Obj('RawCP')      # property: `return self._config_parser` (one line; A6 for views: wrapt passes the attribute through)
raw_of = field('ConfigParser', 'raw_config_parser', DU.RCP)
ItemT = T.Tuple(T.Text, T.Str); ItemS = TupleSort([Doc, StrS]); ItemL = z3.SeqSort(ItemS)
def item_of(sp, section, k):
    """(label, value) of the k-th option of a section: label = SECTION_NAME:KEY as the listing prints it"""
    key = DU.sec_keys(sp)[k]
    return ItemS.mk(tok("{section}:{key}", section, key), sec_get(sp, key))
section_items = SpecSeq('section_items', [SP, StrS], lambda sp, section, k: z3.Unit(item_of(sp, section, k)), result=ItemL, elem_len=1)

REG.add(Contract(F_QA, '_list_section', params=[('cp', T.Obj('ConfigParser')), ('section', T.Str)], result=T.List(ItemT),
    requires=lambda v: [DU.has_sec(raw_of(v.cp), v.section)],      # (KeyError otherwise: callers pass names of sections that exist)
    ensures=lambda v, old, res: [res == section_items(DU.sec_of(raw_of(v.cp), v.section), v.section, z3.Length(DU.sec_keys(DU.sec_of(raw_of(v.cp), v.section))))],
    post_names=['every-option-of-the-section-once-in-file-order-with-its-value'],
    invariants={0: lambda v, old: [v.outlist == section_items(DU.sec_of(raw_of(v.cp), old.section), old.section, v._i0)]},
    ghost={'outlist': ItemT}, raises_when=lambda v, old, exc: [z3.BoolVal(False)], on_raise=lambda v, old: [],
    carries=['post', 'preserve/0'], props=['C14']))

from . import potable_cli as CLI
NOVAL = z3.BoolVal(False)
REG.add(Contract(F_QA, '_item_value', params=[('cp', T.Obj('ConfigParser')), ('key', T.Str)], result=T.Str,
    requires=lambda v: [CLI.item_ok(v.key, NOVAL), DU.has_sec(raw_of(v.cp), CLI.item_sec(v.key, NOVAL)),
                        sec_has(DU.sec_of(raw_of(v.cp), CLI.item_sec(v.key, NOVAL)), CLI.item_key(v.key, NOVAL))],       # an item of the file (a missing one: KeyError, outside the statement)
    ensures=lambda v, old, res: [res == sec_get(DU.sec_of(raw_of(v.cp), CLI.item_sec(v.key, NOVAL)), CLI.item_key(v.key, NOVAL))],
    post_names=['the-value-of-the-item-SECTION_NAME:KEY'], definitions=CLI.item_definitions,
    raises_when=lambda v, old, exc: [z3.BoolVal(False)], on_raise=lambda v, old: [], carries=['post'], props=['C14']))

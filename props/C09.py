"""C09 — potable model language: modifiers and custom formulas mean what is documented."""
import ast, z3
from pyvc.core import *
from pyvc.solve import Obligation
from pyvc import symalg as B
from pyvc.extract import Module, get_func
import props.C07 as C07

F_MOD = 'atsim/potentials/_modifiers.py'
F_CP = 'atsim/potentials/config/_config_parser.py'
F_PFB = 'atsim/potentials/config/_potential_form_builder.py'
F_CX = 'atsim/potentials/config/_cexprtk_potential_function.py'
F_REG = 'atsim/potentials/config/_potential_form_registry.py'
F_MREG = 'atsim/potentials/config/_modifier_registry.py'
F_PM = 'atsim/potentials/config/_pymath.py'
import contracts.modifiers as MD
import contracts.form_builder as FB
from pyvc.spec import SpecAcc
from pyvc.symexec import reduce_fn
FUNCTIONS = [(F_MOD, '_modifier_from_func_reduce'), (F_MOD, 'sum'), (F_MOD, 'product'), (F_MOD, 'pow'), (F_MOD, 'trans'),
             (F_PFB, 'Potential_Form_Builder._make_multi_range_tuple'), (F_PFB, 'Potential_Form_Builder.create_potential_function')]
SPECSEQS = [MD.dens, FB.chain_ranges]
FnL = z3.SeqSort(Fn)
# pointwise sum / product of the first t+1 callables at r
sum_at = SpecAcc('pointwise_sum', [FnL, RealS], lambda fs, r: app(fs[0], r), lambda fs, r, t, prev: prev + app(fs[t + 1], r), result=RealS)
prod_at = SpecAcc('pointwise_product', [FnL, RealS], lambda fs, r: app(fs[0], r), lambda fs, r, t, prev: prev * app(fs[t + 1], r), result=RealS)

def lemmas():
    out = []
    S = B.source_shape
    # the modifiers ARE the Python-API combinators folded over their arguments (so potable == Python API by construction)
    # the modifiers ARE the Python-API combinators folded over their arguments: Engine A contracts of _modifier_from_func_reduce, sum, product, pow
    # (contracts/modifiers.py).  Meaning of the fold, by induction on the number of arguments, from the pointwise meaning of one
    # application of plus / product (the Engine B identities below, stated here as the premise `one`):
    fs = z3.Const('fs', FnL); r = z3.Real('r'); n = z3.Int('n'); a, b = z3.Consts('a b', Fn)
    def L(name, hyps, goal): out.append(Obligation('C09/lemma/' + name, hyps, goal, kind='lemma', function='props/C09.py', carries_property=True, unfold_depth=2))
    for nm, C, at, op in (('sum', MD.PLUS, sum_at, lambda x, y: x + y), ('product', MD.PRODUCT, prod_at, lambda x, y: x * y)):
        one = z3.ForAll([a, b, r], app(comb2(C, a, b), r) == op(app(a, r), app(b, r)), patterns=[app(comb2(C, a, b), r)])
        L('%s-of-one-argument-is-that-argument' % nm, [], app(reduce_fn(C, fs, z3.IntVal(0)), r) == app(fs[0], r))
        L('%s-fold/base' % nm, [one], app(reduce_fn(C, fs, z3.IntVal(0)), r) == at(fs, r, z3.IntVal(0)))
        L('%s-fold/step' % nm, [one, n >= 0, app(reduce_fn(C, fs, n), r) == at(fs, r, n)], app(reduce_fn(C, fs, n + 1), r) == at(fs, r, n + 1))
    onep = z3.ForAll([a, b, r], app(comb2(MD.POW, a, b), r) == z3.Function('real_pow', RealS, RealS, RealS)(app(a, r), app(b, r)), patterns=[app(comb2(MD.POW, a, b), r)])
    L('pow-of-two-arguments-is-a(r)**b(r)', [onep], app(reduce_fn(MD.POW, fs, z3.IntVal(1)), r) == z3.Function('real_pow', RealS, RealS, RealS)(app(fs[0], r), app(fs[1], r)))
    m = Module.get(F_MOD)
    out.append(B.static_obligation('C09/_modifiers.py/plus-is-the-python-api-plus', m.imports.get('plus', (None, None))[1] == 'plus' and 'atsim.potentials' in str(m.imports.get('plus')[0]) or m.imports.get('plus') is not None, 'module', F_MOD, str(m.imports.get('plus'))))
    # pointwise meaning and derivatives of plus/product/pow/trans: Engine B identities (undetermined operands)
    out += [o for o in C07.combinator_obligations('C09') if '/translate' in o.name or 'potential/is-' in o.name or 'transformed/is-' in o.name or 'shift-is' in o.name]
    # trans: argument validation and f(r + X) are the Engine A contract of trans (contracts/modifiers.py)
    # nesting: create_potential_function builds one range per chain member, a modifier calls back into the builder for its arguments
    # Potential_Form_Builder._make_multi_range_tuple and .create_potential_function are under Engine A contracts (contracts/form_builder.py):
    # one range per chain member, in chain order, each with the callable of the registered form / modifier (which calls back into the builder)
    # parse tree -> tuples with the same structure (grammar acceptance itself is A6)
    out.append(S('C09', F_CP, 'ConfigParser._descend_potential_modifier', 'modifier-tuple',
                 ["modifier_label = modifier_node['modifier_label']", 'for p in modifier_parameters:\n ptuple = self._descend_tree(iter(p))\n params.append(ptuple)', 'n = self._descend_tree(sibling_iterator)',
                  'ret_tuple = PotentialModifierTuple(modifier=modifier_label, potential_forms=params, start=range_defn, next=n)']))
    out.append(S('C09', F_CP, 'ConfigParser._descend_potential_description', 'form-instance-tuple',
                 ["potential = curr_node['potential_label']", "parameters = [p for p in curr_node['potential_parameters']]", 'n = self._descend_tree(sibling_iterator)',
                  'ret_tuple = PotentialFormInstanceTuple(potential_form=potential, parameters=parameters, start=range_defn, next=n)']))
    out.append(S('C09', F_CP, 'ConfigParser._parse_params_section', 'one-tuple-per-entry-in-file-order',
                 ['for k in self._config_parser[section_name]:', 'v = self._config_parser[section_name][k]', 'pair_tuple = parse_line_func(k, v)', 'params.append(pair_tuple)', 'return params']))
    out.append(S('C09', F_CP, 'ConfigParser._parse_potential_form_signature', 'NAME(r, p1..pn)', ['label, params = m.groups()', "params = [p.strip() for p in params.split(',')]", 'return PotentialFormSignatureTuple(label, params, False)']))
    # custom formulas: parameters bound by position; every form registered with every other form; pymath in every form
    out.append(S('C09', F_CX, '_Cexptrk_Potential_Function.__call__', 'positional-binding', ['for pn, v in zip(parameter_names, args):\n self._local_symbol_table.variables[pn] = v', 'retval = self._expression()', 'return retval']))
    out.append(S('C09', F_CX, '_Cexptrk_Potential_Function.register_function', 'callable-under-its-label', ['label = func._potential_form_tuple.signature.label', 'self._local_symbol_table.functions[label] = func']))
    out.append(S('C09', F_REG, 'Potential_Form_Registry._register_with_each_other', 'each-form-in-every-other-forms-table',
                 ['pairs = list(itertools.permutations(self._potential_forms.values(), 2))', 'for a, b in pairs:\n a.potential_function.register_function(b.potential_function)']))
    out.append(S('C09', F_REG, 'Potential_Form_Registry._register_pymath_functions', 'pymath.NAME-in-every-form',
                 ['for name, pyfunc in inspect.getmembers(_pymath, inspect.isfunction):', "label = '{}.{}'.format(namespace, name)", 'func = _Python_Potential_Function(d, pyfunc)',
                  'for pform in self._potential_forms.values():\n for pyfunc in new_mathfuncs:\n pform.potential_function.register_function(pyfunc)']))
    # pymath.X is math.X
    mp = Module.get(F_PM)
    bad = []
    for q, fi in mp.funcs.items():
        if q.startswith('_'): continue
        body = ast.unparse(ast.Module(body=fi.body, type_ignores=[]))
        params = [a.arg for a in fi.node.args.args]
        if fi.node.args.vararg: expect = {'return math.%s(args)' % q, 'return math.%s(*args)' % q}
        else: expect = {'return math.%s(%s)' % (q, ', '.join(params))}
        if q == 'ldexp': expect = {'return math.ldexp(a, int(b))'}
        if q == 'log2': expect = {'return math.log2(x)', 'return math.log(x, 2)'}
        # integer-only functions receive floats from the expression engine: documented adaptation int(.)
        if q == 'factorial': expect = {'return math.factorial(int(x))'}
        if q == 'gcd': expect = {'return _gcd(int(a), int(b))', 'return math.gcd(int(a), int(b))'}
        if body not in expect: bad.append((q, body))
    out.append(B.static_obligation('C09/_pymath.py/each-function-is-math.NAME-of-its-arguments', not bad, '_pymath', F_PM, str(bad[:3])))
    out.append(B.static_obligation('C09/_pymath.py/functions-enumerated', len(mp.funcs) >= 30, '_pymath', F_PM, '%d functions' % len(mp.funcs)))
    # key normalisation (whitespace in keys is irrelevant; '=' / ':' and continuation lines are configparser's: A5)
    out.append(S('C09', F_CP, '_ConfigParserDict._key_transform', 'removes-blanks-and-tabs', ["k = k.strip().replace(' ', '')", "k = k.replace('\\t', '')"]))
    return out

MUTANTS = [
    (F_PFB, 'Potential_Form_Builder.create_potential_function', "n = potential_form_instance.next", "n = potential_form_instance", 'init/0'),
    (F_PFB, 'Potential_Form_Builder.create_potential_function', "while n:", "while n and n.next:", 'post'),
    (F_PFB, 'Potential_Form_Builder.create_potential_function', "tuples.append(self._make_multi_range_tuple(n))", "tuples.append(self._make_multi_range_tuple(potential_form_instance))", 'preserve/0'),
    (F_PFB, 'Potential_Form_Builder._make_multi_range_tuple', "range_type = '>='", "range_type = '>'", 'post/marker'),
    (F_PFB, 'Potential_Form_Builder._make_multi_range_tuple', "pform = pform_factory(*params)", "pform = pform_factory(*params[1:])", 'post/callable'),
    (F_PFB, 'Potential_Form_Builder._make_multi_range_tuple', "raise UnknownPotentialFormException(*e.args)", "raise e", 'raises'),
    (F_MOD, '_modifier_from_func_reduce', "pot_callables.append(pot_callable)", "pot_callables.insert(0, pot_callable)", 'preserve/0'),
    (F_MOD, 'product', "_modifier_from_func_reduce('product', product,", "_modifier_from_func_reduce('product', plus,", 'post'),
    (F_MOD, 'sum', "_modifier_from_func_reduce('sum', plus,", "_modifier_from_func_reduce('sum', pow,", 'post'),
    (F_MOD, '_modifier_from_func_reduce', "create_potential_function(pfi)", "create_potential_function(potential_forms[0])", 'preserve/0'),
]
MODULE_MUTANTS = [
    (F_MOD, "  mod = functools.reduce(func, pot_callables)\n", "  mod = functools.reduce(func, reversed(pot_callables))\n", '_modifier_from_func_reduce'),
    (F_MOD, "    return potential_func(r+trans_value)\n", "    return potential_func(r-trans_value)\n", 'transformed/is-f(r+X)'),
    (F_PM, "def fmod(a,b):\n  return math.fmod(a,b)", "def fmod(a,b):\n  return a % b", 'each-function-is-math'),
    (F_REG, "    pairs = list(itertools.permutations(self._potential_forms.values(), 2))\n", "    pairs = list(itertools.combinations(self._potential_forms.values(), 2))\n", 'each-form-in-every-other'),
]
ENGINE_B_FUNCTIONS = [(F_MOD, '_modifier_from_func_reduce'), (F_MOD, 'sum'), (F_MOD, 'product'), (F_MOD, 'pow'), (F_MOD, 'trans'), (F_PFB, 'Potential_Form_Builder._make_multi_range_tuple'),
                      (F_PFB, 'Potential_Form_Builder.create_potential_function'), (F_CP, 'ConfigParser._descend_potential_modifier'), (F_CP, 'ConfigParser._descend_potential_description'),
                      (F_CX, '_Cexptrk_Potential_Function.__call__'), (F_REG, 'Potential_Form_Registry._register_with_each_other'), (F_REG, 'Potential_Form_Registry._register_pymath_functions')]
ASSUMPTIONS = ['A6: pyparsing returns a parse tree of the shape of the grammar in _multi_range_parser.py; cexprtk evaluates + - * / ^, calls and if() as documented on the bound symbol table',
               'A5: configparser treats "=" and ":", continuation lines and surrounding whitespace alike',
               'A4: functools.reduce is the left fold', 'C06/C07/C08 conclusions for leaves, combinators and multi-range chains']
NOT_DECIDED = ['acceptance of exactly the documented grammar, INI formatting invariance and cexprtk evaluation: outside reach (A5, A6): bounded stand-in only']
BOUNDED = [dict(name='generated definitions (modifier depth <= 3, 3 ranges, custom forms calling custom/as./pymath forms, if()) in 4 formatting variants, against the exact documented meaning and the Python-API composition', bound='quick 60 + 6 / thorough 3000 definitions', technique='concrete oracle')]

def oracle_payload(tier, seed, mode='search'): return dict(mode=mode, seed=seed, n=60 if tier == 'quick' else 3000)
def witness_for(ob, devs, run_oracle):
    if devs: d = devs[0]; return dict(deviates=True, input=d['input'], observed=d['observed'], expected=d['expected'])
    return dict(deviates=False)

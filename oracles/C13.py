"""C13 oracle: species filtering == deleting the unwanted entries from the file; views are independent."""
from _cfg import *

def mentions(key): 
    import re
    return [s for s in re.split(r'->|-', key.replace(' ', '')) if s]

def filt(entries, S, exclude):
    out = []
    for k, v in entries:
        m = mentions(k)
        keep = (not any(s in S for s in m)) if exclude else all(s in S for s in m)
        if keep: out.append((k, v))
    return out

ERRS = [0, 0]    # vacuity guard: how often the edited file itself does not tabulate (then only 'both fail' is compared)

def check_case(rep, case, name):
    rng = random.Random(case['seed'])
    kind = case['kind']
    if kind == 'pair':
        sp_, head, entries = pair_model(rng, target=case.get('target', 'LAMMPS'))
        sections = lambda f: [('Pair', f(entries))]
    else:
        sp_, head, embed, dens, pairs = eam_model(rng, fs=(kind == 'fs'))
        sections = lambda f: [('EAM-Embed', f(embed)), ('EAM-Density', f(dens)), ('Pair', f(pairs))]
    S = case['S']; excl = case['exclude']
    full = render(head, sections(lambda e: e))
    edited = render(head, sections(lambda e: filt(e, S, excl)))
    try: want = tabulate_text(edited)
    except Exception as e: want = 'ERR:' + type(e).__name__
    ERRS[0] += want.startswith('ERR'); ERRS[1] += 1
    # API route
    other = None
    try:
        cp = ConfigParser(io.StringIO(full))
        other = FilteredConfigParser(cp, include=[sp_[0]]) if case.get('other_view') else None      # another view of the same parsed file, created first
        view = FilteredConfigParser(cp, exclude=S) if excl else FilteredConfigParser(cp, include=S)
        if case.get('other_view') == 'after': other2 = FilteredConfigParser(cp, exclude=[sp_[-1]])
        got = tabulate_text(None, view)
    except Exception as e: got = 'ERR:' + type(e).__name__
    if got != want:
        rep.dev(name, case, 'filtered tabulation differs from the tabulation of the edited file (%s)' % (got[:60].replace('\n', '|') if got.startswith('ERR') else 'different bytes'),
                'equal to the file with entries deleted: %s' % ([k for k, v in filt(sum([e for _, e in sections(lambda e: e)], []), S, excl)])); return
    if case.get('other_view') and other is not None:
        want_o = tabulate_text(render(head, sections(lambda e: filt(e, [sp_[0]], False)))) if True else None
        try: got_o = tabulate_text(None, other)
        except Exception as e: got_o = 'ERR:' + type(e).__name__
        if got_o != want_o: rep.dev(name, case, 'an earlier view (include=[%s]) changed after another view was created' % sp_[0], 'unaffected'); return
    # CLI route
    if S:
        code, so, se, text = potable([('--exclude-species' if excl else '--include-species')] + S, full)
        if (text if text is not None else 'ERR') != (want if not want.startswith('ERR') else 'ERR') and not (want.startswith('ERR') and code != 0):
            rep.dev(name, dict(case, route='cli'), 'potable output differs from the edited file', 'equal'); return
    rep.ok()

def gen_case(rng):
    kind = rng.choice(['pair', 'eam', 'fs'])
    S = rng.sample(SPECIES + ['Xx'], rng.randint(0, 3))
    return dict(kind=kind, seed=rng.randint(0, 10 ** 6), S=S, exclude=rng.random() < 0.5, other_view=rng.choice([None, 'before', 'after']))

if __name__ == '__main__':
    pl = payload(); rep = Report('C13')
    if pl.get('mode') == 'replay': rep.case('replay', pl['input']); check_case(rep, pl['input'], 'replay')
    else:
        rng = random.Random(pl.get('seed', 0))
        # CLI corner: --include-species with no labels = include the empty set = every entry deleted
        sp_, head, entries = pair_model(random.Random(5), n_species=2)
        full = render(head, [('Pair', entries)]); empty = render(head, [('Pair', [])])
        code, so, se, text = potable(['--include-species'], full)
        try: want = tabulate_text(empty)
        except Exception as e: want = None
        rep.case('cli', 'cli-include-empty')
        if want is not None and text != want: rep.dev('cli-include-empty', dict(kind='cli', args=['--include-species']), 'nothing was filtered (%d bytes written)' % len(text or ''), 'the table of the file with every entry deleted (%d bytes)' % len(want))
        else: rep.ok()
        # include sets given in another order than the file's: the surviving entries keep the FILE's relative order
        r2 = random.Random(pl.get('seed', 0) + 17); done = 0
        while done < 6:
            kind = ['eam', 'fs', 'pair'][done % 3]; sd = r2.randint(0, 10 ** 6)
            sp0 = (pair_model(random.Random(sd)) if kind == 'pair' else eam_model(random.Random(sd), fs=(kind == 'fs')))[0]
            if len(sp0) < 2: continue
            c = dict(kind=kind, seed=sd, S=list(reversed(sp0)), exclude=False, other_view=None)
            rep.case(kind, c); check_case(rep, c, 'include-reversed-%d' % done); done += 1
        for i in range(pl.get('n', 40)):
            c = gen_case(rng); rep.case(c['kind'], c); check_case(rep, c, 'seeded-%d' % i)
    if pl.get('mode') != 'replay' and ERRS[0] * 2 > ERRS[1]:
        rep.dev('oracle-vacuity', dict(kind='self-check'), '%d of %d edited files do not tabulate at all' % tuple(ERRS), 'a generator whose models tabulate')
    rep.finish(edited_file_errors=ERRS[0])

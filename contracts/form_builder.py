"""Contracts for config/_potential_form_builder.py (C08, C09, C16): a definition chain  A >s1 B >s2 C ...  becomes one multi-range potential
with one range per chain member -- the member's marker and start, and the callable made by the registered form (with the member's
parameters) or modifier (with the member's argument definitions and this builder)."""
import z3
from .common import *
from . import builders as BU
from . import modifiers as MD        # PFInstance with its optional attributes, RangeStart
from . import multirange as MR
from pyvc.spec import SpecSeq, SpecAcc

F_PFB = FILE = 'atsim/potentials/config/_potential_form_builder.py'
F_MR = MR.FILE
REG.add_class(ClassDecl('<ext>', 'FormRegistry', {}, external=True)); REG.add_class(ClassDecl('<ext>', 'ModRegistry', {}, external=True))
REG.add_class(ClassDecl('<ext>', 'FormFactory', {}, external=True)); REG.add_class(ClassDecl('<ext>', 'ModFactory', {}, external=True))
REG.add_class(ClassDecl(F_PFB, 'PFB_Impl', {'potential_form_registry': T.Obj('FormRegistry'), 'modifier_registry': T.Obj('ModRegistry')}, pyname='Potential_Form_Builder'))
PFI = BU.PFI; PFBI = ObjSort('PFB_Impl'); FR, MRg, FF, MF = ObjSort('FormRegistry'), ObjSort('ModRegistry'), ObjSort('FormFactory'), ObjSort('ModFactory')
RSt = ObjSort('RangeStart')
form_reg = field('PFB_Impl', 'potential_form_registry', FR); mod_reg = field('PFB_Impl', 'modifier_registry', MRg)
fr_has = z3.Function('form_registered', FR, StrS, BoolS); fr_get = z3.Function('form_factory', FR, StrS, FF)
mr_has = z3.Function('modifier_registered', MRg, StrS, BoolS); mr_get = z3.Function('modifier_factory', MRg, StrS, MF)
form_apply = z3.Function('form_apply', FF, z3.SeqSort(RealS), Fn)              # the callable a form factory makes from parameters
mod_apply = z3.Function('mod_apply', MF, z3.SeqSort(PFI), PFBI, Fn)            # the callable a modifier makes from its argument definitions (calling back into the builder)
pf_modname = field('PFInstance', 'modifier', StrS); pf_has_mod = lambda p: z3.Not(field('PFInstance', 'modifier?none', BoolS)(p))
pf_args = field('PFInstance', 'potential_forms', z3.SeqSort(PFI))
pf_startobj = field('PFInstance', 'start', RSt); pf_nostart = field('PFInstance', 'start?none', BoolS)
rs_start = field('RangeStart', 'start', RealS); rs_type = field('RangeStart', 'range_type', StrS)
NEG_INF = z3.Const('float(-inf)', RealS)

for cls, has, get, exc in (('FormRegistry', fr_has, fr_get, 'KeyError'), ('ModRegistry', mr_has, mr_get, 'KeyError')):
    REG.add(Contract('<ext>', cls + '.__getitem__', params=[('self', T.Obj(cls)), ('key', T.Str)], result=T.Obj('FormFactory' if cls == 'FormRegistry' else 'ModFactory'),
        ensures=lambda v, old, res, get=get: [res == get(v.self, v.key)], may_raise=lambda v, has=has: [('KeyError', z3.Not(has(v.self, v.key)))], external=True,
        note='registry[label]: the registered factory; KeyError for an unknown label', props=['C09', 'C16']))
_CFG = ['ConfigurationException', 'UnknownModifierException', 'UnknownPotentialFormException', 'Potential_Form_Exception']
REG.add(Contract('<ext>', 'FormFactory.__call__', params=[('self', T.Obj('FormFactory')), ('params', T.List(T.Real))], result=T.Fn,
    ensures=lambda v, old, res: [res == form_apply(v.self, v.params)], may_raise=lambda v: [('Potential_Form_Exception', z3.Bool('wrong_number_of_parameters'))], external=True,
    note='a registered potential form applied to parameter values: the parametrised callable (C06), or a configuration error for a wrong parameter count', props=['C09']))
REG.add(Contract('<ext>', 'ModFactory.__call__', params=[('self', T.Obj('ModFactory')), ('potential_forms', T.List(T.Obj('PFInstance'))), ('builder', T.Obj('PFB_Impl'))], result=T.Fn,
    ensures=lambda v, old, res: [res == mod_apply(v.self, v.potential_forms, v.builder)],
    may_raise=lambda v: [(c_, z3.Bool('modifier_refuses_%d' % i_)) for i_, c_ in enumerate(_CFG[:3])], external=True,
    note='a registered modifier applied to its argument definitions and the builder (contracts/modifiers.py for sum, product, pow, trans, spline)', props=['C09']))

def member_callable(b, p):
    """the callable of one chain member"""
    return z3.If(pf_has_mod(p), mod_apply(mr_get(mod_reg(b), pf_modname(p)), pf_args(p), b), form_apply(fr_get(form_reg(b), MD.pf_label(p)), MD.pf_params(p)))
def member_start(p): return z3.If(pf_nostart(p), NEG_INF, rs_start(pf_startobj(p)))
def member_marker(p): return z3.If(pf_nostart(p), z3.StringVal('>='), rs_type(pf_startobj(p)))
mrd_of = z3.Function('range_of_member', PFBI, PFI, MR.RD)          # names the Multi_Range_Defn built for a member (its fields are what matters)
def _one_kind(p): return z3.And(pf_has_mod(p) == MD.pf_is_modifier(p), MD.pf_is_modifier(p) == MD.pf_params_none(p), pf_has_mod(p) == z3.Not(field('PFInstance', 'potential_forms?none', BoolS)(p)))
def _mrt_post(v, old, res):
    b, p = v.self, v.pform_instance
    return [MR.rtype(res) == member_marker(p), MR.start(res) == member_start(p), MR.pform(res) == member_callable(b, p)]
def _mrt_raises(v, old, exc):
    b, p = v.self, v.pform_instance
    if exc.cls == 'UnknownModifierException' and exc.origin is None: return [pf_has_mod(p), z3.Not(mr_has(mod_reg(b), pf_modname(p)))]
    if exc.cls == 'UnknownPotentialFormException' and exc.origin is None: return [z3.Not(pf_has_mod(p)), z3.Not(fr_has(form_reg(b), MD.pf_label(p)))]
    return [z3.BoolVal(exc.cls in _CFG)]
REG.add(Contract(F_PFB, 'Potential_Form_Builder._make_multi_range_tuple', params=[('self', T.Obj('PFB_Impl')), ('pform_instance', T.Obj('PFInstance'))],
    requires=lambda v: [_one_kind(v.pform_instance)], result=T.Obj('Multi_Range_Defn'), ensures=_mrt_post,
    post_names=['marker (>= without one)', 'start (-inf without one)', 'callable-of-the-registered-form-or-modifier'],
    names_result=lambda v, res: [res == mrd_of(v.self, v.pform_instance)],
    raises_when=_mrt_raises, on_raise=lambda v, old: [], raises_classes=_CFG, carries=['post', 'raises'], props=['C08', 'C09', 'C16']))

# ---------------------------------------------------------------- create_potential_function: the whole chain
RDL = z3.SeqSort(MR.RD)
chain_member = SpecAcc('chain_member', [PFI], lambda p: p, lambda p, t, prev: MD.pf_next(prev), result=PFI)        # p, p.next, p.next.next, ...
chain_len = z3.Function('chain_length', PFI, IntS)
def finite_chain(p):
    """the definition is a finite chain: exactly the member number chain_length-1 has no next (parser output; termination of the loop rests on it)"""
    k = z3.Int('k!fc')
    return [chain_len(p) >= 1, MD.pf_last(chain_member(p, chain_len(p) - 1)),
            z3.ForAll([k], z3.Implies(z3.And(0 <= k, k < chain_len(p) - 1), z3.Not(MD.pf_last(chain_member(p, k)))))]
chain_ranges = SpecSeq('chain_ranges', [PFBI, PFI], lambda b, p, k: z3.Unit(mrd_of(b, chain_member(p, k))), result=RDL, elem_len=1)
multi_fn = z3.Function('multi_range_potential', RDL, Fn)        # the Multi_Range_Potential_Form over these ranges (C08: selects the range containing r)
REG.add(Contract(F_MR, 'create_Multi_Range_Potential_Form', params=[('range_tuples', T.List(T.Obj('Multi_Range_Defn')))], result=T.Fn,
    ensures=lambda v, old, res: [res == multi_fn(v.range_tuples)], trusted=True,
    note='call sites name the result multi_fn(ranges): the multi-range potential over the given ranges. What the function builds is verified under its second contract create_Multi_Range_Potential_Form@construction (contracts/multirange.py: class by the derivatives offered, default value 0.0, exactly the given ranges in canonical order); __call__/deriv/deriv2 and _range_search of the three classes are verified in C08. Assumed here: only that the result is a function of the list of ranges (the function reads nothing else)', props=['C08', 'C09']))

def _cpf_inv(v, old):
    p, k = old.potential_form_instance, v._i0
    n = v.val('n')
    return [v.tuples == chain_ranges(v.self, p, k + 1), k + 1 <= chain_len(p), n.isnone == MD.pf_last(chain_member(p, k)),
            z3.Implies(z3.Not(n.isnone), unwrap(n.val) == chain_member(p, k + 1))]
def _cpf_pre(v):
    p = v.potential_form_instance; k = z3.Int('k!cp')
    return finite_chain(p) + [z3.ForAll([k], z3.Implies(z3.And(0 <= k, k < chain_len(p)), _one_kind(chain_member(p, k))))]
from pyvc.values import unwrap
REG.add(Contract(F_PFB, 'Potential_Form_Builder.create_potential_function', params=[('self', T.Obj('PFB_Impl')), ('potential_form_instance', T.Obj('PFInstance'))],
    requires=_cpf_pre, result=T.Fn,
    ensures=lambda v, old, res: [res == multi_fn(chain_ranges(v.self, v.potential_form_instance, chain_len(v.potential_form_instance)))],
    post_names=['one-range-per-chain-member-in-chain-order'],
    invariants={0: _cpf_inv}, ghost={'tuples': T.Obj('Multi_Range_Defn'), 'n': T.Opt(T.Obj('PFInstance'))}, instantiate_int_foralls=True,
    raises_when=lambda v, old, exc: [z3.BoolVal(exc.cls in _CFG)], on_raise=lambda v, old: [], raises_classes=_CFG,
    carries=['post', 'preserve/0', 'raises'], props=['C08', 'C09', 'C16']))

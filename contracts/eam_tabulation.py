"""Contracts for eam_tabulation.py: the tabulation classes pass the grid of the statement to the writers."""
import z3
from .common import *
from .eam_common import *
from . import pair_tabulation as PT
from . import setfl as SF

FILE = 'atsim/potentials/eam_tabulation.py'
REG.add_class(ClassDecl(FILE, '_EAMTabulationAbstractbase',
    {'_nrho': T.Int, '_cutoff_rho': T.Real, '_eam_potentials': T.List(T.Obj('EAMPotential'))}, bases=['PairTabulation_AbstractBase']))
for cls in ('SetFL_EAMTabulation', 'SetFL_FS_EAMTabulation', 'TABEAM_EAMTabulation', 'TABEAM_FinnisSinclair_EAMTabulation'):
    REG.add_class(ClassDecl(FILE, cls, {}, bases=['_EAMTabulationAbstractbase']))
REG.add_class(ClassDecl(FILE, 'ADP_EAMTabulation', {'dipole_potentials': T.List(T.Obj('Potential')), 'quadrupole_potentials': T.List(T.Obj('Potential'))},
                        bases=['_EAMTabulationAbstractbase']))

def etab(cls):
    d = PT.tab(cls)
    d.update(nrho=field(cls, '_nrho', IntS), cutoff_rho=field(cls, '_cutoff_rho', RealS), eams=field(cls, '_eam_potentials', EamList))
    return d

def grid(t, s):
    """the statement's grid: drho = cutoff_rho/(nrho-1), dr = cutoff/(nr-1)"""
    return dict(nrho=t['nrho'](s), drho=t['cutoff_rho'](s) / real(t['nrho'](s) - 1), nr=t['nr'](s), dr=t['cutoff'](s) / real(t['nr'](s) - 1))

def setfl_tab_file(t, s, blocks):
    g = grid(t, s)
    # writeSetFL is called without a cutoff: the header's cutoff field is nr*dr (see NOTES of C03)
    return SF.setfl_file(g['nrho'], g['drho'], g['nr'], g['dr'], real(g['nr']) * g['dr'], t['eams'](s), t['pots'](s),
                         z3.Concat(z3.Unit(EMPTY), z3.Unit(EMPTY), z3.Unit(EMPTY)), blocks)

def _write_contract(cls, blocks, extra_req, props):
    t = etab(cls)
    return Contract(FILE, cls + '.write', params=[('self', T.Obj(cls)), ('fp', T.Doc)],
        requires=lambda v: [t['nr'](v.self) >= 2, t['nrho'](v.self) >= 2] + extra_req(t, v),
        modifies=['fp'],
        ensures=lambda v, old, res: [v.fp == cat(old.fp, setfl_tab_file(t, v.self, blocks))],
        on_raise=lambda v, old: [v.fp == old.fp], carries=['post'], props=props)

REG.add(_write_contract('SetFL_EAMTabulation', SF.elem_blocks, lambda t, v: [], ['C03', 'C17']))
REG.add(_write_contract('SetFL_FS_EAMTabulation', SF.elem_blocks_fs, lambda t, v: [SF._all_declared_all(t['eams'](v.self))], ['C04', 'C17']))

# ---------------------------------------------------------------- TABEAM classes
from . import tabeam as TB
def _tabeam_contract(cls, filefn, extra_req, props):
    t = etab(cls)
    def spec(s):
        g = grid(t, s)
        return filefn(g['nrho'], g['drho'], g['nr'], g['dr'], t['eams'](s), t['pots'](s), EMPTY)
    return Contract(FILE, cls + '.write', params=[('self', T.Obj(cls)), ('fp', T.Doc)],
        requires=lambda v: [t['nr'](v.self) >= 2, t['nrho'](v.self) >= 2] + extra_req(t, v),
        modifies=['fp'], ensures=lambda v, old, res: [v.fp == cat(old.fp, spec(v.self))],
        on_raise=lambda v, old: [v.fp == old.fp], carries=['post'], props=props)
REG.add(_tabeam_contract('TABEAM_EAMTabulation', TB.tabeam_file, lambda t, v: [TB._labels_nonempty(t['eams'](v.self))], ['C05', 'C17']))
REG.add(_tabeam_contract('TABEAM_FinnisSinclair_EAMTabulation', TB.tabeam_fs_file, lambda t, v: TB._fs_declared_sorted(t['eams'](v.self)), ['C05', 'C04', 'C17']))

# ---------------------------------------------------------------- ADP: setfl followed by dipole then quadrupole blocks, unscaled
_A = etab('ADP_EAMTabulation')
_A['dip'] = field('ADP_EAMTabulation', 'dipole_potentials', PotList)
_A['quad'] = field('ADP_EAMTabulation', 'quadrupole_potentials', PotList)
def adp_file(s):
    g = grid(_A, s)
    return cat(setfl_tab_file(_A, s, SF.elem_blocks),
               SF.pair_blocks(_A['dip'](s), _A['eams'](s), g['nr'], g['dr'], z3.BoolVal(False)),
               SF.pair_blocks(_A['quad'](s), _A['eams'](s), g['nr'], g['dr'], z3.BoolVal(False)))
REG.add(Contract(FILE, 'ADP_EAMTabulation.write', params=[('self', T.Obj('ADP_EAMTabulation')), ('fp', T.Doc)],
    requires=lambda v: [_A['nr'](v.self) >= 2, _A['nrho'](v.self) >= 2],
    modifies=['fp'], ensures=lambda v, old, res: [v.fp == cat(old.fp, adp_file(v.self))],
    on_raise=lambda v, old: [v.fp == old.fp], carries=['post', 'on_raise'], props=['C19', 'C17']))

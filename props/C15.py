"""C15 — [Variables] substitution equals textual substitution and changes nothing else."""
import ast, z3
from pyvc.core import *
from pyvc.solve import Obligation
from pyvc import symalg as B, scan
from pyvc.extract import Module

F_CP = 'atsim/potentials/config/_config_parser.py'
F_Q = 'atsim/potentials/tools/potable/_query_actions.py'
import contracts.rawparser as RPc
FUNCTIONS = [(F_CP, '_RawConfigParser.has_option'), (F_CP, '_RawConfigParser.options'), (F_CP, '_RawConfigParser.get')]

def proxy_sites():
    """every place where code iterates over / tests membership in / takes the length of a section proxy of the raw parser"""
    out = []
    for rp in (F_CP, F_Q):
        m = Module.get(rp)
        for q, fi in m.funcs.items():
            for n in ast.walk(fi.node):
                it = None
                if isinstance(n, ast.For): it = n.iter
                elif isinstance(n, ast.Compare) and isinstance(n.ops[0], (ast.In, ast.NotIn)): it = n.comparators[0]
                elif isinstance(n, ast.Call) and isinstance(n.func, ast.Name) and n.func.id == 'len' and n.args: it = n.args[0]
                if it is None: continue
                src = ast.unparse(it)
                if src.startswith(('self._config_parser[', 'raw_cp[', 'cp[')) or src == 'section':
                    out.append((rp, q, n.lineno, type(n).__name__, src))
    return out

def lemmas():
    out = []
    S = B.source_shape
    # (1) every section other than [Variables] sees its OWN keys: iteration, membership and length of a section proxy go through
    #     options()/has_option() (A5), which are restricted to the section's own dictionary
    # has_option() and options() are under Engine A contracts (contracts/rawparser.py): exactly the section's own keys, [Variables] aside
    # (2) a variable never stands in for an option the section does not define; ${NAME} is the variable
    # _RawConfigParser.get is under an Engine A contract (contracts/rawparser.py): the value of an option of the section itself; an option the section does not
    # define is not supplied by a variable of the same name (only an explicit fallback is returned); place-holders are resolved against [Variables] first, then the
    # section's own options (A5: ExtendedInterpolation.before_get is a function of the value and the lookup mapping); interpolation errors become configuration errors
    out.append(S('C15', F_CP, '_RawConfigParser.__init__', 'variables-is-the-interpolation-default-section', ["default_section='Variables'", 'interpolation=configparser.ExtendedInterpolation()']))
    sites = proxy_sites()
    out.append(B.static_obligation('C15/_config_parser.py/section-proxy-sites-enumerated', len(sites) >= 10, 'config package', F_CP, '%d sites' % len(sites)))
    # the sites use the proxy protocol only (iteration / `in` / len / subscripts): with (1) and (2) each sees own keys.
    # a site that reads the parser's private dictionaries directly would bypass them
    m = Module.get(F_CP)
    direct = []
    for q, fi in m.funcs.items():
        if q.startswith('_RawConfigParser.') or q.startswith('_ConfigParserDict.'): continue
        for n in ast.walk(fi.node):
            if isinstance(n, ast.Attribute) and n.attr in ('_defaults', '_sections', 'defaults'): direct.append((q, n.lineno))
    out.append(B.static_obligation('C15/_config_parser.py/no-site-bypasses-the-section-protocol', not direct, 'ConfigParser', F_CP, str(direct), hard=False))
    # the parser-level views that merge [Variables] into a section (A5: RawConfigParser.items(section) = defaults + own options;
    # _unify_values) are not overridden by _RawConfigParser: no site may read a section through them. dict.items() takes no argument, so a call
    # .items(<argument>) is the parser's
    merged = []
    for rp in (F_CP, F_Q):
        for q, fi in Module.get(rp).funcs.items():
            if q.startswith('_RawConfigParser.') or q.startswith('_ConfigParserDict.'): continue
            for n in ast.walk(fi.node):
                if isinstance(n, ast.Call) and isinstance(n.func, ast.Attribute) and \
                   ((n.func.attr == 'items' and (n.args or n.keywords)) or n.func.attr == '_unify_values'):
                    merged.append((rp, q, n.lineno, ast.unparse(n)[:60]))
    out.append(B.static_obligation('C15/config/no-site-reads-a-section-merged-with-the-variables', not merged, 'config package', F_CP, str(merged), hard=False))
    # specification-level lemma: own-key view of a section is independent of the variables
    K = z3.DeclareSort('OptKey'); own = z3.Const('own', z3.ArraySort(K, z3.BoolSort())); var1, var2 = z3.Consts('vars1 vars2', z3.ArraySort(K, z3.BoolSort())); k = z3.Const('k', K)
    visible = lambda own_, vars_: z3.Select(own_, k)                 # repaired parser: options(S) = own(S)
    out.append(Obligation('C15/lemma/section-view-independent-of-variables', [], visible(own, var1) == visible(own, var2), kind='lemma', function='props/C15.py', carries_property=True))
    leaky = lambda own_, vars_: z3.Or(z3.Select(own_, k), z3.Select(vars_, k))      # stock configparser (A5): own plus defaults
    o = Obligation('C15/lemma/stock-configparser-view-is-NOT-independent(cover)', [z3.Not(z3.Select(own, k)), z3.Select(var1, k), z3.Not(z3.Select(var2, k))],
                   leaky(own, var1) != leaky(own, var2), kind='cover', function='props/C15.py')
    out.append(o)
    return out

MUTANTS = [
    (F_CP, '_RawConfigParser.get', "collections.ChainMap(self._defaults, sectiondict)", "collections.ChainMap(sectiondict, self._defaults)", 'post'),
    (F_CP, '_RawConfigParser.get', "raise configparser.NoOptionError(option, section)", "return self._defaults[option]", 'post'),
    (F_CP, '_RawConfigParser.get', "raise ConfigParserException(e.message)", "raise", 'raises'),
    (F_CP, '_RawConfigParser.has_option', "return option in self._sections[section]", "return option in self._sections[section] or option in self._defaults", 'post'),
    (F_CP, '_RawConfigParser.has_option', "elif section not in self._sections:", "elif section in self._sections:", 'post'),
    (F_CP, '_RawConfigParser.options', "return list(self._sections[section].keys())", "return list(self._defaults.keys())", 'post'),
    (F_CP, '_RawConfigParser.options', "except KeyError:", "except ValueError:", 'raises'),
]
MODULE_MUTANTS = [
    (F_CP, "      return list(self._sections[section].keys())\n    except KeyError:", "      return list(self._sections[section].keys()) + list(self._defaults.keys())\n    except KeyError:", '_RawConfigParser.options'),
    (F_CP, "    lookup = collections.ChainMap(self._defaults, sectiondict)\n", "    lookup = collections.ChainMap(sectiondict, self._defaults)\n", 'get/post'),
    (F_CP, "    if not option in sectiondict:\n      if 'fallback' in kwargs:\n        return kwargs['fallback']\n      raise configparser.NoOptionError(option, section)\n", "    if not option in sectiondict:\n      return super(_RawConfigParser, self).get(section, option, **kwargs)\n", 'get/'),
]
ENGINE_B_FUNCTIONS = [(F_CP, '_RawConfigParser.get'), (F_CP, '_RawConfigParser.__init__')]
ASSUMPTIONS = ['A5: SectionProxy iteration/len use parser.options(section); `k in proxy` uses parser.has_option; proxy[k] and proxy.get(k) use parser.get(section, k); ExtendedInterpolation.before_get(parser, section, option, value, map) substitutes ${NAME} from map and ${S:K} through parser.get(S, K)',
               'textual substitution: interpolation happens on get(), i.e. before any parsing of the value']
BOUNDED = [dict(name='templated file tabulates to the same bytes as the hand-substituted file; unused variables change nothing, also when their names are option names of other sections', bound='seeded pair/EAM/FS models, 0..70% of the numeric literals lifted into [Variables], variable names drawn from option names; quick 40 / thorough 2000', technique='concrete oracle')]

def oracle_payload(tier, seed, mode='search'): return dict(mode=mode, seed=seed, n=40 if tier == 'quick' else 2000)
def witness_for(ob, devs, run_oracle):
    if devs: d = devs[0]; return dict(deviates=True, input=d['input'], observed=d['observed'], expected=d['expected'])
    return dict(deviates=False)

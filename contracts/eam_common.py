"""EAM vocabulary: EAMPotential field tables and the pair-lookup spec."""
import z3
from .common import *
from pyvc.spec import SpecAcc
from pyvc.symexec import TupleSort

F_EAM = 'atsim/potentials/_eam_potential.py'
_base = {'species': T.Str, 'atomicNumber': T.Int, 'mass': T.Real, 'embeddingFunction': T.Fn,
         'latticeConstant': T.Real, 'latticeType': T.Str}
# electronDensityFunction is a callable (EAM) or a dict  neighbour species -> callable (Finnis-Sinclair): both views
REG.add_class(ClassDecl(F_EAM, 'EAMPotential', dict(_base, electronDensityFunction=T.FnOrDict(T.Str, T.Fn))))

REG.add(Contract(F_EAM, 'EAMPotential.__init__', inline=True))     # seven attribute assignments: callers execute the real body

def eam(cls='EAMPotential'):
    S = ObjSort(cls)
    d = dict(sort=S, species=field(cls, 'species', StrS), Z=field(cls, 'atomicNumber', IntS), mass=field(cls, 'mass', RealS),
             embed=field(cls, 'embeddingFunction', Fn), a0=field(cls, 'latticeConstant', RealS), lattice=field(cls, 'latticeType', StrS))
    d['dens'] = field(cls, 'electronDensityFunction', Fn)
    d['dens_has'] = field(cls, 'electronDensityFunction.has', z3.ArraySort(StrS, BoolS))
    d['dens_get'] = field(cls, 'electronDensityFunction.get', z3.ArraySort(StrS, Fn))
    return d
EAM = eam()
EamList = z3.SeqSort(EAM['sort'])
PotList = z3.SeqSort(Pot)

# ---- pair lookup: "phi found whichever way round the pair's species were declared, zero when undeclared"
def smin(a, b): return z3.If(a <= b, a, b)
def smax(a, b): return z3.If(a <= b, b, a)
def unordered_eq(a1, b1, a2, b2):
    """{a1,b1} == {a2,b2} as unordered pairs"""
    return z3.Or(z3.And(a1 == a2, b1 == b2), z3.And(a1 == b2, b1 == a2))

# index of the LAST potential among the first t of ps whose unordered species pair is {a, b}; -1 if none
find = SpecAcc('pair_find', [PotList, StrS, StrS], lambda ps, a, b: z3.IntVal(-1),
               lambda ps, a, b, t, prev: z3.If(unordered_eq(pot_A(ps[t]), pot_B(ps[t]), a, b), t, prev), result=IntS)

def phi(ps, a, b, r):
    """the declared pair potential of the unordered pair {a,b} evaluated at r, 0 where undeclared"""
    i = find(ps, smin(a, b), smax(a, b), z3.Length(ps))     # unordered: the arguments are put in canonical order
    return z3.If(i >= 0, E(ps[i], r), z3.RealVal(0))

KeySort = TupleSort([StrS, StrS])
def key(a, b): return KeySort.mk(smin(a, b), smax(a, b))

#!/bin/bash
# usage: try_seed_wt.sh <seed id> [prop...]   run the quick check(s) of the seed's property against a scratch worktree of /repo with the seeded change
# applied (ATSIM_ROOT names the tree: /repo itself is not touched, so several seeds can be tried at once); evidence goes to .scratch, the worktree is removed.
id=$1; shift; props=${@:-${id%%_*}}
wt=/tmp/wt/s_$id; mkdir -p /verif/.scratch/seedlogs
git -C /repo worktree remove --force $wt 2>/dev/null
git -C /repo worktree add -q --detach $wt HEAD && git -C $wt apply /verif/seeded/$id/patch.diff || { echo "$id: cannot apply"; exit 9; }
for p in $props; do
  (cd /verif && ATSIM_ROOT=$wt VERIF_EVIDENCE_DIR=/verif/.scratch/seed-evidence/$id timeout 1500 python3-vt bin/check $p > .scratch/seedlogs/${id}_$p.log 2>&1; echo "$id $p exit=$? $(grep -E '^(VIOLATION|CHECKER|UNDECIDED)' .scratch/seedlogs/${id}_$p.log | head -3 | cut -c1-260 | tr '\n' '|')")
done
git -C /repo worktree remove --force $wt

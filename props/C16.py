"""C16 — malformed models give configuration errors; valid models are never rejected."""
import ast, z3
from pyvc.core import *
from pyvc.solve import Obligation
from pyvc import symalg as B, scan, tables
from pyvc.extract import Module
import contracts.config_errors as CE
import contracts.config_tabulation as CT
import contracts.factories as FC
import contracts.tablereaders as TRc
import contracts.builders as BU
import contracts.modifiers as MDc
import contracts.form_builder as FBc
import contracts.species as SPc
import contracts.potable_cli as CLIc
import contracts.rawparser as RPc

F_CP, F_MOD = CE.F_CP, CE.F_MOD
FUNCTIONS = [(F_CP, '_TableFormSection._parse_data'), (F_CP, '_TableFormSection._parse_xy'), (F_CP, '_TableFormSection._parse_x_y'), (F_MOD, '_Buck4_Spline_Factory.build_spline'), (F_MOD, '_Exp_Spline_Factory.build_spline'),
             (F_CP, '_TabulationCutoff._init_cutoff'), (FC.FILE, 'DLPOLY_PairTabulationFactory.extract_cutoffs'), (FC.FILE, 'LAMMPS_PairTabulationFactory.extract_cutoffs'),
             (F_MOD, 'spline'), (F_MOD, 'trans'), (FBc.F_PFB, 'Potential_Form_Builder._make_multi_range_tuple'), (FBc.F_PFB, 'Potential_Form_Builder.create_potential_function'), (F_CP, 'ConfigParser._convert_species_type'), (F_CP, 'ConfigParser.species'), (BU.FILE, 'Pair_Potentials_From_Tuples_Builder._create_potential'), (BU.FILE, 'Pair_Potentials_From_Tuples_Builder._init_potentials'),
             (CLIc.F_CLI, 'main'), (F_CP, '_RawConfigParser.get')]      # potable: a configuration error becomes a usage error ('configuration error - ...'), never a traceback
SPECSEQS = [FBc.chain_ranges, SPc.stripped]
CONFIG_FILES = scan.package_files('atsim/potentials/config') + ['atsim/potentials/_modifiers.py', 'atsim/potentials/tools/potable/__init__.py', 'atsim/potentials/tools/potable/_actions.py']

def lemmas():
    out = []
    S = B.source_shape
    # (a) escape freedom, by kind of may-raise site --------------------------------------------------------------
    # free names: every name a function loads is bound somewhere (NameError otherwise)
    for rp in CONFIG_FILES:
        bad = scan.unresolved_names(rp)
        out.append(B.static_obligation('C16/%s/every-name-is-bound' % rp.split('/')[-1], not bad, rp, rp, 'unresolved: %s' % bad[:4]))
    # tuple unpacking of str.split: only after the number of tokens was checked (or with maxsplit on a separator known to be present)
    allowed = {('_create_override_tuple', "section, key = key.split(':', 1)"), ('_create_override_tuple', "key, value = key.split('=', 1)"), ('_item_value', "section, section_key = key.split(':', 1)")}
    for rp in CONFIG_FILES + ['atsim/potentials/tools/potable/_query_actions.py']:
        bad = [u for u in scan.unguarded_split_unpacks(rp) if (u[0].split('.')[-1], u[1]) not in allowed]
        out.append(B.static_obligation('C16/%s/no-unpacking-of-an-unchecked-split' % rp.split('/')[-1], not bad, rp, rp, str(bad[:3])))
    # float()/int() of configuration text inside a handler that turns ValueError into a configuration error
    bad = [c for c in scan.conversions_outside_handlers(F_CP) if c[0] not in ('_TabulationCutoff._init_cutoff',)]
    out.append(B.static_obligation('C16/_config_parser.py/text-conversions-are-guarded', not bad, F_CP, F_CP, str(bad[:4])))
    out.append(S('C16', F_CP, '_get_or_none', 'ValueError-becomes-ConfigParserException', ['try:\n v = t(v)\n except ValueError:', 'raise ConfigParserException(msg)']))
    out.append(S('C16', F_CP, 'ConfigParser._convert_species_type', 'ValueError-becomes-ConfigParserException', ['try:\n converted = known_properties.get(property_name, default)(v)\n except ValueError:\n raise ConfigParserException']))
    # raw configparser errors
    out.append(S('C16', F_CP, 'ConfigParser._init_config_parser', 'parser-errors-become-configuration-errors',
                 ['except (configparser.DuplicateOptionError, configparser.DuplicateSectionError) as e:\n raise ConfigParserDuplicateEntryException(e.message)', 'except configparser.Error as e:\n raise ConfigParserException(e.message)']))
    # _RawConfigParser.get is under an Engine A contract (contracts/rawparser.py, listed below): what leaves it for an option of a section is NoOptionError or a configuration error
    out.append(S('C16', F_CP, 'ConfigParser._pair_species_func', 'one-separator', ["tokens = k.split('-')", 'if len(tokens) != 2:\n raise ConfigParserException']))
    out.append(S('C16', F_CP, 'ConfigParser._parse_eam_fs_density_line', 'one-arrow', ["tokens = k.split('->')", 'if len(tokens) != 2:\n raise ConfigParserException']))
    out.append(S('C16', 'atsim/potentials/config/_table_form_builder.py', 'Table_Form_Builder.create_potential_form', 'interpolation-errors-become-configuration-errors',
                 ['except KeyError:\n raise Table_Form_Exception', 'except ValueError as e:\n raise Table_Form_Exception']))
    out.append(S('C16', 'atsim/potentials/tools/potable/__init__.py', 'main', 'configuration-errors-are-printed', ['try:\n _do_tabulation(p, args)\n except ConfigurationException as e:', "p.error('configuration error - {}'.format(e))"]))
    from pyvc.exceptions import bases_of
    for cls in ('ConfigParserException', 'Table_Form_Exception', 'Potential_Form_Exception', 'Potential_Form_Registry_Exception', 'Unknown_Modifier_Exception', 'ConfigParserMissingSectionException',
                'ConfigParserDuplicateEntryException', 'ConfigOverrideException', 'UnknownModifierException', 'UnknownPotentialFormException'):
        out.append(B.static_obligation('C16/%s/is-a-ConfigurationException' % cls, 'ConfigurationException' in bases_of(cls), cls, 'atsim/potentials/config/_common.py', str(bases_of(cls))))
    # (b) documented option values are accepted: every target spelling of the reference manual reaches a factory; cubic_spline is a table form
    import re, os
    from pyvc.extract import REPO
    doc = open(os.path.join(REPO, 'docs/reference/potable_input.rst')).read()
    documented = set(re.findall(r'``([A-Za-z_]+(?:\|[A-Za-z_]+)*)``', doc[doc.index('tabulation target') if 'tabulation target' in doc else 0:]))
    spellings = sorted({t for grp in documented for t in grp.split('|') if t in tables.EXPECTED or t.lower() in ('lammps_eam_alloy',)})
    for t in sorted(set(spellings) | {'LAMMPS_eam_alloy'}):
        if t not in tables.EXPECTED: tables.EXPECTED[t] = tables.EXPECTED['setfl']
    out += tables.routing_obligations('C16', sorted(set(spellings) | set(tables.EXPECTED)))
    m = Module.get('atsim/potentials/tableforms.py')
    lbl = m.class_attr('Cubic_Spline_Table_Form', 'config_label')
    out.append(B.static_obligation('C16/tableforms.py/cubic_spline-is-registered', lbl is not None and ast.literal_eval(lbl) == 'cubic_spline' and ast.unparse(m.class_attr('Cubic_Spline_Table_Form', 'is_potential')) == 'True',
                                   'Cubic_Spline_Table_Form', 'atsim/potentials/tableforms.py', str(lbl)))
    return out

MUTANTS = [
    (CLIc.F_CLI, 'main', "except ConfigurationException as e:", "except ValueError as e:", 'raises'),
    (CLIc.F_CLI, 'main', "p.error('configuration error - {}'.format(e))", "raise", 'raises'),
    (F_CP, '_TableFormSection._parse_x_y', "if len(x) != len(y):", "if len(x) < len(y):", 'post'),
    (F_CP, '_TableFormSection._parse_x_y', "y = [float(v) for v in y_string.split()]\n    except ValueError as e:", "y = [float(v) for v in y_string.split()]\n    except KeyError as e:", 'raises'),
    (FBc.F_PFB, 'Potential_Form_Builder._make_multi_range_tuple', "except KeyError as e:\n            raise UnknownModifierException(*e.args)", "except ValueError as e:\n            raise UnknownModifierException(*e.args)", 'raises'),
    (F_MOD, 'spline', "spline_type = getattr(pot2, 'potential_form', None)", 'spline_type = pot2.potential_form', 'raises/AttributeError'),
    (F_MOD, 'spline', "if not pform.next.next.next is None:", "if False:", 'post'),
    (F_MOD, 'spline', "if not pot2.start.start < pot3_old_start:", "if not pot2.start.start <= pot3_old_start:", 'post'),
    (F_MOD, 'spline', "getattr(pot3, 'potential_form', pot3)", 'pot3.potential_form', 'raises/AttributeError'),
    (F_MOD, 'trans', "if getattr(second_form, 'potential_form', None) != 'as.constant':", "if second_form.potential_form != 'as.constant':", 'raises/AttributeError'),
    (F_MOD, 'trans', "if len(second_form.parameters) != 1:", "if len(second_form.parameters) > 1:", 'post'),
    (F_CP, 'ConfigParser._convert_species_type', "'atomic_number': int", "'atomic_number': float", 'post/atomic_number'),
    (F_CP, 'ConfigParser._convert_species_type', "except ValueError:", "except KeyError:", 'raises'),
    (F_CP, 'ConfigParser._convert_species_type', "'lattice_constant': float", "'lattice_constant': default", 'post/masses'),
    (BU.FILE, 'Pair_Potentials_From_Tuples_Builder._init_potentials', "raise Unknown_Modifier_Exception(msg)", "raise KeyError(msg)", 'raises'),
    (BU.FILE, 'Pair_Potentials_From_Tuples_Builder._init_potentials', "potform_name=upe.args[0]", "potform_name=upe.args[1]", 'raises'),
    (F_MOD, '_Buck4_Spline_Factory.build_spline', "if not r_min < attach_point.r or not r_min > detach_point.r:", "if not r_min < attach_point.r and (not r_min > detach_point.r):", 'post'),
    (F_CP, '_TableFormSection._parse_data', "if not ('x' in section and 'y' in section):", "if not 'x' and 'y' in section:", 'call-pre'),
    (F_MOD, '_Exp_Spline_Factory.build_spline', "if spline_defn.parameters:", "if not spline_defn.parameters:", 'post'),
]
MODULE_MUTANTS = [
    (F_MOD, "The following parameters were specified: {}\".format(spline_defn.parameters))\n\n      spline = Exp_Spline", "The following parameters were specified: {}\".format(pot2.parameters))\n\n      spline = Exp_Spline", 'every-name-is-bound'),
    (F_CP, "    tokens = k.split(\"-\")\n    if len(tokens) != 2:\n      raise ConfigParserException(\"Species pair should be of the form 'SPECIES_A-SPECIES_B'. Invalid key found: '{}'\".format(k))\n    species_a, species_b = tokens\n", "    species_a, species_b = k.split(\"-\")\n", 'no-unpacking'),
    (F_CP, "    except configparser.Error as e:\n      raise ConfigParserException(e.message)\n\n    # Process overrides", "\n    # Process overrides", 'parser-errors'),
    (F_CP, "    'LAMMPS_eam_alloy' : 'setfl',\n", "", 'route/LAMMPS_eam_alloy'),
]
ENGINE_B_FUNCTIONS = [(F_CP, '_get_or_none'), (F_CP, 'ConfigParser._init_config_parser'), (F_CP, '_RawConfigParser.get'),
                      (F_CP, 'ConfigParser._pair_species_func'), (F_CP, 'ConfigParser._parse_eam_fs_density_line')]
ASSUMPTIONS = ['logging statements are dropped by the extraction (pyvc/extract.py): an exception raised while formatting a log message is not seen by Engine A; the oracle\'s catalogue of well-formed models (incl. splines with modifier parts) is the only guard', 'A5/A6: configparser raises subclasses of configparser.Error (InterpolationError for place-holders); scipy raises ValueError for data it cannot interpolate; pyparsing raises ParseException (converted in _parse_multi_range)',
               'escape freedom is established per KIND of may-raise site by enumeration of the sites in the current source (names, split-unpacking, text conversions, parser errors) plus contracts on the functions whose guards must be exact; subscripts and attribute reads on parsed tuples are not enumerated in this version']
NOT_DECIDED = ['completeness beyond the enumerated site kinds and the finite option lists: bounded (oracle catalogue of malformation operators)']
BOUNDED = [dict(name='catalogue of 45 malformation operators over well-formed models + 7 valid models + every documented target spelling, through the potable CLI', bound='the fixed catalogue (exhaustive over it)', technique='concrete oracle')]

def oracle_payload(tier, seed, mode='search'): return dict(mode=mode, seed=seed)
def witness_for(ob, devs, run_oracle):
    if devs: d = devs[0]; return dict(deviates=True, input=d['input'], observed=d['observed'], expected=d['expected'])
    return dict(deviates=False)

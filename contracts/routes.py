"""Contracts for the access routes of the built-in forms (C06): parameters are bound AFTER the separation and in the order given.

  _rpartial.__call__(*args)      calls the wrapped callable with  args ++ bound arguments  (r first, then the parameters the factory was given)
  _Check_Call.required_arg_len   a form takes one argument fewer than its signature names (r is not a parameter of a form), a function call all of them
"""
import z3
from .common import *

F_UTIL = 'atsim/potentials/_util.py'
F_PF = 'atsim/potentials/config/_potential_form.py'
REG.add_class(ClassDecl('<ext>', 'PyFunc', {}, external=True))
REG.add_class(ClassDecl(F_UTIL, '_rpartial', {'func': T.Obj('PyFunc'), 'args': T.List(T.Real), 'keywords': T.Dict(T.Str, T.Real)}))
RL = z3.SeqSort(RealS)
pycall = z3.Function('pycall', ObjSort('PyFunc'), RL, RealS)          # the value of a Python callable applied to a list of positional arguments
REG.add(Contract('<ext>', 'PyFunc.__call__', params=[('self', T.Obj('PyFunc')), ('params', T.List(T.Real))], result=T.Real,
    ensures=lambda v, old, res: [res == pycall(v.self, v.params)], external=True,
    note='a Python callable applied to positional arguments: a function of the callable and the argument list (no keywords are passed in the handled subset)', props=['C06']))
rp_func = field('_rpartial', 'func', ObjSort('PyFunc')); rp_args = field('_rpartial', 'args', RL)
REG.add(Contract(F_UTIL, '_rpartial.__call__', params=[('self', T.Obj('_rpartial')), ('args', T.List(T.Real))], result=T.Real,
    ensures=lambda v, old, res: [res == pycall(rp_func(v.self), z3.Concat(v.args, rp_args(v.self)))],
    post_names=['call-arguments-first-then-the-bound-parameters-in-order'], carries=['post'], props=['C06'],
    note='functools.partial stores func, args, keywords (A4); verified for calls without keyword arguments'))

# ---------------------------------------------------------------- _Check_Call: the arity rule of forms and of function calls
REG.add_class(ClassDecl('<ext>', 'PFSignature', {'parameter_names': T.List(T.Str), 'is_varargs': T.Bool, 'label': T.Str}, external=True))
REG.add_class(ClassDecl(F_PF, '_Check_Call', {'signature': T.Obj('PFSignature'), 'is_func_call': T.Bool}))
SG = ObjSort('PFSignature'); CC = ObjSort('_Check_Call')
sg_names = field('PFSignature', 'parameter_names', z3.SeqSort(StrS)); sg_var = field('PFSignature', 'is_varargs', BoolS)
cc_sig = field('_Check_Call', 'signature', SG); cc_func = field('_Check_Call', 'is_func_call', BoolS)
def required(c):
    """a form `as.NAME p1 p2 ..` takes the parameters AFTER r; a function call `as.NAME(r, p1, ..)` takes all of them"""
    return z3.Length(sg_names(cc_sig(c))) - z3.If(cc_func(c), 0, 1)
def valid(c, n): return z3.Or(sg_var(cc_sig(c)), n == required(c))
REG.add(Contract(F_PF, '_Check_Call.required_arg_len', params=[('self', T.Obj('_Check_Call'))], result=T.Int,
    ensures=lambda v, old, res: [res == required(v.self)], post_names=['r-is-not-a-parameter-of-a-form'], carries=['post'], props=['C06', 'C16']))
REG.add(Contract(F_PF, '_Check_Call.args_valid', params=[('self', T.Obj('_Check_Call')), ('args', T.List(T.Real))], result=T.Bool,
    ensures=lambda v, old, res: [res == valid(v.self, z3.Length(v.args))], post_names=['exact-arity-or-varargs'], carries=['post'], props=['C06', 'C16']))

_PFE = 'Potential_Form_Exception'
REG.add(Contract(F_PF, '_Check_Call.how_used', params=[('self', T.Obj('_Check_Call')), ('args', T.List(T.Real))], result=T.Text, trusted=True,
    note='text of an error message (the arguments as they were written)', props=['C06', 'C16']))
REG.add(Contract(F_PF, '_Check_Call.recommended_usage', params=[('self', T.Obj('_Check_Call'))], result=T.Text, trusted=True,
    note='text of an error message (expected usage)', props=['C06', 'C16']))
REG.add(Contract(F_PF, '_Check_Call.__call__', params=[('self', T.Obj('_Check_Call')), ('args', T.List(T.Real))],
    ensures=lambda v, old, res: [valid(v.self, z3.Length(v.args))], post_names=['returns-only-for-a-valid-argument-count'],
    raises_when=lambda v, old, exc: [z3.BoolVal(exc.cls == _PFE), z3.Not(valid(v.self, z3.Length(v.args)))], on_raise=lambda v, old: [z3.Not(valid(v.self, z3.Length(v.args)))], raises_classes=[_PFE],
    carries=['post', 'raises'], props=['C06', 'C16']))

# ---------------------------------------------------------------- as.NAME(r, p...) inside a formula: the registered Python callable with those arguments
F_PY = 'atsim/potentials/config/_python_potential_function.py'
REG.add_class(ClassDecl(F_PY, '_Python_Potential_Function', {'_check_call': T.Obj('_Check_Call'), '_pyfunc': T.Obj('PyFunc')}))
pp_check = field('_Python_Potential_Function', '_check_call', CC); pp_func = field('_Python_Potential_Function', '_pyfunc', ObjSort('PyFunc'))
REG.add(Contract(F_PY, '_Python_Potential_Function.__call__', params=[('self', T.Obj('_Python_Potential_Function')), ('args', T.List(T.Real))], result=T.Real,
    ensures=lambda v, old, res: [res == pycall(pp_func(v.self), v.args), valid(pp_check(v.self), z3.Length(v.args))],
    post_names=['the-wrapped-function-with-the-same-arguments-in-order', 'only-for-a-valid-argument-count'],
    raises_when=lambda v, old, exc: [z3.BoolVal(exc.cls == _PFE), z3.Not(valid(pp_check(v.self), z3.Length(v.args)))], on_raise=lambda v, old: [], raises_classes=[_PFE],
    carries=['post', 'raises'], props=['C06', 'C16']))

# ---------------------------------------------------------------- _FunctionFactory.__call__: f(params...) is the function with the parameters bound after r
from pyvc.values import Tup, PyDict, Rec, Obj as ObjV
from pyvc.symexec import StarSeq
F_FORMS = 'atsim/potentials/potentialforms.py'
def _partial_ctor(ex, args, kw, st):
    """functools.partial(func, *args, **keywords) (A4): the three attributes it sets"""
    rest = args[1:]
    return {'func': args[0], 'args': rest[0].seq if (len(rest) == 1 and isinstance(rest[0], StarSeq)) else Tup(rest), 'keywords': PyDict(kw)}
REG.classes['_rpartial'].library_ctor = _partial_ctor
REG.classes['PyFunc'].fields.update({'deriv': T.Opt(T.Obj('PyFunc')), 'deriv2': T.Opt(T.Obj('PyFunc'))}); REG.classes['PyFunc'].optional_attrs = {'deriv', 'deriv2'}
REG.add_class(ClassDecl(F_FORMS, '_FunctionFactory', {'_func': T.Obj('PyFunc')}))
PF_ = ObjSort('PyFunc'); ff_func = field('_FunctionFactory', '_func', PF_)
pf_deriv = field('PyFunc', 'deriv', PF_); pf_no_deriv = field('PyFunc', 'deriv?none', BoolS); pf_deriv2 = field('PyFunc', 'deriv2', PF_); pf_no_deriv2 = field('PyFunc', 'deriv2?none', BoolS)
def _ff_post(v, old, res):
    """the result is the record built here: its func / args, and deriv / deriv2 partials exactly when the function offers them"""
    ex, st = v._ex, v._st
    w = ex.deref(v._frame['wrapper'], st); f = ff_func(v.self); out = []
    def part(rec, fn):
        r_ = ex.deref(rec, st)
        return [ex.term_of(r_.fields['func'], st) == fn, ex.term_of(r_.fields['args'], st) == v.args]
    out += part(v._frame['wrapper'], f)
    for nm, none_, get_ in (('deriv', pf_no_deriv, pf_deriv), ('deriv2', pf_no_deriv2, pf_deriv2)):
        if nm in w.fields: out += [z3.Not(none_(f))] + part(w.fields[nm], get_(f))
        else: out += [none_(f)]
    return out
REG.add(Contract(F_FORMS, '_FunctionFactory.__call__', params=[('self', T.Obj('_FunctionFactory')), ('args', T.List(T.Real))],
    ensures=_ff_post, post_names=None, carries=['post'], props=['C06'],
    note='postcondition stated on the record under construction: wrapper = _rpartial(func, *args) and wrapper.deriv / .deriv2 = _rpartial(func.deriv / .deriv2, *args) exactly when func offers them'))

"""C13 — species filtering equals deleting the unwanted interactions from the file."""
import ast, z3
from pyvc.core import *
from pyvc.solve import Obligation
from pyvc import symalg as B, scan
import contracts.filtered as FL
import contracts.potable_cli as CLIc

F = FL.FILE
F_POT = 'atsim/potentials/tools/potable/__init__.py'
FUNCTIONS = [(F, 'FilteredConfigParser._check_tuple')] + [(F, 'FilteredConfigParser.' + v) for v in ('pair', 'eam_embed', 'eam_density', 'eam_density_fs')] + [(F, 'FilteredConfigParser.__init__'), (F_POT, '_make_config_parser'), (F_POT, '_do_tabulation')]
SPECSEQS = [FL.filt_pairs, FL.filt_single]

FILTERED_VIEWS = {'pair': "filtered = [p for p in self.__wrapped__.pair if self._check_tuple(p.species)]",
                  'eam_embed': "filtered = [p for p in self.__wrapped__.eam_embed if self._check_tuple((p.species,))]",
                  'eam_density': "filtered = [p for p in self.__wrapped__.eam_density if self._check_tuple((p.species,))]",
                  'eam_density_fs': "filtered = [p for p in self.__wrapped__.eam_density_fs if self._check_tuple(p.species)]"}
# what the tabulation pipeline may read from its parser argument: the four filtered views and model-independent/unfiltered data
ALLOWED_READS = set(FILTERED_VIEWS) | {'tabulation', 'species', 'potential_form', 'table_form', 'parse_pair_like', 'parsed_sections', 'orphan_sections', 'raw_config_parser'}

def lemmas():
    out = []
    S = B.source_shape
    # frame: under wrapt's contract (A6) an attribute whose name does not start with _self_ is stored on the WRAPPED parser and so
    # shared by every view: __init__ may only assign _self_ attributes
    stores = scan.attribute_stores_on_self(F, 'FilteredConfigParser')
    bad = [s for s in stores if not s[1].startswith('_self_')]
    out.append(B.static_obligation('C13/_filtered_config_parser.py::FilteredConfigParser/frame:only-proxy-local-attributes', not bad, 'FilteredConfigParser', F,
                                   'attributes stored on the shared wrapped parser: %s' % bad))
    out.append(B.static_obligation('C13/_filtered_config_parser.py::FilteredConfigParser/has-state', len(stores) >= 2, 'FilteredConfigParser', F, 'no attribute stores found (vacuous frame)'))
    # empty sets: exclude [] keeps everything, include [] keeps only entries that mention no species
    s = z3.Const('s', FL.FS_); tup = z3.Const('tup', FL.StrList)
    def L(name, hyps, goal):
        o = Obligation('C13/lemma/' + name, hyps, goal, kind='lemma', function='props/C13.py', carries_property=True); o.instantiate_int_foralls = True; out.append(o)
    L('exclude-nothing-keeps-everything', [FL.xflag(s), z3.Length(FL.slist(s)) == 0], FL.keeps(s, tup))
    L('include-nothing-removes-every-entry-that-mentions-a-species', [z3.Not(FL.xflag(s)), z3.Length(FL.slist(s)) == 0, z3.Length(tup) >= 1], z3.Not(FL.keeps(s, tup)))
    # read set of the pipeline on its parser argument
    files = [f for f in scan.package_files('atsim/potentials/config') if not f.endswith('_config_parser.py') and not f.endswith('_filtered_config_parser.py')] + \
            ['atsim/potentials/tools/potable/_actions.py', 'atsim/potentials/tools/potable/_query_actions.py']
    reads = scan.attribute_reads(files, {'cp', 'cfg'})
    extra = {a: v[:2] for a, v in reads.items() if a not in ALLOWED_READS}
    out.append(B.static_obligation('C13/config/read-set-of-the-pipeline-on-its-parser', not extra, 'config package', 'atsim/potentials/config/*.py',
                                   'reads outside the filtered views: %s' % extra, hard=False))
    out.append(B.static_obligation('C13/config/read-set-nonempty', len(reads) >= 5, 'config package', 'atsim/potentials/config/*.py', 'scan found %d attributes' % len(reads)))
    # the command line route (_do_tabulation -> _make_config_parser -> FilteredConfigParser) is under Engine A contracts (contracts/potable_cli.py):
    # --include-species S gives the include view with exactly S, --exclude-species S the exclude view, for every S (the empty one included)
    return out

MUTANTS = [
    (F, 'FilteredConfigParser.__init__', "elif include is None:", "elif not include:", 'post/include-mode'),
    (F, 'FilteredConfigParser.__init__', "self._self_exclude_flag = False", "self._self_exclude_flag = True", 'post/include-mode'),
    (F, 'FilteredConfigParser.__init__', "if exclude or (exclude is not None and include is None):", "if exclude is not None:", 'post/include-mode'),
    (F, 'FilteredConfigParser.pair', "self._check_tuple(p.species)", "not self._check_tuple(p.species)", 'comprehension'),
    (F, 'FilteredConfigParser.eam_density_fs', "self.__wrapped__.eam_density_fs", "self.__wrapped__.pair", 'post'),
    (F, 'FilteredConfigParser.eam_embed', "self._check_tuple((p.species,))", "self._check_tuple(())", 'comprehension'),
    (F, 'FilteredConfigParser.eam_density', "return filtered", "return filtered[1:]", 'post'),
    (F, 'FilteredConfigParser._check_tuple', "if self._self_exclude_flag and v_in:", "if self._self_exclude_flag and (not v_in):", 'post'),
    (F, 'FilteredConfigParser._check_tuple', "return True", "return False", 'post'),
    (F_POT, '_make_config_parser', "if species is not None:", "if species:", 'post'),              # the defect repaired by c45c828
    (F_POT, '_make_config_parser', "if exclude_flag:", "if not exclude_flag:", 'post'),
    (F_POT, '_make_config_parser', "cp = FilteredConfigParser(cp, include=species)", "cp = FilteredConfigParser(cp, include=species[1:])", 'post'),
    (F_POT, '_do_tabulation', "if args.include_species is not None:", "if args.include_species:", 'on-raise'),     # the defect repaired by c45c828
    (F_POT, '_do_tabulation', "exclude_flag = True", "exclude_flag = False", 'on-raise'),
    (F_POT, '_do_tabulation', "species_list = args.exclude_species", "species_list = args.include_species", 'on-raise'),
]
MODULE_MUTANTS = [
    (F, "      self._self_species_list = exclude\n      self._self_exclude_flag = True", "      self._species_list = exclude\n      self._self_exclude_flag = True", 'frame'),
    (F, "if self._check_tuple(p.species)]\n    return filtered\n\n  @property\n  def eam_embed", "if self._check_tuple(p.species[:1])]\n    return filtered\n\n  @property\n  def eam_embed", 'FilteredConfigParser.pair'),
]
ASSUMPTIONS = ['A6: wrapt.ObjectProxy stores every attribute whose name does not start with _self_ on the wrapped object',
               'A5/C09: each entry of a section becomes one tuple of the corresponding list, in file order (ConfigParser._parse_params_section); deleting an entry from the file = deleting that tuple',
               'ADP dipole/quadrupole sections (parse_pair_like) are not filtered: harmless because the ADP writer only looks up pairs of surviving elements (C19 contracts)']
BOUNDED = [dict(name='filtered tabulation == tabulation of the hand-edited file, through the API and the CLI, several views of one parsed file', bound='seeded pair/EAM/FS models, include/exclude sets with unknown labels and the empty set; quick 40 / thorough 1500', technique='concrete oracle')]

def oracle_payload(tier, seed, mode='search'): return dict(mode=mode, seed=seed, n=40 if tier == 'quick' else 1500)
def witness_for(ob, devs, run_oracle):
    if devs: d = devs[0]; return dict(deviates=True, input=d['input'], observed=d['observed'], expected=d['expected'])
    return dict(deviates=False)

"""Contracts for _tablereaders.py, plotToFile and the [Table-Form] xy parsing (C18)."""
import z3
from .common import *
from .ext_configparser import *
from pyvc.symexec import TupleSort, split_ws, str_to_real, parses_float

F_TR = 'atsim/potentials/_tablereaders.py'
F_INIT = 'atsim/potentials/__init__.py'
F_CP = 'atsim/potentials/config/_config_parser.py'
XY = T.Tuple(T.Real, T.Real); XYS = XY.sort(); XYList = z3.SeqSort(XYS)
X, Y = XYS.accessor(0, 0), XYS.accessor(0, 1)
REG.add_class(ClassDecl(F_TR, 'TableReaderBase', {}))

def sorted_data(d):
    """what _populate establishes (results.sort()): ascending in x"""
    i, j = z3.Int('i!t'), z3.Int('j!t')
    return [z3.ForAll([i, j], z3.Implies(z3.And(0 <= i, i < j, j < z3.Length(d)), X(d[i]) <= X(d[j])))]

# A4: bisect.bisect_left(a, x) on the x components: all entries before the result are < x, all from it on are >= x
BIS = z3.Function('bisect_left_x', XYList, RealS, IntS)
def bisect_axioms(d, x):
    j = z3.Int('j!b'); i = BIS(d, x)
    return [0 <= i, i <= z3.Length(d), z3.ForAll([j], z3.Implies(z3.And(0 <= j, j < z3.Length(d)), (j < i) == (X(d[j]) < x)))]

def plot_row(lo, hi, steps, f, i):
    x = lo + real(i) * ((hi - lo) / real(steps))
    return tok("{0} {1}\n", x, app(f, x))
plot_rows = SpecSeq('plot_rows', [RealS, RealS, IntS, Fn], plot_row, elem_len=4)

REG.add(Contract(F_INIT, 'plotToFile',
    params=[('fileobj', T.Doc), ('lowx', T.Real), ('highx', T.Real), ('func', T.Fn), ('steps', T.Int)],
    requires=lambda v: [v.steps >= 1], modifies=['fileobj'],
    ensures=lambda v, old, res: [v.fileobj == cat(old.fileobj, plot_rows(v.lowx, v.highx, v.steps, v.func, v.steps))],
    invariants={0: lambda v, old: [v.fileobj == cat(old.fileobj, plot_rows(v.lowx, v.highx, v.steps, v.func, v._i0)),
                                   v.step == (v.highx - v.lowx) / real(v.steps)]},
    carries=['post', 'preserve/0'], props=['C18']))

# [Table-Form] xy : x0 y0 x1 y1 ...  de-interleaved into x and y
RealList = z3.SeqSort(RealS); StrList = z3.SeqSort(StrS)
tokvals = SpecSeq('xy_vals', [StrList], lambda ts, k: z3.Unit(str_to_real(ts[k])), result=RealList, elem_len=1)
evens = SpecSeq('xy_evens', [RealList], lambda xy, k: z3.If(k % 2 == 0, z3.Unit(xy[k]), z3.Empty(RealList)), result=RealList)
odds = SpecSeq('xy_odds', [RealList], lambda xy, k: z3.If(k % 2 == 1, z3.Unit(xy[k]), z3.Empty(RealList)), result=RealList)
REG.add_class(ClassDecl(F_CP, '_TableFormSection', {}))

def _xy_of(v):
    ts = split_ws(sec_get(v.section, z3.StringVal('xy')))
    return tokvals(ts, z3.Length(ts))

REG.add(Contract(F_CP, '_TableFormSection._parse_xy',
    params=[('self', T.Obj('_TableFormSection')), ('section_name', T.Str), ('section', T.Obj('SectionProxy'))],
    result=T.Tuple(T.List(T.Real), T.List(T.Real)),
    ensures=lambda v, old, res: [res[0] == evens(_xy_of(v), z3.Length(_xy_of(v))), res[1] == odds(_xy_of(v), z3.Length(_xy_of(v))),
                                 z3.Length(_xy_of(v)) % 2 == 0],
    post_names=['x-is-the-even-positions', 'y-is-the-odd-positions', 'only-even-counts-return'],
    comprehensions={0: (tokvals, lambda v: [split_ws(sec_get(v.section, z3.StringVal('xy')))])},
    invariants={0: lambda v, old: [v.xy == _xy_of(v), v.x == evens(v.xy, v._i0), v.y == odds(v.xy, v._i0), v.even == (v._i0 % 2 == 0)]},
    ghost={'x': T.Real, 'y': T.Real},
    raises_when=lambda v, old, exc: [z3.BoolVal(exc.cls in ('ConfigParserException', 'KeyError'))],
    carries=['post', 'preserve/0'], props=['C18', 'C16']))

# ---------------------------------------------------------------- TableReaderBase (a list of (x, y) tuples)
REG.add_class(ClassDecl('<ext>', 'bisect', {}, external=True))

def _find_post(v, old, res):
    d, x = v.self, v.x
    n = z3.Length(d)
    outside = z3.Or(x < X(d[0]), x > X(d[n - 1]))
    j = z3.Int('j!f')
    return [res.isnone == outside,
            z3.Implies(z3.Not(res.isnone), z3.And(0 <= res.val.z, res.val.z < n, X(d[res.val.z]) <= x)),
            # the point at the returned index is the last one not above x: the next one (if any) is above x, or the point itself is x
            z3.Implies(z3.And(z3.Not(res.isnone), res.val.z + 1 < n), z3.Or(X(d[res.val.z]) == x, X(d[res.val.z + 1]) > x)),
            # when x is tabulated the FIRST point with that x is returned
            z3.Implies(z3.And(z3.Not(res.isnone), X(d[res.val.z]) == x, res.val.z > 0), X(d[res.val.z - 1]) < x)]

REG.add(Contract(F_TR, 'TableReaderBase._findIndex',
    params=[('self', T.ListObj('TableReaderBase', XY)), ('x', T.Real)], result=T.Opt(T.Int),
    requires=lambda v: [z3.Length(v.self) >= 1] + sorted_data(v.self) + bisect_axioms(v.self, v.x),
    ensures=_find_post, post_names=['None-iff-outside-the-data-range', 'index-in-range-and-not-above-x', 'next-point-is-above-x', 'first-of-equal-x'],
    instantiate_int_foralls=True, carries=['post'], props=['C18']))

def _value_post(v, old, res):
    d, x = v.self, v.x; n = z3.Length(d); i = z3.Int('i!v')
    return [z3.Implies(z3.Or(x < X(d[0]), x > X(d[n - 1])), res == 0),
            # at a tabulated x the tabulated y
            z3.ForAll([i], z3.Implies(z3.And(0 <= i, i < n, X(d[i]) == x, z3.Or(i == 0, X(d[i - 1]) < x)), res == Y(d[i]))),
            # between two neighbouring points: on the chord (hence between the two y values)
            z3.ForAll([i], z3.Implies(z3.And(0 <= i, i + 1 < n, X(d[i]) < x, x < X(d[i + 1])),
                                      res == Y(d[i]) + (Y(d[i + 1]) - Y(d[i])) * (x - X(d[i])) / (X(d[i + 1]) - X(d[i]))))]

REG.add(Contract(F_TR, 'TableReaderBase.getValue',
    params=[('self', T.ListObj('TableReaderBase', XY)), ('x', T.Real)], result=T.Real,
    requires=lambda v: [z3.Length(v.self) >= 1] + sorted_data(v.self) + bisect_axioms(v.self, v.x),
    ensures=_value_post, post_names=['zero-outside', 'tabulated-y-at-tabulated-x', 'chord-between-neighbours'],
    instantiate_int_foralls=True, carries=['post'], props=['C18']))

# ---------------------------------------------------------------- DatReader._populate: the data are the (x, y) pairs of the data lines, sorted
from pyvc.spec import FilterSeq
from pyvc.symexec import strip_ws, sorted_seq_fn
REG.add_class(ClassDecl('<ext>', 'TextLines', {}, external=True))
TL = ObjSort('TextLines'); lines_of = z3.Function('lines_of', TL, StrList)
REG.add(Contract('<ext>', 'TextLines.__iter__', params=[('self', T.Obj('TextLines'))], result=T.List(T.Str), ensures=lambda v, old, res: [res == lines_of(v.self)], external=True,
    note='iterating a text file object yields its lines in order', props=['C18']))
def is_data(l): s_ = strip_ws(l); return z3.And(z3.Length(s_) > 0, z3.SubString(s_, 0, 1) != z3.StringVal('#'))      # not blank, not a comment
def row_of(l):
    ts = split_ws(strip_ws(l))
    return XYS.mk(str_to_real(ts[0]), str_to_real(ts[1]))
data_rows = FilterSeq('dat_rows', [StrList], lambda ls, k: is_data(ls[k]), lambda ls, k: row_of(ls[k]), XYS)
def wellformed_file(ls):
    """every data line has at least two tokens and its first two tokens are numbers (anything else makes float() / the unpacking fail)"""
    k = z3.Int('k!w'); ts = split_ws(strip_ws(ls[k]))
    return z3.ForAll([k], z3.Implies(z3.And(0 <= k, k < z3.Length(ls), is_data(ls[k])), z3.And(z3.Length(ts) >= 2, parses_float(ts[0]), parses_float(ts[1]))))
REG.add_class(ClassDecl(F_TR, 'DatReader', {}, bases=('TableReaderBase',)))
REG.add(Contract(F_TR, 'DatReader._populate', params=[('self', T.ListObj('DatReader', XY)), ('fileobj', T.Obj('TextLines'))], modifies=['self'],
    requires=lambda v: [wellformed_file(lines_of(v.fileobj))],
    ensures=lambda v, old, res: [v.self == z3.Concat(old.self, sorted_seq_fn(XYList)(data_rows(lines_of(v.fileobj), z3.Length(lines_of(v.fileobj)))))],
    post_names=['the-sorted-(x,y)-pairs-of-the-data-lines-are-appended'],
    invariants={0: lambda v, old: [v.results == data_rows(lines_of(v.fileobj), v._i0), v.self == old.self]}, ghost={'results': XY}, instantiate_int_foralls=True,
    raises_when=lambda v, old, exc: [z3.BoolVal(False)], carries=['post', 'preserve/0'], props=['C18']))

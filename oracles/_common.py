"""Shared helpers of the concrete oracles.  Oracles run the REAL code of the tree named by ATSIM_ROOT under
/venv/bin/python, are written from the property statements, and serve three purposes: replay of solver
counterexamples, CPython cross-check of the symbolic semantics, bounded stand-in where a function is outside
the verifier's reach (always labelled bounded)."""
import sys, json, io, random, math, os, warnings, tempfile, contextlib, logging
warnings.filterwarnings('ignore')
logging.disable(logging.CRITICAL)

def payload():
    return json.loads(sys.stdin.read() or '{}')

class Report(object):
    def __init__(self, prop):
        self.prop = prop; self.cases = 0; self.checks = 0; self.deviations = []; self.kinds = {}; self.samples = []
    def case(self, kind, inp):
        self.cases += 1; self.kinds[kind] = self.kinds.get(kind, 0) + 1
        if len(self.samples) < 3: self.samples.append(inp)
    def dev(self, case, inp, observed, expected, obligation=None):
        if len(self.deviations) < 20:
            self.deviations.append(dict(case=case, input=inp, observed=observed, expected=expected, obligation=obligation))
    def ok(self, n=1): self.checks += n
    def finish(self, **extra):
        out = dict(property=self.prop, cases=self.cases, checks=self.checks, kinds=self.kinds, samples=self.samples,
                   n_deviations=len(self.deviations), deviations=self.deviations)
        out.update(extra)
        print(json.dumps(out, default=str))
        sys.exit(1 if self.deviations else 0)

def close(a, b, rel=1e-9, abs_=1e-12):
    if a is None or b is None: return a is b
    if math.isnan(a) or math.isnan(b): return math.isnan(a) and math.isnan(b)
    return abs(a - b) <= abs_ + rel * max(abs(a), abs(b))

def printed(fmt, x):
    """value as the file shows it"""
    return float(fmt % x)

class Poly(object):
    """E(r) = sum c_i r^i with optional analytic derivatives"""
    def __init__(self, coefs, deriv=True, deriv2=False):
        self.c = list(coefs)
        if deriv: self.deriv = self._d
        if deriv2: self.deriv2 = self._d2
    def __call__(self, r): return sum(c * r ** i for i, c in enumerate(self.c))
    def _d(self, r): return sum(i * c * r ** (i - 1) for i, c in enumerate(self.c) if i >= 1)
    def _d2(self, r): return sum(i * (i - 1) * c * r ** (i - 2) for i, c in enumerate(self.c) if i >= 2)
    def d(self, r): return self._d(r)

def mk_callable(spec):
    k = spec['kind']
    if k == 'poly' and spec.get('cut') is not None:
        base = Poly(spec['coefs'], False, False); cut = spec['cut']
        class Cut(object):
            def __call__(self, r): return base(r) if r <= cut else 0.0
            def d(self, r): return base.d(r) if r <= cut else 0.0
        return Cut()
    if k == 'poly': return Poly(spec['coefs'], spec.get('deriv', True), spec.get('deriv2', False))
    if k == 'exp':
        A, b = spec['A'], spec['b']
        class Ex(object):
            def __call__(self, r): return A * math.exp(-b * r)
            def d(self, r): return -b * A * math.exp(-b * r)
        e = Ex()
        if spec.get('deriv', True): e.deriv = e.d
        return e
    if k in ('pow', 'product', 'plus'):
        import atsim.potentials as ap
        a, b = Poly(spec['a'], True, True), Poly(spec['b'], True, True)
        f = getattr(ap, k)(a, b)
        class W(object):
            deriv = staticmethod(f.deriv)
            def __call__(self, r): return f(r)
            def d(self, r):
                if k == 'plus': return a.d(r) + b.d(r)
                if k == 'product': return a.d(r) * b(r) + a(r) * b.d(r)
                return a(r) ** b(r) * (b.d(r) * math.log(a(r)) + b(r) * a.d(r) / a(r))
        return W()
    raise ValueError(k)

LABELS = ['O', 'U', 'Al', 'Gd', 'Xe', 'Si', 'Zr', 'B', 'H', 'Mg2+', 'O2-', 'a_b']

def rand_callable_spec(rng):
    if rng.random() < 0.15:
        # composition through the library's own combinators (base positive on the grid, exponent depends on r)
        return dict(kind=rng.choice(['pow', 'product', 'plus']), a=[round(rng.uniform(1, 4), 2), round(rng.uniform(0.1, 1), 2)], b=[round(rng.uniform(0.5, 2), 2), round(rng.uniform(-0.05, 0.2), 2)], deriv=True)
    if rng.random() < 0.75:
        n = rng.randint(1, 4)
        return dict(kind='poly', coefs=[round(rng.uniform(-5, 5), 3) for _ in range(n)], deriv=rng.random() < 0.6, deriv2=rng.random() < 0.3)
    return dict(kind='exp', A=round(rng.uniform(1, 2000), 2), b=round(rng.uniform(0.5, 4), 3), deriv=rng.random() < 0.6)

def root_on_grid_spec(rng, r0):
    """a callable that is exactly 0.0 at the grid point r0 with a non-zero slope there (the force column must not be short-cut
    where the energy vanishes), alone or as a factor of the library's product()"""
    c = rng.choice([1.0, -3.0, 2.5])
    if rng.random() < 0.5: return dict(kind='poly', coefs=[-c * r0, c], deriv=rng.random() < 0.7, deriv2=False)
    return dict(kind='product', a=[-r0, 1.0], b=[rng.choice([1.5, 2.0, 4.0]), rng.choice([0.25, 0.5])], deriv=True)

def potable_main(argv):
    """run the potable CLI in-process; returns (exit code, stdout, stderr)"""
    from atsim.potentials.tools.potable import main
    old = sys.argv, sys.stdout, sys.stderr
    so, se = io.StringIO(), io.StringIO()
    sys.argv = ['potable'] + list(argv); sys.stdout, sys.stderr = so, se
    code = 0
    try:
        main()
    except SystemExit as e:
        code = e.code if isinstance(e.code, int) else (0 if e.code is None else 1)
    except BaseException as e:
        code = 'uncaught ' + type(e).__name__; se.write('uncaught %s: %s' % (type(e).__name__, e))
    finally:
        sys.argv, sys.stdout, sys.stderr = old
    return code, so.getvalue(), se.getvalue()

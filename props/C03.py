"""C03 — setfl (eam/alloy): element blocks, grids, r*phi blocks, metadata are faithful."""
import z3
from pyvc.core import *
from pyvc.solve import Obligation
from pyvc import tables
import contracts.common as K
import contracts.potential, contracts.lammps_table, contracts.dlpoly_table, contracts.pair_tabulation, contracts.gulp
from contracts.eam_common import *
import contracts.setfl as SF
import contracts.eam_tabulation as ET
import contracts.refdata as RDc
import contracts.builders_eam as BE
import contracts.species as SPc
import contracts.builders as BU

F = SF.FILE
FUNCTIONS = [(F, q) for q in ('_writeSetFLHeader', '_writeSetFLElementHeader', '_writeSetFLEmbeddingFunction', '_writeDensityFunction',
                              '_writeSetFLDensityFunction', '_writeSetFLPairPots', 'writeSetFL')] + [(ET.FILE, 'SetFL_EAMTabulation.write')] + \
            [(RDc.F_RD, 'Reference_Data.get')] + [(RDc.F_EB, 'EAM_Potential_Builder.' + q) for q in ('_get_mass', '_get_atomic_number', '_get_lattice_constant', '_get_lattice_type', '_create_eam_potential')] + \
            [(BE.F_EB, 'EAM_Potential_Builder.' + q) for q in ('_to_potential_form_dict', '_embed_species', '_density_species', '_add_null_embedding_functions', '_add_null_density_functions', '_init_eampotentials')] + \
            [(SPc.F_CP, 'ConfigParser.species'), (SPc.F_CP, 'ConfigParser._convert_species_type')] + \
            [(BU.FILE, 'Pair_Potentials_From_Tuples_Builder.' + q) for q in ('__init__', '_create_potential', '_init_potentials')]      # the [Pair] entries of an EAM model: one Potential per entry, with the function its own definition denotes
SPECSEQS = [SF.fvals, SF.pvals, SF.labels, BE.species_seq, SPc.stripped]

def lemmas():
    out = []
    es = z3.Const('es', EamList); ps = z3.Const('ps', PotList)
    nr, nrho, k, i, j = z3.Ints('nr nrho k i j')
    c, crho, r = z3.Reals('cutoff cutoff_rho r')
    a, b = z3.Strings('a b'); f = z3.Const('f', Fn)
    dr, drho = c / real(nr - 1), crho / real(nrho - 1)
    n = z3.Length(es)
    pre = [nr >= 2, nrho >= 2]
    def L(name, hyps, goal, depth=1):
        out.append(Obligation('C03/lemma/' + name, pre + hyps, goal, kind='lemma', function='props/C03.py', carries_property=True, unfold_depth=depth))
    # exactly Nrho embedding values F(i*drho) and Nr density values rho(i*dr) per element
    L('exactly-n-values', [k >= 0], z3.Length(SF.fvals(f, r, k)) == 2 * k)
    L('value-i-is-f(i*step)', [k >= 0, i >= 0, i < k, SF.fvals.nth_instance([f, r], k, i)],
      z3.SubSeq(SF.fvals(f, r, k), 2 * i, 2) == cat(tok(SF.NUM, app(f, real(i) * r)), NL))
    # element block k: metadata line, then F on the rho grid, then rho on the r grid
    L('element-block', [k >= 0, k < n],
      SF.elem_block(es, nrho, drho, nr, dr, k) == cat(tok("%d %20.16e %20.16e %s", EAM['Z'](es[k]), EAM['mass'](es[k]), EAM['a0'](es[k]), EAM['lattice'](es[k])), NL,
                                                      SF.fvals(EAM['embed'](es[k]), crho / real(nrho - 1), nrho), SF.fvals(EAM['dens'](es[k]), c / real(nr - 1), nr)))
    # metadata of the element line: [Species] override, else built-in table, else documented default (composition of the builder contract with the element header)
    rd = z3.Const('rd', RDc.RD); sp = z3.String('sp'); e = z3.Const('e', EAM['sort'])
    P = lambda x: z3.StringVal(x)
    built = [EAM['Z'](e) == Val.vi(RDc.rd_val(rd, sp, P('atomic_number'))), EAM['mass'](e) == RDc.as_real(RDc.rd_val(rd, sp, P('atomic_mass'))),
             EAM['a0'](e) == z3.If(RDc.rd_has(rd, sp, P('lattice_constant')), RDc.as_real(RDc.rd_val(rd, sp, P('lattice_constant'))), z3.RealVal(0)),
             EAM['lattice'](e) == z3.If(RDc.rd_has(rd, sp, P('lattice_type')), Val.vs(RDc.rd_val(rd, sp, P('lattice_type'))), z3.StringVal('fcc'))]
    L('metadata/no-override-no-table-entry-gives-defaults', built + [z3.Not(RDc.rd_has(rd, sp, P('lattice_constant'))), z3.Not(RDc.rd_has(rd, sp, P('lattice_type')))],
      SF.elem_header(e) == cat(tok("%d %20.16e %20.16e %s", EAM['Z'](e), EAM['mass'](e), z3.RealVal(0), z3.StringVal('fcc')), NL))
    L('metadata/override-wins-over-table', built + [RDc.override_has(rd, sp, P('atomic_mass')), RDc.override_val(rd, sp, P('atomic_mass')) == Val.VR(r)], EAM['mass'](e) == r)
    L('metadata/table-used-without-override', built + [z3.Not(RDc.override_has(rd, sp, P('atomic_number'))), z3.Select(RDc.BT_has, sp)],
      EAM['Z'](e) == RDc.ed_Z(z3.Select(RDc.BT_get, sp)))
    L('metadata/built-in-table-has-no-lattice-data', [z3.Not(RDc.override_has(rd, sp, P('lattice_constant')))], z3.Not(RDc.rd_has(rd, sp, P('lattice_constant'))))
    # pair value k of block (i,j): r*phi(r) at r = k*dr, phi independent of the order the species were declared in, zero when undeclared
    L('phi-is-unordered', [], phi(ps, a, b, r) == phi(ps, b, a, r))
    L('phi-zero-when-undeclared', [find(ps, smin(a, b), smax(a, b), z3.Length(ps)) < 0], phi(ps, a, b, r) == 0)
    L('pair-value', [k >= 0], SF.pval(ps, a, b, dr, z3.BoolVal(True), k) == cat(tok(SF.NUM, phi(ps, a, b, real(k) * dr) * (real(k) * dr)), NL))
    # lower triangle in header order: row i holds blocks j = 0..i
    L('pair-row-i-has-i+1-blocks', [i >= 0, i < n], SF.ptri(ps, es, nr, dr, z3.BoolVal(True), i + 1) ==
      cat(SF.ptri(ps, es, nr, dr, z3.BoolVal(True), i), SF.prow(ps, es, nr, i, dr, z3.BoolVal(True), i + 1)))
    L('pair-block-ij', [i >= 0, i < n, j >= 0, j <= i], SF.prow(ps, es, nr, i, dr, z3.BoolVal(True), j + 1) ==
      cat(SF.prow(ps, es, nr, i, dr, z3.BoolVal(True), j), SF.pvals(ps, SF.sp(es, i), SF.sp(es, j), dr, z3.BoolVal(True), nr)))
    # header line 4 names the elements in list order; line 5 carries the grid
    L('header-grid', [], z3.SuffixOf(cat(tok("%d  %20.16e %d  %20.16e  %20.16e", nrho, crho / real(nrho - 1), nr, c / real(nr - 1), real(nr) * dr), NL),
                                     SF.header(nrho, drho, nr, dr, real(nr) * dr, es, z3.Const('cm', DocList))))
    return out + tables.routing_obligations('C03', ['setfl', 'lammps_eam_alloy'])

MUTANTS = [
    (SPc.F_CP, 'ConfigParser.species', "species, property_name = [t.strip() for t in tokens]", "property_name, species = [t.strip() for t in tokens]", 'preserve/0'),
    (SPc.F_CP, 'ConfigParser.species', "tokens = k.split('.', 1)", "tokens = k.split('.')", 'unpack'),
    (SPc.F_CP, 'ConfigParser.species', "v = self._convert_species_type(property_name, v)", "v = self._convert_species_type(species, v)", 'preserve/0'),
    (BE.F_EB, 'EAM_Potential_Builder._add_null_embedding_functions', "for s in sorted(null_embed_species):", "for s in null_embed_species:", 'preserve/0'),
    (BE.F_EB, 'EAM_Potential_Builder._add_null_embedding_functions', "null_embed_species = density_species - defined", "null_embed_species = density_species", 'preserve/0'),
    (BE.F_EB, 'EAM_Potential_Builder._add_null_density_functions', "other_dict = density_dict.setdefault(s, null)", "density_dict[s] = null", 'preserve/0'),
    (BE.F_EB, 'EAM_Potential_Builder._init_eampotentials', "if self.add_undefined:", "if not self.add_undefined:", 'init/0'),
    (BE.F_EB, 'EAM_Potential_Builder._init_eampotentials', "potlist.append(pot)", "potlist.insert(0, pot)", 'preserve/0'),
    (BE.F_EB, 'EAM_Potential_Builder._to_potential_form_dict', "species = t.species", "species = tuple_list[0].species", 'preserve/0'),
    (RDc.F_RD, 'Reference_Data.get', "species_dat.update(self.extra_data.get(species, {}))", "pass", 'post/override'),
    (RDc.F_RD, 'Reference_Data.get', "if not property_name in species_dat:", "if property_name in species_dat:", 'post'),
    (RDc.F_EB, 'EAM_Potential_Builder._get_lattice_constant', "return 0.0", "return 1.0", 'post'),
    (RDc.F_EB, 'EAM_Potential_Builder._get_lattice_type', "return 'fcc'", "return 'bcc'", 'post'),
    (RDc.F_EB, 'EAM_Potential_Builder._get_mass', "'atomic_mass'", "'atomic_number'", 'post'),
    (RDc.F_EB, 'EAM_Potential_Builder._get_atomic_number', "except Reference_Data_Exception:", "except KeyError:", 'raises'),
    (RDc.F_EB, 'EAM_Potential_Builder._create_eam_potential', "lattice_constant, lattice_type)", "mass, lattice_type)", 'post/lattice-constant'),
    (RDc.F_EB, 'EAM_Potential_Builder._create_eam_potential', "embedding_function = embed_dict[species]", "embedding_function = density_dict[species]", 'post/embedding-function'),
    (F, '_writeSetFLPairPots', "range(i + 1)", "range(i)", 'preserve'),
    (F, '_writeSetFLPairPots', "k.sort()", "pass", 'preserve'),
    (F, '_writeSetFLPairPots', "pairpotsdict.get(k, zeroPair)", "pairpotsdict.get(k, pp)", 'preserve'),
    (F, '_writeSetFLEmbeddingFunction', "float(i) * drho", "float(i + 1) * drho", 'preserve/0'),
    (F, '_writeSetFLPairPots', "if scale_r:", "if not scale_r:", 'preserve/3'),
    (F, '_writeSetFLDensityFunction', "eampot.electronDensityFunction", "eampot.embeddingFunction", 'post'),
    (F, '_writeSetFLElementHeader', "eampot.atomicNumber, eampot.mass", "eampot.atomicNumber, eampot.latticeConstant", 'post'),
    (ET.FILE, 'SetFL_EAMTabulation.write', "self.nrho, self.drho, self.nr, self.dr", "self.nr, self.dr, self.nrho, self.drho", 'post'),
]
ASSUMPTIONS = ['A1: float as real', 'A7: setfl / pair_style eam/alloy layout (element blocks then r*phi blocks for i, j<=i in header order)',
               'species labels pairwise distinct; functions total on the grid (else C17 applies)',
               'A4: str.join / list slicing / sort of two strings per the CPython documentation']
NOTES = ['SetFL_EAMTabulation.write passes no cutoff to writeSetFL, so the header\'s cutoff field is nr*dr = cutoff*nr/(nr-1), not the [Tabulation] cutoff; LAMMPS uses this field only as the interaction cutoff and the statement does not constrain it: reported as a note',
         'per-element metadata precedence ([Species] override, else built-in table, else 0.0/fcc): Reference_Data.get, the four getters and _create_eam_potential of the EAM builder are under contract (contracts/refdata.py); the conversion of [Species] text to int/float/str is the precondition well_typed (ConfigParser._convert_species_type, C16)',
         'when two pair potentials are declared for the same unordered pair the LAST one is used (C20 rejects that situation in potable files)']

def oracle_payload(tier, seed, mode='search'): return dict(mode=mode, seed=seed, n=40 if tier == 'quick' else 1500)
def witness_for(ob, devs, run_oracle):
    if devs: d = devs[0]; return dict(deviates=True, input=d['input'], observed=d['observed'], expected=d['expected'])
    return dict(deviates=False)

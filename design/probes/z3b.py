import z3, time
Tok = z3.DeclareSort('Tok'); SeqT = z3.SeqSort(Tok)
Row = z3.Function('Row', z3.IntSort(), Tok)
rows = z3.Function('rows', z3.IntSort(), SeqT)
i,j = z3.Ints('i j')
for name, mk in (("z3", None),):
    s = z3.Solver(); s.set('timeout', 30000)
    s.add(rows(j) == z3.Concat(rows(j-1), z3.Unit(Row(j))))   # unfolding instance
    s.add(j>=1, z3.Length(rows(j-1)) == j-1)
    s.add(z3.Implies(z3.And(i>=0, i<j-1), rows(j-1)[i] == Row(i+1)))
    s.add(i>=0, i<j, rows(j)[i] != Row(i+1))
    t=time.time(); print("nth step generic:", s.check(), time.time()-t)
    print(s.to_smt2()[:0])
open('q.smt2','w').write(s.to_smt2())

"""Shared vocabulary of the sidecar contracts: class field tables and spec functions."""
import z3
from pyvc.core import *
from pyvc.values import T
from pyvc.registry import REG, Contract, ClassDecl
from pyvc.spec import SpecSeq

F_POT = 'atsim/potentials/_potential.py'

# ---- Potential -------------------------------------------------------------------------
def gradspec(f, h, r):
    """what gradient(f, h)(r) must be (C01/C07 statement): analytic derivative when offered,
    else the symmetric difference quotient of the same callable"""
    r1, r2 = r - h / 2, r + h / 2
    return z3.If(has_deriv(f), app(dfn(f), r), (app(f, r2) - app(f, r1)) / (r2 - r1))

Pot = ObjSort('Potential')
pot_fn = field('Potential', '_potentialFunction', Fn)
pot_dfn = field('Potential', '_derivFunction', Fn)
pot_h = field('Potential', 'ghost_h', RealS)          # ghost: the step the object was built with
pot_A = field('Potential', '_speciesA', StrS)
pot_B = field('Potential', '_speciesB', StrS)

def _pot_invariant(o):
    r = z3.Real('r!inv')
    return [z3.ForAll([r], app(pot_dfn(o), r) == gradspec(pot_fn(o), pot_h(o), r), patterns=[app(pot_dfn(o), r)])]

REG.add_class(ClassDecl(F_POT, 'Potential',
    {'_speciesA': T.Str, '_speciesB': T.Str, '_potentialFunction': T.Fn, '_derivFunction': T.Fn},
    invariant=_pot_invariant))

def E(pot, r): return app(pot_fn(pot), r)          # pot.energy(r)
def Fo(pot, r): return -app(pot_dfn(pot), r)       # pot.force(r)

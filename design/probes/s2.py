import sympy as sp, time, ast, sys
src = open('/repo/atsim/potentials/potentialfunctions.py').read()
tree = ast.parse(src)
def getcls(cls):
    for n in tree.body:
        if isinstance(n, ast.ClassDef) and n.name==cls: return n
def get(cls, meth):
    c=getcls(cls)
    consts={}
    for m in c.body:
        if isinstance(m, ast.Assign) and isinstance(m.value, ast.Constant): consts[m.targets[0].id]=m.value.value
    for m in c.body:
        if isinstance(m, ast.FunctionDef) and m.name==meth:
            env_assign=[]
            for st in m.body:
                if isinstance(st, ast.Assign): env_assign.append((st.targets[0].id, st.value))
                if isinstance(st, ast.Return): return st.value, [a.arg for a in m.args.args][1:], env_assign, consts
def R(v): return sp.Rational(repr(v)) if isinstance(v,float) else sp.Integer(v)
def tosym(node, env, consts):
    if isinstance(node, ast.BinOp):
        l=tosym(node.left, env, consts); r=tosym(node.right, env, consts)
        op=type(node.op)
        return {ast.Add: lambda:l+r, ast.Sub: lambda:l-r, ast.Mult: lambda:l*r, ast.Div: lambda:l/r, ast.Pow: lambda:l**r}[op]()
    if isinstance(node, ast.UnaryOp): return -tosym(node.operand, env, consts)
    if isinstance(node, ast.Constant): return R(node.value)
    if isinstance(node, ast.Name): return env[node.id]
    if isinstance(node, ast.Attribute) and isinstance(node.value, ast.Name) and node.value.id=='self': return R(consts[node.attr])
    if isinstance(node, ast.Call):
        f=node.func
        if isinstance(f, ast.Attribute) and f.attr=='exp': return sp.exp(tosym(node.args[0], env, consts))
        if isinstance(f, ast.Name) and f.id=='float': return tosym(node.args[0], env, consts)
    raise Exception(ast.dump(node))
def build(cls, meth):
    e, args, assigns, consts = get(cls, meth)
    env = {a: sp.Symbol(a, positive=True) for a in args}
    for name, val in assigns: env[name]=tosym(val, env, consts)
    return tosym(e, env, consts), env
t=time.time()
E, env = build('_zbl','__call__'); D,_ = build('_zbl','deriv'); D2,_=build('_zbl','deriv2')
r=env['r']
print("built", time.time()-t)
# tolerant canonicalisation: replace floats in exp args by rounded rationals
def canon(expr, digits=10):
    # expand, then round all rational coefficients inside exp args to `digits` significant digits
    def fix_exp(e):
        arg = sp.expand(e.args[0])
        terms = arg.as_ordered_terms()
        new = 0
        for tm in terms:
            c, m = tm.as_coeff_Mul()
            c = sp.Rational(sp.Float(c, digits+5).round(digits) if False else sp.nsimplify(sp.N(c, digits), rational=True))
            new += c*m
        return sp.exp(new)
    expr = sp.expand(sp.powsimp(sp.expand(expr)))
    return expr.replace(lambda x: x.func==sp.exp, fix_exp)
t=time.time()
lhs = canon(sp.diff(E, r)); rhs = canon(D)
print("canon", time.time()-t)
res = sp.expand(sp.powsimp(sp.expand(lhs - rhs), combine='exp'))
terms = res.as_ordered_terms()
print("residual terms", len(terms))
mx=0
for tm in terms:
    c,m = tm.as_coeff_Mul(); mx=max(mx, abs(float(c)))
print("max residual coeff", mx)
lt = sp.expand(lhs).as_ordered_terms()
print("n lhs terms", len(lt), "min |coef|", min(abs(float(t_.as_coeff_Mul()[0])) for t_ in lt))
for tm in terms[:6]: print("  ", tm)

"""C04 — Finnis-Sinclair densities land in the slot the consumer reads for that pair."""
import z3
from pyvc.core import *
from pyvc.solve import Obligation
from pyvc import tables
import contracts.common as K
import contracts.potential, contracts.lammps_table, contracts.dlpoly_table, contracts.pair_tabulation, contracts.gulp
from contracts.eam_common import *
import contracts.setfl as SF
import contracts.tabeam as TB
import contracts.eam_tabulation as ET
import contracts.builders_eam as BE
import contracts.excel as XS

FUNCTIONS = [(SF.FILE, '_writeSetFLDensityFunctionFinnisSinclair'), (SF.FILE, '_writeDensityFunction'), (SF.FILE, 'writeSetFLFinnisSinclair'),
             (TB.FILE, '_writeDensityFunction'), (TB.FILE, 'writeTABEAMFinnisSinclair'), (TB.FILE, '_tabulateFunction'),
             (ET.FILE, 'SetFL_FS_EAMTabulation.write'), (ET.FILE, 'TABEAM_FinnisSinclair_EAMTabulation.write'),
             (BE.FILE, 'EAM_Potential_Builder_FS._density_to_potential_form_dict'), (BE.FILE, 'EAM_Potential_Builder_FS._density_species'),
             (BE.FILE, 'EAM_Potential_Builder_FS._add_null_density_functions'),
             (XS.FILE, 'Excel_PairTabulation._populate_worksheet'), (XS.F_ET, 'Excel_FinnisSinclair_EAMTabulation._add_eam_density'), (XS.F_PT, '_r_value_iterator')]
SPECSEQS = [SF.fvals, BE.fs_species_seq, XS.grid_seq]

def lemmas():
    out = []
    es = z3.Const('es', EamList); nr, x, k, j = z3.Ints('nr x k j'); dr = z3.Real('dr')
    n = z3.Length(es)
    def L(name, hyps, goal, depth=1):
        out.append(Obligation('C04/lemma/' + name, hyps, goal, kind='lemma', function='props/C04.py', carries_property=True, unfold_depth=depth))
    # LAMMPS eam/fs (A7): element block X, density array number k  <-  density at a site of element k due to an X neighbour = d(l_k, X)
    L('setfl_fs-slot(k,X)-holds-d(l_k,X)', [x >= 0, x < n, k >= 0, k < n],
      SF.fs_dens(es, es[x], nr, dr, k + 1) == cat(SF.fs_dens(es, es[x], nr, dr, k),
                                                  SF.fvals(SF.d_fs(es[k], EAM['species'](es[x])), dr, nr)))
    # DL_POLY EEAM: block 'dens A B' holds d(A, B)
    ls = TB.sorted_labels(es)
    L('tabeam-dens-A-B-holds-d(A,B)', [k >= 0, k < n, j >= 0, j < z3.Length(ls)],
      TB.fs_row(es[k], ls, nr, dr, j + 1) == cat(TB.fs_row(es[k], ls, nr, dr, j),
                                                 TB.block_hdr("dens", [EAM['species'](es[k]), ls[j]], nr, dr),
                                                 TB.tabulated(SF.d_fs(es[k], ls[j]), dr, nr)))
    # cluster form: the density at atom i computed from the file slots equals the one computed from the model, for any cluster,
    # because slot(site type A, neighbour type B) is the same function d(A,B) in both sums (term-wise equality)
    A, B = z3.Consts('A B', EAM['sort']); r = z3.Real('r')
    slot_setfl = lambda site, neigh: SF.d_fs(site, EAM['species'](neigh))      # what the two lemmas above put into the slot
    L('cluster-term', [], app(slot_setfl(A, B), r) == app(SF.d_fs(A, EAM['species'](B)), r))
    return out + tables.routing_obligations('C04', ['setfl_fs', 'DL_POLY_EAM_fs', 'excel_eam_fs'])

MUTANTS = [
    (BE.FILE, 'EAM_Potential_Builder_FS._add_null_density_functions', "other_dict.setdefault(o, null)", "other_dict[o] = null", 'preserve/1'),
    (BE.FILE, 'EAM_Potential_Builder_FS._add_null_density_functions', "for o in all_species:", "for o in embed_species:", 'preserve/1'),
    (BE.FILE, 'EAM_Potential_Builder_FS._density_species', "species_list.append(row.species.to_species)", "species_list.append(row.species.from_species)", 'preserve/0'),
    (BE.FILE, 'EAM_Potential_Builder_FS._density_to_potential_form_dict', "add_to[t_species] = pot_func", "add_to[f_species] = pot_func", 'preserve/0'),
    (BE.FILE, 'EAM_Potential_Builder_FS._density_to_potential_form_dict', "outdict.setdefault(f_species, {})", "outdict.setdefault(t_species, {})", 'preserve/0'),
    (BE.FILE, 'EAM_Potential_Builder_FS._density_to_potential_form_dict', "if t_species in add_to:", "if f_species in add_to:", 'preserve/0'),
    (SF.FILE, '_writeSetFLDensityFunctionFinnisSinclair', "otherpot.electronDensityFunction[eampot.species]", "eampot.electronDensityFunction[otherpot.species]", 'preserve/0'),
    (TB.FILE, 'writeTABEAMFinnisSinclair', "_writeDensityFunction(speciesA, speciesB, densityFunction", "_writeDensityFunction(speciesB, speciesA, densityFunction", 'preserve/1'),
    (TB.FILE, 'writeTABEAMFinnisSinclair', "for eamPotential in eampots:", "for eamPotential in reversed(eampots):", 'preserve'),
    (SF.FILE, 'writeSetFLFinnisSinclair', "_writeSetFLDensityFunctionFinnisSinclair)", "_writeSetFLDensityFunction)", 'preserve/0'),
    (XS.FILE, 'Excel_PairTabulation._populate_worksheet', "pot = column_dict[label]", "pot = column_dict[column_keys[len(column_keys) - 1]]", 'preserve/2'),
    (XS.F_ET, 'Excel_FinnisSinclair_EAMTabulation._add_eam_density', "format(species_f, species_t)", "format(species_t, species_f)", 'preserve/1'),
    (XS.F_ET, 'Excel_FinnisSinclair_EAMTabulation._add_eam_density', "species_f = p.species", "species_f = self.eam_potentials[0].species", 'init/1'),
]
ASSUMPTIONS = ['A7: LAMMPS pair_style eam/fs reads rho[i] += rhor[type2rhor[jtype][itype]] (k-th array of element block X = density at a k site due to an X neighbour); DL_POLY EEAM "dens A B" = density at an A site due to a B neighbour (repository documentation; the DL_POLY runs are skipped here)',
               'A1: float as real', 'A4: sorted(list) (uninterpreted, same function on both sides)',
               'every ordered pair has a declared density in the Python API route (the potable builder zero-fills undeclared ones: config/_eam_potential_builder.py, exercised by the oracle until its contracts are added)']
NOTES = ['Excel route (contracts/excel.py): Excel_FinnisSinclair_EAMTabulation._add_eam_density is verified -- every density declared for central species A and neighbour B is stored under the label "A->B", nothing else is, the columns are the sorted labels on the separation grid -- and so is the sheet-filling function (the column HEADED by a label holds the function stored UNDER it). Preconditions: the potentials are of pairwise different species and a label determines its pair (labels without "->")']
BOUNDED = [dict(name='the Excel workbook as a whole (assembly of the sheets, saving and re-reading with openpyxl); undeclared combinations in the Excel sheet; shared leading forms of potable [EAM-Density] A->B entries', bound='seeded models with 1..4 species, quick 40 / thorough 1500 cases', technique='concrete oracle on the real code')]

def oracle_payload(tier, seed, mode='search'): return dict(mode=mode, seed=seed, n=40 if tier == 'quick' else 1500)
def witness_for(ob, devs, run_oracle):
    if devs: d = devs[0]; return dict(deviates=True, input=d['input'], observed=d['observed'], expected=d['expected'])
    return dict(deviates=False)

"""C07 oracle: offered deriv/deriv2 against the exact derivative of the documented/composed energy."""
from _expr import *
from atsim.potentials import Potential

def relclose(a, b, tol):
    return abs(a - b) <= tol * max(1.0, abs(a), abs(b))

def check_case(rep, case, name):
    t = case['tree']
    try:
        f = from_config(to_config(t)) if case['route'] == 'config' else to_api(t)
        f0, f1, f2 = exact(t)
    except Exception as e:
        rep.dev(name, case, 'exception %r' % (e,), 'a potential'); return
    regular_at_0 = t[0] == 'leaf' and t[1] in ('polynomial', 'constant', 'zero', 'morse', 'exp_spline', 'bornmayer')
    for x in case['rs']:
        if x != 0.0 and x < min_r(t): continue
        if x == 0.0 and regular_at_0:
            # forms that are regular at the origin: value and offered derivatives exist there
            try:
                vals = (f(x), f.deriv(x) if hasattr(f, 'deriv') else None, f.deriv2(x) if hasattr(f, 'deriv2') else None)
            except Exception as e:
                rep.dev(name, dict(case, rs=[x]), 'exception %r at r=0' % (e,), 'value %r, derivative %r' % (float(sp.limit(to_sympy(t), r, 0, '+')), float(sp.limit(sp.diff(to_sympy(t), r), r, 0, '+')))); return
            want = (float(sp.limit(to_sympy(t), r, 0, '+')), float(sp.limit(sp.diff(to_sympy(t), r), r, 0, '+')), float(sp.limit(sp.diff(to_sympy(t), r, 2), r, 0, '+')))
            for g, w, lbl in zip(vals, want, ('energy', 'deriv', 'deriv2')):
                if g is not None and not relclose(g, w, 1e-8): rep.dev(name, dict(case, rs=[x]), '%s(0)=%r' % (lbl, g), w); return
            rep.ok(3); continue
        if x == 0.0: continue
        try:
            u, e0 = f(x), float(f0(x))
        except Exception as e: continue
        if not (abs(e0) < 1e12): continue
        if not relclose(u, e0, 1e-8): rep.dev(name, dict(case, rs=[x]), 'energy(%r)=%r' % (x, u), e0); return
        if hasattr(f, 'deriv'):
            try: d, e1 = f.deriv(x), float(f1(x))
            except Exception as e:
                # the energy is defined here (above) but the offered derivative cannot be evaluated
                rep.dev(name, dict(case, rs=[x]), 'deriv(%r) raises %r' % (x, e), float(f1(x))); return
            # a component without analytic derivative is differentiated numerically (h = 1e-6): tolerance covers that
            if not relclose(d, e1, 2e-5): rep.dev(name, dict(case, rs=[x]), 'deriv(%r)=%r' % (x, d), e1); return
            fo = Potential('A', 'B', f).force(x)
            if not relclose(fo, -e1, 2e-5): rep.dev(name, dict(case, rs=[x]), 'force(%r)=%r' % (x, fo), -e1); return
        if hasattr(f, 'deriv2'):
            try: d, e2 = f.deriv2(x), float(f2(x))
            except Exception as e:
                rep.dev(name, dict(case, rs=[x]), 'deriv2(%r) raises %r' % (x, e), float(f2(x))); return
            if not relclose(d, e2, 5e-4): rep.dev(name, dict(case, rs=[x]), 'deriv2(%r)=%r' % (x, d), e2); return
        rep.ok(3)

def spline_cases(rep, rng, n):
    """splined potentials (exponential spline between two forms, API and spline() modifier; buck4): the offered derivatives against
    difference quotients of the energy the same callable returns, strictly inside each region. End potentials that are NEGATIVE at the attach
    point are included (the exponential spline then works on translated data)."""
    from atsim.potentials.spline import SplinePotential
    fixed = [(('zbl', [8, 8]), ('buck', [500.0, 0.25, 100.0]), 0.8, 2.0), (('bornmayer', [2000.0, 0.25]), ('buck', [1000.0, 0.3, 100.0]), 1.0, 2.0),
             (('zbl', [40, 8]), ('buck', [1200.0, 0.3, 0.0]), 0.5, 1.4), (('bornmayer', [900.0, 0.3]), ('zero', []), 1.1, 2.3)]
    for _ in range(n):
        fixed.append((('zbl', [rng.randint(3, 60), rng.randint(3, 60)]), ('buck', [round(rng.uniform(300, 3000), 1), round(rng.uniform(0.22, 0.38), 3), rng.choice([0.0, round(rng.uniform(20, 200), 1)])]),
                      round(rng.uniform(0.4, 1.0), 2), round(rng.uniform(1.6, 2.8), 2)))
    def d5(g, x, h): return (g(x - 2 * h) - 8 * g(x - h) + 8 * g(x + h) - g(x + 2 * h)) / (12 * h)
    for (sn, sp_), (en, ep), d, a in fixed:
        for route in ('api', 'config'):
            case = dict(kind='spline', route=route, start=[sn, sp_], end=[en, ep], detach=d, attach=a); rep.case('spline/' + route, case)
            try:
                if route == 'api': f = SplinePotential(getattr(pf, sn)(*sp_), getattr(pf, en)(*ep), d, a)
                else: f = from_config('spline(>0 %s >=%r exp_spline >=%r %s)' % (to_config(('leaf', sn, sp_)), d, a, to_config(('leaf', en, ep))))
            except Exception as e:
                rep.dev('spline', case, 'exception %r' % (e,), 'a splined potential'); continue
            h = 1e-4; bad = None
            for x in [d * 0.8, d + 0.1 * (a - d), d + 0.37 * (a - d), (d + a) / 2, a - 0.1 * (a - d), a + 0.3, a + 1.1]:
                try:
                    if hasattr(f, 'deriv'):
                        g1, w1 = f.deriv(x), d5(f, x, h)
                        if abs(g1 - w1) > 1e-6 * max(1.0, abs(w1)): bad = ('deriv', x, g1, w1); break
                    if hasattr(f, 'deriv2'):
                        g2, w2 = f.deriv2(x), d5(f.deriv, x, h)
                        if abs(g2 - w2) > 1e-6 * max(1.0, abs(w2)): bad = ('deriv2', x, g2, w2); break
                except Exception as e: bad = ('evaluation', x, repr(e), 'a value'); break
            if bad: rep.dev('spline-%s-%s' % (sn, en), dict(case, rs=[bad[1]]), '%s(%r)=%r' % bad[:3], 'difference quotient of the energy/derivative the callable returns: %r' % (bad[3],))
            else: rep.ok(14)

def gen_case(rng):
    t = gen(rng, rng.randint(0, 3))
    return dict(route=rng.choice(['api', 'config']), tree=t, rs=[round(rng.uniform(0.6, 6.0), 3) for _ in range(4)] + [0.25, 1.0, 2.0, round(rng.uniform(6.0, 30.0), 2)])

if __name__ == '__main__':
    pl = payload(); rep = Report('C07')
    if pl.get('mode') == 'replay' and pl['input'].get('kind') == 'spline': spline_cases(rep, random.Random(pl.get('seed', 0)), 2)
    elif pl.get('mode') == 'replay': rep.case('replay', pl['input']); check_case(rep, pl['input'], 'replay')
    else:
        rng = random.Random(pl.get('seed', 0))
        for name in sorted(LEAVES):      # every built-in form once
            c = dict(route='api', tree=('leaf', name, [rnd(p) for p in LEAVES[name][0](rng)]), rs=[0.0, 0.7, 1.3, 2.9, 5.5, 12.0, 21.0, 29.5]); rep.case('leaf', c); check_case(rep, c, 'leaf-' + name)
        spline_cases(rep, rng, max(2, pl.get('n', 30) // 6))
        for i in range(pl.get('n', 30)):
            c = gen_case(rng); rep.case(c['route'], c); check_case(rep, c, 'seeded-%d' % i)
    rep.finish()

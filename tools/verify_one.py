"""usage: verify_one.py <contracts module> <prop> <qualname>...   verify single functions under their contracts (development aid)"""
import sys; sys.path.insert(0,'/verif')
from pyvc import symexec, solve, extract
from pyvc.registry import REG
import importlib
mod = importlib.import_module(sys.argv[1]); prop=sys.argv[2]
import contracts.lammps_table, contracts.potential, contracts.dlpoly_table
import os
MUT = os.environ.get('MUT')      # MUT='old=>new'  apply an in-memory mutant to the function(s)
for q in sys.argv[3:]:
    cands = [c for (f, qn), c in REG.contracts.items() if qn == q and not c.external and f != '<ext>']
    c = REG.get(getattr(mod, 'FILE', ''), q) or (cands[0] if cands else None)
    fi_ = extract.mutant(extract.get_func(c.file, c.qualname), *MUT.split('=>')) if MUT else None
    ex = symexec.verify(prop, c, track_raises=(c.on_raise is not None or c.raises_when is not None), fi=fi_)
    solve.discharge_all(ex.obls)
    for o in ex.obls:
        if o.result!='proved' or o.solver_s>0.5: print(o.name, o.result, o.backend, round(o.solver_s,3), o.reason or '')
    for w in ex.vacuity: print('VACUOUS:', w)
    print(q, len(ex.obls), 'obligations', sum(o.result=='proved' for o in ex.obls), 'proved')

"""Contracts for atsim/potentials/_lammpsWriteEAM.py (C03, C04, C19, C17)."""
import z3
from .common import *
from .eam_common import *
from pyvc.symexec import join_fn

FILE = 'atsim/potentials/_lammpsWriteEAM.py'
NUM = "% 20.16e"

# ---------------------------------------------------------------- header
labels = SpecSeq('setfl_labels', [EamList], lambda es, k: z3.Unit(tok("%s", EAM['species'](es[k]))), result=DocList, elem_len=1)
EMPTY3 = z3.Concat(z3.Unit(EMPTY), z3.Unit(EMPTY), z3.Unit(EMPTY))

def header(nrho, drho, nr, dr, cutoff, es, comments):
    n = z3.Length(es)
    c3 = z3.SubSeq(z3.Concat(comments, EMPTY3), 0, 3)
    return cat(join_fn(lit_doc("\n"), c3), NL,
               join_fn(lit_doc(" "), z3.Concat(z3.Unit(tok("%d", n)), labels(es, n))), NL,
               tok("%d  %20.16e %d  %20.16e  %20.16e", nrho, drho, nr, dr, cutoff), NL)

REG.add(Contract(FILE, '_writeSetFLHeader',
    params=[('nrho', T.Int), ('drho', T.Real), ('nr', T.Int), ('dr', T.Real), ('cutoff', T.Real),
            ('eampots', T.List(T.Obj('EAMPotential'))), ('comments', T.List(T.Text)), ('out', T.Doc)],
    modifies=['out'],
    ensures=lambda v, old, res: [v.out == cat(old.out, header(v.nrho, v.drho, v.nr, v.dr, v.cutoff, v.eampots, v.comments))],
    comprehensions={0: (labels, lambda v: [v.eampots])},
    on_raise=lambda v, old: [v.out == old.out],
    carries=['post'], props=['C03']))

def elem_header(e):
    return cat(tok("%d %20.16e %20.16e %s", EAM['Z'](e), EAM['mass'](e), EAM['a0'](e), EAM['lattice'](e)), NL)

REG.add(Contract(FILE, '_writeSetFLElementHeader',
    params=[('eampot', T.Obj('EAMPotential')), ('out', T.Doc)], modifies=['out'],
    ensures=lambda v, old, res: [v.out == cat(old.out, elem_header(v.eampot))],
    on_raise=lambda v, old: [v.out == old.out], carries=['post'], props=['C03']))

# ---------------------------------------------------------------- value blocks: n values f(i*step), one per line
def fval(f, step, i): return cat(tok(NUM, app(f, real(i) * step)), NL)
fvals = SpecSeq('setfl_vals', [Fn, RealS], fval, elem_len=2)

REG.add(Contract(FILE, '_writeSetFLEmbeddingFunction',
    params=[('nrho', T.Int), ('drho', T.Real), ('eampot', T.Obj('EAMPotential')), ('out', T.Doc)], modifies=['out'],
    ensures=lambda v, old, res: [v.out == cat(old.out, fvals(EAM['embed'](v.eampot), v.drho, v.nrho))],
    invariants={0: lambda v, old: [v.out == old.out, v.workout == fvals(EAM['embed'](v.eampot), v.drho, v._i0)]},
    on_raise=lambda v, old: [v.out == old.out], carries=['post', 'preserve/0'], props=['C03']))

REG.add(Contract(FILE, '_writeDensityFunction',
    params=[('func', T.Fn), ('nr', T.Int), ('dr', T.Real), ('out', T.Doc)], modifies=['out'],
    ensures=lambda v, old, res: [v.out == cat(old.out, fvals(v.func, v.dr, v.nr))],
    invariants={0: lambda v, old: [v.out == cat(old.out, fvals(v.func, v.dr, v._i0))]},
    on_raise=lambda v, old: [],       # streams into the buffer it is given (always a local StringIO at its call sites)
    carries=['post', 'preserve/0'], props=['C03', 'C04']))

REG.add(Contract(FILE, '_writeSetFLDensityFunction',
    params=[('eampot', T.Obj('EAMPotential')), ('eampots', T.List(T.Obj('EAMPotential'))), ('nr', T.Int), ('dr', T.Real), ('out', T.Doc)],
    modifies=['out'],
    ensures=lambda v, old, res: [v.out == cat(old.out, fvals(EAM['dens'](v.eampot), v.dr, v.nr))],
    on_raise=lambda v, old: [v.out == old.out], carries=['post'], props=['C03']))

# ---------------------------------------------------------------- pair potentials: r*phi for (i, j<=i) in header order
def pval(ps, a, b, dr, scale, k):
    r = real(k) * dr
    val = phi(ps, a, b, r)
    return cat(tok(NUM, z3.If(scale, val * r, val)), NL)
# values of one (i,j) block
pvals = SpecSeq('setfl_pvals', [PotList, StrS, StrS, RealS, BoolS], pval, elem_len=2)
def sp(es, i): return EAM['species'](es[i])
# blocks j = 0..m-1 of row i
prow = SpecSeq('setfl_prow', [PotList, EamList, IntS, IntS, RealS, BoolS],
               lambda ps, es, nr, i, dr, scale, j: pvals(ps, sp(es, i), sp(es, j), dr, scale, nr))
# rows i = 0..n-1, row i holding blocks j = 0..i  (lower triangle in header order)
ptri = SpecSeq('setfl_ptri', [PotList, EamList, IntS, RealS, BoolS],
               lambda ps, es, nr, dr, scale, i: prow(ps, es, nr, i, dr, scale, i + 1))

def pair_blocks(ps, es, nr, dr, scale): return ptri(ps, es, nr, dr, scale, z3.Length(es))

def _dict_inv(v, n):
    """the lookup table built from the first n pair potentials: key present iff some potential has that unordered
    pair, and then it maps to the LAST such potential"""
    x, y = z3.String('x!d'), z3.String('y!d')
    d = v.pairpotsdict
    k = KeySort.mk(x, y)
    i = find(v.pairpots, x, y, n)
    return [forall([x, y], z3.And(z3.Select(d.has, k) == z3.And(x <= y, i >= 0),
                                  z3.Implies(z3.And(x <= y, i >= 0), z3.Select(d.get, k) == v.pairpots[i])),
                   pattern=z3.Select(d.has, k))]

REG.add(Contract(FILE, '_writeSetFLPairPots',
    params=[('nr', T.Int), ('dr', T.Real), ('eampots', T.List(T.Obj('EAMPotential'))), ('pairpots', T.List(T.Obj('Potential'))),
            ('out', T.Doc), ('scale_r', T.Bool)],
    requires=lambda v: [v.nr >= 0],
    modifies=['out'],
    ensures=lambda v, old, res: [v.out == cat(old.out, pair_blocks(v.pairpots, v.eampots, v.nr, v.dr, v.scale_r))],
    ghost={'pairpotsdict': T.Dict(T.Tuple(T.Str, T.Str), T.Obj('Potential'))},
    invariants={
        0: lambda v, old: [v.out == old.out, v.workout == EMPTY] + _dict_inv(v, v._i0),
        1: lambda v, old: [v.out == old.out] + _dict_inv(v, z3.Length(v.pairpots)) +
                          [v.workout == ptri(v.pairpots, v.eampots, v.nr, v.dr, v.scale_r, v._i1)],
        2: lambda v, old: [v.out == old.out] + _dict_inv(v, z3.Length(v.pairpots)) +
                          [v.workout == cat(ptri(v.pairpots, v.eampots, v.nr, v.dr, v.scale_r, v.i),
                                            prow(v.pairpots, v.eampots, v.nr, v.i, v.dr, v.scale_r, v._i2)),
                           v.i >= 0, v.i < z3.Length(v.eampots)],
        3: lambda v, old: [v.out == old.out] + _dict_inv(v, z3.Length(v.pairpots)) +
                          [v.workout == cat(ptri(v.pairpots, v.eampots, v.nr, v.dr, v.scale_r, v.i),
                                            prow(v.pairpots, v.eampots, v.nr, v.i, v.dr, v.scale_r, v.j),
                                            pvals(v.pairpots, sp(v.eampots, v.i), sp(v.eampots, v.j), v.dr, v.scale_r, v._i3)),
                           v.i >= 0, v.i < z3.Length(v.eampots), v.j >= 0, v.j <= v.i],
    },
    on_raise=lambda v, old: [v.out == old.out],
    carries=['post', 'preserve/1', 'preserve/2', 'preserve/3'], props=['C03', 'C19', 'C17']))

# ---------------------------------------------------------------- Finnis-Sinclair densities (C04)
def d_fs(central, neighbour_label):
    """d(A,B): the density function declared for central species A (an EAMPotential) and neighbour B"""
    return z3.Select(EAM['dens_get'](central), neighbour_label)
def declared_fs(central, neighbour_label):
    return z3.Select(EAM['dens_has'](central), neighbour_label)

# element block X of an eam/fs file: density array number k is the density an X neighbour contributes at a site of
# element k (LAMMPS: rho[i] += rhor[type2rhor[jtype][itype]]) = d(l_k, X)
fs_dens = SpecSeq('setfl_fs_dens', [EamList, EAM['sort'], IntS, RealS],
                  lambda es, X, nr, dr, k: fvals(d_fs(es[k], EAM['species'](X)), dr, nr))

def _all_declared(es, X):
    k = z3.Int('k!fs')
    return z3.ForAll([k], z3.Implies(z3.And(k >= 0, k < z3.Length(es)), declared_fs(es[k], EAM['species'](X))))

REG.add(Contract(FILE, '_writeSetFLDensityFunctionFinnisSinclair',
    params=[('eampot', T.Obj('EAMPotential')), ('eampots', T.List(T.Obj('EAMPotential'))), ('nr', T.Int), ('dr', T.Real), ('out', T.Doc)],
    requires=lambda v: [_all_declared(v.eampots, v.eampot)],
    modifies=['out'],
    ensures=lambda v, old, res: [v.out == cat(old.out, fs_dens(v.eampots, v.eampot, v.nr, v.dr, z3.Length(v.eampots)))],
    invariants={0: lambda v, old: [v.out == old.out, v.workout == fs_dens(v.eampots, v.eampot, v.nr, v.dr, v._i0)]},
    on_raise=lambda v, old: [v.out == old.out], carries=['post', 'preserve/0'], props=['C04']))

# ---------------------------------------------------------------- whole files
def elem_block(es, nrho, drho, nr, dr, k):
    e = es[k]
    return cat(elem_header(e), fvals(EAM['embed'](e), drho, nrho), fvals(EAM['dens'](e), dr, nr))
elem_blocks = SpecSeq('setfl_elems', [EamList, IntS, RealS, IntS, RealS], elem_block)

def elem_block_fs(es, nrho, drho, nr, dr, k):
    e = es[k]
    return cat(elem_header(e), fvals(EAM['embed'](e), drho, nrho), fs_dens(es, e, nr, dr, z3.Length(es)))
elem_blocks_fs = SpecSeq('setfl_elems_fs', [EamList, IntS, RealS, IntS, RealS], elem_block_fs)

def setfl_file(nrho, drho, nr, dr, cutoff, es, ps, comments, blocks=elem_blocks):
    return cat(header(nrho, drho, nr, dr, cutoff, es, comments),
               blocks(es, nrho, drho, nr, dr, z3.Length(es)),
               pair_blocks(ps, es, nr, dr, z3.BoolVal(True)))

def _eff_cutoff(v):
    c = v.val('cutoff')      # Opt
    return z3.If(z3.Or(c.isnone, c.val.z == 0), real(v.nr) * v.dr, c.val.z)

def _all_declared_all(es):
    k, m = z3.Int('k!fs'), z3.Int('m!fs')
    n = z3.Length(es)
    return z3.ForAll([k, m], z3.Implies(z3.And(k >= 0, k < n, m >= 0, m < n), declared_fs(es[k], EAM['species'](es[m]))))

REG.add(Contract(FILE, '_writeSetFL', inline=True))

_P = [('nrho', T.Int), ('drho', T.Real), ('nr', T.Int), ('dr', T.Real), ('eampots', T.List(T.Obj('EAMPotential'))),
      ('pairpots', T.List(T.Obj('Potential'))), ('out', T.Doc), ('comments', T.List(T.Text)), ('cutoff', T.Opt(T.Real))]

def _file_contract(name, blocks, extra_req):
    return Contract(FILE, name, params=_P,
        requires=lambda v: [v.nr >= 0] + extra_req(v),
        modifies=['out'],
        ensures=lambda v, old, res: [v.out == cat(old.out, setfl_file(v.nrho, v.drho, v.nr, v.dr, _eff_cutoff(old), v.eampots, v.pairpots, v.comments, blocks))],
        invariants={0: lambda v, old: [v.out == old.out, v.cutoff == _eff_cutoff(old),
                                       v.workout == cat(header(v.nrho, v.drho, v.nr, v.dr, v.cutoff, v.eampots, v.comments),
                                                        blocks(v.eampots, v.nrho, v.drho, v.nr, v.dr, v._i0))]},
        on_raise=lambda v, old: [v.out == old.out],
        carries=['post', 'preserve/0'], props=['C03', 'C04', 'C17'])

REG.add(_file_contract('writeSetFL', elem_blocks, lambda v: []))
REG.add(_file_contract('writeSetFLFinnisSinclair', elem_blocks_fs, lambda v: [_all_declared_all(v.eampots)]))

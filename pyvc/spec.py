"""Spec combinators over documents, defined by their unfolding equations.

A SpecSeq F(p..., n) denotes  elem(p,0) ++ elem(p,1) ++ ... ++ elem(p,n-1)  (n <= 0: empty).
It is an uninterpreted z3 function; the unfolding equation is *instantiated by the
generator* at the applications occurring in an obligation (depth 1 by default), which keeps
every query quantifier-free.  Generic lemmas (length) are proved once per run by induction
(speclib obligations) and then instantiated the same way.
"""
import z3
from .core import *

_REGISTRY = {}    # decl name -> SpecSeq

class SpecSeq(object):
    def __init__(self, name, param_sorts, elem, result=Doc, elem_len=None, sep=None):
        """elem(*params, k) -> term of sort `result`; elem_len: number of tokens/items per
        element when constant (enables the length lemma); sep(*params) -> separator Doc for joined
        sequences (then F(p,n) = e0 ++ sep ++ e1 ... ++ e(n-1))."""
        self.name, self.param_sorts, self.elem, self.result = name, list(param_sorts), elem, result
        self.elem_len, self.sep = elem_len, sep
        self.f = z3.Function(name, *(self.param_sorts + [IntS, result]))
        self.empty = z3.Empty(result)
        _REGISTRY[name] = self

    def __call__(self, *args):
        args = [coerce_py(a) for a in args]
        assert len(args) == len(self.param_sorts) + 1, (self.name, args)
        return self.f(*args)

    def unfold(self, args):
        """axiom instances for the application F(args)"""
        ps, t = list(args[:-1]), args[-1]
        F = self.f
        ax = [z3.Implies(t <= 0, F(*(ps + [t])) == self.empty)]
        if self.sep is None:
            ax.append(z3.Implies(t >= 1, F(*(ps + [t])) == z3.Concat(F(*(ps + [t - 1])), self.elem(*(ps + [t - 1])))))
        else:
            ax.append(z3.Implies(t == 1, F(*(ps + [t])) == self.elem(*(ps + [z3.IntVal(0)]))))
            ax.append(z3.Implies(t >= 2, F(*(ps + [t])) == z3.Concat(F(*(ps + [t - 1])), self.sep(*ps), self.elem(*(ps + [t - 1])))))
        if self.elem_len is not None and self.sep is None:
            ax.append(z3.Implies(t >= 0, z3.Length(F(*(ps + [t]))) == t * self.elem_len))
            ax.append(z3.Implies(t < 0, z3.Length(F(*(ps + [t]))) == 0))
        return ax

    def lemma_obligations(self):
        """induction proof of the length lemma used above: base and step, with fresh parameters"""
        if self.elem_len is None or self.sep is not None: return []
        ps = [z3.FreshConst(s, 'p') for s in self.param_sorts]
        n = z3.FreshConst(IntS, 'n')
        F = self.f
        base_h = [F(*(ps + [z3.IntVal(0)])) == self.empty]
        base_g = z3.Length(F(*(ps + [z3.IntVal(0)]))) == 0
        step_h = [n >= 0, z3.Length(F(*(ps + [n]))) == n * self.elem_len,
                  F(*(ps + [n + 1])) == z3.Concat(F(*(ps + [n])), self.elem(*(ps + [n])))]
        step_g = z3.Length(F(*(ps + [n + 1]))) == (n + 1) * self.elem_len
        out = [('speclib/%s/len/base' % self.name, base_h, base_g),
               ('speclib/%s/len/step' % self.name, step_h, step_g)]
        # nth lemma: for 0 <= k < n the k-th element of F(p,n) is elem(p,k).  Induction on n >= k+1.
        k = z3.FreshConst(IntS, 'k')
        L = self.elem_len
        def nth(n_): return z3.SubSeq(F(*(ps + [n_])), k * L, z3.IntVal(L)) == self.elem(*(ps + [k]))
        lenf = lambda n_: z3.Length(F(*(ps + [n_]))) == n_ * L
        b_h = [k >= 0, lenf(k), F(*(ps + [k + 1])) == z3.Concat(F(*(ps + [k])), self.elem(*(ps + [k]))), z3.Length(self.elem(*(ps + [k]))) == L]
        s_h = [k >= 0, n > k, lenf(n), nth(n), F(*(ps + [n + 1])) == z3.Concat(F(*(ps + [n])), self.elem(*(ps + [n])))]
        out += [('speclib/%s/nth/base' % self.name, b_h, nth(k + 1)),
                ('speclib/%s/nth/step' % self.name, s_h, nth(n + 1))]
        if getattr(self, 'want_member_lemma', False) and self.elem_len == 1 and self.result != Doc and self.result != DocList:
            # membership lemma (member_lemma) by induction on n, for a fixed y
            y = z3.FreshConst(self.result.basis(), 'y'); j = z3.Int('j!mlp')
            def mem(n_): return z3.Contains(F(*(ps + [n_])), z3.Unit(y)) == z3.Exists([j], z3.And(0 <= j, j < n_, self.elem(*(ps + [j]))[0] == y))
            out += [('speclib/%s/mem/base' % self.name, [F(*(ps + [z3.IntVal(0)])) == self.empty], mem(z3.IntVal(0))),
                    ('speclib/%s/mem/step' % self.name, [n >= 0, mem(n), F(*(ps + [n + 1])) == z3.Concat(F(*(ps + [n])), self.elem(*(ps + [n])))], mem(n + 1))]
        return out

    def member_lemma(self):
        """for a list-valued sequence with one item per element: y is in F(p, n) iff it is item(p, j) for some j < n
        (proved by induction on n with the speclib obligations `mem/base`, `mem/step`)"""
        ps = [z3.Const('p%d!ml' % i, s_) for i, s_ in enumerate(self.param_sorts)]
        n, j = z3.Int('n!ml'), z3.Int('j!ml'); y = z3.Const('y!ml', self.result.basis())
        F = self.f(*(ps + [n]))
        return z3.ForAll(ps + [n, y], z3.Implies(n >= 0, z3.Contains(F, z3.Unit(y)) == z3.Exists([j], z3.And(0 <= j, j < n, self.elem(*(ps + [j]))[0] == y))),
                         patterns=[z3.Contains(F, z3.Unit(y))])

    def nth_instance(self, ps, n, k):
        """instance of the nth lemma (proved by the speclib obligations above)"""
        L = self.elem_len
        return z3.Implies(z3.And(k >= 0, k < n), z3.SubSeq(self.f(*(list(ps) + [n])), k * L, z3.IntVal(L)) == self.elem(*(list(ps) + [k])))


class FilterSeq(SpecSeq):
    """[item(p,k) for k in range(n) if cond(p,k)]: element k contributes the unit sequence [item] when cond holds, nothing otherwise.
    Lemmas (proved per run by induction on n, for a fixed witness): membership is sound (every member is a kept item), complete
    (every kept item is a member) and the list is no longer than the source."""
    def __init__(self, name, param_sorts, cond, item, item_sort):
        self.cond, self.item, self.item_sort = cond, item, item_sort
        rs = z3.SeqSort(item_sort)
        SpecSeq.__init__(self, name, param_sorts, lambda *a: z3.If(cond(*a), z3.Unit(item(*a)), z3.Empty(rs)), result=rs)

    def sound_lemma(self):
        """every member is a kept item, as a hypothesis (proved by induction with `members-are-kept-items/base|step`: the property module must list
        this sequence in SPECSEQS so that the proof is part of the same run)"""
        ps = [z3.Const('p%d!fs' % i, s_) for i, s_ in enumerate(self.param_sorts)]
        t, j = z3.Int('t!fs'), z3.Int('j!fs'); y = z3.Const('y!fs', self.item_sort)
        F = self.f(*(ps + [t]))
        return z3.ForAll(ps + [t, y], z3.Implies(z3.And(t >= 0, z3.Contains(F, z3.Unit(y))),
                                                 z3.Exists([j], z3.And(0 <= j, j < t, self.cond(*(ps + [j])), self.item(*(ps + [j])) == y))),
                         patterns=[z3.Contains(F, z3.Unit(y))])

    def positions_lemma(self):
        self.want_positions_lemma = True
        return self._positions_lemma()
    def _positions_lemma(self):
        """the item at every position of the filtered list is a kept item of the source, as a hypothesis (proved by induction with
        `positions-are-kept-items/base|step`; the property module must list this sequence in SPECSEQS)"""
        ps = [z3.Const('p%d!fp' % i, s_) for i, s_ in enumerate(self.param_sorts)]
        t, j, k = z3.Int('t!fp'), z3.Int('j!fp'), z3.Int('k!fp')
        F = self.f(*(ps + [t]))
        return z3.ForAll(ps + [t, k], z3.Implies(z3.And(t >= 0, 0 <= k, k < z3.Length(F)),
                                                 z3.Exists([j], z3.And(0 <= j, j < t, self.cond(*(ps + [j])), self.item(*(ps + [j])) == F[k]))),
                         patterns=[F[k]])

    def lemma_obligations(self):
        out0 = []
        ps0 = [z3.FreshConst(s_, 'p') for s_ in self.param_sorts]; n0, k0 = z3.FreshConst(IntS, 'n'), z3.FreshConst(IntS, 'sk_k'); j0 = z3.Int('j!pw')
        F0 = lambda t: self.f(*(ps0 + [t]))
        def pos(t, k_): return z3.Implies(z3.And(0 <= k_, k_ < z3.Length(F0(t))), z3.Exists([j0], z3.And(0 <= j0, j0 < t, self.cond(*(ps0 + [j0])), self.item(*(ps0 + [j0])) == F0(t)[k_])))
        kq = z3.Int('k!pq')
        rs_ = z3.SeqSort(self.item_sort); A0, A1 = z3.FreshConst(rs_, 'A'), z3.FreshConst(rs_, 'A1'); x0 = z3.FreshConst(self.item_sort, 'x'); i0 = z3.FreshConst(IntS, 'sk_i'); iq = z3.Int('i!pc')
        Fn_, Fn1_, it_ = F0(n0), F0(n0 + 1), self.item(*(ps0 + [n0]))
        cuts = [z3.ForAll([iq], z3.Implies(z3.And(0 <= iq, iq < z3.Length(Fn_)), Fn1_[iq] == Fn_[iq])), Fn1_[z3.Length(Fn_)] == it_]      # instances of the cut facts (A0 := F(n), A1 := F(n+1), x := item n)
        if getattr(self, 'want_positions_lemma', False): out0 += [('speclib/%s/positions-are-kept-items/base' % self.name, [F0(z3.IntVal(0)) == self.empty], pos(z3.IntVal(0), k0)),
                 # the step by cases on whether element n is kept (the unfolding F(n+1) == F(n) ++ (if kept [item n] else []) with the condition decided)
                 ('speclib/%s/positions-are-kept-items/step-kept' % self.name,
                  [n0 >= 0, z3.ForAll([kq], pos(n0, kq)), self.cond(*(ps0 + [n0])), F0(n0 + 1) == z3.Concat(F0(n0), z3.Unit(self.item(*(ps0 + [n0])))),
                   z3.Length(F0(n0 + 1)) == z3.Length(F0(n0)) + 1] + cuts, pos(n0 + 1, k0)),
                 # the three facts about `xs ++ [x]` used above, each discharged on its own (a cut)
                 ('speclib/%s/positions-are-kept-items/step-kept/cut-old-positions' % self.name, [A1 == z3.Concat(A0, z3.Unit(x0)), 0 <= i0, i0 < z3.Length(A0)], A1[i0] == A0[i0]),
                 ('speclib/%s/positions-are-kept-items/step-kept/cut-new-position' % self.name, [A1 == z3.Concat(A0, z3.Unit(x0))], A1[z3.Length(A0)] == x0),
                 ('speclib/%s/positions-are-kept-items/step-kept/cut-length' % self.name, [A1 == z3.Concat(A0, z3.Unit(x0))], z3.Length(A1) == z3.Length(A0) + 1),
                 ('speclib/%s/positions-are-kept-items/step-dropped' % self.name,
                  [n0 >= 0, z3.ForAll([kq], pos(n0, kq)), z3.Not(self.cond(*(ps0 + [n0]))), F0(n0 + 1) == F0(n0)], pos(n0 + 1, k0))]
        ps = [z3.FreshConst(s_, 'p') for s_ in self.param_sorts]
        n, k = z3.FreshConst(IntS, 'n'), z3.FreshConst(IntS, 'k'); y = z3.FreshConst(self.item_sort, 'y')
        F = lambda t: self.f(*(ps + [t]))
        unfold = lambda t: F(t + 1) == z3.Concat(F(t), self.elem(*(ps + [t])))
        j = z3.Int('j!w')
        def sound(t): return z3.Implies(z3.Contains(F(t), z3.Unit(y)), z3.Exists([j], z3.And(0 <= j, j < t, self.cond(*(ps + [j])), self.item(*(ps + [j])) == y)))
        def complete(t): return z3.Contains(F(t), z3.Unit(self.item(*(ps + [k]))))
        nm = 'speclib/%s/' % self.name
        return out0 + [(nm + 'members-are-kept-items/base', [F(z3.IntVal(0)) == self.empty], sound(z3.IntVal(0))),
                (nm + 'members-are-kept-items/step', [n >= 0, sound(n), unfold(n)], sound(n + 1)),
                (nm + 'kept-items-are-members/base', [k >= 0, self.cond(*(ps + [k])), unfold(k)], complete(k + 1)),
                (nm + 'kept-items-are-members/step', [k >= 0, n > k, complete(n), unfold(n)], complete(n + 1)),
                (nm + 'no-longer-than-source/base', [F(z3.IntVal(0)) == self.empty], z3.Length(F(z3.IntVal(0))) <= 0),
                (nm + 'no-longer-than-source/step', [n >= 0, z3.Length(F(n)) <= n, unfold(n)], z3.Length(F(n + 1)) <= n + 1)]


def _walk(e, seen, out):
    if e.get_id() in seen: return
    seen.add(e.get_id())
    if z3.is_app(e):
        d = e.decl()
        if d.kind() == z3.Z3_OP_UNINTERPRETED and d.name() in _REGISTRY and e.num_args() > 0:
            out.append(e)
        for c in e.children(): _walk(c, seen, out)
    elif z3.is_quantifier(e):
        _walk(e.body(), seen, out)

def apps_in(formulas):
    apps, seen = [], set()
    for f in formulas: _walk(f, seen, apps)
    return apps

def instantiate(formulas, depth=1, skip=()):
    """unfolding instances for every SpecSeq application occurring in `formulas`
    (applications whose ast id is in `skip` are left folded: omitting an axiom instance is always sound)"""
    axioms, done = [], set(skip)
    frontier = list(formulas)
    for _ in range(depth):
        apps, seen = [], set()
        for f in frontier: _walk(f, seen, apps)
        new = []
        for a in apps:
            if a.get_id() in done: continue
            done.add(a.get_id())
            if any(_has_bound_var(c) for c in a.children()): continue
            ax = _REGISTRY[a.decl().name()].unfold(a.children())
            new.extend(ax)
        axioms.extend(new)
        frontier = new
        if not new: break
    return axioms

def _has_bound_var(e):
    stack = [e]
    while stack:
        x = stack.pop()
        if z3.is_var(x): return True
        stack.extend(x.children())
    return False

def all_specs(): return dict(_REGISTRY)


class SpecAcc(object):
    """F(p..., 0) = base(p...);  F(p..., t) = step(p..., t-1, F(p..., t-1)) for t >= 1.
    Used for accumulated scalars (r += dr) so that loop obligations stay linear; the closed form is
    proved separately by induction (closed_form_obligations)."""
    def __init__(self, name, param_sorts, base, step, result=RealS, closed=None):
        self.name, self.param_sorts, self.base, self.step, self.result, self.closed = name, list(param_sorts), base, step, result, closed
        self.f = z3.Function(name, *(self.param_sorts + [IntS, result]))
        _REGISTRY[name] = self
    def __call__(self, *args):
        args = [coerce_py(a) for a in args]
        return self.f(*args)
    def unfold(self, args):
        ps, t = list(args[:-1]), args[-1]
        F = self.f
        return [z3.Implies(t == 0, F(*(ps + [t])) == self.base(*ps)),
                z3.Implies(t >= 1, F(*(ps + [t])) == self.step(*(ps + [t - 1, F(*(ps + [t - 1]))])))]
    def lemma_obligations(self):
        if self.closed is None: return []
        ps = [z3.FreshConst(s, 'p') for s in self.param_sorts]
        n = z3.FreshConst(IntS, 'n')
        F = self.f
        return [('speclib/%s/closed/base' % self.name, [F(*(ps + [z3.IntVal(0)])) == self.base(*ps)],
                 F(*(ps + [z3.IntVal(0)])) == self.closed(*(ps + [z3.IntVal(0)]))),
                ('speclib/%s/closed/step' % self.name,
                 [n >= 0, F(*(ps + [n])) == self.closed(*(ps + [n])), F(*(ps + [n + 1])) == self.step(*(ps + [n, F(*(ps + [n]))]))],
                 F(*(ps + [n + 1])) == self.closed(*(ps + [n + 1])))]

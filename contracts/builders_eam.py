"""Contracts for the Finnis-Sinclair part of config/_eam_potential_builder.py (C04, C20): one density function per declared A->B,
a second declaration of the same A->B is rejected."""
import z3
from .common import *
from . import builders as BU

F_EB = FILE = 'atsim/potentials/config/_eam_potential_builder.py'
REG.add_class(ClassDecl('atsim/potentials/config/_common.py', 'EAMFSSpeciesTuple', {'from_species': T.Str, 'to_species': T.Str}, external=True))
REG.add_class(ClassDecl('atsim/potentials/config/_common.py', 'EAMFSDensityTuple', {'species': T.Obj('EAMFSSpeciesTuple'), 'potential_form_instance': T.Obj('PFInstance')}, external=True))
REG.add_class(ClassDecl(F_EB, 'EAM_Potential_Builder_FS', {}))
DT = ObjSort('EAMFSDensityTuple'); DTL = z3.SeqSort(DT); FSp = ObjSort('EAMFSSpeciesTuple')
d_sp = field('EAMFSDensityTuple', 'species', FSp); d_inst = field('EAMFSDensityTuple', 'potential_form_instance', BU.PFI)
sp_from = field('EAMFSSpeciesTuple', 'from_species', StrS); sp_to = field('EAMFSSpeciesTuple', 'to_species', StrS)
def frm(t): return sp_from(d_sp(t))
def to(t): return sp_to(d_sp(t))
Inner = T.Dict(T.Str, T.Fn); Outer = T.Dict(T.Str, Inner); IS = Inner.sort()

OS = Outer.sort()
def _hg(d): return (OS.has(d), OS.get(d)) if z3.is_expr(d) else (d.has, d.get)       # a dict as one term (result) or as a pair of arrays (variable)
def has2(d, a, b): h, g = _hg(d); return z3.And(z3.Select(h, a), z3.Select(IS.has(z3.Select(g, a)), b))
def get2(d, a, b): h, g = _hg(d); return z3.Select(IS.get(z3.Select(g, a)), b)
def no_dups(rows, n):
    i, j = z3.Int('i!f'), z3.Int('j!f')
    return z3.ForAll([i, j], z3.Implies(z3.And(0 <= i, i < j, j < n), z3.Not(z3.And(frm(rows[i]) == frm(rows[j]), to(rows[i]) == to(rows[j])))))
def table_is(d, rows, n, pfb):
    a, b = z3.Strings('a!f b!f'); j = z3.Int('j!g')
    return [z3.ForAll([a, b], z3.Implies(has2(d, a, b), z3.Exists([j], z3.And(0 <= j, j < n, frm(rows[j]) == a, to(rows[j]) == b)))),
            z3.ForAll([j], z3.Implies(z3.And(0 <= j, j < n), z3.And(has2(d, frm(rows[j]), to(rows[j])), get2(d, frm(rows[j]), to(rows[j])) == BU.DEN(pfb, d_inst(rows[j])))))]

def _inv(v, old):
    return [no_dups(v.density, v._i0)] + table_is(v.outdict, v.density, v._i0, v.potential_form_builder)
def _post(v, old, res):
    n = z3.Length(v.density)
    return [no_dups(v.density, n)] + table_is(res, v.density, n, v.potential_form_builder)
def _raises(v, old, exc):
    i, j = z3.Int('i!h'), z3.Int('j!h'); rows = v.density
    if exc.origin is None and exc.cls == 'ConfigurationException':
        return [z3.Exists([i, j], z3.And(0 <= i, i < j, j < z3.Length(rows), frm(rows[i]) == frm(rows[j]), to(rows[i]) == to(rows[j])))]
    return [z3.BoolVal(exc.cls in ('ConfigurationException', 'UnknownModifierException', 'UnknownPotentialFormException'))]

REG.add(Contract(F_EB, 'EAM_Potential_Builder_FS._density_to_potential_form_dict',
    params=[('self', T.Obj('EAM_Potential_Builder_FS')), ('density', T.List(T.Obj('EAMFSDensityTuple'))), ('potential_form_builder', T.Obj('Potential_Form_Builder'))],
    result=Outer, ensures=_post, post_names=['no-A->B-declared-twice', 'only-declared-pairs', 'every-declared-pair-with-the-function-its-definition-denotes'],
    invariants={0: _inv}, ghost={'outdict': Outer}, raises_when=_raises, on_raise=lambda v, old: [], instantiate_int_foralls=True,
    carries=['post', 'preserve/0', 'raises'], props=['C04', 'C20']))

"""Symbolic values and type descriptors used by the executor and by contracts."""
import z3
from .core import *

# ----------------------------------------------------------------------------------
# type descriptors (used in contract parameter declarations and class field tables)
# ----------------------------------------------------------------------------------
class Ty(object):
    def __init__(self, kind, *args): self.kind, self.args = kind, args
    def __repr__(self): return 'T.%s%s' % (self.kind, self.args if self.args else '')
    def __eq__(self, o): return isinstance(o, Ty) and (self.kind, self.args) == (o.kind, o.args)
    def __hash__(self): return hash((self.kind, self.args))
    def sort(self):
        k = self.kind
        if k == 'Int': return IntS
        if k == 'Real': return RealS
        if k == 'Bool': return BoolS
        if k == 'Str': return StrS
        if k in ('Text', 'Doc'): return Doc
        if k == 'Fn': return Fn
        if k == 'Val': return Val
        if k == 'Comb': return CombS
        if k == 'Obj': return ObjSort(self.args[0])
        if k == 'List': return z3.SeqSort(self.args[0].sort())
        if k == 'Tuple':
            from .symexec import TupleSort
            return TupleSort([a.sort() for a in self.args])
        if k == 'Dict': return DictSort(self.args[0].sort(), self.args[1].sort())
        raise Unsupported('no sort for %r' % self)

_dict_sorts = {}
def DictSort(ks, vs):
    """a finite map as one term (value of another map, result of a contract): mk(has : K -> Bool, get : K -> V)"""
    key = (str(ks), str(vs))
    if key not in _dict_sorts:
        d = z3.Datatype('Dict_%s_%s' % tuple(x.replace(' ', '').replace('(', '_').replace(')', '') for x in key))
        d.declare('mkdict', ('has', z3.ArraySort(ks, BoolS)), ('get', z3.ArraySort(ks, vs)))
        _dict_sorts[key] = d.create()
    return _dict_sorts[key]

class _T(object):
    Int, Real, Bool, Str, Text, Fn, Val = Ty('Int'), Ty('Real'), Ty('Bool'), Ty('Str'), Ty('Text'), Ty('Fn'), Ty('Val')
    Doc = Ty('Doc')          # in-out document object (StringIO, file)
    Any = Ty('Any')          # parameter of a trusted / assumed contract whose value the contract does not speak about
    Comb = Ty('Comb')        # a repository function of two callables returning a callable, passed as a value
    NoneT = Ty('None')
    @staticmethod
    def Obj(cls): return Ty('Obj', cls)
    @staticmethod
    def List(elem): return Ty('List', elem)      # symbolic-length, immutable view
    @staticmethod
    def MList(elem): return Ty('MList', elem)
    @staticmethod
    def ListObj(cls, elem): return Ty('ListObj', cls, elem)     # an object that IS a list (subclass of list) of `elem`    # symbolic-length, mutable (in a cell)
    @staticmethod
    def Opt(t): return Ty('Opt', t)              # value or None, decided by a ghost boolean
    @staticmethod
    def Tuple(*ts): return Ty('Tuple', *ts)
    @staticmethod
    def NamedTuple(name, fields):
        t = Ty('Tuple', *[f[1] for f in fields]); t.nt = NTClass(name, [f[0] for f in fields]); return t
    @staticmethod
    def Set(k): return Ty('Set', k)
    @staticmethod
    def FnOrDict(k, v): return Ty('FnOrDict', k, v)
    @staticmethod
    def Func(file, qualname): return Ty('Func', file, qualname)   # parameter bound to one repository function
    @staticmethod
    def New(cls, **fields):                      # `self` of an __init__: a fresh record; with fields: a record that already has those (symbolic) attributes
        t = Ty('New', cls); t.init_fields = dict(fields); return t
    @staticmethod
    def Dict(k, v): return Ty('Dict', k, v)      # symbolic finite map with insertion order not observed
    @staticmethod
    def ODict(k, v): return Ty('ODict', k, v)    # the same with the insertion order of the keys tracked (dicts that are iterated over)
T = _T

# ----------------------------------------------------------------------------------
# values
# ----------------------------------------------------------------------------------
class V(object): pass

class Sc(V):
    """scalar: int / float / bool / str as a z3 term"""
    def __init__(self, z, py=None):
        self.z = z
        if py is None:
            s = z.sort()
            py = 'int' if s == IntS else 'float' if s == RealS else 'bool' if s == BoolS else 'str' if s == StrS else None
        self.py = py
    def __repr__(self): return 'Sc(%s:%s)' % (self.z, self.py)

class NoneV(V):
    def __repr__(self): return 'None'
NONE = NoneV()

class Opt(V):
    """a value that may be None: `isnone` is a z3 Bool; `val` is meaningful when not isnone"""
    def __init__(self, isnone, val): self.isnone, self.val = isnone, val

class Text(V):
    """immutable formatted text"""
    def __init__(self, z): self.z = z
    def __repr__(self): return 'Text(%s)' % self.z

class PyStr(V):
    """concrete Python string (templates, keys, constant labels)"""
    def __init__(self, s): self.s = s
    def __repr__(self): return 'PyStr(%r)' % self.s

class Tup(V):
    def __init__(self, items): self.items = list(items)
    def __repr__(self): return 'Tup%r' % (self.items,)

class NTClass(V):
    """a collections.namedtuple class"""
    def __init__(self, name, fields): self.name, self.fields = name, list(fields)

class NTup(Tup):
    def __init__(self, cls, items): Tup.__init__(self, items); self.cls = cls

class PyList(V):
    """list whose length is concrete (elements symbolic); lives in a cell when mutated"""
    def __init__(self, items): self.items = list(items)
    def __repr__(self): return 'PyList%r' % (self.items,)

class SeqV(V):
    """list/tuple of symbolic length: z3 sequence + element type"""
    def __init__(self, z, elem): self.z, self.elem = z, elem
    def __repr__(self): return 'SeqV(%s)' % self.z

class PyDict(V):
    """dict with concrete keys (keyword tables, % dict arguments, dispatch tables)"""
    def __init__(self, d): self.d = dict(d)

class SymDict(V):
    """finite map with symbolic keys: has : K -> Bool, get : K -> V (z3 arrays), plus key sort/elem types"""
    def __init__(self, has, get, kty, vty, order=None):
        self.has, self.get, self.kty, self.vty = has, get, kty, vty
        self.order = order      # z3 Seq of keys in insertion order when tracked (T.ODict), else None: iteration order then unspecified

class SymSet(V):
    """set with symbolic members: has : K -> Bool"""
    def __init__(self, has, kty): self.has, self.kty = has, kty

class PySet(V):
    """freshly created empty set (becomes a SymSet once its element type is known)"""
    def __init__(self): pass

class TupTerm(V):
    """tuple as one z3 datatype term (dict/set keys, elements of sorted key sequences)"""
    def __init__(self, z, tys): self.z, self.tys = z, tys

class Unknown(V):
    """value of a variable that is assigned inside a loop and whose value at the loop head (or after the loop) is not
    determined by its type: any use is rejected (checker error), it may only be overwritten"""
    def __init__(self, name): self.name = name
    def __repr__(self): return 'Unknown(%s)' % self.name

class Dual(V):
    """an attribute used by some callers as a callable and by others as a dict of callables
    (EAMPotential.electronDensityFunction): both views are carried"""
    def __init__(self, fn, dict_): self.fn, self.dict = fn, dict_

class ConstFactory(V):
    """a callable named by a contract (abstract_globals) whose call returns a fixed value"""
    def __init__(self, result): self.result = result

class Obj(V):
    def __init__(self, z, cls): self.z, self.cls = z, cls
    def __repr__(self): return 'Obj(%s:%s)' % (self.z, self.cls)

class Rec(V):
    """object under construction / with concretely known fields (lives in a cell)"""
    def __init__(self, cls, module, fields=None): self.cls, self.module, self.fields = cls, module, dict(fields or {})

class FnV(V):
    def __init__(self, z): self.z = z
    def __repr__(self): return 'Fn(%s)' % self.z

class Closure(V):
    def __init__(self, node, module, depth, self_val=None, cls=None, qual=None):
        self.node, self.module, self.depth, self.self_val, self.cls, self.qual = node, module, depth, self_val, cls, qual

class BoundMethod(V):
    def __init__(self, recv, name): self.recv, self.name = recv, name

class ClassV(V):
    def __init__(self, module, name): self.module, self.name = module, name

class ModuleV(V):
    def __init__(self, module=None, ext=None): self.module, self.ext = module, ext

class FuncV(V):
    """a top-level function of the repository, referred to by name (not yet called)"""
    def __init__(self, fi): self.fi = fi

class Builtin(V):
    def __init__(self, name): self.name = name
    def __repr__(self): return 'Builtin(%s)' % self.name

class Ref(V):
    """reference to a mutable object held in State.cells"""
    def __init__(self, id): self.id = id
    def __repr__(self): return 'Ref(%d)' % self.id

class DocObj(V):
    """content of a cell holding a StringIO / file: its text so far"""
    def __init__(self, z): self.z = z

class ExcV(V):
    def __init__(self, cls, args=(), origin=None): self.cls, self.args, self.origin = cls, list(args), origin
    def __repr__(self): return 'Exc(%s)' % self.cls


def wrap(ty, z):
    """z3 term of the sort of `ty` -> value"""
    k = ty.kind
    if k in ('Int', 'Real', 'Bool', 'Str'): return Sc(z)
    if k == 'Text': return Text(z)
    if k == 'Fn': return FnV(z)
    if k == 'Obj': return Obj(z, ty.args[0])
    if k == 'List': return SeqV(z, ty.args[0])
    if k == 'Val': return Sc(z, 'val')
    if k == 'Comb': return Sc(z, 'comb')
    if k == 'Tuple': return TupTerm(z, ty.args)
    if k == 'Dict':
        S = z.sort()
        return SymDict(S.accessor(0, 0)(z), S.accessor(0, 1)(z), ty.args[0], ty.args[1])
    raise Unsupported('wrap %r' % ty)

def unwrap(v):
    """value -> z3 term (for contract namespaces and for storing into sequences)"""
    if isinstance(v, (Sc, Text, Obj, FnV, SeqV, DocObj, TupTerm)): return v.z
    if isinstance(v, PyStr): return z3.StringVal(v.s)
    if isinstance(v, SymDict): return DictSort(v.kty.sort(), v.vty.sort()).mkdict(v.has, v.get)
    if isinstance(v, PyList) or isinstance(v, Tup):
        items = [unwrap(i) for i in v.items]
        if not items: raise Unsupported('empty concrete list has no sort')
        s = items[0].sort()
        if any(i.sort() != s for i in items): raise Unsupported('heterogeneous list')
        us = [z3.Unit(i) for i in items]
        return us[0] if len(us) == 1 else z3.Concat(*us)
    raise Unsupported('unwrap %r' % (v,))

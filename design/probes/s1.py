import sympy as sp, time, ast, inspect, sys
sys.path.insert(0,'/repo')
src = open('/repo/atsim/potentials/potentialfunctions.py').read()
tree = ast.parse(src)
# crude: get return expr of _tang_toennies.__call__ and deriv
def get(cls, meth):
    for n in tree.body:
        if isinstance(n, ast.ClassDef) and n.name==cls:
            for m in n.body:
                if isinstance(m, ast.FunctionDef) and m.name==meth:
                    for st in m.body:
                        if isinstance(st, ast.Return): return st.value, [a.arg for a in m.args.args][1:]
def tosym(node, env):
    if isinstance(node, ast.BinOp):
        l=tosym(node.left, env); r=tosym(node.right, env)
        op=type(node.op)
        return {ast.Add: lambda:l+r, ast.Sub: lambda:l-r, ast.Mult: lambda:l*r, ast.Div: lambda:l/r, ast.Pow: lambda:l**r}[op]()
    if isinstance(node, ast.UnaryOp): return -tosym(node.operand, env)
    if isinstance(node, ast.Constant):
        v=node.value
        return sp.Rational(repr(v)) if isinstance(v,float) else sp.Integer(v)
    if isinstance(node, ast.Name): return env[node.id]
    if isinstance(node, ast.Call):
        f=node.func
        if isinstance(f, ast.Attribute) and f.attr=='exp': return sp.exp(tosym(node.args[0], env))
        if isinstance(f, ast.Attribute) and f.attr=='sqrt': return sp.sqrt(tosym(node.args[0], env))
    raise Exception(ast.dump(node))
e, args = get('_tang_toennies','__call__')
d, _ = get('_tang_toennies','deriv')
d2, _ = get('_tang_toennies','deriv2')
env = {a: sp.Symbol(a, positive=True) for a in args}
t=time.time()
E = tosym(e, env); D = tosym(d, env); D2=tosym(d2,env)
r=env['r']
res = sp.expand(sp.diff(E, r) - D)
print("expand time", time.time()-t, "terms", len(res.args) if res.is_Add else 1)
# coefficient magnitudes
mx = 0
for term in (res.args if res.is_Add else [res]):
    c = term.as_coeff_Mul()[0]
    mx = max(mx, abs(float(c)))
print("max abs coeff residual", mx)
# relative: compare to coefficients in expand(D)
De = sp.expand(D)
mn = min(abs(float(t.as_coeff_Mul()[0])) for t in De.args)
print("min abs coeff in D", mn)
t=time.time()
res2 = sp.expand(sp.diff(D, r) - D2)
mx2 = max(abs(float(t_.as_coeff_Mul()[0])) for t_ in (res2.args if res2.is_Add else [res2]))
print("deriv2 residual", mx2, time.time()-t)
# spec: doc formula
A,b,C6,C8,C10 = [env[k] for k in ['A','b','C_6','C_8','C_10']]
R = r/sp.Rational('0.5292')
def f2n(x,n): return 1 - sp.exp(-x)*sum(x**k/sp.factorial(k) for k in range(2*n+1))
spec = (A*sp.exp(-b*R) - sum(f2n(b*R,n)*C/R**(2*n) for n,C in ((3,C6),(4,C8),(5,C10))))*sp.Rational('27.211')
res3 = sp.expand(spec - E)
terms = res3.args if res3.is_Add else [res3]
print("spec residual terms", len(terms))
for t_ in terms[:50]:
    print("   ", t_)

"""C11 oracle: the real ConfigParser / Configuration on decimal grids: two of nr/dr/cutoff fix the third, table has that many rows."""
from _common import *
from atsim.potentials.config import ConfigParser, Configuration
from atsim.potentials.config._common import ConfigurationException
from decimal import Decimal

def section(kw, target='LAMMPS', extra='', variables=None):
    # unreferenced [Variables] named like the grid keys the section leaves out: they are not 'given' (the defaults apply as without them)
    return ('[Variables]\n%s\n\n' % '\n'.join('%s : %s' % kv for kv in sorted(variables.items())) if variables else '') + '[Tabulation]\ntarget : %s\n%s\n%s\n[Pair]\nA-B : as.polynomial 1.0 2.0\n' % (target, '\n'.join('%s : %s' % (k, v) for k, v in kw.items()), extra)

def check_case(rep, case, name):
    if case.get('kind') == 'excel': excel_grid_case(rep); return
    kw = case['options']; which = case.get('which', 'r')
    pre = {'r': ('nr', 'dr', 'cutoff'), 'rho': ('nrho', 'drho', 'cutoff_rho')}[which]
    try:
        cp = ConfigParser(io.StringIO(section(kw, variables=case.get('variables'))))
        t = cp.tabulation
        nr, cutoff = (t.nr, t.cutoff) if which == 'r' else (t.nrho, t.cutoff_rho)
        err = None
    except ConfigurationException as e: err = e
    except Exception as e:
        rep.dev(name, case, 'non-configuration exception %r' % (e,), 'value or configuration error'); return
    given = {k: kw.get(p) for k, p in zip(('nr', 'dr', 'cutoff'), pre)}
    g = {k: (None if v is None else Decimal(str(v))) for k, v in given.items()}
    bad_value = any(v is not None and v <= 0 for v in g.values())
    n_given = sum(v is not None for v in g.values())
    should_fail = bad_value or n_given == 3 or (g['dr'] is not None and n_given == 1)
    if should_fail:
        if err is None: rep.dev(name, case, 'accepted: nr=%r cutoff=%r' % (nr, cutoff), 'configuration error')
        else: rep.ok()
        return
    if err is not None: rep.dev(name, case, 'rejected: %s' % err, 'accepted'); return
    if g['nr'] is not None and g['dr'] is not None:
        want_nr, want_cut = int(g['nr']), float((g['nr'] - 1) * g['dr'])
    elif g['cutoff'] is not None and g['nr'] is not None: want_nr, want_cut = int(g['nr']), float(g['cutoff'])
    elif g['cutoff'] is not None and g['dr'] is not None:
        q = g['cutoff'] / g['dr']
        if q != q.to_integral_value(): return      # not a whole multiple: the statement says nothing
        want_nr, want_cut = int(q) + 1, float(g['cutoff'])
    else: want_nr, want_cut = (int(g['nr']) if g['nr'] is not None else None), (float(g['cutoff']) if g['cutoff'] is not None else None)
    if nr != want_nr or (want_cut is None) != (cutoff is None) or (cutoff is not None and not close(cutoff, want_cut, 1e-12)):
        rep.dev(name, case, 'nr=%r cutoff=%r' % (nr, cutoff), 'nr=%r cutoff=%r' % (want_nr, want_cut)); return
    rep.ok()
    if case.get('tabulate') and which == 'r' and want_nr and want_nr >= 3:
        tab = Configuration().read(io.StringIO(section(kw, variables=case.get('variables'))))
        out = io.StringIO(); tab.write(out)
        rows = [l for l in out.getvalue().split('\n') if len(l.split()) == 4 and l.split()[0].isdigit()]
        N = want_nr - 1; cut = want_cut if want_cut is not None else 10.0
        if len(rows) != N: rep.dev(name, case, 'table has %d rows' % len(rows), N); return
        if not close(float(rows[-1].split()[1]), cut, 0, 1.5e-8): rep.dev(name, case, 'last row at r=%s' % rows[-1].split()[1], cut); return
        rep.ok()

def gen_case(rng):
    which = rng.choice(['r', 'rho'])
    pre = {'r': ('nr', 'dr', 'cutoff'), 'rho': ('nrho', 'drho', 'cutoff_rho')}[which]
    step = Decimal(rng.choice(['0.0001', '0.0005', '0.001', '0.002', '0.005', '0.01', '0.02', '0.025', '0.05', '0.1', '0.2', '0.25', '0.3', '0.5', '0.7']))
    k = rng.choice([1, 2, 3, 4, 5, 6, 7, 9, 10, 12, 13, 30, 100, 1000, rng.randint(1, 20000)])
    cutoff = step * k
    mode = rng.choice(['nr+dr', 'cutoff+nr', 'cutoff+dr', 'cutoff+dr', 'cutoff+dr', 'all', 'dr', 'zero', 'neg', 'none', 'nr', 'cutoff'])
    o = {}
    if mode == 'nr+dr': o = {pre[0]: k + 1, pre[1]: str(step)}
    elif mode == 'cutoff+nr': o = {pre[2]: str(cutoff), pre[0]: k + 1}
    elif mode == 'cutoff+dr': o = {pre[2]: str(cutoff), pre[1]: str(step)}
    elif mode == 'all': o = {pre[2]: str(cutoff), pre[1]: str(step), pre[0]: k + 1}
    elif mode == 'dr': o = {pre[1]: str(step)}
    elif mode == 'zero': o = {pre[0]: 0, pre[2]: str(cutoff)} if rng.random() < 0.5 else {pre[0]: k + 1, pre[1]: '0.0'}
    elif mode == 'neg': o = {pre[2]: str(-cutoff), pre[0]: k + 1}
    elif mode == 'nr': o = {pre[0]: k + 1}
    elif mode == 'cutoff': o = {pre[2]: str(cutoff)}
    case = dict(which=which, options=o, tabulate=(k <= 400))
    if rng.random() < 0.4:
        absent = [p_ for p_ in ('nr', 'dr', 'cutoff', 'nrho', 'drho', 'cutoff_rho') if p_ not in o]
        case['variables'] = {p_: ('17' if p_.startswith('nr') else '6.5' if 'cutoff' in p_ else '0.25') for p_ in rng.sample(absent, rng.randint(1, len(absent)))}
    return case

def excel_grid_case(rep):
    ini = ('[Tabulation]\ntarget : excel_eam\nnr : 7\ncutoff : 3.0\nnrho : 5\ncutoff_rho : 8.0\n\n[EAM-Embed]\nAl : >=0 as.polynomial 0 1\n\n[EAM-Density]\nAl : >=0 as.polynomial 1 0\n\n[Pair]\nAl-Al : >=0 as.polynomial 1\n')
    rep.case('excel-grids', 'nr=7, nrho=5')
    tab = Configuration().read(io.StringIO(ini)); wb = tab.workbook
    rows = lambda n: [r for r in wb[n].iter_rows(values_only=True)][1:]
    emb, dens = rows('EAM-Embed'), rows('EAM-Density')
    if len(emb) != 5 or not close(emb[-1][0], 8.0, 1e-12) or not close(emb[1][0], 2.0, 1e-12):
        rep.dev('excel-rho-grid', dict(kind='excel'), 'EAM-Embed sheet: %d rows, last rho %r' % (len(emb), emb[-1][0] if emb else None), '5 rows from 0 to 8.0 in steps of 2.0'); return
    if len(dens) != 7 or not close(dens[-1][0], 3.0, 1e-12):
        rep.dev('excel-r-grid', dict(kind='excel'), 'EAM-Density sheet: %d rows, last r %r' % (len(dens), dens[-1][0] if dens else None), '7 rows from 0 to 3.0'); return
    rep.ok()

if __name__ == '__main__':
    pl = payload(); rep = Report('C11')
    if pl.get('mode') == 'replay': rep.case('replay', pl['input']); check_case(rep, pl['input'], 'replay')
    else:
        rng = random.Random(pl.get('seed', 0))
        excel_grid_case(rep)
        for cut, dr in (('0.3', '0.1'), ('1.2', '0.1'), ('0.7', '0.1'), ('10.0', '0.01'), ('6.5', '0.05')):
            c = dict(which='r', options={'cutoff': cut, 'dr': dr}, tabulate=True); rep.case('cutoff+dr', c); check_case(rep, c, 'cutoff=%s,dr=%s' % (cut, dr))
        # the decimal lattice where rounding bites, on purpose rather than by chance: cutoff = k*dr (exact decimals) whose FLOAT quotient lands just
        # below or just above the whole number k -- 30 of each kind per run, for both grids (chosen by float arithmetic alone, not by reading the code)
        below, above = [], []
        for step in ('0.01', '0.001', '0.02', '0.3', '0.005', '0.1', '0.7', '0.05'):
            for k in range(2, 700):
                cut = Decimal(step) * k; q = float(str(cut)) / float(step)
                if q < k and len(below) < 30: below.append((str(cut), step, k))
                elif q > k and len(above) < 30: above.append((str(cut), step, k))
        for j, (cut, step, k) in enumerate(below + above):
            which = 'r' if j % 2 == 0 else 'rho'
            o = {'cutoff': cut, 'dr': step} if which == 'r' else {'cutoff_rho': cut, 'drho': step}
            c = dict(which=which, options=o, tabulate=False); rep.case('lattice/' + ('below' if j < len(below) else 'above'), c); check_case(rep, c, 'lattice-%s/%s' % (cut, step))
        for i in range(pl.get('n', 300)):
            c = gen_case(rng); rep.case('+'.join(sorted(c['options'])) or 'none', c); check_case(rep, c, 'seeded-%d' % i)
    rep.finish()

"""C12 — tabulation is deterministic; evaluation is pure (no history/process dependence)."""
import ast, z3
from pyvc.core import *
from pyvc.solve import Obligation
from pyvc import symalg as B, scan
from pyvc.extract import Module, get_func

import contracts.common, contracts.potential, contracts.lammps_table, contracts.dlpoly_table, contracts.gulp, contracts.setfl, contracts.tabeam
import contracts.pair_tabulation as PT
import contracts.eam_tabulation as ET
import contracts.builders_eam as BE
PKG = 'atsim/potentials'
# the public write() of every text tabulation target: its contract is FUNCTIONAL -- the document after the call is the document before
# it followed by a term built from the object's fields only -- and its frame is the document alone (modifies = ['fp']).  Two writes
# of one object, or writes of two objects built from equal arguments, therefore give the same bytes whatever happened in between,
# as long as the callables of the model are functions of r (app(f, r) is a function: the purity scan below is what justifies that)
FUNCTIONS = [(PT.FILE, 'LAMMPS_PairTabulation.write'), (PT.FILE, 'DLPoly_PairTabulation.write'), (PT.FILE, 'GULP_PairTabulation.write'),
             (ET.FILE, 'SetFL_EAMTabulation.write'), (ET.FILE, 'SetFL_FS_EAMTabulation.write'), (ET.FILE, 'TABEAM_EAMTabulation.write'),
             (ET.FILE, 'TABEAM_FinnisSinclair_EAMTabulation.write'), (ET.FILE, 'ADP_EAMTabulation.write'),
             # element order of EAM tables: [EAM-Embed] order, then the zero-filled species SORTED (never the iteration order of a set)
             (BE.F_EB, 'EAM_Potential_Builder._add_null_embedding_functions'), (BE.F_EB, 'EAM_Potential_Builder._init_eampotentials')]
SPECSEQS = [BE.species_seq]

ANCHORED = ['atsim/potentials/potentialfunctions.py', 'atsim/potentials/potentialforms.py', 'atsim/potentials/__init__.py', 'atsim/potentials/_util.py',
            'atsim/potentials/_potential.py', 'atsim/potentials/_eam_potential.py', 'atsim/potentials/_multi_range_potential_form.py', 'atsim/potentials/spline/__init__.py',
            'atsim/potentials/_modifiers.py', 'atsim/potentials/tableforms.py', 'atsim/potentials/_lammps_writeTABLE.py', 'atsim/potentials/_dlpoly_writeTABLE.py',
            'atsim/potentials/_lammpsWriteEAM.py', 'atsim/potentials/_dlpoly_writeTABEAM.py', 'atsim/potentials/pair_tabulation.py', 'atsim/potentials/eam_tabulation.py',
            'atsim/potentials/referencedata/_reference_data.py'] + scan.package_files('atsim/potentials/config')

ORDER_INSENSITIVE_CALLS = {'setdefault', 'add', 'discard'}

def _order_insensitive_body(loop):
    """body of a loop over a set whose effect does not depend on the iteration order: only setdefault/add calls with values that
    do not depend on earlier iterations, membership tests and raises"""
    for s in loop.body:
        if isinstance(s, ast.Expr) and isinstance(s.value, ast.Call) and isinstance(s.value.func, ast.Attribute) and s.value.func.attr in ORDER_INSENSITIVE_CALLS: continue
        if isinstance(s, ast.Assign) and isinstance(s.value, ast.Call) and isinstance(s.value.func, ast.Attribute) and s.value.func.attr == 'setdefault': continue
        if isinstance(s, ast.If) and all(isinstance(x, (ast.Raise, ast.Expr, ast.Continue)) for x in s.body) and not s.orelse: continue
        if isinstance(s, ast.For) and _order_insensitive_body(s): continue
        return False
    return True

def set_site_obligations():
    out, n = [], 0
    for rp in ANCHORED:
        m = Module.get(rp)
        for q, fi in m.funcs.items():
            setnames = set()
            for nd in ast.walk(fi.node):
                if isinstance(nd, ast.Assign) and len(nd.targets) == 1 and isinstance(nd.targets[0], ast.Name) and scan._is_set_expr(nd.value, setnames): setnames.add(nd.targets[0].id)
            for nd in ast.walk(fi.node):
                sites = []
                if isinstance(nd, ast.For) and scan._is_set_expr(nd.iter, setnames): sites.append(('for', nd.iter, _order_insensitive_body(nd)))
                if isinstance(nd, (ast.ListComp, ast.GeneratorExp)):
                    for g in nd.generators:
                        if scan._is_set_expr(g.iter, setnames): sites.append(('comprehension', g.iter, False))
                if isinstance(nd, ast.Call) and isinstance(nd.func, ast.Name) and nd.func.id in ('list', 'tuple') and nd.args and scan._is_set_expr(nd.args[0], setnames):
                    sites.append(('list()', nd.args[0], False))
                for kind, it, ok in sites:
                    n += 1
                    out.append(B.static_obligation('C12/%s::%s/order-independent/%s-over-%s' % (rp.split('/')[-1], q, kind, ast.unparse(it)), ok, q, '%s:%d' % (rp, it.lineno),
                                                   'iterates a set in hash order and the loop body is not of an order-insensitive shape'))
    out.append(B.static_obligation('C12/set-iteration-sites-enumerated', n >= 2, 'anchored files', PKG, '%d sites' % n))
    return out

def purity_obligations():
    out = []
    # (1) evaluation methods of the built-in forms and of the potential/combinator classes assign no attribute and no global
    for rp, classes in (('atsim/potentials/potentialfunctions.py', None), ('atsim/potentials/_multi_range_potential_form.py', ['Multi_Range_Potential_Form', 'Multi_Range_Potential_Form_Deriv', 'Multi_Range_Potential_Form_Deriv2', 'Multi_Range_Defn']),
                        ('atsim/potentials/spline/__init__.py', ['Custom_SplinePotential', 'Exp_Spline', 'Buck4_Spline']), ('atsim/potentials/_potential.py', ['Potential']),
                        ('atsim/potentials/_util.py', ['_GradientWrapper', '_rpartial']), ('atsim/potentials/tableforms.py', ['Cubic_Spline_Table_Form'])):
        m = Module.get(rp)
        bad = []
        for q, fi in m.funcs.items():
            if '.' not in q: continue
            cls, meth = q.split('.', 1)
            if classes is not None and cls not in classes: continue
            if meth not in ('__call__', 'deriv', 'deriv2', '_deriv', '_deriv2', 'energy', 'force', '_range_search', '_which_spline'): continue
            for n in ast.walk(fi.node):
                if isinstance(n, (ast.Attribute, ast.Subscript)) and isinstance(n.ctx, ast.Store): bad.append((q, ast.unparse(n)))
                if isinstance(n, (ast.Global, ast.Nonlocal)): bad.append((q, ast.unparse(n)))
        out.append(B.static_obligation('C12/%s/evaluation-methods-store-nothing' % rp.split('/')[-1], not bad, rp, rp, str(bad[:4])))
        # class-level mutable state (a dict/list/set attribute of a form class is shared by every evaluation in the process)
        shared = []
        for cname, cnode in m.classes.items():
            for s in cnode.body:
                if isinstance(s, ast.Assign) and isinstance(s.value, (ast.Dict, ast.List, ast.Set)) or (isinstance(s, ast.Assign) and isinstance(s.value, ast.Call) and isinstance(s.value.func, ast.Name) and s.value.func.id in ('dict', 'list', 'set')):
                    shared.append((cname, ast.unparse(s)[:60]))
        out.append(B.static_obligation('C12/%s/no-class-level-mutable-state' % rp.split('/')[-1], not shared, rp, rp, str(shared), hard=False))
    # class-level mutable state in the remaining anchored files (reference data, writers, tabulation classes, config package): a dict/list/set
    # attribute of a class is shared by every instance in the process, i.e. by every later model and tabulation
    done_ = {'atsim/potentials/potentialfunctions.py', 'atsim/potentials/_multi_range_potential_form.py', 'atsim/potentials/spline/__init__.py',
             'atsim/potentials/_potential.py', 'atsim/potentials/_util.py', 'atsim/potentials/tableforms.py'}
    for rp in ANCHORED:
        if rp in done_: continue
        shared = []
        for cname, cnode in Module.get(rp).classes.items():
            for s in cnode.body:
                if isinstance(s, ast.Assign) and (isinstance(s.value, (ast.Dict, ast.List, ast.Set, ast.DictComp, ast.ListComp, ast.SetComp)) or
                                                  (isinstance(s.value, ast.Call) and isinstance(s.value.func, ast.Name) and s.value.func.id in ('dict', 'list', 'set', 'OrderedDict', 'defaultdict'))):
                    # a table that is only read is a constant; it is state when some code of the module stores into it or calls a mutating method on it
                    names_ = {t.id for t in s.targets if isinstance(t, ast.Name)}
                    mut_ = ('update', 'setdefault', 'append', 'extend', 'insert', 'add', 'discard', 'remove', 'pop', 'popitem', 'clear', '__setitem__', 'sort')
                    is_tab = lambda e: isinstance(e, ast.Attribute) and e.attr in names_
                    written = [n for n in ast.walk(Module.get(rp).tree)
                               if (isinstance(n, ast.Subscript) and isinstance(n.ctx, (ast.Store, ast.Del)) and is_tab(n.value)) or
                                  (isinstance(n, ast.Call) and isinstance(n.func, ast.Attribute) and n.func.attr in mut_ and is_tab(n.func.value)) or
                                  (isinstance(n, ast.AugAssign) and is_tab(n.target))]
                    if written: shared.append((cname, ast.unparse(s)[:60], 'written at line %d' % written[0].lineno))
        if shared or rp.endswith('_reference_data.py'):
            out.append(B.static_obligation('C12/%s/no-class-level-mutable-state' % '/'.join(rp.split('/')[-2:]), not shared, rp, rp, str(shared), hard=False))
    # (2) no memoising decorators / global statements in the anchored files
    deco = []
    for rp in ANCHORED: deco += [(rp.split('/')[-1],) + d for d in scan.decorators_and_globals(rp)]
    deco += [x for rp in ANCHORED for x in _module_level_mutables_written(rp)]
    out.append(B.static_obligation('C12/no-caching-decorators-globals-or-module-level-state-written-by-functions', not deco, 'anchored files', PKG, str(deco[:5]), hard=False))
    # (3) shared default arguments are never mutated (directly, or through the attribute they are stored in)
    bad = []
    for rp in ANCHORED:
        m = Module.get(rp)
        for q, p, d in scan.mutable_default_args(rp):
            fi = m.funcs[q]
            direct = scan.stores_to_param_or_global(fi, {p})
            if direct: bad.append((q, p, direct[:2]))
            # stored into an attribute of self? then any mutation of that attribute anywhere mutates the shared default
            for n in ast.walk(fi.node):
                if isinstance(n, ast.Assign) and isinstance(n.value, ast.Name) and n.value.id == p and isinstance(n.targets[0], ast.Attribute):
                    attr = n.targets[0].attr
                    for rp2 in ANCHORED:
                        for q2, fi2 in Module.get(rp2).funcs.items():
                            for n2 in ast.walk(fi2.node):
                                if isinstance(n2, ast.Call) and isinstance(n2.func, ast.Attribute) and n2.func.attr in ('update', 'append', 'extend', 'setdefault', 'pop', 'clear', '__setitem__', 'add') \
                                   and isinstance(n2.func.value, ast.Attribute) and n2.func.value.attr == attr: bad.append((q, p, '%s::%s mutates .%s' % (rp2.split('/')[-1], q2, attr)))
                                if isinstance(n2, ast.Subscript) and isinstance(n2.ctx, ast.Store) and isinstance(n2.value, ast.Attribute) and n2.value.attr == attr: bad.append((q, p, '%s::%s stores into .%s[...]' % (rp2.split('/')[-1], q2, attr)))
    out.append(B.static_obligation('C12/shared-default-arguments-are-never-mutated', not bad, 'anchored files', PKG, str(bad[:4])))
    nd = sum(len(scan.mutable_default_args(rp)) for rp in ANCHORED)
    out.append(B.static_obligation('C12/mutable-defaults-enumerated', nd >= 3, 'anchored files', PKG, '%d parameters with mutable defaults' % nd))
    # (4) caches are filled once from a pure computation
    S = B.source_shape
    out.append(S('C12', 'atsim/potentials/config/_pair_potential_builder.py', 'Pair_Potentials_From_Tuples_Builder.potentials', 'cache-filled-once', ['if self._potlist is None:\n self._potlist = self._init_potentials()', 'return self._potlist']))
    out.append(S('C12', 'atsim/potentials/config/_config_parser.py', 'ConfigParser.tabulation', 'cache-filled-once', ['if self._tabulation_section is None:\n self._tabulation_section = _TabulationSection(self._config_parser)']))
    out.append(S('C12', 'atsim/potentials/config/_cexprtk_potential_function.py', '_Cexptrk_Potential_Function.__call__', 'every-parameter-rebound-before-evaluation',
                 ['for pn, v in zip(parameter_names, args):\n self._local_symbol_table.variables[pn] = v', 'retval = self._expression()', 'assert len(args) == len(parameter_names)']))
    out.append(S('C12', 'atsim/potentials/config/_cexprtk_potential_function.py', '_Cexptrk_Potential_Function._init_symbol_table', 'table-holds-exactly-the-parameters',
                 ['local_symbol_table = cexprtk.Symbol_Table({}, add_constants=True)', 'for pn in parameter_names:\n local_symbol_table.variables[pn] = 1.0']))
    return out

def _module_level_mutables_written(rp):
    """functions that mutate a module-level dict/list/set"""
    m = Module.get(rp)
    muts = {k for k, v in m.consts.items() if isinstance(v, (ast.Dict, ast.List, ast.Set)) or (isinstance(v, ast.Call) and isinstance(v.func, ast.Name) and v.func.id in ('dict', 'list', 'set', 'OrderedDict'))}
    out = []
    for q, fi in m.funcs.items():
        w = scan.stores_to_param_or_global(fi, muts)
        if w: out.append((rp.split('/')[-1], q, w[0]))
    return out

def frame_obligations():
    """the contracts listed in FUNCTIONS modify the document only and state it as old document ++ F(fields): read from the registry"""
    from pyvc.registry import REG
    out = []
    for f, q in FUNCTIONS:
        if not q.endswith('.write'): continue
        c = REG.get(f, q)
        ok = c is not None and len(c.modifies) == 1 and not c.trusted and not c.external
        out.append(B.static_obligation('C12/%s::%s/frame-is-the-document-only' % (f.split('/')[-1], q), ok, q, f, 'modifies=%r' % (getattr(c, 'modifies', None),)))
    return out

def lemmas():
    # functional postcondition => same bytes: for any spec term F of the fields, two documents that both equal old ++ F are equal
    d0, d1, d2, Fd = z3.Consts('doc0 doc1 doc2 F_of_fields', Doc)
    det = Obligation('C12/lemma/functional-postcondition-gives-the-same-bytes', [d1 == cat(d0, Fd), d2 == cat(d0, Fd)], d1 == d2, kind='lemma', function='props/C12.py', carries_property=True)
    return set_site_obligations() + purity_obligations() + frame_obligations() + [det]

MUTANTS = [
    (BE.F_EB, 'EAM_Potential_Builder._add_null_embedding_functions', "for s in sorted(null_embed_species):", "for s in null_embed_species:", 'preserve/0'),
    (PT.FILE, 'LAMMPS_PairTabulation.write', "self.nr - 1", "self.nr", 'post'),
    (ET.FILE, 'ADP_EAMTabulation.write', "self._write_dipole(sbuild)\n    self._write_quadrupole(sbuild)", "self._write_quadrupole(sbuild)\n    self._write_dipole(sbuild)", 'post'),
]
MODULE_MUTANTS = [
    ('atsim/potentials/config/_eam_potential_builder.py', "    for s in sorted(null_embed_species):\n", "    for s in null_embed_species:\n", 'order-independent'),
    ('atsim/potentials/potentialfunctions.py', "  def __call__(self,r, constant):\n", "  def __call__(self,r, constant):\n    self._last = r\n", 'evaluation-methods-store-nothing'),
    ('atsim/potentials/config/_tabulation_factories.py', "    rd = Reference_Data(extra_rd)\n", "    rd = Reference_Data()\n    rd.extra_data.update(extra_rd)\n", 'shared-default'),
]
ENGINE_B_FUNCTIONS = [('atsim/potentials/config/_eam_potential_builder.py', 'EAM_Potential_Builder._add_null_embedding_functions'), ('atsim/potentials/referencedata/_reference_data.py', 'Reference_Data.__init__'),
                      ('atsim/potentials/config/_cexprtk_potential_function.py', '_Cexptrk_Potential_Function.__call__')]
ASSUMPTIONS = ['reduction: a function whose result is determined by its arguments, that stores nothing observable, and whose construction never consults hash order gives the same bytes after any history and in any process',
               'A4: dict preserves insertion order; set iteration order is unspecified; A6: cexprtk / numpy / scipy are deterministic functions of their inputs',
               'xlsx archives: openpyxl stamps times into the file; determinism of Excel targets is claimed for cell contents only']
BOUNDED = [dict(name='byte identity across histories within a process and across PYTHONHASHSEED values in fresh processes', bound='seeded pair/EAM/FS models (incl. under-specified EAM models with zero-filled species, custom forms sharing sub-forms), 4 hash seeds each for the first 6, 1 for the rest; quick 12 / thorough 300 models', technique='concrete oracle, fresh subprocesses')]

def oracle_payload(tier, seed, mode='search'): return dict(mode=mode, seed=seed, n=12 if tier == 'quick' else 300)
def witness_for(ob, devs, run_oracle):
    if devs: d = devs[0]; return dict(deviates=True, input=d['input'], observed=d['observed'], expected=d['expected'])
    return dict(deviates=False)

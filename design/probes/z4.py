import z3, time
B = z3.Reals('B0 B1 B2 B3 B4 B5'); sx, sy, sd, sdd, C, shift = z3.Reals('sx sy sd sdd C shift')
exp = z3.Function('exp', z3.RealSort(), z3.RealSort()); log = z3.Function('log', z3.RealSort(), z3.RealSort())
syp = sy + shift  # shifted value
P  = B[0]+B[1]*sx+B[2]*sx**2+B[3]*sx**3+B[4]*sx**4+B[5]*sx**5
# rows from matrix (as in code)
row1 = 1.0*B[0] + sx*B[1] + sx**2*B[2] + sx**3*B[3] + sx**4*B[4] + sx**5*B[5] == log(syp)
row3 = 0.0*B[0] + 1.0*B[1] + 2.0*sx*B[2] + 3.0*sx**2*B[3] + 4.0*sx**3*B[4] + 5.0*sx**4*B[5] == sd/syp
row5 = 2.0*B[2] + 6.0*sx*B[3] + 12.0*sx**2*B[4] + 20.0*sx**3*B[5] == (sdd/syp) - ((sd**2)/(syp**2))
# exp_spline code forms
val = exp(P) + C
d1 = (B[1] + sx*(2*B[2] + sx*(3*B[3] + 4*B[4]*sx + 5*B[5]*sx**2))) * exp(B[0] + sx*(B[1] + sx*(B[2] + sx*(B[3] + sx*(B[4] + B[5]*sx)))))
d2 = (2*B[2] + 6*B[3]*sx + 12*B[4]*sx**2 + 20*B[5]*sx**3 + (B[1] + 2*B[2]*sx + 3*B[3]*sx**2 + 4*B[4]*sx**3 + 5*B[5]*sx**4)**2) * exp(P)
hyp = [row1,row3,row5, syp>0, C == -shift, exp(log(syp)) == syp]
for name, goal in (("value", val == sy), ("deriv", d1 == sd), ("deriv2", d2 == sdd)):
    s = z3.Solver(); s.set('timeout', 60000); s.add(*hyp); s.add(z3.Not(goal))
    t=time.time(); print(name, s.check(), round(time.time()-t,2))

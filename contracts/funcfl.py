"""Contracts for the funcfl writer of atsim/potentials/_lammpsWriteEAM.py (C19): header declares the grid, the value block is
the embedding values, the effective charges sqrt(phi(r)*r/27.2/0.529) and the densities on that grid."""
import z3
from .common import *
from .eam_common import *
from pyvc.spec import SpecSeq, SpecAcc

FILE = 'atsim/potentials/_lammpsWriteEAM.py'
NUMT = " % 20.16e"
VL = ValList

def fl_header(title, Z, mass, a0, lat, nrho, drho, nr, dr, cutoff):
    return cat(tok("%s", title), NL, tok("%d %f %f %s", Z, mass, a0, lat), NL, tok("%d %f %d %f %f", nrho, drho, nr, dr, cutoff), NL)

REG.add(Contract(FILE, '_writeHeader',
    params=[('outfile', T.Doc), ('nrho', T.Int), ('drho', T.Real), ('nr', T.Int), ('dr', T.Real), ('cutoff', T.Real), ('title', T.Str),
            ('atomicNumber', T.Int), ('mass', T.Real), ('latticeConstant', T.Real), ('latticeType', T.Str)], modifies=['outfile'],
    ensures=lambda v, old, res: [v.outfile == cat(old.outfile, fl_header(v.title, v.atomicNumber, v.mass, v.latticeConstant, v.latticeType, v.nrho, v.drho, v.nr, v.dr, v.cutoff))],
    post_names=['title-element-line-grid-line'], carries=['post'], props=['C19']))

# ---- value block: numbers in order, five per line; None ends a line (unless the line is already complete)
isnone = lambda x: Val.is_VN(x)
cnt = SpecAcc('funcfl_col', [VL], lambda vs: z3.IntVal(0),
              lambda vs, t, prev: z3.If(isnone(vs[t]), 0, z3.If((prev + 1) % 5 == 0, 0, prev + 1)), result=IntS)
def piece(vs, k):
    i1 = cnt(vs, k) + 1
    return z3.If(isnone(vs[k]), z3.If(i1 != 1, NL, EMPTY), cat(tok(NUMT, vs[k]), z3.If(i1 % 5 == 0, NL, EMPTY)))
block = SpecSeq('funcfl_block', [VL], piece)

REG.add(Contract(FILE, '_writeValueBlock', params=[('outfile', T.Doc), ('values', T.List(T.Val))], modifies=['outfile'],
    ensures=lambda v, old, res: [v.outfile == cat(old.outfile, block(v.values, z3.Length(v.values)))],
    invariants={0: lambda v, old: [v.outfile == cat(old.outfile, block(v.values, v._i0)), v.i == cnt(v.values, v._i0)]},
    post_names=['values-in-order-five-per-line'], carries=['post', 'preserve/0'], props=['C19']))

# ---- writeFuncFL: the grids, the three columns of values and the header
from pyvc.symexec import sqrt_fn
RS = z3.SeqSort(RealS)
grid = SpecSeq('funcfl_grid', [RealS], lambda d, k: z3.Unit(real(k) * d), result=RS, elem_len=1)                       # k*step
fcol = SpecSeq('funcfl_fcol', [Fn, RealS], lambda f, d, k: z3.Unit(Val.VR(app(f, real(k) * d))), result=VL, elem_len=1)  # f(k*step)
def _es(p, d, k): return E(p, real(k) * d) * (real(k) * d)                       # phi(r)*r in eV.Angstrom
def _conv(x): return x * z3.RealVal('1.0') / z3.RealVal('27.2') * z3.RealVal('1.0') / z3.RealVal('0.529')   # -> hartree.bohr, as written in the code
ch1 = SpecSeq('funcfl_ch1', [Pot, RealS], lambda p, d, k: z3.Unit(_es(p, d, k)), result=RS, elem_len=1)
ch2 = SpecSeq('funcfl_ch2', [Pot, RealS], lambda p, d, k: z3.Unit(_conv(_es(p, d, k))), result=RS, elem_len=1)
def zcharge(p, d, k): return sqrt_fn(_conv(_es(p, d, k)))                        # effective charge Z(r_k)
ch3 = SpecSeq('funcfl_ch3', [Pot, RealS], lambda p, d, k: z3.Unit(Val.VR(zcharge(p, d, k))), result=VL, elem_len=1)
NONE1 = z3.Unit(Val.VN)

def funcfl_values(e, p, nrho, drho, nr, dr):
    return z3.Concat(fcol(EAM['embed'](e), drho, nrho), NONE1, ch3(p, dr, nr), NONE1, fcol(EAM['dens'](e), dr, nr))
def funcfl_doc(e, p, nrho, drho, nr, dr, title):
    vals = funcfl_values(e, p, nrho, drho, nr, dr)
    return cat(fl_header(title, EAM['Z'](e), EAM['mass'](e), EAM['a0'](e), EAM['lattice'](e), nrho, drho, nr, dr, dr * real(nr - 1)),
               block(vals, z3.Length(vals)))

REG.add(Contract(FILE, 'writeFuncFL',
    params=[('nrho', T.Int), ('drho', T.Real), ('nr', T.Int), ('dr', T.Real), ('eampots', T.List(T.Obj('EAMPotential'))), ('pairpots', T.List(T.Obj('Potential'))),
            ('out', T.Doc), ('title', T.Str)], modifies=['out'],
    requires=lambda v: [z3.Length(v.eampots) >= 1, z3.Length(v.pairpots) >= 1, v.nrho >= 0, v.nr >= 0],
    ensures=lambda v, old, res: [v.out == cat(old.out, funcfl_doc(v.eampots[0], v.pairpots[0], v.nrho, v.drho, v.nr, v.dr, v.title))],
    post_names=['header-declares-the-grid-and-the-block-holds-F-Z-rho-on-it'],
    comprehensions={0: (grid, lambda v: [v.drho]), 1: (fcol, lambda v: [EAM['embed'](v.eampots[0]), v.drho]),
                    2: (grid, lambda v: [v.dr]), 3: (fcol, lambda v: [EAM['dens'](v.eampots[0]), v.dr]),
                    4: (ch1, lambda v: [v.pairpots[0], v.dr]), 5: (ch2, lambda v: [v.pairpots[0], v.dr]), 6: (ch3, lambda v: [v.pairpots[0], v.dr])},
    on_raise=lambda v, old: [v.out == old.out],
    carries=['post', 'comprehension', 'on-raise'], props=['C19', 'C17']))

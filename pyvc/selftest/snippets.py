"""Small Python functions exercising the language constructs the symbolic executor interprets.  They are executed by CPython
and by the executor on the same literal inputs (pyvc/conformance.py); any disagreement is an unsound (or over-strict) encoding."""


def floordiv_mod(a, b):
    return (a // b) * 1000 + (a % b)

def int_pow(a, n):
    return a ** n

def true_div(a, b):
    return a / b

def trunc_float(x):
    return int(x)

def trunc_scaled(x, y):
    return int(x / y) + 1

def chain_compare(a, b, c):
    if a < b <= c:
        return 1
    elif a == b or b > c:
        return 2
    return 3

def bool_ops(a, b):
    x = a or b
    y = a and b
    return x * 10 + y

def not_and_ternary(a, b):
    return (a if not b else -a) + (1 if a > 0 and b else 0)

def min_max_abs(a, b):
    return min(a, b) * 100 + max(a, b) + abs(a - b)

def loop_sum(n):
    s = 0
    for i in range(n):
        if i % 2 == 0:
            continue
        s += i
    return s

def loop_break(xs, t):
    k = -1
    for i, x in enumerate(xs):
        if x == t:
            k = i
            break
    return k

def range_two_args(a):
    t = 0
    for i in range(1, 5):
        t = t * a + i
    return t

def list_ops(xs, y):
    out = []
    for x in xs:
        out.append(x + y)
    out.extend([y, y])
    return out

def list_index_neg(xs):
    return xs[-1] * 10 + xs[0] + len(xs)

def list_slice(xs):
    return xs[1:]

def list_concat(xs, ys):
    return xs + ys

def list_membership(xs, a):
    if a in xs:
        return 1
    if a not in xs and len(xs) > 2:
        return 2
    return 0

def list_comp(xs):
    return [x * x for x in xs]

def tuple_swap(a, b):
    a, b = b, a + b
    return a * 100 + b

def aug_assign(a, b):
    a += b
    a *= 2
    a -= 1
    return a

def str_concat_compare(s, t):
    u = s + t
    if u == t + s:
        return 1
    if s <= t:
        return 2
    return 3

def str_order(s, t):
    return s < t

def str_len(s):
    return len(s)

def none_default(a, b=None):
    if b is None:
        return a
    return a + b

def none_is_not(a, b):
    if b is not None and b > a:
        return b
    return a

def try_except(a, b):
    try:
        if b == 0:
            raise ValueError("zero")
        r = a // b
    except ValueError:
        r = -1
    return r

def try_subclass(a):
    try:
        if a < 0:
            raise KeyError(a)
        if a == 0:
            raise IndexError(a)
        return a
    except LookupError:
        return -1

def try_finally(a):
    t = 0
    try:
        if a > 5:
            return a
        t = 1
    finally:
        t = t + 10
    return t

def try_reraise(a):
    try:
        if a > 0:
            raise ValueError(a)
    except ValueError:
        if a > 10:
            raise KeyError(a)
        return 0
    return 1

def raise_unhandled(a):
    if a % 3 == 0:
        raise TypeError("three")
    return a

def zero_division(a, b):
    return a // b

def zero_division_real(a, b):
    return a / b

def index_error(xs, i):
    return xs[i]

def inner_function(a, b):
    def f(x):
        return x * a
    return f(b) + f(1)

def lambda_call(a):
    g = lambda x, y=2: x + y * a
    return g(1) + g(1, 3)

def dict_concrete(a):
    d = {'x': a, 'y': 2 * a}
    d['z'] = d['x'] + d['y']
    if 'z' in d and 'w' not in d:
        return d['z'] + d.get('w', 5) + d.get('x', 7)
    return 0

def nested_loops(n):
    t = 0
    for i in range(n):
        for j in range(i + 1):
            t += i * j
    return t

def early_return_loop(xs):
    for x in xs:
        if x < 0:
            return x
    return 0

def float_arith(x, y):
    return (x + y) * 0.5 - x / 4

def float_compare(x, y):
    if x * 2 >= y + 0.25:
        return 1.5
    return -2.25

def mixed_int_float(a, x):
    return a * x + float(a) / 2

def round_ndigits(x):
    return round(x, 2)

def round_plain(x):
    return round(x)

def int_of_round(x, d):
    return int(round(x / d, 8)) + 1

def bool_result(a, b):
    return a > b or (a == b and a != 0)

def tuple_result(a, b):
    return (a + b, a - b)

def reversed_tuple(a, b):
    p = (a, b)
    q = tuple(reversed(list(p)))
    return q[0] * 10 + q[1]

def is_none_opt(a):
    return a is None

def pass_stmt(a):
    if a > 0:
        pass
    else:
        a = -a
    return a

def unpack_list(xs):
    a, b = xs
    return a - b

def sum_builtin(xs):
    return sum(xs)

def negative_mod_float(a):
    return -a % 4

def unary_ops(a, b):
    return -a + +b - (-b)

def compare_mixed(a, x):
    return a < x

def string_in_list(s, xs):
    return s in xs

def list_equality(xs, ys):
    return xs == ys

def max_of_list_len(xs, ys):
    return max(len(xs), len(ys))

def str_index(s):
    return s[0] + s[-1]

def sorted_small(xs):
    ys = sorted(xs)
    return ys[0] * 100 + ys[-1]

def tuple_membership(a, b):
    if a in (1, 2, b):
        return 1
    return 0

def nested_ternary(a, b):
    return (1 if a > b else 2 if a == b else 3) * (a if a else 7)

def both_negative_division(a, b):
    return (a // b, a % b)

def int_of_negative(x):
    return int(x) + int(-x)

def float_abs_min(x, y):
    return abs(x) + min(x, y) * 2

def string_compare_chain(s, t, u):
    if s <= t <= u:
        return 1
    return 0

def accumulate_in_try(xs):
    t = 0
    for x in xs:
        try:
            if x < 0:
                raise ValueError(x)
            t += x
        except ValueError:
            t -= 1
    return t

def or_default(a, b):
    x = a or b
    return x + 1

def split_once(s):
    parts = s.split(":", 1)
    if len(parts) == 2:
        a, b = parts
        return len(a) * 100 + len(b)
    return -1 - len(parts[0])

def split_once_unpack(s, k):
    a, b = s.split("=", 1)
    if a == k:
        return 1000 + len(b)
    return len(a)

def subscript_optional(xs):
    if xs:
        return xs[0]
    return -7

def index_then_slice(s):
    i = s.index("=", s.index(":"))
    a, b = s[:i], s[i+1:]
    return len(a) * 100 + len(b)

def rsplit_once(s):
    parts = s.rsplit(":", 1)
    if len(parts) == 2:
        return len(parts[0]) * 100 + len(parts[1])
    return -1 - len(parts[0])

def get_default_in_or(d_has_raw, raw, n):
    d = {}
    if d_has_raw:
        d["raw"] = raw
    if d.get("raw", 0) or n < 0:
        return 1
    return 2

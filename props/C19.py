"""C19 — GULP, ADP, funcfl and Excel targets carry the same functions on the same grids."""
import z3
from pyvc.core import *
from pyvc.solve import Obligation
from pyvc import tables
import contracts.common as K
import contracts.potential, contracts.lammps_table, contracts.dlpoly_table
import contracts.pair_tabulation as PT
import contracts.gulp as GU
from contracts.eam_common import *
import contracts.setfl as SF
import contracts.eam_tabulation as ET

FUNCTIONS = [(PT.FILE, 'GULP_PairTabulation._write_pot'), (PT.FILE, 'GULP_PairTabulation.write'), (PT.FILE, 'GULP_PairTabulation.__init__'),
             (PT.F_INIT, 'writePotentials'), (SF.FILE, '_writeSetFLPairPots'), (SF.FILE, 'writeSetFL'), (ET.FILE, 'ADP_EAMTabulation.write')]
SPECSEQS = [GU.grows]

def lemmas():
    out = []
    p = z3.Const('p', K.Pot); c = z3.Real('cutoff'); nr, i, k = z3.Ints('nr i k')
    ps = z3.Const('ps', PotList); a, b = z3.Strings('a b'); dr = z3.Real('dr')
    def L(name, hyps, goal, depth=1):
        out.append(Obligation('C19/lemma/' + name, hyps, goal, kind='lemma', function='props/C19.py', carries_property=True, unfold_depth=depth))
    L('gulp-exactly-nr-rows', [nr >= 2], z3.Length(GU.grows(p, c, nr, nr)) == 4 * nr)
    L('gulp-row-i', [nr >= 2, i >= 0, i < nr, GU.grows.nth_instance([p, c, nr], nr, i)],
      z3.SubSeq(GU.grows(p, c, nr, nr), 4 * i, 4) == tok("{:.10f} {:.10f}\n", K.E(p, real(i) * c / (real(nr) - 1)), real(i) * c / (real(nr) - 1)))
    L('gulp-block-head', [], z3.PrefixOf(cat(lit_doc("spline cubic\n"), tok("{} {} {}\n", K.pot_A(p), K.pot_B(p), c)), GU.gblock(p, c, nr)))
    # ADP: dipole/quadrupole values are unscaled (u(r), w(r), not r*u(r)), zero where undeclared
    L('adp-values-unscaled', [k >= 0], SF.pval(ps, a, b, dr, z3.BoolVal(False), k) == cat(tok(SF.NUM, phi(ps, a, b, real(k) * dr)), NL))
    L('adp-zero-when-undeclared', [find(ps, smin(a, b), smax(a, b), z3.Length(ps)) < 0, k >= 0],
      SF.pval(ps, a, b, dr, z3.BoolVal(False), k) == cat(tok(SF.NUM, z3.RealVal(0)), NL))
    return out + tables.routing_obligations('C19', ['GULP', 'eam_adp', 'excel', 'excel_eam', 'excel_eam_fs'])

MUTANTS = [
    (PT.FILE, 'GULP_PairTabulation._write_pot', "sepn=r, energy=energy", "sepn=energy, energy=r", 'preserve/0'),
    (PT.FILE, 'GULP_PairTabulation._write_pot', "cutoff=self.cutoff", "cutoff=self.nr", 'init/0'),
    (ET.FILE, 'ADP_EAMTabulation.write', "self._write_dipole(sbuild)\n    self._write_quadrupole(sbuild)", "self._write_quadrupole(sbuild)\n    self._write_dipole(sbuild)", 'post'),
    (SF.FILE, '_writeSetFLPairPots', "if scale_r:", "if True:", 'preserve/3'),
]
ASSUMPTIONS = ['A1: float as real', 'A7: GULP "spline cubic" library format; LAMMPS pair_style adp layout (u blocks then w blocks, lower triangle, unscaled)', 'A6: openpyxl (Excel targets are decided by the oracle only)']
BOUNDED = [dict(name='funcfl (writeFuncFL, _writeValueBlock) and the Excel sheets', bound='seeded models, quick 60 / thorough 1500 cases',
                technique='concrete oracle on the real code: the list-with-None value stream of funcfl and the openpyxl cell model are outside the handled subset')]
NOTES = ['ADP_EAMTabulationFactory._extract_pots (dipole/quadrupole sections read like [Pair]) is exercised through C09/C16 contracts, not here']

def oracle_payload(tier, seed, mode='search'): return dict(mode=mode, seed=seed, n=60 if tier == 'quick' else 1500)
def witness_for(ob, devs, run_oracle):
    if devs: d = devs[0]; return dict(deviates=True, input=d['input'], observed=d['observed'], expected=d['expected'])
    return dict(deviates=False)

import sys, json, subprocess, importlib, os
sys.path.insert(0, os.path.dirname(os.path.dirname(os.path.abspath(__file__))))
props = ['C%02d' % i for i in range(1,21)]
seeds = [int(x) for x in sys.argv[1:]] or [0,1,2,3]
env = dict(os.environ, PYTHONWARNINGS='ignore'); env.setdefault('ATSIM_ROOT', os.environ.get('VP_RUN_REPO', '/repo'))
bad = 0
for p in props:
    mod = importlib.import_module('props.' + p)
    for sd in seeds:
        if p == 'C12' and sd > seeds[0] + 1: continue
        pl = mod.oracle_payload('quick', sd)
        r = subprocess.run([os.path.join(os.path.dirname(os.path.abspath(__file__)), 'scratch_py'), '-W', 'ignore', os.path.join(os.path.dirname(os.path.dirname(os.path.abspath(__file__))), 'oracles', '%s.py' % p)], input=json.dumps(pl), capture_output=True, text=True, env=env)
        lines = [l for l in r.stdout.strip().split('\n') if l.startswith('{')]
        if not lines: print(p, sd, 'CRASH', r.stderr[-300:]); bad += 1; continue
        d = json.loads(lines[-1])
        devs = [x for x in d['deviations'] if x['case'] != 'nr-one']
        if devs: bad += 1; print(p, 'seed', sd, len(devs), [(x['case'], x['observed'][:100], str(x['expected'])[:60]) for x in devs[:2]])
print('done, alarms:', bad)

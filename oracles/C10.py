"""C10 oracle: splined potentials on the real code: regions, C2 joins, stationary point, three constructions agree."""
from _expr import *
from atsim.potentials.spline import SplinePotential, Buck4_SplinePotential

def ndiff(f, x, h=1e-5, n=1):
    if n == 1: return (f(x + h) - f(x - h)) / (2 * h)
    return (f(x + h) - 2 * f(x) + f(x - h)) / (h * h)

def onesided(f, x, side, n, h=1e-3):
    """n-th derivative (n = 0, 1, 2) of f at x from values on one side only (5-point stencils, error O(h^3) / O(h^4))"""
    v = [f(x + side * k * h) for k in range(5)]
    if n == 0: return v[0]
    if n == 1: return side * (-25 * v[0] + 48 * v[1] - 36 * v[2] + 16 * v[3] - 3 * v[4]) / (12 * h)
    return (35 * v[0] - 104 * v[1] + 114 * v[2] - 56 * v[3] + 11 * v[4]) / (12 * h * h)

def check_join(rep, name, case, sp_, fA, fB, d, a, rmin=None, inside_exact=None, outside_exact=None):
    for x in (d - 0.3, d - 1e-3, d):
        if not close(sp_(x), fA(x), 1e-10, 1e-12): rep.dev(name, case, 'V(%r)=%r' % (x, sp_(x)), 'start potential %r' % fA(x)); return False
    for x in (a, a + 1e-3, a + 0.7):
        if not close(sp_(x), fB(x), 1e-10, 1e-12): rep.dev(name, case, 'V(%r)=%r' % (x, sp_(x)), 'end potential %r' % fB(x)); return False
    tiny = 1e-9
    joins = [(d, fA, -1, 'detach'), (a, fB, +1, 'attach')]
    for pt, f, out_side, nm in joins:
        for n in (0, 1, 2):
            # exact derivatives where a closed form is at hand (stiff end potentials and exp(quintic) make finite differences
            # with any fixed step unreliable); one-sided 5-point stencils otherwise
            inside = inside_exact(pt, n) if inside_exact is not None else onesided(sp_, pt - out_side * tiny, -out_side, n)
            if outside_exact is not None: outside = outside_exact(nm, pt, n)
            elif n >= 1 and hasattr(f, 'deriv') and (n == 1 or hasattr(f, 'deriv2')): outside = f.deriv(pt) if n == 1 else f.deriv2(pt)
            else: outside = onesided(f, pt, out_side, n)
            # the coefficients come from a numerically solved 6x6 system on logarithms: steep start potentials cost digits
            # (seed 403: zbl(25,18) joined at 1.13 meets its start potential to 6e-6 relative), hence no tighter than 2e-5 on values
            exact_out = outside_exact is not None or (n >= 1 and hasattr(f, 'deriv') and (n == 1 or hasattr(f, 'deriv2')))
            tol = [2e-5, 1e-4, 1e-3][n] if (inside_exact is not None and (exact_out or n == 0)) else [2e-5, 5e-4, 2e-2][n]
            if not close(inside, outside, tol, tol * max(1.0, abs(outside))):
                rep.dev(name, case, 'derivative order %d inside the spline at %s (%r) = %r' % (n, nm, pt, inside), 'end potential: %r' % outside); return False
    if hasattr(sp_, 'deriv'):
        for x in (d - 0.1, (d + a) / 2 + 0.01, a + 0.1):
            want = (sp_(x + 1e-5) - sp_(x - 1e-5)) / 2e-5
            if not close(sp_.deriv(x), want, 1e-4, 1e-5): rep.dev(name, case, 'deriv(%r)=%r' % (x, sp_.deriv(x)), want); return False
    if rmin is not None:
        s1 = onesided(sp_, rmin - tiny, -1, 1)
        if abs(s1) > 1e-4 * max(1.0, abs(sp_(rmin))): rep.dev(name, case, 'slope at r_min = %r' % s1, 0.0); return False
        for n in (0, 1, 2):
            l, rr = onesided(sp_, rmin - tiny, -1, n), onesided(sp_, rmin, +1, n)
            tol = [1e-7, 5e-4, 2e-2][n]
            if not close(l, rr, tol, tol * max(1.0, abs(rr))): rep.dev(name, case, 'derivative order %d jumps at r_min: %r vs %r' % (n, l, rr), 'continuous'); return False
    rep.ok(12); return True

def check_case(rep, case, name):
    k = case['kind']
    try:
        if k == 'exp':
            fA, fB = to_api(case['A']), to_api(case['B']); d, a = case['d'], case['a']
            s1 = SplinePotential(fA, fB, d, a)
            co = s1.splineCoefficients
            def inside_exact(x, n):
                q = sum(c * x ** i for i, c in enumerate(co[:6])); q1 = sum(i * c * x ** (i - 1) for i, c in enumerate(co[:6]) if i >= 1)
                q2 = sum(i * (i - 1) * c * x ** (i - 2) for i, c in enumerate(co[:6]) if i >= 2)
                return [math.exp(q) + co[6], q1 * math.exp(q), (q2 + q1 * q1) * math.exp(q)][n]
            if not check_join(rep, name, case, s1, fA, fB, d, a, inside_exact=inside_exact): return
            # the derivatives OFFERED inside the splined region are those of exp(quintic) + C (they are what an enclosing spline joins to)
            for x in (d + 0.3 * (a - d), d + 0.7 * (a - d)):
                for n_, meth in ((1, 'deriv'), (2, 'deriv2')):
                    if hasattr(s1, meth):
                        got, want = getattr(s1, meth)(x), inside_exact(x, n_)
                        if not close(got, want, 1e-5, 1e-6 * max(1.0, abs(want))): rep.dev(name, case, '.%s(%r) inside the splined region = %r' % (meth, x, got), 'derivative of exp(quintic)+C: %r' % want); return
            # shape: exp(quintic) + C between the joins
            for x in (d + 0.25 * (a - d), d + 0.6 * (a - d)):
                want = math.exp(sum(c * x ** i for i, c in enumerate(co[:6]))) + co[6]
                mag = abs(want - co[6]) + abs(co[6])       # exp(q) + C cancels when C is large: the comparison is relative to the terms
                if abs(s1(x) - want) > 1e-10 * mag + 1e-12: rep.dev(name, case, 'spline(%r)=%r' % (x, s1(x)), 'exp(quintic)+C = %r' % want); return
            defn = 'spline(>0 %s >=%r exp_spline >=%r %s)' % (to_config(case['A']), d, a, to_config(case['B']))
            s2 = from_config(defn)
            for x in (0.5 * d, d, d + 0.3 * (a - d), (d + a) / 2, a, a + 0.5):
                if not close(s1(x), s2(x), 1e-9, 1e-11): rep.dev(name, case, 'spline() modifier at %r: %r' % (x, s2(x)), 'SplinePotential: %r' % s1(x)); return
            rep.ok(6)
            # the same spline with the end potential given as a potential modifier behind an exclusive attach marker (`>attach`, the style
            # of the as.buck4 shorthand): the end potential is fitted at the attach point itself, so its own range must not apply there
            defn3 = 'spline(>0 %s >=%r exp_spline >%r sum(%s, as.constant 0.0))' % (to_config(case['A']), d, a, to_config(case['B']))
            try: s3 = from_config(defn3)
            except Exception as e: rep.dev(name, case, 'modifier end potential behind >attach rejected: %s' % str(e)[:120], 'SplinePotential'); return
            for x in (0.5 * d, d, d + 0.3 * (a - d), (d + a) / 2, a, a + 0.5):
                tol_ = 1e-7 if x == a else 1e-9
                if not close(s1(x), s3(x), tol_, 1e-11): rep.dev(name, case, 'spline() with a modifier end potential behind >attach at %r: %r' % (x, s3(x)), 'SplinePotential: %r' % s1(x)); return
            rep.ok(6)
        elif k == 'nested':
            A, rho, C, d1, m1, a1 = case['params']; d, a = case['d'], case['a']
            inner = pf.buck4(A, rho, C, d1, m1, a1); outer_end = pf.zero()
            s1 = SplinePotential(inner, outer_end, d, a)
            s2 = from_config('spline(as.buck4 %r %r %r %r %r %r >=%r exp_spline >=%r as.zero)' % (A, rho, C, d1, m1, a1, d, a))
            for sp_, label in ((s1, 'SplinePotential'), (s2, 'spline() modifier')):
                # continuity of value, slope and curvature at the outer detach point, from VALUES of the potential only
                h = 1e-3
                def one(side, n):
                    v = [sp_(d + side * k_ * h) for k_ in range(5)]
                    if n == 0: return v[0]
                    if n == 1: return side * (-25 * v[0] + 48 * v[1] - 36 * v[2] + 16 * v[3] - 3 * v[4]) / (12 * h)
                    return (35 * v[0] - 104 * v[1] + 114 * v[2] - 56 * v[3] + 11 * v[4]) / (12 * h * h)
                for n_ in (0, 1, 2):
                    l_, r_ = one(-1, n_), one(+1, n_)
                    tol = [1e-7, 5e-4, 3e-2][n_]
                    if not close(l_, r_, tol, tol * max(1.0, abs(r_))):
                        rep.dev(name, case, '%s: derivative order %d jumps at the outer detach point %r: %r below, %r above' % (label, n_, d, l_, r_), 'continuous (the inner splined potential\'s own derivatives are joined to)'); return
            rep.ok(6)
        else:
            A, rho, C, d, m, a = case['params']
            b1 = pf.buck4(A, rho, C, d, m, a)
            b2 = Buck4_SplinePotential(pf.bornmayer(A, rho), pf.buck(0, 1.0, C), d, a, m)
            b3 = from_config('as.buck4 %r %r %r %r %r %r' % (A, rho, C, d, m, a))
            b4 = from_config('spline(as.buck %r %r 0 >%r buck4_spline %r >%r as.buck 0 1 %r)' % (A, rho, d, m, a, C))
            fA = lambda x: A * math.exp(-x / rho); fB = lambda x: -C / x ** 6
            def outside_exact(nm, x, n):
                if nm == 'detach': return [A * math.exp(-x / rho), -A / rho * math.exp(-x / rho), A / rho ** 2 * math.exp(-x / rho)][n]
                return [-C / x ** 6, 6 * C / x ** 7, -42 * C / x ** 8][n]
            if not check_join(rep, name, case, b1, fA, fB, d, a, m, outside_exact=outside_exact): return
            for x in (0.5 * d, d, (d + m) / 2, m, (m + a) / 2, a, a + 1.0):
                vals = [b(x) for b in (b1, b2, b3, b4)]
                if not all(close(vals[0], v, 1e-9, 1e-11) for v in vals): rep.dev(name, case, 'constructions at %r: %r' % (x, vals), 'equal'); return
            rep.ok(7)
    except Exception as e:
        import traceback; rep.dev(name, case, 'exception %r %s' % (e, traceback.format_exc()[-400:]), 'a splined potential')

def gen_case(rng):
    if rng.random() < 0.5:
        d = round(rng.uniform(0.6, 1.4), 2); a = round(d + rng.uniform(0.4, 1.2), 2)
        starts = [('leaf', 'zbl', [rng.randint(1, 30), rng.randint(1, 30)]), ('leaf', 'bornmayer', [round(rng.uniform(500, 2000), 1), round(rng.uniform(0.2, 0.4), 3)]), ('leaf', 'coul', [2, 2])]
        ends = [('leaf', 'buck', [round(rng.uniform(500, 2000), 1), round(rng.uniform(0.2, 0.4), 3), round(rng.uniform(0, 40), 1)]),
                ('leaf', 'lj', [round(rng.uniform(0.01, 0.3), 3), round(rng.uniform(1.5, 3.2), 2)]),
                ('leaf', 'morse', [round(rng.uniform(0.8, 2), 2), round(rng.uniform(1.5, 2.5), 2), round(rng.uniform(0.2, 3), 2)]),
                ('leaf', 'polynomial', [round(rng.uniform(-2, 2), 2), round(rng.uniform(-1, 1), 2), round(rng.uniform(-0.3, 0.3), 2)])]
        return dict(kind='exp', A=rng.choice(starts), B=rng.choice(ends), d=d, a=a)
    if rng.random() < 0.25:
        # a splined potential as the start potential of another spline, the outer detach point inside the inner splined region
        return dict(kind='nested', params=[round(rng.uniform(800, 3000), 1), round(rng.uniform(0.25, 0.35), 3), round(rng.uniform(10, 60), 1), 1.2, 2.1, 2.6],
                    d=rng.choice([2.2, 2.3, 2.45]), a=rng.choice([3.2, 3.5]))
    d = rng.choice([1, 1.2, round(rng.uniform(0.9, 1.6), 2)]); m = rng.choice([2, 2.1, round(d + rng.uniform(0.5, 1.0), 2)]); a = rng.choice([3, 2.6, round(m + rng.uniform(0.4, 1.0), 2)])
    if not d < m < a: d, m, a = 1.2, 2.1, 2.6
    return dict(kind='buck4', params=[round(rng.uniform(500, 12000), 1), round(rng.uniform(0.2, 0.4), 3), rng.choice([0.0, round(rng.uniform(5, 120), 1), round(rng.uniform(5, 120), 1)]), d, m, a])

if __name__ == '__main__':
    pl = payload(); rep = Report('C10')
    if pl.get('mode') == 'replay': rep.case('replay', pl['input']); check_case(rep, pl['input'], 'replay')
    else:
        rng = random.Random(pl.get('seed', 0))
        c = dict(kind='buck4', params=[1000.0, 0.3, 30.0, 1, 2, 3]); rep.case('buck4', c); check_case(rep, c, 'buck4-integer-points')
        for i in range(pl.get('n', 12)):
            c = gen_case(rng); rep.case(c['kind'], c); check_case(rep, c, 'seeded-%d' % i)
    rep.finish()

CLAIMED = {
 'C01': dict(
   text='Every function on the path from the tabulation classes to the bytes of a LAMMPS table (row loop, block join, grid arguments at the call site, Potential.force = -gradient, gradient dispatch) is verified against a contract for all row counts, cutoffs, labels and callables; the property statement is a lemma over those contracts (grid identity, exactly N rows, row k, block j). Proof level because each obligation is discharged for unbounded inputs by z3/cvc5 from VCs generated from the current source.',
   note='Trusted: the VC generator (pyvc), z3/cvc5, float-as-real (A1) except where an integer is derived from a float (explicit rounding obligation), the consumer convention of LAMMPS pair_style table (A7). The potable route (config -> Potential list) is covered by the factory contracts where listed in evidence.functions_under_contract, otherwise by the concrete oracle (bounded, reported under cpython_crosscheck).'),
}
NOT_APPLICABLE = {}

"""Forward symbolic execution of real function bodies (ast) producing SMT obligations."""
import ast, itertools
import z3
from .core import *
from .values import *
from .extract import Module, FuncInfo, get_func
from .solve import Obligation
from .registry import REG, Contract

_ids = itertools.count(1)

def fresh(sort, name):
    return z3.Const('%s!%d' % (name, next(_ids)), sort)

class State(object):
    def __init__(self):
        self.frames = [{}]
        self.cells = {}
        self.pc = []
        self.written = {}      # cell id -> True once a write reached an *external* document (C17)
    def copy(self):
        s = State()
        s.frames = [dict(f) for f in self.frames]
        s.cells = dict(self.cells)
        s.pc = list(self.pc)
        s.written = dict(self.written)
        if hasattr(self, 'inv_seen'): s.inv_seen = set(self.inv_seen)
        return s
    @property
    def env(self): return self.frames[-1]
    def new_cell(self, content):
        i = next(_ids)
        self.cells[i] = content
        return Ref(i)

class Outcome(object):
    def __init__(self, kind, state, value=None):
        self.kind, self.state, self.value = kind, state, value   # kind: normal|return|raise|break|continue

class NS(object):
    """namespace handed to contract formulas"""
    def __init__(self, ex, state, frame=None, extra=None):
        object.__setattr__(self, '_ex', ex); object.__setattr__(self, '_st', state)
        object.__setattr__(self, '_frame', frame if frame is not None else state.env)
        object.__setattr__(self, '_extra', extra or {})
    def __getattr__(self, name):
        if name in self._extra: return self._extra[name]
        if name == 'stdout' and name not in self._frame:
            c_ = self._st.cells.get('stdout')
            return c_.z if c_ is not None else z3.Const('stdout0', Doc)        # (never written on this path: still what it was at entry)
        if name not in self._frame:
            raise AttributeError('contract refers to unknown variable %r (have %s)' % (name, sorted(self._frame)))
        d = self._ex.deref(self._frame[name], self._st)
        if isinstance(d, PyList) and name in self._ex.loop_list_types:
            ty = self._ex.loop_list_types[name]
            if not d.items: return z3.Empty(z3.SeqSort(ty.sort()))
            zs = [z3.Unit(self._ex.elem_term(i, ty, self._st)) for i in d.items]
            return zs[0] if len(zs) == 1 else z3.Concat(*zs)
        return self._ex.term_of(self._frame[name], self._st)
    def has(self, name): return name in self._frame or name in self._extra
    def field(self, name, fld):
        """term of a field of a record-valued variable (callables become Fn terms)"""
        rec = self._ex.deref(self._frame[name], self._st)
        if isinstance(rec, Obj):      # at call sites `self` is the freshly created object: its fields are selector terms
            fty = self._ex.reg.field_type(rec.cls, fld)
            if fty is None: raise Unsupported('field %s.%s not declared' % (rec.cls, fld))
            return self._ex.term_of(self._ex.read_field(rec, fld, fty, self._st), self._st)
        v = rec.fields[fld]
        d = self._ex.deref(v, self._st)
        if isinstance(d, (Closure, BoundMethod, FuncV, Rec)): return self._ex.as_fn(v, self._st)
        if isinstance(d, (PyList, Tup)) and not d.items:
            fty = self._ex.reg.field_type(rec.cls, fld)
            if fty is not None and fty.kind in ('List', 'MList'): return z3.Empty(z3.SeqSort(fty.args[0].sort()))
        return self._ex.term_of(v, self._st)
    def has_field(self, name, fld):
        return fld in self._ex.deref(self._frame[name], self._st).fields
    def val(self, name):
        v = self._frame[name]
        gty = self._ex.loop_list_types.get(name)
        if isinstance(v, NoneV) and gty is not None and gty.kind == 'Opt':
            inner = gty.args[0]
            return Opt(z3.BoolVal(True), wrap(inner, z3.Const('none!' + name, inner.sort())))
        if gty is not None and gty.kind == 'Opt' and not isinstance(v, Opt):
            return Opt(z3.BoolVal(False), v)
        return v


class Exec(object):
    """executes one function under its contract; collects obligations in self.obls"""
    def __init__(self, prop, contract, fi, registry=REG, track_raises=False, mutate=None):
        self.prop, self.contract, self.fi, self.reg = prop, contract, fi, registry
        self.track_raises = track_raises
        self.obls = []
        self.loop_counter = 0
        self.loop_ids = {}
        self.comp_counter = 0
        self.vacuity = []          # reasons why some code was not checked because its path condition is contradictory (checker error)
        self.used_specs = set()    # spec sequences whose nth lemma was used as a hypothesis (the property module must list them in SPECSEQS)
        self.axioms = []           # closure definitions etc. (quantified, pattern-guarded)
        self.module = fi.module
        self.fname = '%s::%s' % (fi.file.split('/')[-1], fi.qualname)
        self.notes = []
        self.call_depth = 0
        self.old_ns = None

    # ------------------------------------------------------------------ helpers
    def obl(self, kind, state, goal, carries=False, extra_h=(), suffix=''):
        name = '%s/%s/%s%s' % (self.prop, self.fname, kind, suffix)
        while z3.is_quantifier(goal) and goal.is_forall():
            vs = [fresh(goal.var_sort(i), 'sk_' + goal.var_name(i)) for i in range(goal.num_vars())]
            goal = z3.substitute_vars(goal.body(), *reversed(vs))
        n = sum(1 for o in self.obls if o.name.split('@')[0] == name)
        if n: name = '%s@%d' % (name, n)
        o = Obligation(name, list(state.pc) + list(self.axioms) + list(extra_h), goal, kind=kind.split('/')[0],
                       function=self.fname, where='%s:%d-%d' % (self.fi.file, self.fi.lines[0], self.fi.lines[1]),
                       carries_property=carries, unfold_depth=self.contract.unfold_depth)
        o.abstract_nonlinear = getattr(self.contract, 'abstract_nonlinear', False)
        o.instantiate_int_foralls = getattr(self.contract, 'instantiate_int_foralls', False)
        self.obls.append(o)
        return o

    def deref(self, v, st):
        if isinstance(v, InnerRef):
            # the dictionary stored under `key` of a two-level dictionary, read through the current state of the outer one
            o = st.cells[v.outer.id]
            return wrap(o.vty, z3.Select(o.get, v.key))
        return st.cells[v.id] if isinstance(v, Ref) else v

    def term_of(self, v, st):
        v = self.deref(v, st)
        if isinstance(v, Opt): return v      # contracts use .isnone/.val
        if isinstance(v, (SymSet, SymDict)): return v
        if isinstance(v, Rec): return v
        if isinstance(v, NoneV): return v
        return unwrap(v)

    def truth(self, v, st):
        v0 = self.deref(v, st)
        if isinstance(v0, SymSet):
            x = z3.Const('x!nz', v0.has.sort().domain())
            return z3.Exists([x], z3.Select(v0.has, x))        # a set is true when it has a member
        v = self.deref(v, st)
        if isinstance(v, Sc):
            if v.py == 'bool': return v.z
            if v.py in ('int',): return v.z != 0
            if v.py == 'float': return v.z != 0
            if v.py == 'str': return z3.Length(v.z) > 0
            if v.py == 'val':       # a dynamically typed value: 0, 0.0, '' and None are false
                return z3.Or(z3.And(Val.is_VI(v.z), Val.vi(v.z) != 0), z3.And(Val.is_VR(v.z), Val.vr(v.z) != 0), z3.And(Val.is_VS(v.z), z3.Length(Val.vs(v.z)) > 0))
        if isinstance(v, NoneV): return z3.BoolVal(False)
        if isinstance(v, Opt): return z3.And(z3.Not(v.isnone), self.truth(v.val, st))
        if isinstance(v, PyStr): return z3.BoolVal(len(v.s) > 0)
        if isinstance(v, (PyList, Tup)): return z3.BoolVal(len(v.items) > 0)
        if isinstance(v, SeqV): return z3.Length(v.z) > 0
        if isinstance(v, PyDict): return z3.BoolVal(len(v.d) > 0)
        if isinstance(v, (Obj, FnV, Closure, Rec, ClassV, FuncV)): return z3.BoolVal(True)
        if isinstance(v, Text): return z3.Length(v.z) > 0     # formatted text of >=1 token is non-empty (fields never render empty except %s of '')
        raise Unsupported('truth of %r' % (v,))

    def as_real(self, v):
        if isinstance(v, Sc):
            if v.py in ('int', 'bool'):
                z = v.z if v.py == 'int' else z3.If(v.z, 1, 0)
                return z3.ToReal(z)
            if v.py == 'float': return v.z
        raise Unsupported('as_real %r' % (v,))

    def canonical_closure_name(self, v, st):
        """a nested function that captures nothing denotes the same callable wherever it is created: it gets a name
        derived from its source position so that specs can refer to it (closure_fn in contracts)"""
        if not isinstance(v, Closure) or v.self_val is not None: return None
        node = v.node
        params = {a.arg for a in node.args.args}
        local = {n.id for n in ast.walk(node) if isinstance(n, ast.Name) and isinstance(n.ctx, ast.Store)}
        for n in ast.walk(node):
            if isinstance(n, ast.Name) and isinstance(n.ctx, ast.Load) and n.id not in params and n.id not in local:
                if any(n.id in fr for fr in st.frames): return None        # captures a variable
        return closure_name(v.module.relpath, v.qual or node.name)

    def as_fn(self, v, st):
        """value usable as a callable of one real argument -> z3 Fn term"""
        ref = v
        v = self.deref(v, st)
        if isinstance(v, Dual): v = v.fn
        if isinstance(v, FnV): return v.z
        if isinstance(v, Obj):
            raise Unsupported('callable object %r used as a function: give it an Fn-typed field or a contract' % (v,))
        if isinstance(v, Rec):
            key = ('recfn', ref.id, tuple(sorted((k, id(x)) for k, x in v.fields.items())))
            if key in self._fn_cache: return self._fn_cache[key]
            v = BoundMethod(ref, '__call__')
            rec = self.deref(ref, st)
        else:
            rec = None; key = None
        if isinstance(v, (Closure, BoundMethod, FuncV)):
            canon = self.canonical_closure_name(v, st)
            if canon is not None and canon in self._fn_cache: return self._fn_cache[canon]
            f = z3.Const(canon, Fn) if canon else fresh(Fn, 'clos')
            if canon: self._fn_cache[canon] = f
            r = fresh(RealS, 'r')
            st2 = st.copy(); st2.pc = []
            saved_r, saved_t = self._raises, self.track_raises
            self._raises = []; self.track_raises = False
            try:
                outs = self.call_value(v, [Sc(r, 'float')], {}, st2, node=None)
            finally:
                self._raises, self.track_raises = saved_r, saved_t
            body = None
            for val, s_o in reversed(outs):
                val = self.as_real(self.deref(val, s_o))
                cond = z3.And(*s_o.pc) if s_o.pc else z3.BoolVal(True)
                body = val if body is None else z3.If(cond, val, body)
            if body is None: raise Unsupported('callable with no normal path')
            if rec is None and z3.is_app(body) and body.decl().name() == 'app' and z3.eq(body.arg(1), r) and not _mentions(body.arg(0), r):
                # lambda r: g(r)
                if not getattr(self, '_eta_added', False):
                    self.axioms.extend(eta_axioms()); self._eta_added = True
                return eta(body.arg(0))
            self.axioms.append(z3.ForAll([r], app(f, r) == body, patterns=[app(f, r)]))
            # the closure raises exactly when one of the applications inside it raises
            rs = _collect_apps(body)
            cond = z3.Or(*[raises(g, a) for g, a in rs]) if rs else z3.BoolVal(False)
            self.axioms.append(z3.ForAll([r], raises(f, r) == cond, patterns=[raises(f, r)]))
            if rec is not None:
                self._fn_cache[key] = f
                # analytic derivative offered by the object?
                for attr, hasf, getf in (('deriv', has_deriv, dfn), ('deriv2', has_deriv2, d2fn)):
                    if attr in rec.fields or rec.module.find_method(rec.cls, attr) is not None:
                        self.axioms.append(hasf(f))
                        target = rec.fields[attr] if attr in rec.fields else BoundMethod(ref, attr)
                        self.axioms.append(getf(f) == self.as_fn(target, st))
                    else:
                        self.axioms.append(z3.Not(hasf(f)))
            return f
        raise Unsupported('not a callable: %r' % (v,))


def closure_name(relpath, name):
    return 'clos:%s:%s' % (relpath.split('/')[-1], name)

def _mentions(e, x):
    stack = [e]
    while stack:
        y = stack.pop()
        if z3.eq(y, x): return True
        stack.extend(y.children())
    return False

def _collect_apps(e):
    out, seen, stack = [], set(), [e]
    while stack:
        x = stack.pop()
        if x.get_id() in seen: continue
        seen.add(x.get_id())
        if z3.is_app(x) and x.decl().name() == 'app': out.append((x.arg(0), x.arg(1)))
        stack.extend(x.children())
    return out


# =====================================================================================
# expressions
# =====================================================================================
def _arith(op, l, r):
    """arithmetic on Sc values with Python's int/float typing"""
    lz, rz = l.z, r.z
    lf, rf = l.py == 'float', r.py == 'float'
    if l.py == 'bool': lz = z3.If(lz, 1, 0)
    if r.py == 'bool': rz = z3.If(rz, 1, 0)
    isf = lf or rf
    if isinstance(op, ast.Div):
        if not lf: lz = z3.ToReal(lz)
        if not rf: rz = z3.ToReal(rz)
        return Sc(lz / rz, 'float')
    if isf:
        if not lf: lz = z3.ToReal(lz)
        if not rf: rz = z3.ToReal(rz)
    if isinstance(op, ast.Add): return Sc(lz + rz, 'float' if isf else 'int')
    if isinstance(op, ast.Sub): return Sc(lz - rz, 'float' if isf else 'int')
    if isinstance(op, ast.Mult): return Sc(lz * rz, 'float' if isf else 'int')
    if isinstance(op, (ast.Mod, ast.FloorDiv)):
        if isf: raise Unsupported('float modulo / floor division')
        # Python: q = floor(l / r), l % r = l - r*q (sign of the divisor).  SMT-LIB div/mod are Euclidean: they agree with
        # Python for a positive divisor; for a negative one floor(l/r) = floor((-l)/(-r)) = (-l) div (-r).
        rs = z3.simplify(rz)
        if z3.is_int_value(rs) and rs.as_long() > 0:
            return Sc(lz % rz, 'int') if isinstance(op, ast.Mod) else Sc(lz / rz, 'int')
        q = z3.If(rz > 0, lz / rz, (-lz) / (-rz))
        return Sc(lz - rz * q, 'int') if isinstance(op, ast.Mod) else Sc(q, 'int')
    if isinstance(op, ast.Pow):
        if z3.is_int_value(rz) and rz.as_long() >= 0 and rz.as_long() <= 6:
            n = rz.as_long(); out = z3.RealVal(1) if isf else z3.IntVal(1)
            for _ in range(n): out = out * lz
            return Sc(out, 'float' if isf else 'int')
        raise Unsupported('general power')
    raise Unsupported('operator %s' % type(op).__name__)

class ExprMixin(object):
    def ev(self, n, st):
        """evaluate expression node in state -> list of (value, state) (expressions may fork and raise)
        Raising paths are reported through self._raise_outs (collected by the statement layer)."""
        m = getattr(self, 'ev_' + type(n).__name__, None)
        if m is None: raise Unsupported('expression %s at %s:%d' % (type(n).__name__, self.fi.file, getattr(n, 'lineno', 0)))
        return m(n, st)

    def ev1(self, n, st):
        """single-path evaluation (most expressions); forks are merged into the pending list"""
        res = self.ev(n, st)
        if len(res) == 1: return res[0][0]
        raise _Fork(res)

    # ---- leaves
    def ev_Constant(self, n, st):
        v = n.value
        if isinstance(v, bool): return [(Sc(z3.BoolVal(v), 'bool'), st)]
        if isinstance(v, int): return [(Sc(z3.IntVal(v), 'int'), st)]
        if isinstance(v, float): return [(Sc(z3.RealVal(repr(v)), 'float'), st)]
        if isinstance(v, str): return [(PyStr(v), st)]
        if v is None: return [(NONE, st)]
        raise Unsupported('constant %r' % (v,))

    def lookup(self, name, st):
        for fr in (st.frames[-1],):
            if name in fr: return fr[name]
        # enclosing function frames (closures executed inline)
        if getattr(self, '_closure_frames', None):
            for d in reversed(self._closure_frames):
                if d < len(st.frames) and name in st.frames[d]: return st.frames[d][name]
        mod = self._cur_module()
        ag = getattr(self.contract, 'abstract_globals', None) or {}
        if name in ag and mod.relpath == self.fi.file:
            # a module-level data table is not interpreted: the contract names it (an arbitrary table: sound for every content)
            self.reg.assume('module-level table %s.%s is treated as an arbitrary table of its declared shape' % (mod.relpath, name))
            return ag[name]
        r = mod.resolve(name)
        if r is not None:
            if r[0] == 'func': return FuncV(r[1].funcs[r[2]])
            if r[0] == 'class': return ClassV(r[1], r[2])
            if r[0] == 'module': return ModuleV(module=r[1])
            if r[0] == 'ext': return ModuleV(ext=(r[1], r[2]))
            if r[0] == 'const':
                saved = self._module_stack; self._module_stack = saved + [r[1]]
                try: return self.ev1(r[2], st)
                finally: self._module_stack = saved
        if name in _BUILTINS: return Builtin(name)
        raise NameErrorSite(name)

    def _cur_module(self):
        return self._module_stack[-1]

    def ev_Name(self, n, st):
        v = self.lookup(n.id, st)
        if isinstance(v, Unknown):
            raise Unsupported('variable %r is used in a loop iteration (or after the loop) without being assigned first on this path; '
                              'its value comes from an earlier iteration and is not described by the invariant' % n.id)
        return [(v, st)]

    def ev_Tuple(self, n, st):
        return self._ev_seq(n.elts, st, lambda items: Tup(items))
    def ev_List(self, n, st):
        def mk(items, st=st): return items
        res = self._ev_list(n.elts, st)
        return [(s.new_cell(PyList(items)), s) for items, s in res]

    def _ev_list(self, nodes, st):
        """evaluate nodes left to right -> list of (values, state)"""
        acc = [([], st)]
        for e in nodes:
            nxt = []
            for items, s in acc:
                if isinstance(e, ast.Starred):
                    for v, s2 in self.ev(e.value, s):
                        if isinstance(self.deref(v, s2), SeqV): nxt.append((items + [StarSeq(self.deref(v, s2))], s2))      # f(*list of symbolic length)
                        else: nxt.append((items + self.iter_concrete(v, s2), s2))
                else:
                    for v, s2 in self.ev(e, s):
                        nxt.append((items + [v], s2))
            acc = nxt
        return acc

    def _ev_seq(self, nodes, st, mk):
        return [(mk(items), s) for items, s in self._ev_list(nodes, st)]

    def iter_concrete(self, v, st):
        v = self.deref(v, st)
        if isinstance(v, (Tup, PyList)): return list(v.items)
        if isinstance(v, PyStr): return [PyStr(c) for c in v.s]
        if isinstance(v, TupTerm):
            S_ = v.z.sort()
            return [wrap(t_, S_.accessor(0, i_)(v.z)) for i_, t_ in enumerate(v.tys)]
        raise Unsupported('cannot enumerate %r concretely' % (v,))

    def ev_Dict(self, n, st):
        keys = []
        for k in n.keys:
            if not (isinstance(k, ast.Constant)): raise Unsupported('dict display with non-constant key')
            keys.append(k.value)
        res = self._ev_list(n.values, st)
        return [(s.new_cell(PyDict(dict(zip(keys, vals)))), s) for vals, s in res]

    # ---- operators
    def ev_UnaryOp(self, n, st):
        out = []
        for v, s in self.ev(n.operand, st):
            if isinstance(n.op, ast.Not): out.append((Sc(z3.Not(self.truth(v, s)), 'bool'), s))
            elif isinstance(n.op, ast.USub):
                v = self.deref(v, s); out.append((Sc(-v.z, v.py), s))
            elif isinstance(n.op, ast.UAdd): out.append((v, s))
            else: raise Unsupported('unary op')
        return out

    def ev_BinOp(self, n, st):
        out = []
        for l, s1 in self.ev(n.left, st):
            for r, s2 in self.ev(n.right, s1):
                out.extend(self.binop(n.op, l, r, s2, n))
        return out

    def binop(self, op, l, r, st, node=None):
        l, r = self.deref(l, st), self.deref(r, st)
        # string formatting
        if isinstance(op, ast.Mod) and isinstance(l, PyStr):
            return [(self.format_percent(l.s, r, st), st)]
        if isinstance(l, PyStr) and isinstance(r, PyStr) and isinstance(op, ast.Add):
            return [(PyStr(l.s + r.s), st)]
        if isinstance(op, ast.Mult):
            for a, b in ((l, r), (r, l)):
                if isinstance(a, PyStr) and isinstance(b, Sc) and z3.is_int_value(b.z):
                    return [(PyStr(a.s * b.z.as_long()), st)]
                if isinstance(a, Tup) and isinstance(b, Sc) and z3.is_int_value(b.z):
                    return [(Tup(a.items * b.z.as_long()), st)]
        if isinstance(op, ast.Add) and isinstance(l, (Text, PyStr)) and isinstance(r, (Text, PyStr)):
            return [(Text(cat(self.to_doc(l), self.to_doc(r))), st)]
        if isinstance(op, ast.Add) and isinstance(l, Tup) and isinstance(r, Tup):
            return [(Tup(l.items + r.items), st)]
        if isinstance(op, ast.Add) and isinstance(l, SeqV) and isinstance(r, SeqV) and l.elem == r.elem:
            return [(SeqV(z3.Concat(l.z, r.z), l.elem), st)]        # tuples / lists of symbolic length: concatenation
        if isinstance(op, ast.Add) and isinstance(l, PyList) and isinstance(r, PyList):
            return [(st.new_cell(PyList(l.items + r.items)), st)]
        if isinstance(l, SymSet) and isinstance(r, SymSet) and isinstance(op, (ast.Sub, ast.BitOr, ast.BitAnd, ast.BitXor)):
            # set algebra, pointwise on the membership functions
            has = fresh(l.has.sort(), 'setop.has'); x = z3.Const('x!so', l.has.sort().domain())
            a, b = z3.Select(l.has, x), z3.Select(r.has, x)
            body = {ast.Sub: z3.And(a, z3.Not(b)), ast.BitOr: z3.Or(a, b), ast.BitAnd: z3.And(a, b), ast.BitXor: z3.Xor(a, b)}[type(op)]
            st.pc.append(z3.ForAll([x], z3.Select(has, x) == body, patterns=[z3.Select(has, x)]))
            return [(st.new_cell(SymSet(has, l.kty)), st)]
        if isinstance(l, Sc) and isinstance(r, Sc):
            if isinstance(op, (ast.Div, ast.Mod, ast.FloorDiv)):
                # ZeroDivisionError site (int and float alike) unless the divisor is a non-zero literal
                rs = z3.simplify(r.z)
                if not ((z3.is_int_value(rs) or z3.is_rational_value(rs)) and not z3.is_true(z3.simplify(rs == 0))):
                    s_z = st.copy(); s_z.pc.append(r.z == 0)
                    self.raise_exc('ZeroDivisionError', s_z)
                    st.pc.append(r.z != 0)
            return [(_arith(op, l, r), st)]
        raise Unsupported('binop %s on %r, %r' % (type(op).__name__, l, r))

    def to_doc(self, v):
        if isinstance(v, Text): return v.z
        if isinstance(v, PyStr): return lit_doc(v.s)
        if isinstance(v, DocObj): return v.z
        raise Unsupported('to_doc %r' % (v,))

    def format_percent(self, template, arg, st):
        arg = self.deref(arg, st)
        t = parse_percent(template)
        keys = t.keys()
        if isinstance(arg, PyDict): vals = {k: arg.d[k] for k in keys}
        elif isinstance(arg, Tup): vals = dict(zip(keys, arg.items)); assert len(arg.items) == len(keys), 'format arity'
        elif isinstance(arg, SeqV):
            # "%e %e %e %e" % tuple(l) with len(l) known from the path condition
            n = len(keys)
            self.obl_now('fmt-arity', st, z3.Length(arg.z) == n)
            vals = {k: wrap(arg.elem, arg.z[i]) for i, k in enumerate(keys)}
        else: vals = {keys[0]: arg} if keys else {}
        return self.render(t, vals, st)

    def render(self, t, vals, st):
        """template + values -> PyStr (all concrete) or Text"""
        docs, concrete = [], True
        pieces = []
        for p in t.parts:
            if p[0] == 'lit': docs.append(lit_doc(p[1])); pieces.append(p[1])
            else:
                v = self.deref(vals[p[1]], st)
                if isinstance(v, PyStr) and p[2][0] == 's' and p[2][2] is None:
                    docs.append(lit_doc(v.s)); pieces.append(v.s)
                elif isinstance(v, Text):
                    if p[2] != ('s', '', None, None): raise Unsupported('formatted text inside a width/precision field')
                    docs.append(v.z); concrete = False
                elif isinstance(v, Sc):
                    z = v.z
                    if v.py == 'val':
                        docs.append(z3.Unit(Tok.Fld(spec_id(p[2]), z)))
                    else:
                        docs.append(fld_doc(p[2], z))
                    concrete = False
                elif isinstance(v, PyStr):
                    docs.append(fld_doc(p[2], z3.StringVal(v.s))); concrete = False
                elif isinstance(v, (ExcV, Obj, NoneV, Opt, Tup, TupTerm, SeqV, PyList)):
                    # str() of an object inside a message: some text (messages are not part of any contract)
                    docs.append(fld_doc(('s', '', None, None), fresh(StrS, 'strof'))); concrete = False
                else:
                    raise Unsupported('format argument %r' % (v,))
        if concrete: return PyStr(''.join(pieces))
        return Text(cat(*docs))

    def ev_BoolOp(self, n, st):
        """and/or in boolean positions.  Operands are evaluated left to right; each later operand is evaluated in a scratch
        state that assumes the earlier ones were true (and) / false (or), with optional variables refined accordingly —
        Python's short-circuit semantics for pure operands.  Facts learnt while evaluating an operand (postconditions of
        contract calls) are kept in the real state, guarded by the condition under which that operand is evaluated."""
        isand = isinstance(n.op, ast.And)
        if len(n.values) == 2 and not getattr(self, '_in_truth_context', False):
            # value position with non-boolean operands: `a or b` is a if a is true else b (operands without side effects)
            try:
                ra = self.ev(n.values[0], st.copy())
                if len(ra) == 1 and isinstance(self.deref(ra[0][0], ra[0][1]), Sc) and self.deref(ra[0][0], ra[0][1]).py in ('int', 'float', 'str'):
                    a, s_a = self.deref(ra[0][0], ra[0][1]), ra[0][1]
                    rb = self.ev(n.values[1], s_a)
                    if len(rb) == 1 and isinstance(self.deref(rb[0][0], rb[0][1]), Sc) and self.deref(rb[0][0], rb[0][1]).py == a.py:
                        b, s_b = self.deref(rb[0][0], rb[0][1]), rb[0][1]
                        t = self.truth(a, s_b)
                        return [(Sc(z3.If(t, b.z, a.z) if isand else z3.If(t, a.z, b.z), a.py), s_b)]
            except Unsupported: pass
        out = []
        def go(i, real, s_eval, acc, guard):
            n0 = len(s_eval.pc)
            res = self.ev(n.values[i], s_eval)
            for v, s2 in res:
                # an operand that forks (d.get(k, default), an optional value ...) splits the path: each outcome continues in its own copy of
                # the real state -- merging the facts of alternative outcomes into one state would make it contradictory
                real_b = real if len(res) == 1 else real.copy()
                for fact in s2.pc[n0:]:
                    real_b.pc.append(z3.Implies(z3.And(*guard), fact) if guard else fact)
                t = self.truth(v, s2)
                if i == len(n.values) - 1:
                    out.append((Sc(z3.And(*(acc + [t])) if isand else z3.Or(*(acc + [t])), 'bool'), real_b)); continue
                ts = z3.simplify(t)
                if (isand and z3.is_false(ts)) or (not isand and z3.is_true(ts)):
                    out.append((Sc(z3.BoolVal(not isand), 'bool'), real_b)); continue      # short circuit decided here
                s3 = s2.copy()
                c = t if isand else z3.Not(t)
                s3.pc.append(c)
                if not self.feasible(s3):
                    out.append((Sc(z3.And(*(acc + [t])) if isand else z3.Or(*(acc + [t])), 'bool'), real_b)); continue
                self.refine_optional(n.values[i], s3, isand)
                go(i + 1, real_b, s3, acc + [t], guard + [c])
        go(0, st, st.copy(), [], [])
        return out

    def ev_Compare(self, n, st):
        out = []
        for l, s1 in self.ev(n.left, st):
            if len(n.ops) == 2:
                # a op1 b op2 c  ==  (a op1 b) and (b op2 c) with b evaluated once (operands are side-effect free expressions here)
                for m_, s2 in self.ev(n.comparators[0], s1):
                    for r, s3 in self.ev(n.comparators[1], s2):
                        out.append((Sc(z3.And(self.compare(n.ops[0], l, m_, s3), self.compare(n.ops[1], m_, r, s3)), 'bool'), s3))
                continue
            if len(n.ops) != 1: raise Unsupported('chained comparison')
            for r, s2 in self.ev(n.comparators[0], s1):
                out.append((Sc(self.compare(n.ops[0], l, r, s2), 'bool'), s2))
        return out

    def compare(self, op, l, r, st):
        l, r = self.deref(l, st), self.deref(r, st)
        if isinstance(op, (ast.Is, ast.IsNot, ast.Eq, ast.NotEq)) and (isinstance(l, NoneV) or isinstance(r, NoneV)):
            other = r if isinstance(l, NoneV) else l
            if isinstance(other, NoneV): res = z3.BoolVal(True)
            elif isinstance(other, Opt): res = other.isnone
            elif isinstance(other, Sc) and other.py == 'val': res = Val.is_VN(other.z)      # dynamically typed scalar: None is one of its cases
            else: res = z3.BoolVal(False)
            return z3.Not(res) if isinstance(op, (ast.IsNot, ast.NotEq)) else res
        if isinstance(op, (ast.In, ast.NotIn)):
            res = self.contains(r, l, st)
            return z3.Not(res) if isinstance(op, ast.NotIn) else res
        if (isinstance(l, Opt) or isinstance(r, Opt)) and isinstance(op, (ast.Eq, ast.NotEq)):
            # None == x is False for every value x that is not None
            if isinstance(l, Opt) and isinstance(r, Opt):
                res = z3.Or(z3.And(l.isnone, r.isnone), z3.And(z3.Not(l.isnone), z3.Not(r.isnone), self.compare(ast.Eq(), l.val, r.val, st)))
            else:
                o_, x_ = (l, r) if isinstance(l, Opt) else (r, l)
                res = z3.And(z3.Not(o_.isnone), self.compare(ast.Eq(), o_.val, x_, st))
            return z3.Not(res) if isinstance(op, ast.NotEq) else res
        if isinstance(l, Opt) or isinstance(r, Opt):
            raise Unsupported('ordering comparison of an optional value')
        if isinstance(l, PyStr) and isinstance(r, PyStr):
            lz, rz = z3.StringVal(l.s), z3.StringVal(r.s)
        elif isinstance(l, Tup) and isinstance(r, Tup) and isinstance(op, (ast.Eq, ast.NotEq)):
            res = z3.And(*[self.compare(ast.Eq(), a, b, st) for a, b in zip(l.items, r.items)]) if len(l.items) == len(r.items) else z3.BoolVal(False)
            return z3.Not(res) if isinstance(op, ast.NotEq) else res
        else:
            lz, rz = unwrap(l), unwrap(r)
        if lz.sort() != rz.sort():
            if lz.sort() == IntS and rz.sort() == RealS: lz = z3.ToReal(lz)
            elif rz.sort() == IntS and lz.sort() == RealS: rz = z3.ToReal(rz)
            elif lz.sort() == BoolS and rz.sort() == IntS: lz = z3.If(lz, 1, 0)
            else: raise Unsupported('comparison between %s and %s' % (lz.sort(), rz.sort()))
        T_ = type(op)
        if T_ in (ast.Eq, ast.Is): return lz == rz
        if T_ in (ast.NotEq, ast.IsNot): return lz != rz
        if lz.sort() == StrS:
            if T_ is ast.Lt: return lz < rz
            if T_ is ast.LtE: return lz <= rz
            if T_ is ast.Gt: return rz < lz
            if T_ is ast.GtE: return rz <= lz
        if T_ is ast.Lt: return lz < rz
        if T_ is ast.LtE: return lz <= rz
        if T_ is ast.Gt: return lz > rz
        if T_ is ast.GtE: return lz >= rz
        raise Unsupported('comparison op')

    def contains(self, container, item, st):
        c = self.deref(container, st)
        if isinstance(c, Obj) and getattr(self.reg.classes.get(c.cls), 'external', False):
            ct = self.reg.get('<ext>', '%s.__contains__' % c.cls)
            if ct is None: raise Unsupported('membership in external %s' % c.cls)
            res = self.call_contract(ct, None, [c, item], {}, st, None)
            return unwrap(res[0][0])
        if isinstance(c, PyDict):
            item = self.deref(item, st)
            if isinstance(item, PyStr): return z3.BoolVal(item.s in c.d)
            iz = unwrap(item)
            return z3.Or(*[iz == z3.StringVal(k) for k in c.d if isinstance(k, str)]) if c.d else z3.BoolVal(False)
        if isinstance(c, (SymDict, SymSet)):
            return z3.Select(c.has, self.key_term(item, st))
        if isinstance(c, (Tup, PyList)):
            return z3.Or(*[self.compare(ast.Eq(), item, x, st) for x in c.items]) if c.items else z3.BoolVal(False)
        if isinstance(c, SeqV):
            return z3.Contains(c.z, z3.Unit(unwrap(self.deref(item, st))))
        if (isinstance(c, Sc) and c.py == 'str') or isinstance(c, PyStr):
            it = self.deref(item, st)
            if isinstance(it, (PyStr, Sc)): return z3.Contains(unwrap(c), unwrap(it))      # substring test of str
        raise Unsupported('membership in %r' % (c,))

    def key_sort(self, kty):
        if kty.kind == 'Tuple': return TupleSort([t.sort() for t in kty.args])
        return kty.sort()

    def key_term(self, k, st):
        k = self.deref(k, st)
        if isinstance(k, Text):
            # a formatted text used as a dictionary key: named by an uninterpreted function of its token document (same template and arguments => same
            # key; that different arguments give different keys is NOT assumed: a contract that needs it states it as a precondition)
            self.reg.assume('a formatted text used as a dictionary key is the uninterpreted str_of_text of its token document (functional in template and arguments; injectivity only where a contract states it)')
            return str_of_text(k.z)
        if isinstance(k, TupTerm): return k.z
        if isinstance(k, Tup):
            zs = [unwrap(self.deref(i, st)) for i in k.items]
            return _tuple_term(zs)
        return unwrap(k)

    def ev_IfExp(self, n, st):
        out = []
        for c, s in self.ev(n.test, st):
            t = self.truth(c, s)
            s1 = s.copy(); s1.pc.append(t)
            s2 = s.copy(); s2.pc.append(z3.Not(t))
            out.extend(self.ev(n.body, s1)); out.extend(self.ev(n.orelse, s2))
        return out

    def ev_JoinedStr(self, n, st):
        raise Unsupported('f-string')

    def ev_Lambda(self, n, st):
        fd = ast.FunctionDef(name='<lambda>', args=n.args, body=[ast.Return(value=n.body)], decorator_list=[], lineno=n.lineno, end_lineno=n.lineno)
        return [(Closure(fd, self._cur_module(), len(st.frames) - 1), st)]

    # ---- attribute / subscript
    def ev_Attribute(self, n, st):
        out = []
        for recv, s in self.ev(n.value, st):
            out.extend(self.getattr(recv, n.attr, s, n))
        return out

    def getattr(self, recv, name, st, node=None):
        r = self.deref(recv, st)
        if isinstance(r, Opt):
            # attribute of a value that may be None: AttributeError on None, the attribute of the value otherwise
            s_none = st.copy(); s_none.pc.append(r.isnone); self.raise_exc('AttributeError', s_none)
            st.pc.append(z3.Not(r.isnone))
            return self.getattr(r.val, name, st, node)
        if isinstance(r, NoneV): return self.raise_exc('AttributeError', st)
        if isinstance(r, ExcV) and name == 'message':
            return [(Sc(fresh(StrS, 'excmsg'), 'str'), st)]
        if isinstance(r, ExcV) and name == 'args':
            return [(Tup(list(r.args) if r.args else [Sc(fresh(StrS, 'excmsg'), 'str')]), st)]
        if isinstance(r, NTup):
            if name in r.cls.fields: return [(r.items[r.cls.fields.index(name)], st)]
            raise AttributeErrorSite(r.cls.name, name)
        if isinstance(r, ModuleV):
            if r.ext:
                mod, orig = r.ext
                full = (mod + '.' + orig) if orig else mod
                if (full, name) == ('os', 'linesep'):
                    self.reg.assume('A4: os.linesep is "\\n" (POSIX)')
                    return [(PyStr('\n'), st)]
                if full == 'sys' and name == 'stdout':
                    # the process's standard output: one document per state (contracts read it as `v.stdout`); functions whose contracts do not
                    # speak about it may print freely -- nothing is known about it at their call sites
                    if 'stdout' not in st.cells: st.cells['stdout'] = DocObj(z3.Const('stdout0', Doc))
                    return [(Ref('stdout'), st)]
                return [(ModuleV(ext=(full, name)), st)]
            x = r.module.resolve(name)
            if x is None: raise Unsupported('module attribute %s' % name)
            if x[0] == 'func': return [(FuncV(x[1].funcs[x[2]]), st)]
            if x[0] == 'class': return [(ClassV(x[1], x[2]), st)]
            raise Unsupported('module attribute kind %s' % x[0])
        if isinstance(r, Rec):
            if name in r.fields: return [(r.fields[name], st)]
            fi = r.module.find_method(r.cls, name)
            if fi is None:
                # class-level constant (NAME = literal in the class body)
                cd = getattr(r.module, 'classes', {}).get(r.cls)
                for b_ in (cd.body if cd is not None else []):
                    if isinstance(b_, ast.Assign) and len(b_.targets) == 1 and isinstance(b_.targets[0], ast.Name) and b_.targets[0].id == name and isinstance(b_.value, ast.Constant):
                        return [(self.ev1(b_.value, st), st)]
                raise AttributeErrorSite(r.cls, name)
            if fi.is_property: return self.call_function(fi, [recv], {}, st, self_cls=(r.module, r.cls), node=node)
            return [(BoundMethod(recv, name), st)]
        if isinstance(r, Obj) and getattr(self.reg.classes.get(r.cls), 'external', False) and self.reg.field_type(r.cls, name) is None:
            return [(BoundMethod(recv, name), st)]
        if isinstance(r, Obj):
            self.assume_invariant(r, st)
            fty = self.reg.field_type(r.cls, name)
            if fty is not None and name in getattr(self.reg.classes.get(r.cls), 'optional_attrs', ()) and fty.kind == 'Opt':
                # an attribute that only some instances have (two tuple types behind one sidecar class): AttributeError when absent
                ov = self.read_field(r, name, fty, st)
                s_abs = st.copy(); s_abs.pc.append(ov.isnone); self.raise_exc('AttributeError', s_abs)
                st.pc.append(z3.Not(ov.isnone))
                return [(ov.val, st)]
            if fty is not None:
                return [(self.read_field(r, name, fty, st), st)]
            fi = self.find_method_of(r.cls, name)
            if fi is not None and fi.is_property:
                return self.call_function(fi, [recv], {}, st, self_cls=self.class_home(r.cls), node=node)
            if fi is not None: return [(BoundMethod(recv, name), st)]
            m_, c_ = self.class_home(r.cls)
            a_ = m_.class_attr(c_, name)
            if a_ is not None and isinstance(a_, (ast.Constant, ast.Dict, ast.Tuple, ast.List)):
                return self.ev(a_, st)        # class-level constant (NAME = literal / literal table in the class body), never re-bound on instances in the handled subset
            raise AttributeErrorSite(r.cls, name)
        if isinstance(r, SeqV) and getattr(r, 'cls', None) and name == 'xproxy':
            xp = SeqV(r.z, r.elem); xp.xproxy_of = r.z
            self.reg.assume('TableReaderBase.xproxy (_XProxy) presents the x components of the same list (3-line class, abstracted)')
            return [(xp, st)]
        if isinstance(r, (DocObj, PyList, SeqV, PyDict, SymDict, SymSet, PySet, PyStr, Text, FnV, Sc, Tup, TupTerm, PyRegex)):
            return [(BoundMethod(recv, name), st)]
        if isinstance(r, ClassV):
            fi = r.module.find_method(r.name, name)
            if fi is not None:
                if any(isinstance(d_, ast.Name) and d_.id == 'classmethod' for d_ in fi.node.decorator_list):
                    return [(Closure(fi.node, fi.module, 0, self_val=r, cls=r.name, qual=fi.qualname), st)]      # C.m of a classmethod: bound to the class
                return [(Closure(fi.node, fi.module, 0, cls=r.name, qual=fi.qualname), st)]
            a = r.module.class_attr(r.name, name)
            if a is not None: return self.ev(a, st)
        if isinstance(r, Dual) and name in ('items', 'keys', 'values', 'get'):
            return [(BoundMethod(r.dict, name), st)]        # a value that is a callable or a dict, used as a dict (Finnis-Sinclair densities)
        if isinstance(r, Builtin) and name == '__name__': return [(PyStr(r.name), st)]
        if isinstance(r, Closure) and name == '__get__':
            return [(BoundMethod(recv, '__get__'), st)]
        if isinstance(r, Closure) or isinstance(r, FuncV):
            raise Unsupported('attribute %s of a function object' % name)
        raise Unsupported('attribute %s of %r' % (name, r))

    def assume_invariant(self, o, st):
        d = self.reg.classes.get(o.cls)
        if d is None or d.invariant is None: return
        key = (o.cls, o.z.get_id())
        seen = st.__dict__.setdefault('inv_seen', set())
        if key in seen: return
        st.inv_seen = set(seen) | {key}
        z = o.z
        if not z3.is_const(z):
            # triggers may not contain ite/selects: state the invariant on an alias (E-matching works modulo equality)
            z = fresh(o.z.sort(), 'alias'); st.pc.append(z == o.z)
        st.pc += d.invariant(z)

    def read_field(self, obj, name, fty, st):
        if fty.kind == 'Opt':
            inner = fty.args[0]
            isn = field(obj.cls, name + '?none', BoolS)(obj.z)
            return Opt(isn, wrap(inner, field(obj.cls, name, inner.sort())(obj.z)))
        if fty.kind == 'FnOrDict':
            kty, vty = fty.args
            has = field(obj.cls, name + '.has', z3.ArraySort(kty.sort(), BoolS))(obj.z)
            get = field(obj.cls, name + '.get', z3.ArraySort(kty.sort(), vty.sort()))(obj.z)
            return Dual(FnV(field(obj.cls, name, Fn)(obj.z)), SymDict(has, get, kty, vty))
        if fty.kind == 'Set':
            kty = fty.args[0]
            return SymSet(field(obj.cls, name, z3.ArraySort(self.key_sort(kty), BoolS))(obj.z), kty)
        if fty.kind == 'Dict':
            kty, vty = fty.args
            has = field(obj.cls, name + '.has', z3.ArraySort(kty.sort(), BoolS))(obj.z)
            get = field(obj.cls, name + '.get', z3.ArraySort(kty.sort(), vty.sort()))(obj.z)
            return SymDict(has, get, kty, vty)
        return wrap(fty, field(obj.cls, name, fty.sort())(obj.z))

    def class_home(self, cls):
        d = self.reg.classes.get(cls)
        if d is None: raise Unsupported('class %s is not declared in the sidecar' % cls)
        return (Module.get(d.file), d.pyname)

    def find_method_of(self, cls, name):
        m, c = self.class_home(cls)
        return m.find_method(c, name)

    def ev_Subscript(self, n, st):
        out = []
        for c, s in self.ev(n.value, st):
            if isinstance(n.slice, ast.Slice):
                out.append((self.slice(c, n.slice, s), s)); continue
            for i, s2 in self.ev(n.slice, s):
                out.extend(self.subscript(c, i, s2, n))
        return out

    def slice(self, c, sl, st):
        c = self.deref(c, st)
        if isinstance(c, Sc) and c.py == 'str' and sl.step is None:
            # s[a:b] of a text with bounds known to be non-negative (negative bounds count from the end: outside the handled subset)
            L = z3.Length(c.z)
            def bound(e, dflt):
                if e is None: return dflt
                v = self.deref(self.ev1(e, st), st)
                if not (isinstance(v, Sc) and v.py == 'int'): raise Unsupported('slice bound %r' % (v,))
                s_neg = st.copy(); s_neg.pc.append(v.z < 0)
                if self.feasible(s_neg): raise Unsupported('slice bound of a text that may be negative')
                return v.z
            a, b = bound(sl.lower, z3.IntVal(0)), bound(sl.upper, L)
            # Python clamps both bounds to the length; an empty text when a >= b
            a_, b_ = z3.If(a > L, L, a), z3.If(b > L, L, b)
            return Sc(z3.If(a_ >= b_, z3.StringVal(''), z3.SubString(c.z, a_, b_ - a_)), 'str')
        def cint(e):
            if e is None: return None
            v = self.ev1(e, st)
            if isinstance(v, Sc) and z3.is_int_value(v.z): return v.z.as_long()
            raise Unsupported('symbolic slice bound')
        lo, hi = cint(sl.lower), cint(sl.upper)
        if sl.step is not None: raise Unsupported('slice step')
        if isinstance(c, Tup): return Tup(c.items[lo:hi])
        if isinstance(c, PyList): return st.new_cell(PyList(c.items[lo:hi]))
        if isinstance(c, PyStr): return PyStr(c.s[lo:hi])
        if isinstance(c, SeqV):
            L = z3.Length(c.z)
            lo_z = z3.IntVal(lo or 0)
            if lo is not None and lo < 0: raise Unsupported('negative slice bound')
            if hi is None: return SeqV(z3.SubSeq(c.z, lo_z, L - lo_z), c.elem)
            if hi < 0: raise Unsupported('negative slice bound')
            return SeqV(z3.SubSeq(c.z, lo_z, z3.IntVal(hi) - lo_z), c.elem)
        raise Unsupported('slice of %r' % (c,))

    def subscript(self, c, i, st, node=None):
        c, i = self.deref(c, st), self.deref(i, st)
        if isinstance(c, Dual): c = c.dict
        if isinstance(c, Opt):
            # subscript of an optional value: TypeError when it is None
            s_n = st.copy(); s_n.pc.append(c.isnone)
            if self.feasible(s_n): self.raise_exc('TypeError', s_n)
            st.pc.append(z3.Not(c.isnone))
            return self.subscript(c.val, i, st, node)
        if isinstance(c, (Tup, PyList)):
            if isinstance(i, Sc) and z3.is_int_value(z3.simplify(i.z)):
                k = z3.simplify(i.z).as_long()
                if -len(c.items) <= k < len(c.items): return [(c.items[k], st)]
                return self.raise_exc('IndexError', st)
            raise Unsupported('symbolic index into concrete list')
        if isinstance(c, SeqV):
            if not (isinstance(i, Sc) and i.py == 'int'): raise Unsupported('sequence index %r' % (i,))
            iz = i.z
            if z3.is_int_value(z3.simplify(iz)) and z3.simplify(iz).as_long() < 0: iz = z3.Length(c.z) + iz
            self.index_check(st, iz, z3.Length(c.z))
            return [(wrap(c.elem, c.z[iz]), st)]
        if isinstance(c, PyDict):
            if isinstance(i, PyStr):
                if i.s in c.d: return [(c.d[i.s], st)]
                return self.raise_exc('KeyError', st)
            # symbolic key into a concrete table: fork per key
            out = []
            iz = unwrap(i)
            for k, v in c.d.items():
                s2 = st.copy(); s2.pc.append(iz == z3.StringVal(k)); out.append((v, s2))
            s3 = st.copy(); s3.pc.append(z3.And(*[iz != z3.StringVal(k) for k in c.d]))
            out.extend(self.raise_exc('KeyError', s3))
            return out
        if isinstance(c, Obj) and getattr(self.reg.classes.get(c.cls), 'external', False):
            ct = self.reg.get('<ext>', '%s.__getitem__' % c.cls)
            if ct is None: raise Unsupported('subscript of external %s' % c.cls)
            return self.call_contract(ct, None, [c, i], {}, st, node)
        if isinstance(c, Sc) and c.py == 'str' and isinstance(i, Sc) and i.py == 'int':
            n_ = z3.Length(c.z)
            s_bad = st.copy(); s_bad.pc.append(z3.Or(i.z >= n_, i.z < -n_)); self.raise_exc('IndexError', s_bad)
            st.pc.append(z3.And(i.z < n_, i.z >= -n_))
            return [(Sc(z3.SubString(c.z, z3.If(i.z >= 0, i.z, n_ + i.z), 1), 'str'), st)]
        if isinstance(c, TupTerm):
            if isinstance(i, Sc) and z3.is_int_value(i.z):
                n = i.z.as_long(); S = c.z.sort()
                return [(wrap(c.tys[n], S.accessor(0, n)(c.z)), st)]
            raise Unsupported('symbolic index into a tuple')
        if isinstance(c, SymDict):
            k = self.key_term(i, st)
            present = z3.Select(c.has, k)
            out = []
            s1 = st.copy(); s1.pc.append(present)
            out.append((wrap(c.vty, z3.Select(c.get, k)), s1))
            s2 = st.copy(); s2.pc.append(z3.Not(present))
            out.extend(self.raise_exc('KeyError', s2))
            return out
        raise Unsupported('subscript of %r' % (c,))

    def index_check(self, st, i, n):
        """in-bounds obligation for a sequence index (an IndexError would be an escape)"""
        self.obl_now('index', st, z3.And(i >= 0, i < n))

    def obl_now(self, kind, st, goal):
        return self.obl(kind, st, goal)

    def raise_exc(self, cls, st, args=()):
        e = ExcV(cls, args); e.lineno = getattr(self, '_cur_lineno', None)
        self._raises.append(Outcome('raise', st, e))
        return []

    def ev_ListComp(self, n, st):
        if len(n.generators) != 1 or len(n.generators[0].ifs) > 1: raise Unsupported('comprehension shape')
        g = n.generators[0]
        if self._is_range_call(g.iter, st) and g.iter.func.id == 'range' and len(g.iter.args) == 1 and not (isinstance(g.iter.args[0], ast.Constant)):
            src = _RangeSrc(self.ev1(g.iter.args[0], st).z)
        else:
            src = self.deref(self.ev1(g.iter, st), st)
        if isinstance(src, (Tup, PyList)):
            if g.ifs:
                # concrete list, symbolic filter: one path per feasible subset (the lists met here have two or three entries)
                if len(src.items) > 4: raise Unsupported('filtered comprehension over a long concrete list')
                paths = [([], st)]
                for it in src.items:
                    nxt = []
                    for items, s in paths:
                        s1 = s.copy(); self.bind(g.target, it, s1)
                        rc = self.ev(g.ifs[0], s1)
                        if len(rc) != 1: raise Unsupported('forking comprehension filter')
                        t = self.truth(rc[0][0], rc[0][1]); s1 = rc[0][1]
                        for keep in (True, False):
                            s2 = s1.copy(); s2.pc.append(t if keep else z3.Not(t))
                            if not self.feasible(s2): continue
                            if keep:
                                re_ = self.ev(n.elt, s2)
                                if len(re_) != 1: raise Unsupported('forking comprehension')
                                nxt.append((items + [re_[0][0]], re_[0][1]))
                            else: nxt.append((items, s2))
                    paths = nxt
                return [(s.new_cell(PyList(items)), s) for items, s in paths]
            items, s = [], st
            for it in src.items:
                s = s.copy(); self.bind(g.target, it, s)
                res = self.ev(n.elt, s)
                if len(res) != 1: raise Unsupported('forking comprehension')
                items.append(res[0][0]); s = res[0][1]
            return [(s.new_cell(PyList(items)), s)]
        if isinstance(src, SeqV) or isinstance(src, _RangeSrc):
            if id(n) not in self.loop_ids:
                self.loop_ids[id(n)] = self.comp_counter; self.comp_counter += 1
            ordinal = self.loop_ids[id(n)]
            entry = self.contract.comprehensions.get(ordinal)
            if entry is None: raise ComprehensionOverSymbolic(n, src)
            spec, params = entry
            ps = [coerce_py(x) for x in params(NS(self, st))]
            # check: element k of the comprehension is the spec's element k, for arbitrary k
            k = fresh(IntS, 'ck')
            count = src.hi if isinstance(src, _RangeSrc) else z3.Length(src.z)
            s2 = st.copy(); s2.pc += [k >= 0, k < count]
            if isinstance(src, _RangeSrc): self.bind(g.target, Sc(k, 'int'), s2)
            else:
                so = getattr(src, 'spec_of', None)
                if so is not None:
                    # the source list is itself a comprehension named by a spec sequence with one item per element:
                    # its k-th item is that spec's k-th element (nth lemma, proved by induction with the speclib obligations)
                    sp_, ps_, n_ = so
                    s2.pc += [sp_.nth_instance(ps_, n_, k), z3.Length(src.z) == n_, src.z[k] == sp_.elem(*(list(ps_) + [k]))[0]]
                self.bind(g.target, wrap(src.elem, src.z[k]), s2)
            cond = None
            if g.ifs:
                # [e for x in xs if c]: element k contributes [e_k] when c_k holds and nothing otherwise
                rc = self.ev(g.ifs[0], s2)
                if len(rc) != 1: raise Unsupported('forking comprehension filter')
                cond, s2 = self.truth(rc[0][0], rc[0][1]), rc[0][1]
            res = self.ev(n.elt, s2)
            if len(res) != 1: raise Unsupported('forking comprehension')
            ev_, s3 = res[0]
            ety = _ty_of_sort(spec.result.basis()) if spec.result != DocList else T.Text
            got = z3.Unit(self.elem_term(ev_, ety, s3))
            if cond is not None: got = z3.If(cond, got, z3.Empty(spec.result))
            self.obl('comprehension/%d' % ordinal, s3, got == spec.elem(*(ps + [k])), carries=True)
            out_v = SeqV(spec(*(ps + [count])), ety)
            if cond is None and spec.elem_len == 1:
                out_v.spec_of = (spec, ps, count); self.used_specs.add(spec.name)
                st.pc.append(z3.Implies(count >= 0, z3.Length(out_v.z) == count))
            return [(st.new_cell(out_v), st)]
        raise ComprehensionOverSymbolic(n, src)

    def ev_Call(self, n, st):
        if isinstance(n.func, ast.Name) and n.func.id == '__logging_arguments__':
            # arguments of a dropped logging call: evaluated for their exceptional exits, values discarded; an argument the
            # executor cannot interpret is skipped (noted) -- no worse than dropping the statement
            def for_exceptions(a, states):
                nxt = []
                for s_ in states:
                    keep_r = len(self._raises)
                    try: nxt.extend(s2 for _, s2 in self.ev(a, s_.copy()))
                    except (Unsupported, AttributeErrorSite, NameErrorSite, KeyError, AssertionError, z3.Z3Exception) as e:
                        del self._raises[keep_r:]
                        # not interpretable as a whole: its sub-expressions one by one (left to right), each for its exceptional exits
                        kids = [k for k in ast.iter_child_nodes(a) if isinstance(k, ast.expr) and not isinstance(k, (ast.Constant, ast.Name))]
                        if not kids: self.notes.append('part of a logging argument at line %s not evaluated: %s' % (getattr(n, 'lineno', '?'), str(e)[:80]))
                        cur = [s_]
                        for k in kids: cur = for_exceptions(k, cur)
                        nxt.extend(cur)
                return nxt
            states = [st]
            for a in n.args: states = for_exceptions(a, states)
            return [(NONE, s_) for s_ in states]
        return self.call_node(n, st)

    def ev_Starred(self, n, st):
        raise Unsupported('starred expression outside a call/list')


def _has_quantifier(f):
    seen, stack = set(), [f]
    while stack:
        x = stack.pop()
        if x.get_id() in seen: continue
        seen.add(x.get_id())
        if z3.is_quantifier(x): return True
        stack.extend(x.children())
    return False

def _order_after_insert(d, k, st=None):
    """insertion order after d[k] = v: unchanged for a key that is present, the key appended otherwise.
    With a state, the new order is a named constant defined by two implications (terms with `ite` cannot serve in patterns)."""
    if d.order is None: return None
    if st is None: return z3.If(z3.Select(d.has, k), d.order, z3.Concat(d.order, z3.Unit(k)))
    o2 = fresh(d.order.sort(), 'order'); n = z3.Length(d.order)
    i_ = z3.Int('i!ins')
    st.pc += [z3.Implies(z3.Select(d.has, k), o2 == d.order),
              z3.Implies(z3.Not(z3.Select(d.has, k)), z3.And(o2 == z3.Concat(d.order, z3.Unit(k)), z3.Length(o2) == n + 1, o2[n] == k)),
              z3.Length(o2) >= n]
    try:    # valid instances of the theory of sequences, stated for the matcher: the old positions keep their keys
        st.pc.append(z3.ForAll([i_], z3.Implies(z3.And(0 <= i_, i_ < n), o2[i_] == d.order[i_]), patterns=[d.order[i_]]))
    except z3.Z3Exception: pass
    return o2

def odict_wf(d):
    """the order sequence of a dict lists exactly its keys, each once"""
    x = z3.Const('x!od', d.kty.sort() if d.kty.kind != 'Tuple' else d.has.sort().domain()); i, j = z3.Int('i!od'), z3.Int('j!od')
    body = z3.Contains(d.order, z3.Unit(x)) == z3.Select(d.has, x)
    try: q = z3.ForAll([x], body, patterns=[z3.Contains(d.order, z3.Unit(x)), z3.Select(d.has, x)])
    except z3.Z3Exception: q = z3.ForAll([x], body)          # (constant order/has terms: the patterns simplify away)
    return [q,
            z3.ForAll([i, j], z3.Implies(z3.And(0 <= i, i < j, j < z3.Length(d.order)), d.order[i] != d.order[j]))]

class StarSeq(V):
    """*xs in a call where xs has symbolic length: bound as a whole to the callee's variadic / list parameter"""
    def __init__(self, seq): self.seq = seq

class PyRegex(V):
    """a compiled regular expression with a literal pattern"""
    def __init__(self, pattern): self.pattern = pattern

class InnerRef(V):
    """d.setdefault(k, {}) of a dictionary of dictionaries: an alias of the inner dictionary stored under k (stores go to the outer cell)"""
    def __init__(self, outer, key): self.outer, self.key = outer, key

class SymKeys(V):
    """d.keys() of a symbolic dict"""
    def __init__(self, d): self.d = d

class SymValues(V):
    """d.values() of a symbolic dict"""
    def __init__(self, d): self.d = d

class SymItems(V):
    """d.items() of a symbolic dict"""
    def __init__(self, d): self.d = d

def view_source_fn(view_cls, src_cls):
    return z3.Function('viewed_%s_as_%s' % (src_cls, view_cls), ObjSort(view_cls), ObjSort(src_cls))

_flat_fns = {}
def chain_flat_fn(ety):
    key = str(ety.sort())
    if key not in _flat_fns:
        _flat_fns[key] = z3.Function('chain_flat_' + key.replace(' ', '_'), z3.SeqSort(z3.SeqSort(ety.sort())), z3.SeqSort(ety.sort()))
    return _flat_fns[key]

_keys_fns = {}
str_of_text = z3.Function('str_of_text', Doc, StrS)

def keys_list_fn(kty):
    key = str(kty.sort())
    if key not in _keys_fns:
        _keys_fns[key] = z3.Function('keys_list_' + key.replace(' ', '_'), z3.ArraySort(kty.sort(), BoolS), z3.SeqSort(kty.sort()))
    return _keys_fns[key]

class _RangeSrc(object):
    """range(hi) as the source of a comprehension"""
    def __init__(self, hi): self.hi = hi

class _Fork(Exception):
    def __init__(self, res): self.res = res

class NameErrorSite(Exception):
    def __init__(self, name): self.name = name; Exception.__init__(self, 'unresolved name %r' % name)
class AttributeErrorSite(Exception):
    def __init__(self, cls, name): self.cls, self.name = cls, name; Exception.__init__(self, 'no attribute %s.%s' % (cls, name))
class ComprehensionOverSymbolic(Unsupported):
    def __init__(self, node, src): self.node, self.src = node, src; Unsupported.__init__(self, 'comprehension over symbolic sequence (needs a map contract)')

_tuple_sorts = {}
def TupleSort(sorts):
    key = tuple(str(s) for s in sorts)
    if key not in _tuple_sorts:
        d = z3.Datatype('Tup_' + '_'.join(k.replace(' ', '') for k in key))
        d.declare('mk', *[('f%d' % i, s) for i, s in enumerate(sorts)])
        _tuple_sorts[key] = d.create()
    return _tuple_sorts[key]
def _tuple_term(zs):
    return TupleSort([z.sort() for z in zs]).mk(*zs)

_BUILTINS = set('getattr min max sum reversed round float int len range print sorted tuple list set dict str min max abs enumerate zip hasattr isinstance super StringIO open bool round sum Exception ValueError KeyError TypeError IndexError NotImplementedError AttributeError ZeroDivisionError NameError object property'.split())


# =====================================================================================
# statements
# =====================================================================================
class StmtMixin(object):
    def block(self, stmts, st):
        """-> list of Outcome"""
        outs = [Outcome('normal', st)]
        for s in stmts:
            nxt = []
            for o in outs:
                if o.kind != 'normal': nxt.append(o); continue
                nxt.extend(self.stmt(s, o.state))
            outs = nxt
        return outs

    def stmt(self, s, st):
        if self.call_depth == 0 and hasattr(s, 'lineno'): self._cur_lineno = s.lineno
        m = getattr(self, 'st_' + type(s).__name__, None)
        if m is None: raise Unsupported('statement %s at %s:%d' % (type(s).__name__, self.fi.file, s.lineno))
        saved = self._raises; self._raises = []
        try:
            outs = m(s, st)
        finally:
            raised = self._raises; self._raises = saved
        return outs + raised

    def evs(self, n, st):
        """evaluate expression; returns [(value, state)] for normal paths (raising paths go to self._raises)"""
        return self.ev(n, st)

    def st_Expr(self, s, st):
        return [Outcome('normal', s2) for _, s2 in self.evs(s.value, st)]

    def st_Pass(self, s, st): return [Outcome('normal', st)]
    def st_Import(self, s, st): return [Outcome('normal', st)]
    def st_ImportFrom(self, s, st):
        # local import: bind through a temporary module scan
        m = self._cur_module()
        rel = m._resolve_rel(s.level, s.module)
        for a in s.names:
            local = a.asname or a.name
            if rel is None: st.env[local] = ModuleV(ext=(s.module or '', a.name)); continue
            mod = Module.get(rel)
            r = mod.resolve(a.name)
            if r is None: raise Unsupported('local import of %s' % a.name)
            if r[0] == 'func': st.env[local] = FuncV(r[1].funcs[r[2]])
            elif r[0] == 'class': st.env[local] = ClassV(r[1], r[2])
            elif r[0] == 'module': st.env[local] = ModuleV(module=r[1])
            else: raise Unsupported('local import kind')
        return [Outcome('normal', st)]

    def st_Assign(self, s, st):
        outs = []
        for v, s2 in self.evs(s.value, st):
            for t in s.targets: self.bind(t, v, s2)
            outs.append(Outcome('normal', s2))
        return outs

    def st_AugAssign(self, s, st):
        outs = []
        load = ast.copy_location(ast.Name(id=s.target.id, ctx=ast.Load()), s.target) if isinstance(s.target, ast.Name) else None
        if load is None: raise Unsupported('augmented assignment to non-name')
        for r, s2 in self.evs(s.value, st):
            l = self.lookup(s.target.id, s2)
            ld = self.deref(l, s2)
            if isinstance(ld, PyList) and isinstance(s.op, ast.Add):
                s2.cells[l.id] = PyList(ld.items + self.iter_concrete(r, s2)); outs.append(Outcome('normal', s2)); continue
            for v, s3 in self.binop(s.op, l, r, s2, s):
                self.bind(s.target, v, s3); outs.append(Outcome('normal', s3))
        return outs

    def bind(self, target, v, st):
        if isinstance(target, ast.Name):
            st.env[target.id] = v; return
        if isinstance(target, (ast.Tuple, ast.List)) and isinstance(self.deref(v, st), SeqV) and not any(isinstance(e, ast.Starred) for e in target.elts):
            # unpacking a sequence of symbolic length: a ValueError site unless the length is known to fit (obligation)
            sv = self.deref(v, st)
            self.obl('unpack', st, z3.Length(sv.z) == len(target.elts))
            st.pc.append(z3.Length(sv.z) == len(target.elts))
            so = getattr(sv, 'spec_of', None)
            if so is not None:
                # the list is a comprehension named by a spec sequence with one item per element: item i is that spec's element i (nth lemma)
                sp_, ps_, n_ = so
                for i_ in range(len(target.elts)):
                    st.pc += [sp_.nth_instance(ps_, n_, z3.IntVal(i_)), z3.Implies(n_ > i_, sv.z[i_] == sp_.elem(*(list(ps_) + [z3.IntVal(i_)]))[0])]
            for i_, t in enumerate(target.elts): self.bind(t, wrap(sv.elem, sv.z[i_]), st)
            return
        if isinstance(target, (ast.Tuple, ast.List)):
            items = self.iter_concrete(v, st)
            if len(items) != len(target.elts): raise Unsupported('unpack arity (would be a ValueError site)')
            for t, i in zip(target.elts, items): self.bind(t, i, st)
            return
        if isinstance(target, ast.Attribute):
            recv = self.ev1(target.value, st)
            r = self.deref(recv, st)
            if isinstance(r, Rec) and r.module.find_method(r.cls, target.attr + '.setter') is not None:
                # self.x = v where x is a property with a setter: the setter runs (under its contract when it has one)
                fi_ = r.module.find_method(r.cls, target.attr + '.setter')
                c_ = self.reg.get(fi_.file, fi_.qualname)
                if c_ is not None and not c_.inline:
                    # modular: the setter's precondition is an obligation here; the fields it assigns (self.X = ... in its body) get fresh
                    # values of their declared types, described by its postcondition only
                    pnames = list(c_.params)
                    env_ = {pnames[0]: recv, pnames[1]: self.coerce(v, c_.params[pnames[1]], st, pnames[1])}
                    pre_ = st.copy(); pre_.frames.append(dict(env_))
                    ns_pre_ = NS(self, pre_, frame=pre_.frames[-1])
                    for g in c_.requires(ns_pre_): self.obl('call-pre/%s' % fi_.qualname, st, g)
                    assigned = sorted({t_.attr for n_ in ast.walk(fi_.node) if isinstance(n_, (ast.Assign, ast.AugAssign))
                                       for t_ in (n_.targets if isinstance(n_, ast.Assign) else [n_.target])
                                       if isinstance(t_, ast.Attribute) and isinstance(t_.value, ast.Name) and t_.value.id == fi_.node.args.args[0].arg})
                    r2 = Rec(r.cls, r.module, r.fields)
                    for fld_ in assigned:
                        fty_ = self.reg.field_type(r.cls, fld_)
                        if fty_ is None: raise Unsupported('field %s.%s (assigned by the setter) not declared in the sidecar' % (r.cls, fld_))
                        r2.fields[fld_] = wrap(fty_, fresh(fty_.sort(), '%s_%s' % (r.cls.lower(), fld_)))
                    st.cells[recv.id] = r2
                    st.pc += c_.ensures(NS(self, st, frame=env_), ns_pre_, None)
                    return
                outs_ = self.call_function(fi_, [recv, v], {}, st, self_cls=(r.module, r.cls), node=target)
                if len(outs_) != 1 or outs_[0][1] is not st: raise Unsupported('property setter %s with more than one exit' % fi_.qualname)
                return
            if isinstance(r, Rec):
                r2 = Rec(r.cls, r.module, r.fields); r2.fields[target.attr] = v
                st.cells[recv.id] = r2; return
            if isinstance(r, Closure) and target.attr in ('deriv', 'deriv2'):
                # f.deriv = g on a local function: the callable now offers that derivative function (core.has_deriv / dfn)
                f_ = self.as_fn(recv, st); g_ = self.as_fn(v, st)
                st.pc += [has_deriv(f_), dfn(f_) == g_] if target.attr == 'deriv' else [has_deriv2(f_), d2fn(f_) == g_]
                return
            if isinstance(r, Closure) or isinstance(r, FuncV):
                raise Unsupported('attribute store on function object')
            if isinstance(r, Obj) and self.reg.get('<ext>', '%s.%s.setter' % (r.cls, target.attr)) is not None:
                # x.attr = v on a library object that writes through to a stateful library object (a cell of a worksheet): the assumed contract
                # (self, value, owner) modifies the owner -- the ONE stateful object of the owner's class in scope; that x belongs to it is the
                # contract's precondition, hence an obligation here
                ca = self.reg.get('<ext>', '%s.%s.setter' % (r.cls, target.attr))
                ocls = list(ca.params.values())[2].args[0]
                owners = {}
                for nm_, val_ in st.env.items():
                    if isinstance(val_, Ref):
                        d_ = st.cells.get(val_.id)
                        if isinstance(d_, Obj) and d_.cls == ocls: owners[val_.id] = val_
                if len(owners) != 1: raise Unsupported('%s.%s = ..: %d objects of class %s in scope (exactly one is handled)' % (r.cls, target.attr, len(owners), ocls))
                if len(self.call_contract(ca, None, [recv, v, list(owners.values())[0]], {}, st, target)) != 1: raise Unsupported('forking store contract')
                return
            raise Unsupported('attribute store on %r' % (r,))
        if isinstance(target, ast.Subscript) and isinstance(target.value, ast.Subscript):
            base = self.ev1(target.value.value, st); bd = self.deref(base, st)
            if isinstance(bd, Obj) and getattr(self.reg.classes.get(bd.cls), 'stateful', False):
                # parser[section][key] = value on a stateful library object: its assumed two-level store contract
                c2 = self.reg.get('<ext>', '%s.__setitem2__' % bd.cls)
                if c2 is None: raise Unsupported('no assumed contract for %s[..][..] = ..' % bd.cls)
                r2 = self.call_contract(c2, None, [base, self.ev1(target.value.slice, st), self.ev1(target.slice, st), v], {}, st, target)
                if len(r2) != 1: raise Unsupported('forking store contract')
                return
        if isinstance(target, ast.Subscript):
            recv = self.ev1(target.value, st)
            r = self.deref(recv, st)
            k = self.ev1(target.slice, st)
            if isinstance(r, Obj) and getattr(self.reg.classes.get(r.cls), 'stateful', False):
                # obj[key] = value on a stateful library object: its assumed store contract
                c1 = self.reg.get('<ext>', '%s.__setitem__' % r.cls)
                if c1 is None: raise Unsupported('no assumed contract for %s[..] = ..' % r.cls)
                if len(self.call_contract(c1, None, [recv, k, v], {}, st, target)) != 1: raise Unsupported('forking store contract')
                return
            if isinstance(recv, InnerRef) and isinstance(r, SymDict):
                o = st.cells[recv.outer.id]
                kt = self.key_term(k, st)
                vz = self.as_fn(v, st) if r.vty.kind == 'Fn' else unwrap(self.deref(v, st))
                inner2 = o.vty.sort().mkdict(z3.Store(r.has, kt, z3.BoolVal(True)), z3.Store(r.get, kt, vz))
                st.cells[recv.outer.id] = SymDict(o.has, z3.Store(o.get, recv.key, inner2), o.kty, o.vty)
                return
            if isinstance(r, PyDict):
                kd = self.deref(k, st)
                if isinstance(kd, PyStr):
                    d = dict(r.d); d[kd.s] = v; st.cells[recv.id] = PyDict(d); return
            if isinstance(r, SymDict):
                kt = self.key_term(k, st)
                st.cells[recv.id] = SymDict(z3.Store(r.has, kt, z3.BoolVal(True)), z3.Store(r.get, kt, self.as_fn(v, st) if r.vty.kind == 'Fn' else unwrap(self.deref(v, st))), r.kty, r.vty,
                                            order=_order_after_insert(r, kt, st))
                return
            raise Unsupported('subscript store on %r' % (r,))
        raise Unsupported('assignment target %s' % type(target).__name__)

    def st_Return(self, s, st):
        if s.value is None: return [Outcome('return', st, NONE)]
        return [Outcome('return', s2, v) for v, s2 in self.evs(s.value, st)]

    def st_If(self, s, st):
        outs = []
        for c, s1 in self.evs(s.test, st):
            t = self.truth(c, s1)
            ts = z3.simplify(t)         # only to recognise constants: the path condition keeps the unsimplified term
            if z3.is_true(ts): outs.extend(self.block(s.body, s1)); continue
            if z3.is_false(ts): outs.extend(self.block(s.orelse, s1)); continue
            a = s1.copy(); a.pc.append(t)
            b = s1.copy(); b.pc.append(z3.Not(t))
            self.refine_optional(s.test, a, True); self.refine_optional(s.test, b, False)
            if self.feasible(a): outs.extend(self.block(s.body, a))
            if self.feasible(b): outs.extend(self.block(s.orelse, b))
        return outs

    def refine_optional(self, test, st, branch):
        """in the branch where an optional variable is known not to be None it is re-bound to its value"""
        if isinstance(test, ast.BoolOp):
            if (isinstance(test.op, ast.And) and branch) or (isinstance(test.op, ast.Or) and not branch):
                for x in test.values: self.refine_optional(x, st, branch)
            return
        neg = False
        while isinstance(test, ast.UnaryOp) and isinstance(test.op, ast.Not):
            test = test.operand; neg = not neg
        name, notnone_when = None, None
        if isinstance(test, ast.Name): name, notnone_when = test.id, True
        elif isinstance(test, ast.Compare) and len(test.ops) == 1 and isinstance(test.left, ast.Name) \
                and isinstance(test.comparators[0], ast.Constant) and test.comparators[0].value is None:
            name = test.left.id
            notnone_when = isinstance(test.ops[0], (ast.IsNot, ast.NotEq))
        if name is None: return
        if neg: notnone_when = not notnone_when
        v = st.env.get(name)
        if isinstance(v, Opt) and branch == notnone_when:
            st.env[name] = v.val
        elif isinstance(v, Opt) and isinstance(test, ast.Compare):
            st.env[name] = NONE       # the branch where `x is None` holds

    def feasible(self, st, full=False):
        """path pruning: False only when the path condition is refuted.  Quantified hypotheses (axioms, invariants) are left out
        unless full=True: leaving hypotheses out can only keep more paths (sound), and keeps these checks fast."""
        # (the full checks are vacuity guards at loops and at the precondition: the first few of a run get 1.5 s, later ones 400 ms --
        #  a function with many paths otherwise spends minutes re-confirming that the same invariant is not contradictory)
        self._n_full = getattr(self, '_n_full', 0) + (1 if full else 0)
        s = z3.Solver(); s.set('timeout', 2000 if not full else (1500 if self._n_full <= 8 else 400))
        from .solve import guarded
        s.add(*guarded([f for f in st.pc if full or not _has_quantifier(f)]))      # (no sequences of sequences in queries: pyvc/unnest.py)
        return s.check() != z3.unsat

    def st_Raise(self, s, st):
        if s.exc is None: return [Outcome('raise', st, self._handling)]
        e = s.exc
        if isinstance(e, ast.Call):
            cls = self.exc_name(e.func, st)
            return [Outcome('raise', st, ExcV(cls, []))]
        if isinstance(e, ast.Name):
            v = st.env.get(e.id)
            if isinstance(v, ExcV): return [Outcome('raise', st, v)]
            return [Outcome('raise', st, ExcV(self.exc_name(e, st), []))]
        raise Unsupported('raise form')

    def exc_name(self, node, st):
        if isinstance(node, ast.Name): return node.id
        if isinstance(node, ast.Attribute): return node.attr
        raise Unsupported('exception class expression')

    def st_Try(self, s, st):
        outs = []
        for o in self.block(s.body, st):
            if o.kind != 'raise': outs.append(o); continue
            handled = False
            for h in s.handlers:
                names = []
                if h.type is None: names = None
                elif isinstance(h.type, ast.Tuple): names = [self.exc_name(e, st) for e in h.type.elts]
                else: names = [self.exc_name(h.type, st)]
                if names is None or any(self.is_subclass(o.value.cls, nm) for nm in names):
                    s2 = o.state
                    if h.name: s2.env[h.name] = o.value
                    saved = self._handling; self._handling = o.value
                    try: outs.extend(self.block(h.body, s2))
                    finally: self._handling = saved
                    handled = True; break
                if o.value.cls == '<any>':
                    # an unknown exception from a user callable may or may not match: both continuations
                    s2 = o.state.copy()
                    if h.name: s2.env[h.name] = o.value
                    outs.extend(self.block(h.body, s2))
            if not handled: outs.append(o)
        if s.finalbody:
            fin = []
            for o in outs:
                for f in self.block(s.finalbody, o.state):
                    fin.append(o if f.kind == 'normal' else f)
                    if f.kind == 'normal': o.state = f.state
            outs = fin
        if s.orelse: raise Unsupported('try/else')
        return outs

    def is_subclass(self, cls, base):
        if cls == base or base in ('Exception', 'BaseException'): return True
        return base in self.exc_bases(cls)

    def exc_bases(self, cls):
        from .exceptions import bases_of
        return bases_of(cls)

    def st_With(self, s, st):
        outs = [Outcome('normal', st)]
        for item in s.items:
            nxt = []
            for o in outs:
                for v, s2 in self.evs(item.context_expr, o.state):
                    if item.optional_vars is not None: self.bind(item.optional_vars, v, s2)
                    nxt.append(Outcome('normal', s2))
            outs = nxt
        res = []
        for o in outs: res.extend(self.block(s.body, o.state))
        return res

    def st_Continue(self, s, st): return [Outcome('continue', st)]
    def st_Break(self, s, st): return [Outcome('break', st)]
    def st_Assert(self, s, st): return [Outcome('normal', st)]
    def st_Global(self, s, st): raise Unsupported('global statement')

    def st_FunctionDef(self, s, st):
        st.env[s.name] = Closure(s, self._cur_module(), len(st.frames) - 1, qual=s.name)
        return [Outcome('normal', st)]

    def st_ClassDef(self, s, st):
        st.env[s.name] = LocalClass(s, self._cur_module(), len(st.frames) - 1)
        return [Outcome('normal', st)]

    # ------------------------------------------------------------------ loops
    def st_For(self, s, st):
        if s.orelse: raise Unsupported('for/else')
        outs = []
        for itv, s1 in self.evs(s.iter, st) if not self._is_range_call(s.iter, st) and not self._is_gen_call(s.iter, st) else [(None, st)]:
            outs.extend(self.for_loop(s, itv, s1))
        return outs

    def _is_range_call(self, n, st):
        return isinstance(n, ast.Call) and isinstance(n.func, ast.Name) and n.func.id in ('range', 'enumerate', 'zip') and n.func.id not in st.env

    def _is_gen_call(self, n, st):
        if isinstance(n, ast.Call) and isinstance(n.func, ast.Name):
            try: f = self.lookup(n.func.id, st)
            except NameErrorSite: return False
            return isinstance(f, FuncV) and f.fi.is_generator
        return False

    def for_loop(self, s, itv, st):
        """Loop handling.
        concrete-length iterable -> unrolled;  range / symbolic sequence -> invariant from the contract."""
        # ---- generator function: inline its single for/yield loop
        if itv is None and self._is_gen_call(s.iter, st):
            return self.for_generator(s, st)
        # ---- describe the iteration space: k in [lo, hi), element(k)
        if itv is None:
            fn = s.iter.func.id
            if fn == 'range':
                args = [self.ev1(a, st) for a in s.iter.args]
                if len(args) == 1: lo, hi = z3.IntVal(0), args[0].z
                elif len(args) == 2: lo, hi = args[0].z, args[1].z
                else: raise Unsupported('range with step')
                if z3.is_int_value(z3.simplify(lo)) and z3.is_int_value(z3.simplify(hi)) and z3.simplify(hi - lo).as_long() <= 8:
                    items = [Sc(z3.IntVal(i), 'int') for i in range(z3.simplify(lo).as_long(), z3.simplify(hi).as_long())]
                    return self.unrolled(s, items, st)
                elem = lambda k, st_: Sc(k, 'int')
            elif fn == 'enumerate':
                src = self.deref(self.ev1(s.iter.args[0], st), st)
                if isinstance(src, (Tup, PyList)):
                    return self.unrolled(s, [Tup([Sc(z3.IntVal(i), 'int'), x]) for i, x in enumerate(src.items)], st)
                if not isinstance(src, SeqV): raise Unsupported('enumerate over %r' % (src,))
                lo, hi = z3.IntVal(0), z3.Length(src.z)
                elem = lambda k, st_, src=src: Tup([Sc(k, 'int'), wrap(src.elem, src.z[k])])
            else:
                srcs = [self.deref(self.ev1(a, st), st) for a in s.iter.args]
                if all(isinstance(x, (Tup, PyList)) for x in srcs):
                    return self.unrolled(s, [Tup(list(t)) for t in zip(*[x.items for x in srcs])], st)
                if not (len(srcs) >= 1 and all(isinstance(x, SeqV) for x in srcs)): raise Unsupported('zip over %r' % (srcs,))
                # zip over sequences of symbolic length: as many items as the shortest has, item k is the tuple of the k-th elements
                lo, hi = z3.IntVal(0), z3.Length(srcs[0].z)
                for x in srcs[1:]: hi = z3.If(z3.Length(x.z) < hi, z3.Length(x.z), hi)
                elem = lambda k, st_, srcs=srcs: Tup([wrap(x.elem, x.z[k]) for x in srcs])
        else:
            src = self.deref(itv, st)
            if isinstance(src, Obj) and getattr(self.reg.classes.get(src.cls), 'external', False):
                # iteration over a library object: its assumed __iter__ contract names the sequence iterated over
                c_it = self.reg.get('<ext>', '%s.__iter__' % src.cls)
                if c_it is None: raise Unsupported('iteration over external %s has no assumed contract' % src.cls)
                r_it = self.call_contract(c_it, None, [itv], {}, st, s)
                if len(r_it) != 1: raise Unsupported('forking __iter__')
                src, st = self.deref(r_it[0][0], r_it[0][1]), r_it[0][1]
            if isinstance(src, (Tup, PyList)): return self.unrolled(s, list(src.items), st)
            if isinstance(src, PyDict): return self.unrolled(s, [PyStr(k) for k in src.d], st)
            if isinstance(src, SymDict) and src.order is not None:
                has_ = src.has
                src = SeqV(src.order, src.kty)          # iterating a dict yields its keys in insertion order (A4)
                src.member_of = has_                    # every key listed is a key of the dict (instances added where elements are taken)
            items_of = None
            if isinstance(src, SymItems):
                # iterating d.items(): the (key, value) pairs along the key listing (insertion order when tracked, else unspecified)
                items_of = src.d
                if items_of.order is not None: src = SeqV(items_of.order, items_of.kty); src.member_of = items_of.has
                else: src = SymSet(items_of.has, items_of.kty)
            if isinstance(src, SymSet):
                # iterating a set: each member once, in an order nothing may depend on (an unspecified listing of the members)
                lst = keys_list_fn(src.kty)(src.has)
                x = z3.Const('x!it', src.has.sort().domain()); i_, j_ = z3.Int('i!it'), z3.Int('j!it')
                st.pc += [z3.ForAll([x], z3.Contains(lst, z3.Unit(x)) == z3.Select(src.has, x), patterns=[z3.Contains(lst, z3.Unit(x))]),
                          z3.ForAll([i_], z3.Implies(z3.And(0 <= i_, i_ < z3.Length(lst)), z3.Select(src.has, lst[i_])), patterns=[lst[i_]]),
                          z3.ForAll([i_, j_], z3.Implies(z3.And(0 <= i_, i_ < j_, j_ < z3.Length(lst)), lst[i_] != lst[j_]))]
                pos_ = z3.Function('position_in_' + str(lst.decl().name()), src.has.sort(), src.has.sort().domain(), IntS)      # position of a member in the listing of THIS set
                pos = lambda x_: pos_(src.has, x_)
                st.pc.append(z3.ForAll([x], z3.Implies(z3.Select(src.has, x), z3.And(0 <= pos(x), pos(x) < z3.Length(lst), lst[pos(x)] == x)), patterns=[z3.Select(src.has, x)]))
                self.reg.assume('A4: iterating a set yields each member exactly once; the order is unspecified (an uninterpreted listing of the members)')
                src = SeqV(lst, src.kty)
            if isinstance(src, SeqV):
                lo, hi = z3.IntVal(0), z3.Length(src.z)
                def elem(k, st_, src=src, items_of=items_of):
                    if getattr(src, 'member_of', None) is not None:
                        st_.pc.append(z3.Select(src.member_of, src.z[k]))     # A4 instance: sorted(S)[k] is a member of S
                    if items_of is not None:
                        st_.pc.append(z3.Select(items_of.has, src.z[k]))
                        return Tup([wrap(src.elem, src.z[k]), wrap(items_of.vty, z3.Select(items_of.get, src.z[k]))])
                    return wrap(src.elem, src.z[k])
            else:
                raise Unsupported('iteration over %r' % (src,))
        return self.invariant_loop(s, lo, hi, elem, st)

    def unrolled(self, s, items, st):
        outs, cur = [], [st]
        for it in items:
            nxt = []
            for c in cur:
                c = c.copy(); self.bind(s.target, it, c)
                for o in self.block(s.body, c):
                    if o.kind in ('normal', 'continue'): nxt.append(o.state)
                    elif o.kind == 'break': outs.append(Outcome('normal', o.state))
                    else: outs.append(o)
            cur = nxt
        return outs + [Outcome('normal', c) for c in cur]

    def for_generator(self, s, st):
        f = self.lookup(s.iter.func.id, st).fi
        body = f.body
        if len(body) != 1 or not isinstance(body[0], ast.For): raise Unsupported('generator shape')
        g = body[0]
        if len(g.body) != 1 or not (isinstance(g.body[0], ast.Expr) and isinstance(g.body[0].value, ast.Yield)):
            raise Unsupported('generator shape')
        # for T in gen(args): B   ==>   (params := args) ; for gvar in giter: T = <yield expr>; B
        argvals = [self.ev1(a, st) for a in s.iter.args]
        pnames = [a.arg for a in f.node.args.args]
        ren = {p: '%s!gen%d' % (p, next(_ids)) for p in pnames + [g.target.id]}
        class R(ast.NodeTransformer):
            def visit_Name(self_, n):
                return ast.copy_location(ast.Name(id=ren.get(n.id, n.id), ctx=n.ctx), n)
        for p, v in zip(pnames, argvals): st.env[ren[p]] = v
        import copy
        g2 = R().visit(copy.deepcopy(g))
        assign = ast.copy_location(ast.Assign(targets=[s.target], value=g2.body[0].value.value), s)
        loop = ast.copy_location(ast.For(target=g2.target, iter=g2.iter, body=[assign] + s.body, orelse=[]), s)
        ast.fix_missing_locations(loop)
        self.notes.append('generator %s inlined into its consuming loop' % f.qualname)
        return self.st_For(loop, st)

    def assigned_names(self, stmts):
        names = set()
        for n in ast.walk(ast.Module(body=list(stmts), type_ignores=[])):
            if isinstance(n, ast.Name) and isinstance(n.ctx, ast.Store): names.add(n.id)
            elif isinstance(n, ast.ExceptHandler) and n.name: names.add(n.name)
        return names

    def mutated_cells(self, stmts, st):
        """cells possibly mutated by the loop body: receivers of method calls, arguments of calls,
        file= targets, subscript/attribute stores — by name, conservatively"""
        names = set()
        for n in ast.walk(ast.Module(body=list(stmts), type_ignores=[])):
            if isinstance(n, ast.Call):
                # a method of `self` that is under a (non-inline) contract mutates only what its contract declares (modifies)
                c_ = None
                if isinstance(n.func, ast.Attribute) and isinstance(n.func.value, ast.Name) and n.func.value.id == 'self' and self.fi.cls:
                    c_ = self.reg.get(self.fi.file, '%s.%s' % (self.fi.cls, n.func.attr))
                    if c_ is not None and (c_.inline or c_.trusted): c_ = None
                if c_ is not None:
                    pn = [p_ for p_ in c_.params if p_ != 'self']
                    for a, p_ in zip(n.args, pn):
                        if isinstance(a, ast.Name) and p_ in c_.modifies: names.add(a.id)
                    for k in n.keywords:
                        if isinstance(k.value, ast.Name) and k.arg in c_.modifies: names.add(k.value.id)
                    continue
                if isinstance(n.func, ast.Attribute) and isinstance(n.func.value, ast.Name): names.add(n.func.value.id)
                for a in list(n.args) + [k.value for k in n.keywords]:
                    if isinstance(a, ast.Name): names.add(a.id)
            if isinstance(n, (ast.Subscript, ast.Attribute)) and isinstance(n.ctx, ast.Store) and isinstance(n.value, ast.Name):
                names.add(n.value.id)
        ids = set()
        for nm in names:
            v = st.env.get(nm)
            if isinstance(v, Ref): ids.add(v.id)
        return ids

    def havoc(self, st, names, cell_ids, tag):
        for nm in names:
            v = st.env.get(nm)
            gty = self.loop_list_types.get(nm)
            if v is not None and gty is not None and gty.kind == 'Opt':
                inner = gty.args[0]
                st.env[nm] = Opt(fresh(BoolS, nm + '?none' + tag), wrap(inner, fresh(inner.sort(), nm + tag)))
                continue
            if v is None or isinstance(v, Ref): continue
            st.env[nm] = self.havoc_value(v, nm + tag)
        for cid in cell_ids:
            c = st.cells[cid]
            if isinstance(c, (Rec, PyDict)):
                continue    # records/keyword tables passed to calls inside the loop: callees under contract declare what they modify
            st.cells[cid] = self.havoc_value(c, 'cell%d%s' % (cid, tag))
        # names assigned in the loop that currently hold a Ref to a fresh object (l = []) are re-bound per iteration;
        # their cells are havocked as well
        for nm in names:
            v = st.env.get(nm)
            if isinstance(v, Ref):
                content = st.cells[v.id]
                if isinstance(content, (PyList, SeqV, DocObj, SymDict, SymSet)):
                    if v.id not in cell_ids: st.env[nm] = st.new_cell(self.havoc_value(content, nm + tag))
                else:
                    st.env[nm] = Unknown(nm)       # e.g. an object reference re-bound inside the loop

    def havoc_value(self, v, nm):
        if isinstance(v, Sc): return Sc(fresh(v.z.sort(), nm), v.py)
        if isinstance(v, Text): return Text(fresh(Doc, nm))
        if isinstance(v, DocObj): return DocObj(fresh(Doc, nm))
        if isinstance(v, SeqV): return SeqV(fresh(v.z.sort(), nm), v.elem)
        if isinstance(v, Obj): return Obj(fresh(v.z.sort(), nm), v.cls)
        if isinstance(v, FnV): return FnV(fresh(Fn, nm))
        if isinstance(v, PyList):
            ty = self.loop_list_types.get(nm.split('!')[0])
            if ty is None and v.items:
                z0 = unwrap(self.deref(v.items[0], None) if not isinstance(v.items[0], Ref) else v.items[0])
                return SeqV(fresh(z3.SeqSort(z0.sort()), nm), _ty_of_sort(z0.sort()))
            if ty is None: raise Unsupported('loop mutates list %r of unknown element type: declare it in contract.ghost' % nm)
            return SeqV(fresh(z3.SeqSort(ty.sort()), nm), ty)
        if isinstance(v, SymDict):
            return SymDict(fresh(v.has.sort(), nm + '.has'), fresh(v.get.sort(), nm + '.get'), v.kty, v.vty,
                           order=(fresh(v.order.sort(), nm + '.order') if v.order is not None else None))
        if isinstance(v, SymSet): return SymSet(fresh(v.has.sort(), nm + '.has'), v.kty)
        if isinstance(v, (ClassV, FuncV, ModuleV, Builtin, LocalClass)):
            return v     # names of classes/functions/modules are not re-bound in the handled subset
        if isinstance(v, (NoneV, PyStr, Closure, PyDict, Tup, Rec, Opt, TupTerm, Unknown, Dual, PySet)):
            return Unknown(nm)   # re-bound in the loop with a value whose shape is not fixed by its type
        raise Unsupported('havoc of %r' % (v,))

    def invariant_loop(self, s, lo, hi, elem, st):
        if id(s) not in self.loop_ids:
            self.loop_ids[id(s)] = self.loop_counter; self.loop_counter += 1
        ordinal = self.loop_ids[id(s)]
        inv = self.contract.invariants.get(ordinal)
        if inv is None:
            raise Unsupported('loop #%d of %s has no invariant in the sidecar' % (ordinal, self.fname))
        idx = '_i%d' % ordinal
        carries = ('preserve/%d' % ordinal) in self.contract.carries or 'inv' in self.contract.carries
        names = self.assigned_names(s.body) | self.assigned_names([ast.Expr(value=s.target)] if False else []) | _target_names(s.target)
        cells = self.mutated_cells(s.body, st)
        # normalise lists that the loop mutates to symbolic sequences before init
        for nm in list(st.env):
            v = st.env[nm]
            if isinstance(v, Ref) and (v.id in cells or nm in names) and isinstance(st.cells[v.id], PyList):
                pl = st.cells[v.id]
                ty = self.loop_list_types.get(nm)
                if ty is None and not pl.items: raise Unsupported('list %r mutated in loop #%d: declare its element type in contract.ghost' % (nm, ordinal))
                if ty is None: ty = _ty_of_sort(unwrap(pl.items[0]).sort())
                z = z3.Empty(z3.SeqSort(ty.sort())) if not pl.items else unwrap(pl)
                st.cells[v.id] = SeqV(z, ty)
        for nm in list(st.env):
            v = st.env[nm]
            if isinstance(v, Ref) and isinstance(st.cells[v.id], PySet) and nm in self.loop_list_types:
                kty = self.loop_list_types[nm].args[0]
                st.cells[v.id] = SymSet(z3.K(self.key_sort(kty), z3.BoolVal(False)), kty)
                continue
            if isinstance(v, Ref) and isinstance(st.cells[v.id], PyDict) and not st.cells[v.id].d and nm in self.loop_list_types:
                ty = self.loop_list_types[nm]
                kty, vty = ty.args
                ks = self.key_sort(kty)
                st.cells[v.id] = SymDict(z3.K(ks, z3.BoolVal(False)), fresh(z3.ArraySort(ks, vty.sort()), nm + '.get0'), kty, vty,
                                         order=(z3.Empty(z3.SeqSort(ks)) if ty.kind == 'ODict' else None))
        # 1. initiation
        s0 = st.copy(); s0.env[idx] = Sc(lo, 'int')
        for g in inv(NS(self, s0), self.old_ns):
            self.obl('init/%d' % ordinal, s0, g, carries=carries)
        # 2. arbitrary iteration
        si = st.copy()
        self.havoc(si, names, cells, '!it%d' % ordinal)
        k = fresh(IntS, 'k%d' % ordinal)
        si.env[idx] = Sc(k, 'int')
        si.pc += [k >= lo, k < hi]
        outs = []
        body_outs = []
        for sc in self.split_bounded(ordinal, si):
            reachable = self.feasible(sc) if not self.contract.bounded_lists.get(ordinal) else False
            sc.pc += inv(NS(self, sc), self.old_ns)
            if not self.feasible(sc, full=True):
                # vacuity guard: an iteration that is reachable without the invariant but not with it means the invariant
                # (or an axiom it brings in) is contradictory -- every obligation of the body would hold trivially
                if reachable: self.vacuity.append('loop #%d: the invariant contradicts the path condition of an arbitrary iteration (body not checked)' % ordinal)
                continue
            self.bind(s.target, elem(k, sc), sc)
            body_outs.extend(self.block(s.body, sc))
        for o in body_outs:
            if o.kind in ('normal', 'continue'):
                sn = o.state; sn.env[idx] = Sc(k + 1, 'int')
                for g in inv(NS(self, sn), self.old_ns):
                    self.obl('preserve/%d' % ordinal, sn, g, carries=carries)
            elif o.kind == 'break': outs.append(Outcome('normal', o.state))
            else: outs.append(o)
        # 3. exit
        sx = st.copy()
        self.havoc(sx, names, cells, '!x%d' % ordinal)
        kx = fresh(IntS, 'kx%d' % ordinal)
        sx.env[idx] = Sc(kx, 'int')
        sx.pc += [kx == z3.If(hi >= lo, hi, lo)]
        for sc in self.split_bounded(ordinal, sx):
            reachable = self.feasible(sc) if not self.contract.bounded_lists.get(ordinal) else False
            sc.pc += inv(NS(self, sc), self.old_ns)
            if self.feasible(sc, full=True): outs.append(Outcome('normal', sc))
            elif reachable: self.vacuity.append('loop #%d: the invariant contradicts the path condition at loop exit (code after the loop not checked)' % ordinal)
        return outs

    def split_bounded(self, ordinal, st):
        """case split on the (bounded) length of declared lists: in each case the list has a concrete length and fresh
        symbolic elements, which keeps nested sequences out of the queries"""
        spec = self.contract.bounded_lists.get(ordinal)
        if not spec: return [st]
        states = [st]
        for nm, (length, bound) in spec.items():
            nxt = []
            for s0 in states:
                for c in range(bound):
                    s1 = s0.copy()
                    ty = self.loop_list_types[nm]
                    ref = s1.env[nm]
                    s1.cells[ref.id] = PyList([wrap(ty, fresh(ty.sort(), '%s_%d' % (nm, j))) for j in range(c)])
                    s1.pc.append(length(NS(self, s1)) == c)
                    nxt.append(s1)
            states = nxt
        return states

    def st_While(self, s, st):
        """while loop with an invariant over a ghost iteration counter _i<ordinal> (partial correctness: termination is not shown)"""
        if s.orelse: raise Unsupported('while/else')
        if id(s) not in self.loop_ids:
            self.loop_ids[id(s)] = self.loop_counter; self.loop_counter += 1
        ordinal = self.loop_ids[id(s)]
        inv = self.contract.invariants.get(ordinal)
        if inv is None: raise Unsupported('while loop #%d of %s has no invariant in the sidecar' % (ordinal, self.fname))
        idx = '_i%d' % ordinal
        carries = ('preserve/%d' % ordinal) in self.contract.carries or 'inv' in self.contract.carries
        names = self.assigned_names(s.body)
        cells = self.mutated_cells(s.body, st)
        for nm in list(st.env):
            v = st.env[nm]
            if isinstance(v, Ref) and (v.id in cells or nm in names) and isinstance(st.cells[v.id], PyList):
                pl = st.cells[v.id]; ty = self.loop_list_types.get(nm)
                if ty is None and not pl.items: raise Unsupported('list %r mutated in loop #%d: declare its element type in contract.ghost' % (nm, ordinal))
                if ty is None: ty = _ty_of_sort(unwrap(pl.items[0]).sort())
                st.cells[v.id] = SeqV(z3.Empty(z3.SeqSort(ty.sort())) if not pl.items else z3.Concat(*[z3.Unit(self.elem_term(i_, ty, st)) for i_ in pl.items]) if len(pl.items) > 1 else z3.Unit(self.elem_term(pl.items[0], ty, st)), ty)
        # 1. initiation (zero iterations done)
        s0 = st.copy(); s0.env[idx] = Sc(z3.IntVal(0), 'int')
        for g in inv(NS(self, s0), self.old_ns): self.obl('init/%d' % ordinal, s0, g, carries=carries)
        outs = []
        # 2. an arbitrary iteration: k iterations done, the invariant holds, the test is true
        si = st.copy(); self.havoc(si, names, cells, '!it%d' % ordinal)
        k = fresh(IntS, 'k%d' % ordinal); si.env[idx] = Sc(k, 'int'); si.pc.append(k >= 0)
        reach = self.feasible(si)
        si.pc += inv(NS(self, si), self.old_ns)
        if not self.feasible(si, full=True):
            if reach: self.vacuity.append('while loop #%d: the invariant contradicts the path condition of an arbitrary iteration (body not checked)' % ordinal)
        else:
            for c_, s1 in self.evs(s.test, si):
                t = self.truth(c_, s1)
                sb = s1.copy(); sb.pc.append(t); self.refine_optional(s.test, sb, True)
                if not self.feasible(sb): continue
                for o in self.block(s.body, sb):
                    if o.kind in ('normal', 'continue'):
                        sn = o.state; sn.env[idx] = Sc(k + 1, 'int')
                        for g in inv(NS(self, sn), self.old_ns): self.obl('preserve/%d' % ordinal, sn, g, carries=carries)
                    elif o.kind == 'break': outs.append(Outcome('normal', o.state))
                    else: outs.append(o)
        # 3. exit: some number of iterations done, the invariant holds, the test is false
        sx = st.copy(); self.havoc(sx, names, cells, '!x%d' % ordinal)
        kx = fresh(IntS, 'kx%d' % ordinal); sx.env[idx] = Sc(kx, 'int'); sx.pc.append(kx >= 0)
        sx.pc += inv(NS(self, sx), self.old_ns)
        for c_, s1 in self.evs(s.test, sx):
            t = self.truth(c_, s1)
            se = s1.copy(); se.pc.append(z3.Not(t)); self.refine_optional(s.test, se, False)
            if self.feasible(se): outs.append(Outcome('normal', se))
        return outs


def _target_names(t):
    return {n.id for n in ast.walk(t) if isinstance(n, ast.Name)}

def _ty_of_sort(s):
    if s == IntS: return T.Int
    if s == RealS: return T.Real
    if s == StrS: return T.Str
    if s == Doc: return T.Text
    if s == Fn: return T.Fn
    if s == Val: return T.Val
    if str(s).startswith('Obj_'): return T.Obj(str(s)[4:])
    raise Unsupported('element sort %s' % s)

class LocalClass(V):
    def __init__(self, node, module, depth): self.node, self.module, self.depth = node, module, depth


# =====================================================================================
# calls
# =====================================================================================
class CallMixin(object):
    def call_node(self, n, st):
        # super(X, self).method(...)  /  super().method(...)
        if isinstance(n.func, ast.Attribute) and isinstance(n.func.value, ast.Call) and isinstance(n.func.value.func, ast.Name) \
           and n.func.value.func.id == 'super':
            return self.call_super(n, st)
        out = []
        for f, s1 in self.ev(n.func, st):
            for args, s2 in self._ev_list(n.args, s1):
                kws = [([], s2)]
                names = [k.arg for k in n.keywords]
                for vals, s3 in self._ev_list([k.value for k in n.keywords], s2):
                    kw_ = {}
                    for nm, val in zip(names, vals):
                        if nm is None:
                            # f(**d): a dict with concretely known keys is spread into keyword arguments
                            dd = self.deref(val, s3)
                            if not isinstance(dd, PyDict) or not all(isinstance(k_, str) for k_ in dd.d): raise Unsupported('**kwargs call')
                            kw_.update(dd.d)
                        else: kw_[nm] = val
                    out.extend(self.call_value(f, args, kw_, s3, node=n))
        return out

    def call_super(self, n, st):
        sup = n.func.value
        selfv = st.env.get('self')
        cur_cls = self._class_stack[-1]
        if sup.args:
            cname = sup.args[0].id
            r = self._cur_module().resolve(cname)
            after = (r[1], r[2])
        else:
            after = cur_cls
        sd = self.deref(selfv, st)
        dyn = (sd.module, sd.cls) if isinstance(sd, Rec) else self.class_home(sd.cls)
        fi = dyn[0].find_method(dyn[1], n.func.attr, after=after)
        if fi is None:
            if n.func.attr == '__init__': return [(NONE, st)]
            # the method of a library base class: its assumed contract '<ext>' '<sidecar class>.super.<method>'; a **kwargs argument is passed on as such
            c_sup = self.reg.get('<ext>', '%s.super.%s' % (sd.cls, n.func.attr)) if isinstance(sd, (Obj, Rec)) else None
            if c_sup is None: raise Unsupported('super().%s not found' % n.func.attr)
            out = []
            for args, s2 in self._ev_list(n.args, st):
                kws = [k for k in n.keywords if k.arg is not None]; splat = [k for k in n.keywords if k.arg is None]
                for vals, s3 in self._ev_list([k.value for k in kws] + [k.value for k in splat], s2):
                    kw_ = dict(zip([k.arg for k in kws], vals[:len(kws)]))
                    if splat: kw_['kwargs'] = vals[len(kws)]
                    out.extend(self.call_contract(c_sup, None, [selfv] + args, kw_, s3, n))
            return out
        out = []
        for args, s2 in self._ev_list(n.args, st):
            for vals, s3 in self._ev_list([k.value for k in n.keywords], s2):
                out.extend(self.call_function(fi, [selfv] + args, dict(zip([k.arg for k in n.keywords], vals)), s3,
                                              self_cls=(fi.module, fi.cls), node=n))
        return out

    def call_value(self, f, args, kw, st, node=None):
        """-> [(value, state)]; raising paths appended to self._raises"""
        fref = f
        f = self.deref(f, st) if not isinstance(f, BoundMethod) else f
        if isinstance(f, Dual): f = f.fn
        if isinstance(f, Rec):      # callable object with a known class
            return self.call_method(fref, '__call__', args, kw, st, node)
        if isinstance(f, ConstFactory): return [(f.result, st)]
        if isinstance(f, Obj) and getattr(self.reg.classes.get(f.cls), 'external', False) and self.reg.get('<ext>', '%s.__call__' % f.cls) is not None:
            return self.call_contract(self.reg.get('<ext>', '%s.__call__' % f.cls), None, [fref] + list(args), kw, st, node)      # a library callable object with an assumed contract
        if isinstance(f, Builtin): return self.call_builtin(f.name, args, kw, st, node)
        if isinstance(f, Opt): raise Unsupported('call of an optional value')
        if isinstance(f, FuncV): return self.call_function(f.fi, args, kw, st, node=node)
        if isinstance(f, Closure):
            a = ([f.self_val] if f.self_val is not None else []) + list(args)
            return self.call_closure(f, a, kw, st, node)
        if isinstance(f, BoundMethod): return self.call_method(f.recv, f.name, args, kw, st, node)
        if isinstance(f, NTClass):
            items = list(args) + [kw[k_] for k_ in f.fields[len(args):]]
            if len(items) != len(f.fields): raise Unsupported('namedtuple arity')
            return [(NTup(f, items), st)]
        if isinstance(f, ClassV): return self.construct(f, args, kw, st, node)
        if isinstance(f, LocalClass): return self.construct_local(f, args, kw, st, node)
        if isinstance(f, FnV):
            if len(args) != 1: raise Unsupported('callable applied to %d arguments' % len(args))
            return self.apply_fn(f.z, args[0], st)
        if isinstance(f, ModuleV) and f.ext: return self.call_external(f.ext, args, kw, st, node)
        if isinstance(f, Obj):
            fi = self.find_method_of(f.cls, '__call__')
            if fi is not None: return self.call_function(fi, [f] + list(args), kw, st, self_cls=self.class_home(f.cls), node=node)
        raise Unsupported('call of %r' % (f,))

    def apply_fn(self, fz, arg, st):
        a = self.as_real(self.deref(arg, st))
        if self.track_raises:
            s_r = st.copy(); s_r.pc.append(raises(fz, a))
            self._raises.append(Outcome('raise', s_r, ExcV('<any>', origin='app')))
            st = st.copy(); st.pc.append(z3.Not(raises(fz, a)))
        return [(Sc(app(fz, a), 'float'), st)]

    # ---------------------------------------------------------------- builtins
    def call_builtin(self, name, args, kw, st, node):
        d = [self.deref(a, st) for a in args]
        if name in ('float', 'int') and isinstance(d[0], Sc) and d[0].py == 'str':
            # conversion of text: ValueError unless the text is a numeral of that type
            a = d[0]
            ok = (parses_float if name == 'float' else parses_int)(a.z)
            s_bad = st.copy(); s_bad.pc.append(z3.Not(ok))
            self._raises.append(Outcome('raise', s_bad, ExcV('ValueError', origin=name)))
            st = st.copy(); st.pc.append(ok)
            return [(Sc((str_to_real if name == 'float' else str_to_int)(a.z), name), st)]
        if name == 'float' and isinstance(d[0], PyStr) and d[0].s.strip().lower() in ('-inf', 'inf', '+inf', '-infinity', 'infinity'):
            self.reg.assume('float("%s") is an unspecified real constant (nothing is derived from its value; A1 has no infinities)' % d[0].s)
            return [(Sc(z3.Const('float(%s)' % d[0].s.strip().lower(), RealS), 'float'), st)]
        if name == 'float':
            a = d[0]
            if isinstance(a, Sc) and a.py in ('int', 'float', 'bool'): return [(Sc(self.as_real(a), 'float'), st)]
            raise Unsupported('float(%r)' % (a,))
        if name == 'int':
            a = d[0]
            if isinstance(a, Sc) and a.py == 'int': return [(a, st)]
            if isinstance(a, Sc) and a.py == 'float':
                if not z3.is_const(a.z) and not z3.is_rational_value(z3.simplify(a.z)):
                    # int() of a computed float: the integer must not depend on the last-bit rounding of the
                    # computation (A1 is NOT assumed here): with the float result perturbed by a few ulps the integer is the same.
                    # 3 ulps: two decimal literals rounded on input and one rounded operation.
                    e = fresh(RealS, 'round_err')
                    M = getattr(self.contract, 'robust_bound', None) or 10 ** 6
                    eps = z3.RealVal(3 * M) / z3.RealVal(2 ** 52)          # |x| <= M  =>  |x * d| <= M * 3 ulp
                    hyps = []
                    if self.contract.robust_when is not None: hyps += self.contract.robust_when(NS(self, st))
                    src = getattr(a, 'rounded_from', None)
                    x = src[0] if src is not None else a.z
                    rv = getattr(self.contract, 'robust_value', None)
                    if rv is not None:
                        # the contract names the exact value of the float in the case it cares about: proved here (may be
                        # nonlinear, but small), then the robustness query is stated on that value and is linear
                        xv = rv(NS(self, st))
                        self.obl('float-int-value', st, x == xv, extra_h=hyps)
                        x = xv
                    self.obl('float-int-range', st, z3.And(x <= M, x >= -M), extra_h=hyps)
                    rh = []
                    if src is not None:
                        # any round-to-nearest (whatever the tie rule): an integer multiple of 10^-n within half a unit of the argument
                        p_ = z3.RealVal(10 ** src[1]); r1, r2 = fresh(IntS, 'rnd_pert'), fresh(IntS, 'rnd_exact'); hf = z3.RealVal('1/2')
                        rh = [z3.ToReal(r1) - (x + e) * p_ <= hf, (x + e) * p_ - z3.ToReal(r1) <= hf, z3.ToReal(r2) - x * p_ <= hf, x * p_ - z3.ToReal(r2) <= hf]
                        goal = trunc(z3.ToReal(r1) / p_) == trunc(z3.ToReal(r2) / p_)
                    else: goal = trunc(x + e) == trunc(x)
                    o_ = self.obl('float-int-robust', st, goal, extra_h=hyps + rh + [e >= -eps, e <= eps], carries=True)
                    if rv is not None: o_.hyps = hyps + rh + [e >= -eps, e <= eps]      # nothing else is needed: keeps the query small
                return [(Sc(trunc(a.z), 'int'), st)]
            raise Unsupported('int(%r)' % (a,))
        if name == 'round' and len(d) == 2 and isinstance(d[1], Sc) and z3.is_int_value(d[1].z) and isinstance(d[0], Sc):
            nd = d[1].z.as_long(); x = self.as_real(d[0])
            self.reg.assume('round(x, n): nearest multiple of 10^-n of the exact value of x, ties to even (as CPython); its conversion back to a float is A1')
            out = Sc(round_n(x, nd), 'float'); out.rounded_from = (x, nd)
            return [(out, st)]
        if name == 'len':
            a = d[0]
            if isinstance(a, (Tup, PyList)): return [(Sc(z3.IntVal(len(a.items)), 'int'), st)]
            if isinstance(a, SeqV): return [(Sc(z3.Length(a.z), 'int'), st)]
            if isinstance(a, PyStr): return [(Sc(z3.IntVal(len(a.s)), 'int'), st)]
            if isinstance(a, Sc) and a.py == 'str': return [(Sc(z3.Length(a.z), 'int'), st)]
            if isinstance(a, PyDict): return [(Sc(z3.IntVal(len(a.d)), 'int'), st)]
            if isinstance(a, Obj) and getattr(self.reg.classes.get(a.cls), 'external', False) and self.reg.get('<ext>', '%s.__len__' % a.cls) is not None:
                return self.call_contract(self.reg.get('<ext>', '%s.__len__' % a.cls), None, [args[0]], {}, st, node)
            raise Unsupported('len(%r)' % (a,))
        if name == 'StringIO':
            return [(st.new_cell(DocObj(EMPTY)), st)]
        if name == 'print':
            f = kw.get('file')
            if f is None: raise Unsupported('print without file=')
            doc = cat(*[self.text_of(a, st) for a in d]) if len(d) == 1 else cat(*sum([[self.text_of(a, st), lit_doc(' ')] for a in d], [])[:-1])
            self.doc_append(f, cat(doc, NL), st)
            return [(NONE, st)]
        if name in ('min', 'max') and len(d) == 2 and all(isinstance(x, Sc) and x.py in ('int', 'float') for x in d) and not kw:
            a, b = d
            if a.py != b.py: az, bz, py = self.as_real(a), self.as_real(b), None
            else: az, bz, py = a.z, b.z, a.py
            if py is None: raise Unsupported('min/max of mixed int and float (the result type depends on the values)')
            # Python returns the first argument on ties
            return [(Sc(z3.If(bz < az, bz, az) if name == 'min' else z3.If(bz > az, bz, az), py), st)]
        if name == 'abs' and len(d) == 1 and isinstance(d[0], Sc) and d[0].py in ('int', 'float'):
            return [(Sc(z3.If(d[0].z < 0, -d[0].z, d[0].z), d[0].py), st)]
        if name == 'sum' and len(d) == 1 and isinstance(d[0], (Tup, PyList)) and all(isinstance(self.deref(x, st), Sc) and self.deref(x, st).py == 'int' for x in d[0].items):
            tot = z3.IntVal(0)
            for x in d[0].items: tot = tot + self.deref(x, st).z
            return [(Sc(tot, 'int'), st)]
        if name == 'reversed':
            a = d[0]
            if isinstance(a, NTup): a = Tup(list(a.items))
            if isinstance(a, (Tup, PyList)): return [(Tup(list(reversed(a.items))), st)]
            raise Unsupported('reversed(%r)' % (a,))
        if name in ('tuple', 'list') and d and isinstance(d[0], SymKeys):
            # list(d.keys()): some listing of exactly the keys (insertion order is not modelled: the contract may only speak of membership)
            sd = d[0].d
            if sd.order is not None: return [(SeqV(sd.order, sd.kty), st)]
            lst = keys_list_fn(sd.kty)(sd.has)
            x = z3.Const('x!keys', sd.kty.sort())
            st.pc.append(z3.ForAll([x], z3.Contains(lst, z3.Unit(x)) == z3.Select(sd.has, x), patterns=[z3.Contains(lst, z3.Unit(x))]))
            self.reg.assume('A4: list(d.keys()) lists exactly the keys of d (order not modelled)')
            return [(SeqV(lst, sd.kty), st)]
        if name in ('tuple', 'list') and d and isinstance(d[0], SymValues):
            sd = d[0].d
            if sd.order is None: raise Unsupported('list(d.values()) of a dict whose insertion order is not tracked (declare it T.ODict)')
            self.reg.assume('A4: list(d.values()) lists the values in the insertion order of their keys')
            lst = fresh(z3.SeqSort(sd.vty.sort()), 'values'); i_ = z3.Int('i!vals')
            st.pc += [z3.Length(lst) == z3.Length(sd.order),
                      z3.ForAll([i_], z3.Implies(z3.And(0 <= i_, i_ < z3.Length(sd.order)), lst[i_] == z3.Select(sd.get, sd.order[i_])), patterns=[lst[i_]])]
            return [(st.new_cell(SeqV(lst, sd.vty)) if name == 'list' else SeqV(lst, sd.vty), st)]
        if name in ('tuple', 'list'):
            if d and isinstance(d[0], NTup): d = [Tup(list(d[0].items))] + d[1:]
            if not d: return [(st.new_cell(PyList([])) if name == 'list' else Tup([]), st)]
            a = d[0]
            if isinstance(a, (Tup, PyList)):
                return [((Tup(a.items) if name == 'tuple' else st.new_cell(PyList(a.items))), st)]
            if isinstance(a, SeqV):
                return [((a if name == 'tuple' else st.new_cell(SeqV(a.z, a.elem))), st)]
            raise Unsupported('%s(%r)' % (name, a))
        if name == 'set' and args and isinstance(d[0], (SeqV, SymKeys)):
            # set(list) / set(d.keys()): membership in the set is membership in the list
            if isinstance(d[0], SymKeys): return [(st.new_cell(SymSet(d[0].d.has, d[0].d.kty)), st)]
            a = d[0]; ks = a.z.sort().basis()
            has = fresh(z3.ArraySort(ks, BoolS), 'set.has'); x = z3.Const('x!set', ks)
            st.pc.append(z3.ForAll([x], z3.Select(has, x) == z3.Contains(a.z, z3.Unit(x)), patterns=[z3.Select(has, x)]))
            return [(st.new_cell(SymSet(has, a.elem)), st)]
        if name == 'set':
            if args: raise Unsupported('set(iterable)')
            return [(st.new_cell(PySet()), st)]
        if name == 'dict':
            if args: 
                a = d[0]
                if isinstance(a, PyDict): return [(st.new_cell(PyDict(a.d)), st)]
                if isinstance(a, SymDict): return [(st.new_cell(SymDict(a.has, a.get, a.kty, a.vty, order=a.order)), st)]
                raise Unsupported('dict(%r)' % (a,))
            return [(st.new_cell(PyDict(dict(kw))), st)]
        if name == 'sorted' and isinstance(d[0], SymKeys):
            d = [SymSet(d[0].d.has, d[0].d.kty)] + list(d[1:])      # sorted(d.keys()): the keys are a set
        if name == 'sorted' and isinstance(d[0], SymSet):
            # A4 (stdlib contract): sorted(set) is the strictly increasing sequence of exactly the set's members
            a = d[0]
            self.reg.assume('A4: sorted(set) returns the strictly increasing sequence of exactly the members of the set')
            sv = SeqV(sorted_keys_fn(a.kty)(a.has), a.kty)
            sv.member_of = a.has        # instances of "every element is a member" are added where elements are taken
            return [(sv, st)]
        if name == 'sorted' and isinstance(d[0], SeqV):
            a = d[0]
            self.reg.assume('A4: sorted(list) returns the ordered permutation of the list (uninterpreted function sorted_seq with that meaning)')
            return [(SeqV(sorted_seq_fn(a.z.sort())(a.z), a.elem), st)]
        if name == 'sorted':
            a = d[0]
            if isinstance(a, (Tup, PyList)):
                return [(st.new_cell(PyList(self.sort_network(a.items, st))), st)]
            raise Unsupported('sorted(%r)' % (a,))
        if name == 'getattr' and len(d) == 3 and isinstance(d[0], Obj) and isinstance(d[1], PyStr) and isinstance(d[2], NoneV):
            o = d[0]; fty = self.reg.field_type(o.cls, d[1].s)
            if fty is not None and fty.kind == 'Opt' and d[1].s in getattr(self.reg.classes.get(o.cls), 'optional_attrs', ()):
                return [(self.read_field(o, d[1].s, fty, st), st)]       # None exactly when the instance lacks the attribute
            raise Unsupported('getattr(%r, %r, None)' % (o, d[1].s))
        if name == 'hasattr' and isinstance(d[0], Obj) and isinstance(d[1], PyStr) and d[1].s in getattr(self.reg.classes.get(d[0].cls), 'optional_attrs', ()):
            return [(Sc(z3.Not(self.read_field(d[0], d[1].s, self.reg.field_type(d[0].cls, d[1].s), st).isnone), 'bool'), st)]
        if name == 'hasattr':
            o, nm = d
            if isinstance(o, FnV) and isinstance(nm, PyStr) and nm.s in ('deriv', 'deriv2'):
                return [(Sc((has_deriv if nm.s == 'deriv' else has_deriv2)(o.z), 'bool'), st)]
            if isinstance(o, Rec) and isinstance(nm, PyStr):
                has = nm.s in o.fields or o.module.find_method(o.cls, nm.s) is not None
                return [(Sc(z3.BoolVal(bool(has)), 'bool'), st)]
            raise Unsupported('hasattr(%r, %r)' % (o, nm))
        if name == 'isinstance':
            raise Unsupported('isinstance')
        if name == 'str':
            a = d[0]
            if isinstance(a, PyStr): return [(a, st)]
            return [(Text(fld_doc(('s', '', None, None), unwrap(a))), st)]
        if name in _EXC_BUILTINS or name == 'Exception':
            return [(ExcV(name, args), st)]
        if name == 'open':
            return [(st.new_cell(DocObj(EMPTY)), st)]
        raise Unsupported('builtin %s' % name)

    def sort_network(self, items, st):
        ds = [self.deref(i, st) for i in items]
        if all(isinstance(i, PyStr) for i in ds): return sorted(ds, key=lambda x: x.s)
        zs = [unwrap(self.deref(i, st)) for i in items]
        if len(zs) == 1: return list(items)
        if len(zs) == 2:
            a, b = zs
            le = (a <= b)
            return [Sc(z3.If(le, a, b)), Sc(z3.If(le, b, a))]
        raise Unsupported('sorting %d symbolic items' % len(zs))

    def text_of(self, v, st):
        v = self.deref(v, st)
        if isinstance(v, PyStr): return lit_doc(v.s)
        if isinstance(v, Text): return v.z
        if isinstance(v, Sc): return fld_doc(('s', '', None, None), v.z)
        raise Unsupported('text of %r' % (v,))

    def doc_append(self, target, doc, st):
        if not isinstance(target, Ref) or not isinstance(st.cells[target.id], DocObj):
            raise Unsupported('write to %r' % (target,))
        st.cells[target.id] = DocObj(cat(st.cells[target.id].z, doc))

    # ---------------------------------------------------------------- methods of modelled objects
    def call_method(self, recv, name, args, kw, st, node):
        r = self.deref(recv, st)
        d = [self.deref(a, st) for a in args]
        if isinstance(r, Builtin) and name == '__name__': return [(PyStr(r.name), st)]
        if isinstance(r, Closure) and name == '__get__':
            return [(Closure(r.node, r.module, r.depth, self_val=args[0], cls=r.cls, qual=r.qual), st)]
        if isinstance(r, DocObj):
            if name == 'write':
                self.doc_append(recv, self.text_of(d[0], st), st); return [(NONE, st)]
            if name == 'getvalue': return [(Text(r.z), st)]
            if name in ('close', 'flush', '__enter__', '__exit__', 'seek'): return [(NONE, st)]
        if isinstance(r, Sc) and r.py == 'str' and name == 'split' and not args:
            self.reg.assume('A4: str.split() without argument = the whitespace-separated tokens (uninterpreted function split_ws)')
            return [(SeqV(split_ws(r.z), T.Str), st)]
        if isinstance(r, Sc) and r.py == 'str' and name == 'split' and len(args) == 1 and isinstance(d[0], PyStr):
            self.reg.assume('A4: str.split(sep) = the sep-separated pieces (uninterpreted function split_on; at least one piece)')
            pieces = split_on(r.z, z3.StringVal(d[0].s))
            st.pc.append(z3.Length(pieces) >= 1)
            return [(SeqV(pieces, T.Str), st)]
        if isinstance(r, Sc) and r.py == 'str' and name == 'split' and len(args) == 2 and isinstance(d[0], PyStr) and isinstance(d[1], Sc) and z3.is_int_value(d[1].z):
            n_ = d[1].z.as_long()
            self.reg.assume('A4: str.split(sep, n) = at most n+1 sep-separated pieces (uninterpreted function split_on_max; at least one piece)')
            pieces = split_on_max(r.z, z3.StringVal(d[0].s), z3.IntVal(n_))
            st.pc += [z3.Length(pieces) >= 1, z3.Length(pieces) <= n_ + 1]
            if n_ == 1 and d[0].s:
                # exact for one split: at the leftmost occurrence of the (non-empty) separator, or the whole text when there is none
                sep_ = z3.StringVal(d[0].s); ix = z3.IndexOf(r.z, sep_, 0); ls = len(d[0].s)
                st.pc.append(z3.If(z3.Contains(r.z, sep_),
                                   z3.And(z3.Length(pieces) == 2, pieces[0] == z3.SubString(r.z, 0, ix), pieces[1] == z3.SubString(r.z, ix + ls, z3.Length(r.z) - ix - ls)),
                                   z3.And(z3.Length(pieces) == 1, pieces[0] == r.z)))
            return [(SeqV(pieces, T.Str), st)]
        if isinstance(r, Sc) and r.py == 'str' and name == 'index' and len(args) in (1, 2) and isinstance(d[0], PyStr) and d[0].s:
            # s.index(sub[, start]): position of the first occurrence at or after start; ValueError when there is none
            sub = z3.StringVal(d[0].s); start = z3.IntVal(0)
            if len(args) == 2:
                if not (isinstance(d[1], Sc) and d[1].py == 'int'): raise Unsupported('str.index start %r' % (d[1],))
                start = d[1].z
                s_neg = st.copy(); s_neg.pc.append(start < 0)
                if self.feasible(s_neg): raise Unsupported('str.index with a start that may be negative')
            ix = z3.IndexOf(r.z, sub, start)
            found = z3.And(start <= z3.Length(r.z), ix >= 0)
            s_nf = st.copy(); s_nf.pc.append(z3.Not(found)); self.raise_exc('ValueError', s_nf)
            st.pc += [found, ix >= start, ix + len(d[0].s) <= z3.Length(r.z)]
            return [(Sc(ix, 'int'), st)]
        if isinstance(r, Sc) and r.py == 'str' and name == 'rsplit' and len(args) == 2 and isinstance(d[0], PyStr) and len(d[0].s) == 1 and isinstance(d[1], Sc) and z3.is_int_value(d[1].z) and d[1].z.as_long() == 1:
            # s.rsplit(c, 1) for a one-character separator: split at the LAST occurrence, or the whole text when there is none
            sep = z3.StringVal(d[0].s); li = fresh(IntS, 'last'); L = z3.Length(r.z)
            head, tail = z3.SubString(r.z, 0, li), z3.SubString(r.z, li + 1, L - li - 1)
            has = z3.Contains(r.z, sep)
            st.pc.append(z3.Implies(has, z3.And(0 <= li, li < L, z3.SubString(r.z, li, 1) == sep, z3.Not(z3.Contains(tail, sep)),
                                                r.z == z3.Concat(head, sep, tail), z3.Length(head) == li, z3.Length(tail) == L - li - 1)))
            pieces = z3.If(has, z3.Concat(z3.Unit(head), z3.Unit(tail)), z3.Unit(r.z))
            return [(SeqV(pieces, T.Str), st)]
        if isinstance(r, Sc) and r.py == 'str' and name == 'strip' and not args:
            return [(Sc(strip_ws(r.z), 'str'), st)]
        if isinstance(r, PyStr):
            if name == 'format': return [(self.format_brace(r.s, args, kw, st), st)]
            if name == 'join': return [(self.join(r, d[0], st), st)]
        if isinstance(recv, InnerRef) and isinstance(r, SeqV) and name == 'append' and len(args) == 1:
            o = st.cells[recv.outer.id]
            x = self.elem_term(d[0], r.elem, st)
            st.cells[recv.outer.id] = SymDict(o.has, z3.Store(o.get, recv.key, z3.Concat(r.z, z3.Unit(x))), o.kty, o.vty, order=o.order)
            return [(NONE, st)]
        if isinstance(r, (PyList, SeqV)) and isinstance(recv, Ref):
            if name == 'append':
                v = d[0]
                if isinstance(r, PyList): st.cells[recv.id] = PyList(r.items + [args[0]])
                else:
                    x = self.elem_term(v, r.elem, st)
                    l2 = z3.Concat(r.z, z3.Unit(x))
                    st.cells[recv.id] = SeqV(l2, r.elem)
                    # valid instances of the theory of sequences (help for nested sequences, where the solvers are weak)
                    n = z3.Length(r.z)
                    st.pc += [z3.Length(l2) == n + 1, l2[n] == x] + [z3.Implies(n > j, l2[j] == r.z[j]) for j in range(4)]
                    st.pc += [z3.Implies(n == j, l2[j] == x) for j in range(4)]
                    i_ = z3.Int('i!app')
                    try: st.pc.append(z3.ForAll([i_], z3.Implies(z3.And(0 <= i_, i_ < n), l2[i_] == r.z[i_]), patterns=[l2[i_]]))      # the old positions keep their items (for the matcher)
                    except z3.Z3Exception: pass
                return [(NONE, st)]
            if name == 'extend':
                src = d[0]
                if isinstance(r, PyList) and isinstance(src, (PyList, Tup)):
                    st.cells[recv.id] = PyList(r.items + src.items); return [(NONE, st)]
                if isinstance(r, SeqV) and isinstance(src, SeqV):
                    st.cells[recv.id] = SeqV(z3.Concat(r.z, src.z), r.elem); return [(NONE, st)]
                if isinstance(r, SeqV) and isinstance(src, (PyList, Tup)):
                    z = r.z
                    for it in src.items: z = z3.Concat(z, z3.Unit(self.elem_term(self.deref(it, st), r.elem, st)))
                    st.cells[recv.id] = SeqV(z, r.elem); return [(NONE, st)]
                if isinstance(r, PyList) and isinstance(src, SeqV):
                    base = unwrap(r) if r.items else z3.Empty(src.z.sort())
                    st.cells[recv.id] = SeqV(z3.Concat(base, src.z) if r.items else src.z, src.elem); return [(NONE, st)]
            if name == 'sort' and isinstance(r, PyList):
                st.cells[recv.id] = PyList(self.sort_network(r.items, st)); return [(NONE, st)]
            if name == 'sort' and isinstance(r, SeqV) and not args and set(kw) == {'key'}:
                # list.sort(key=functools.cmp_to_key(c)) with c a repository function under contract whose contract names its order
                kv = self.deref(kw['key'], st)
                cf = getattr(kv, 'cmp_of', None)
                cc = self.reg.get(cf.fi.file, cf.fi.qualname) if cf is not None else None
                if cc is None or getattr(cc, 'order_le', None) is None: raise Unsupported('list.sort(key=...) with a key that is not cmp_to_key of a comparator whose contract names its order')
                self.reg.assume('A4: list.sort(key=cmp_to_key(c)) leaves a permutation of the list with c(s[i], s[j]) <= 0 for i < j (c a total preorder: its contract)')
                srt = z3.Function('sorted_by_%s' % cf.fi.qualname, r.z.sort(), r.z.sort())(r.z)
                i_, j_ = z3.Int('i!srt'), z3.Int('j!srt'); x = z3.Const('x!srt', r.z.sort().basis())
                st.pc += [z3.Length(srt) == z3.Length(r.z),
                          z3.ForAll([x], z3.Contains(srt, z3.Unit(x)) == z3.Contains(r.z, z3.Unit(x)), patterns=[z3.Contains(srt, z3.Unit(x))]),
                          z3.ForAll([i_, j_], z3.Implies(z3.And(0 <= i_, i_ < j_, j_ < z3.Length(srt)), cc.order_le(srt[i_], srt[j_])))]
                pm = z3.Function('sort_permutation_%s' % cf.fi.qualname, r.z.sort(), IntS, IntS)        # position in the input of the i-th element of the result
                st.pc += [z3.ForAll([i_], z3.Implies(z3.And(0 <= i_, i_ < z3.Length(srt)), z3.And(0 <= pm(r.z, i_), pm(r.z, i_) < z3.Length(r.z), srt[i_] == r.z[pm(r.z, i_)])), patterns=[srt[i_]]),
                          z3.ForAll([i_, j_], z3.Implies(z3.And(0 <= i_, i_ < j_, j_ < z3.Length(srt)), pm(r.z, i_) != pm(r.z, j_)))]
                st.cells[recv.id] = SeqV(srt, r.elem); return [(NONE, st)]
            if name == 'sort' and isinstance(r, SeqV) and not args and not kw:
                self.reg.assume('A4: list.sort() leaves the ordered permutation of the list (uninterpreted function sorted_seq with that meaning)')
                st.cells[recv.id] = SeqV(sorted_seq_fn(r.z.sort())(r.z), r.elem); return [(NONE, st)]
        if isinstance(r, PyRegex) and name == 'split' and len(args) == 1 and r.pattern in (r'\s+',) and isinstance(d[0], Sc) and d[0].py == 'str':
            self.reg.assume("A4: re.compile(r'\\s+').split(s) on a stripped, non-empty s = the whitespace-separated tokens of s (the function split_ws also used for str.split())")
            return [(SeqV(split_ws(d[0].z), T.Str), st)]
        if isinstance(r, SymSet) and name == 'add':
            st.cells[recv.id] = SymSet(z3.Store(r.has, self.key_term(args[0], st), z3.BoolVal(True)), r.kty)
            return [(NONE, st)]
        if isinstance(r, SymDict) and name == 'copy' and not args:
            return [(st.new_cell(SymDict(r.has, r.get, r.kty, r.vty, order=r.order)), st)]       # a new dict with the same items
        if isinstance(r, SymDict) and name == 'update' and len(args) == 1:
            o = d[0]
            if isinstance(o, PyDict) and not o.d: return [(NONE, st)]
            if not isinstance(o, SymDict) or not isinstance(recv, Ref): raise Unsupported('dict.update(%r)' % (o,))
            # pointwise definition of the updated map (keys of the argument win)
            nh, ng = fresh(r.has.sort(), 'upd.has'), fresh(r.get.sort(), 'upd.get')
            kq = z3.Const('k!upd', r.has.sort().domain())
            st.pc.append(z3.ForAll([kq], z3.And(z3.Select(nh, kq) == z3.Or(z3.Select(r.has, kq), z3.Select(o.has, kq)),
                                                z3.Select(ng, kq) == z3.If(z3.Select(o.has, kq), z3.Select(o.get, kq), z3.Select(r.get, kq))),
                                   patterns=[z3.Select(nh, kq), z3.Select(ng, kq)]))
            st.cells[recv.id] = SymDict(nh, ng, r.kty, r.vty)
            return [(NONE, st)]
        if isinstance(r, SymDict) and name == 'setdefault' and len(args) == 2 and isinstance(recv, InnerRef) and r.vty.kind != 'Dict':
            # inner.setdefault(k, v) through an alias of an inner dictionary: the store goes to the outer dictionary's cell
            o = st.cells[recv.outer.id]; k = self.key_term(args[0], st)
            dz = self.as_fn(args[1], st) if r.vty.kind == 'Fn' else unwrap(d[1])
            ng = z3.Store(r.get, k, z3.If(z3.Select(r.has, k), z3.Select(r.get, k), dz))
            inner2 = o.vty.sort().mkdict(z3.Store(r.has, k, z3.BoolVal(True)), ng)
            st.cells[recv.outer.id] = SymDict(o.has, z3.Store(o.get, recv.key, inner2), o.kty, o.vty, order=o.order)
            return [(wrap(r.vty, z3.Select(ng, k)), st)]
        if isinstance(r, SymDict) and name == 'setdefault' and len(args) == 2 and isinstance(recv, Ref):
            k = self.key_term(args[0], st); dflt = d[1]
            if r.vty.kind == 'Dict':
                if not (isinstance(dflt, PyDict) and not dflt.d): raise Unsupported('setdefault(k, non-empty dict)')
                DS = r.vty.sort()
                empty = DS.mkdict(z3.K(r.vty.args[0].sort(), z3.BoolVal(False)), fresh(z3.ArraySort(r.vty.args[0].sort(), r.vty.args[1].sort()), 'empty.get'))
                ng = z3.Store(r.get, k, z3.If(z3.Select(r.has, k), z3.Select(r.get, k), empty))
                st.cells[recv.id] = SymDict(z3.Store(r.has, k, z3.BoolVal(True)), ng, r.kty, r.vty, order=_order_after_insert(r, k, st))
                return [(InnerRef(recv, k), st)]
            if r.vty.kind == 'List' and isinstance(dflt, PyList) and not dflt.items:
                # d.setdefault(k, []): an alias of the list stored under k (appends go to the dictionary's cell)
                v0 = fresh(r.vty.sort(), 'dflt')       # (named: an `ite` term cannot serve in a pattern)
                st.pc.append(v0 == z3.If(z3.Select(r.has, k), z3.Select(r.get, k), z3.Empty(r.vty.sort())))
                ng = z3.Store(r.get, k, v0)
                st.cells[recv.id] = SymDict(z3.Store(r.has, k, z3.BoolVal(True)), ng, r.kty, r.vty, order=_order_after_insert(r, k, st))
                return [(InnerRef(recv, k), st)]
            dz = unwrap(dflt) if not isinstance(dflt, FnV) else dflt.z
            if r.vty.kind == 'Fn': dz = self.as_fn(args[1], st)
            ng = z3.Store(r.get, k, z3.If(z3.Select(r.has, k), z3.Select(r.get, k), dz))
            st.cells[recv.id] = SymDict(z3.Store(r.has, k, z3.BoolVal(True)), ng, r.kty, r.vty, order=_order_after_insert(r, k, st))
            return [(wrap(r.vty, z3.Select(ng, k)), st)]
        if isinstance(r, SymDict) and name == 'keys' and not args:
            return [(SymKeys(r), st)]
        if isinstance(r, SymDict) and name == 'values' and not args:
            return [(SymValues(r), st)]
        if isinstance(r, SymDict) and name == 'items' and not args:
            return [(SymItems(r), st)]
        if isinstance(r, SymDict):
            if name == 'get':
                k = self.key_term(args[0], st)
                present = z3.Select(r.has, k)
                dflt = args[1] if len(args) > 1 else NONE
                s1 = st.copy(); s1.pc.append(present)
                s2 = st.copy(); s2.pc.append(z3.Not(present))
                return [(wrap(r.vty, z3.Select(r.get, k)), s1), (dflt, s2)]
        if isinstance(r, PyDict) and name == 'values' and not args: return [(Tup(list(r.d.values())), st)]
        if isinstance(r, PyDict) and name == 'items' and not args: return [(Tup([Tup([PyStr(k_) if isinstance(k_, str) else k_, v_]) for k_, v_ in r.d.items()]), st)]
        if isinstance(r, PyDict):
            if name == 'get':
                k = d[0]
                if isinstance(k, PyStr): return [(r.d.get(k.s, args[1] if len(args) > 1 else NONE), st)]
                if isinstance(k, Sc) and k.py == 'str' and all(isinstance(x, str) for x in r.d):
                    # a keyword table looked up with a symbolic key: one path per entry, one for "none of them"
                    outs_ = []; none_ = []
                    for kk, vv in r.d.items():
                        s_k = st.copy(); s_k.pc.append(k.z == z3.StringVal(kk)); outs_.append((vv, s_k)); none_.append(k.z != z3.StringVal(kk))
                    s_n = st.copy(); s_n.pc += none_
                    outs_.append((args[1] if len(args) > 1 else NONE, s_n))
                    return outs_
            if name == 'keys': return [(Tup([PyStr(k) for k in r.d]), st)]
            if name == 'copy': return [(st.new_cell(PyDict(r.d)), st)]
        if isinstance(r, Obj) and name == '_replace' and getattr(self.reg.classes.get(r.cls), 'namedtuple', False) and not args:
            # collections.namedtuple._replace(**kw): a new tuple, the named fields replaced, every other field as before
            decl = self.reg.classes[r.cls]
            o2 = Obj(fresh(ObjSort(r.cls), r.cls.lower() + '_repl'), r.cls)
            for fname, fty in decl.fields.items():
                if fname in kw:
                    nv = self.deref(kw[fname], st)
                    if fty.kind == 'Opt':
                        inner = fty.args[0]
                        if isinstance(nv, NoneV): st.pc.append(field(r.cls, fname + '?none', BoolS)(o2.z))
                        elif isinstance(nv, Opt): st.pc += [field(r.cls, fname + '?none', BoolS)(o2.z) == nv.isnone, field(r.cls, fname, inner.sort())(o2.z) == unwrap(nv.val)]
                        else: st.pc += [z3.Not(field(r.cls, fname + '?none', BoolS)(o2.z)), field(r.cls, fname, inner.sort())(o2.z) == unwrap(self.deref(self.coerce(kw[fname], inner, st, fname), st))]
                    else:
                        st.pc.append(field(r.cls, fname, fty.sort())(o2.z) == unwrap(self.deref(self.coerce(kw[fname], fty, st, fname), st)))
                else:
                    if fty.kind == 'Opt':
                        inner = fty.args[0]
                        st.pc += [field(r.cls, fname + '?none', BoolS)(o2.z) == field(r.cls, fname + '?none', BoolS)(r.z), field(r.cls, fname, inner.sort())(o2.z) == field(r.cls, fname, inner.sort())(r.z)]
                    else: st.pc.append(field(r.cls, fname, fty.sort())(o2.z) == field(r.cls, fname, fty.sort())(r.z))
            unknown = [k_ for k_ in kw if k_ not in decl.fields]
            if unknown: raise Unsupported('_replace of undeclared field %s' % unknown)
            return [(o2, st)]
        if isinstance(r, Obj) and getattr(self.reg.classes.get(r.cls), 'external', False):
            c = self.reg.get('<ext>', '%s.%s' % (r.cls, name))
            if c is None: raise Unsupported('external method %s.%s has no assumed contract' % (r.cls, name))
            return self.call_contract(c, None, [recv] + list(args), kw, st, node)
        if isinstance(r, SeqV) and getattr(r, 'cls', None) and name not in ('append', 'extend', 'sort'):
            home = self.class_home(r.cls)
            fi = home[0].find_method(home[1], name)
            if fi is None: raise AttributeErrorSite(r.cls, name)
            return self.call_function(fi, [recv] + list(args), kw, st, self_cls=home, node=node)
        if isinstance(r, (Obj, Rec)):
            if isinstance(r, Rec):
                fi = r.module.find_method(r.cls, name); home = (r.module, r.cls)
            else:
                fi = self.find_method_of(r.cls, name); home = self.class_home(r.cls)
            if fi is None: raise AttributeErrorSite(r.cls, name)
            return self.call_function(fi, [recv] + list(args), kw, st, self_cls=home, node=node)
        if isinstance(r, FnV):
            if name == 'deriv': return self.apply_fn(dfn(r.z), args[0], st)
            if name == 'deriv2': return self.apply_fn(d2fn(r.z), args[0], st)
        raise Unsupported('method %s of %r' % (name, r))

    def elem_term(self, v, ty, st):
        v = self.deref(v, st)
        if isinstance(v, PyStr) and ty.kind == 'Text': return lit_doc(v.s)
        if isinstance(v, Sc) and ty.kind == 'Text': return self.text_of(v, st)
        if ty.kind == 'Real' and isinstance(v, Sc): return self.as_real(v)
        if ty.kind == 'Tuple' and isinstance(v, Tup):
            return _tuple_term([self.elem_term(i, t_, st) for i, t_ in zip(v.items, ty.args)])
        if ty.kind == 'Val':
            if isinstance(v, NoneV): return Val.VN
            if isinstance(v, Sc) and v.py != 'val': return to_val(v.z)
        if isinstance(v, Rec): return self.rec_to_obj(v, st).z
        return unwrap(v)

    def format_brace(self, template, args, kw, st):
        if template == '{}' and len(args) == 1 and not kw:
            a0 = self.deref(args[0], st)
            if isinstance(a0, Sc) and a0.py == 'str': return a0          # "{}".format(s) is s for a string s
        t = parse_brace(template)
        vals = {}
        for k in t.keys():
            vals[k] = kw[k] if isinstance(k, str) else args[k]
        return self.render(t, vals, st)

    def join(self, sep, lst, st):
        sepd = lit_doc(sep.s)
        if isinstance(lst, (PyList, Tup)):
            items = [self.deref(i, st) for i in lst.items]
            if all(isinstance(i, PyStr) for i in items): return PyStr(sep.s.join(i.s for i in items))
            docs = []
            for i, it in enumerate(items):
                if i: docs.append(sepd)
                docs.append(self.text_of(it, st))
            return Text(cat(*docs))
        if isinstance(lst, SeqV) and lst.elem.kind == 'Str':
            self.reg.assume('A4: sep.join(list of str) is some text (only used in messages)')
            return Text(z3.Unit(Tok.Fld(spec_id(('s', '', None, None)), Val.VS(z3.Function('str_join', StrS, lst.z.sort(), StrS)(z3.StringVal(sep.s), lst.z)))))
        if isinstance(lst, SeqV) and lst.elem.kind == 'Text':
            j = join_fn(sepd, lst.z)
            # definition of str.join for short lists (instances for lengths 0..4)
            for n in range(0, 5):
                parts = []
                for i in range(n):
                    if i: parts.append(sepd)
                    parts.append(lst.z[i])
                st.pc.append(z3.Implies(z3.Length(lst.z) == n, j == cat(*parts)))
            return Text(j)
        raise Unsupported('join over %r' % (lst,))

    # ---------------------------------------------------------------- repository functions
    def call_function(self, fi, args, kw, st, self_cls=None, node=None):
        c = self.reg.get(fi.file, fi.qualname)
        if c is not None and not c.inline and args and not isinstance(args[0], StarSeq):
            # a second contract `f@view` of the same function whose FIRST parameter is declared for the class of the actual argument is the one that applies
            a0 = self.deref(args[0], st)
            p0 = list(c.params.values())[0] if c.params else None
            if isinstance(a0, Obj) and p0 is not None and p0.kind == 'Obj' and p0.args[0] != a0.cls:
                for (f_, q_), c2 in self.reg.contracts.items():
                    if f_ == fi.file and '@' in q_ and q_.split('@')[0] == fi.qualname and c2.params and list(c2.params.values())[0] == T.Obj(a0.cls):
                        c = c2; break
        if c is not None and not c.inline and not (fi is self.fi and self.call_depth == 0 and False):
            return self.call_contract(c, fi, args, kw, st, node)
        if c is None and not self.auto_inline(fi):
            raise Unsupported('call to %s::%s which has no contract and is not inlinable' % (fi.file, fi.qualname))
        return self.inline_call(fi.node, fi.module, args, kw, st, cls=self_cls, label=fi.qualname)

    def auto_inline(self, fi):
        """property getters and straight-line helpers of <= 5 statements without loops are inlined from the AST"""
        if fi.is_generator: return False
        body = fi.body
        if len(body) > 5: return False
        for n in ast.walk(ast.Module(body=body, type_ignores=[])):
            if isinstance(n, (ast.For, ast.While, ast.Try)): return False
        return True

    def call_closure(self, f, args, kw, st, node):
        if f.qual and f.cls and isinstance(f.self_val, ClassV):
            # a classmethod reached through its class: modular, under its contract, when one is registered
            fi_ = f.module.find_method(f.cls, f.node.name)
            c_ = self.reg.get(fi_.file, fi_.qualname) if fi_ is not None else None
            if c_ is not None and not c_.inline: return self.call_contract(c_, fi_, args, kw, st, node)
        saved = getattr(self, '_closure_frames', None)
        self._closure_frames = (saved or []) + [f.depth]
        try:
            return self.inline_call(f.node, f.module, args, kw, st, cls=(f.module, f.cls) if f.cls else None, label=f.qual or '<closure>')
        finally:
            self._closure_frames = saved

    def bind_params(self, fnode, args, kw, st, defaults_state):
        a = fnode.args
        names = [x.arg for x in a.args]
        env = {}
        if len(args) > len(names) and not a.vararg: raise Unsupported('too many positional arguments')
        for nm, v in zip(names, args): env[nm] = v
        rest = args[len(names):]
        if a.vararg: env[a.vararg.arg] = rest[0].seq if (len(rest) == 1 and isinstance(rest[0], StarSeq)) else Tup(rest)
        extra = {}
        for k, v in kw.items():
            if k not in names:
                if a.kwarg is None: raise Unsupported('unexpected keyword %s' % k)
                extra[k] = v
            else: env[k] = v
        if a.kwarg is not None: env[a.kwarg.arg] = PyDict(extra)
        ndef = len(a.defaults)
        for i, nm in enumerate(names):
            if nm not in env:
                j = i - (len(names) - ndef)
                if j < 0: raise Unsupported('missing argument %s' % nm)
                env[nm] = self.ev1(a.defaults[j], defaults_state)
        return env

    def inline_call(self, fnode, module, args, kw, st, cls=None, label=''):
        if self.call_depth > 12: raise Unsupported('inline depth')
        env = self.bind_params(fnode, args, kw, st, st)
        st.frames.append(env)
        self._module_stack.append(module); self._class_stack.append(cls)
        self.call_depth += 1
        saved_loop = (self.contract, self.loop_counter)
        try:
            body = FuncInfo(module, label, fnode, cls=cls[1] if cls else None).body if not hasattr(fnode, '_clean_body') else fnode._clean_body
            res = []
            for o in self.block(body, st):
                o.state.frames.pop()
                if o.kind == 'raise': self._raises.append(o)
                elif o.kind == 'return': res.append((o.value, o.state))
                elif o.kind == 'normal': res.append((NONE, o.state))
                else: raise Unsupported('break/continue leaving a function')
            return res
        finally:
            self.call_depth -= 1
            self._module_stack.pop(); self._class_stack.pop()

    def construct(self, cv, args, kw, st, node):
        """ClassName(args): contract on __init__ if registered, else inline __init__ on a fresh record"""
        decl = self.reg.classes.get(cv.name) or next((d_ for d_ in self.reg.classes.values() if d_.pyname == cv.name and (d_.stateful or (d_.external and self.reg.get('<ext>', '%s.__init__' % d_.name) is not None))), None)
        if decl is not None and decl.stateful:
            # library object with mutable abstract state: a cell holding one term; the assumed constructor contract describes the initial state
            ref = st.new_cell(Obj(fresh(ObjSort(decl.name), decl.name.lower()), decl.name))
            c0 = self.reg.get('<ext>', '%s.__init__' % decl.name)
            if c0 is None: raise Unsupported('stateful external class %s has no assumed constructor contract' % decl.name)
            return [(ref, s) for _, s in self.call_contract(c0, None, [ref] + list(args), kw, st, node)]
        if decl is not None and decl.external and not decl.stateful and self.reg.get('<ext>', '%s.__init__' % decl.name) is not None:
            # a class treated as a library object: its assumed constructor contract, a fresh object
            o = Obj(fresh(ObjSort(decl.name), decl.name.lower()), decl.name)
            return [(o, s) for _, s in self.call_contract(self.reg.get('<ext>', '%s.__init__' % decl.name), None, [o] + list(args), kw, st, node)]
        fi = cv.module.find_method(cv.name, '__init__')
        if self.is_exception(cv.name): return [(ExcV(cv.name, args), st)]
        c = self.reg.get(fi.file, fi.qualname) if fi else None
        if c is not None and not c.inline:
            o = Obj(fresh(ObjSort(cv.name), cv.name.lower()), cv.name)
            res = self.call_contract(c, fi, [o] + list(args), kw, st, node)
            return [(o, s) for _, s in res]
        ref = st.new_cell(Rec(cv.name, cv.module))
        if fi is None:
            if args or kw:
                # a repository class whose constructor is inherited from a library base (functools.partial): the sidecar class says which
                # attributes the library constructor sets (A4); without that the arguments would be dropped silently
                lc = getattr(self.reg.classes.get(cv.name), 'library_ctor', None)
                if lc is None: raise Unsupported('%s(...) with arguments: the constructor is inherited from a library class and the sidecar declares no library_ctor' % cv.name)
                st.cells[ref.id] = Rec(cv.name, cv.module, lc(self, list(args), dict(kw), st))
                self.reg.assume('A4: %s objects are constructed by their library base class (attributes as declared by library_ctor in the sidecar)' % cv.name)
            return [(ref, st)]
        return [(ref, s) for _, s in self.call_function(fi, [ref] + list(args), kw, st, self_cls=(fi.module, fi.cls), node=node)]

    def construct_local(self, lc, args, kw, st, node):
        ref = st.new_cell(Rec(lc.node.name, _LocalModule(lc)))
        return [(ref, st)]

    def is_exception(self, cls):
        from .exceptions import is_exception_class
        return is_exception_class(cls)

    def rec_to_obj(self, rec, st):
        o = fresh(ObjSort(rec.cls), rec.cls.lower())
        for nm, v in rec.fields.items():
            fty = self.reg.field_type(rec.cls, nm)
            if fty is None: raise Unsupported('field %s.%s not declared in the sidecar' % (rec.cls, nm))
            vd = self.deref(v, st)
            if fty.kind == 'Fn': st.pc.append(field(rec.cls, nm, Fn)(o) == self.as_fn(v, st))
            elif fty.kind == 'Opt': raise Unsupported('optional field in record conversion')
            elif fty.kind == 'FnOrDict':
                if isinstance(vd, SymDict):
                    st.pc.append(field(rec.cls, nm + '.has', vd.has.sort())(o) == vd.has); st.pc.append(field(rec.cls, nm + '.get', vd.get.sort())(o) == vd.get)
                else: st.pc.append(field(rec.cls, nm, Fn)(o) == self.as_fn(vd, st))
            elif isinstance(vd, Sc) and vd.py == 'val' and fty.kind in ('Int', 'Real', 'Str'):
                # a dynamically typed value stored in a field the contracts read at a fixed type: it must have that type here
                ok, acc = {'Int': (Val.is_VI(vd.z), Val.vi(vd.z)), 'Str': (Val.is_VS(vd.z), Val.vs(vd.z)),
                           'Real': (z3.Or(Val.is_VR(vd.z), Val.is_VI(vd.z)), z3.If(Val.is_VI(vd.z), z3.ToReal(Val.vi(vd.z)), Val.vr(vd.z)))}[fty.kind]
                self.obl('well-typed/%s.%s' % (rec.cls, nm), st, ok)
                st.pc.append(field(rec.cls, nm, fty.sort())(o) == acc)
            else: st.pc.append(field(rec.cls, nm, fty.sort())(o) == unwrap(vd))
        return Obj(o, rec.cls)

    # ---------------------------------------------------------------- modular call
    def call_contract(self, c, fi, args, kw, st, node):
        names = list(c.params)
        if fi is None:
            # assumed contract of an external (library) function: parameters by position/keyword, defaults from the contract
            class _Q(object): pass
            fi = _Q(); fi.qualname = c.qualname; fi.file = c.file
            env = {}
            for nm, v in zip(names, args): env[nm] = v.seq if isinstance(v, StarSeq) else v      # f(*xs) for a contract whose parameter is that list
            for k_, v in kw.items(): env[k_] = v
            for nm in names:
                if nm not in env:
                    if nm in c.defaults: env[nm] = c.defaults[nm]
                    else: raise Unsupported('missing argument %s of %s' % (nm, c.qualname))
            self.reg.assume('external contract assumed: %s (%s)' % (c.qualname, c.note or 'see contracts/ext_*.py'))
        else:
            fnames = [a.arg for a in fi.node.args.args] + ([fi.node.args.vararg.arg] if fi.node.args.vararg else []) + ([fi.node.args.kwarg.arg] if fi.node.args.kwarg else [])
            if fi.node.args.kwarg and fi.node.args.kwarg.arg not in names: fnames = fnames[:-1]      # (a **kwargs parameter the contract does not speak about: callers in the handled subset pass none)
            if names != fnames:
                raise ContractMismatch('%s::%s parameters are %s but the contract declares %s' % (fi.file, fi.qualname, fnames, names))
            env = self.bind_params(fi.node, args, kw, st, st)
        # coerce actuals to the declared parameter types
        for nm, ty in c.params.items():
            env[nm] = self.coerce(env[nm], ty, st, nm)
        pre_state = st.copy(); pre_state.frames.append(dict(env))
        ns_pre = NS(self, pre_state, frame=pre_state.frames[-1])
        for g in c.requires(ns_pre):
            self.obl('call-pre/%s' % fi.qualname, st, g)
        # havoc what the callee modifies
        post_env = dict(env)
        for nm in c.modifies:
            v = env[nm]
            if not isinstance(v, Ref): raise Unsupported('modified parameter %s is not a mutable object' % nm)
            st.cells[v.id] = self.havoc_value(st.cells[v.id], '%s@%s' % (nm, fi.qualname))
        post_state = st; frame = post_env
        res_v, res_z = NONE, None; variants = None
        if c.result is not None and c.result.kind == 'Tuple':
            items = []
            for i_, ty_ in enumerate(c.result.args):
                if ty_.kind == 'Opt':
                    inner_ = ty_.args[0]
                    items.append(Opt(fresh(BoolS, 'res%d?none' % i_), wrap(inner_, fresh(inner_.sort(), 'res%d' % i_))))
                else: items.append(wrap(ty_, fresh(ty_.sort(), 'res%d' % i_)))
            res_v = NTup(c.result.nt, items) if getattr(c.result, 'nt', None) is not None else Tup(items)
            res_z = [it if isinstance(it, Opt) else unwrap(it) for it in items]
        elif c.result is not None and c.result.kind == 'Set':
            kty_ = c.result.args[0]
            res_z = SymSet(fresh(z3.ArraySort(self.key_sort(kty_), BoolS), 'res_%s.has' % fi.qualname.split('.')[-1]), kty_)
            res_v = st.new_cell(res_z)
        elif c.result is not None and c.result.kind == 'ODict':
            kty_, vty_ = c.result.args; nm_ = 'res_' + fi.qualname.split('.')[-1]
            res_z = SymDict(fresh(z3.ArraySort(kty_.sort(), BoolS), nm_ + '.has'), fresh(z3.ArraySort(kty_.sort(), vty_.sort()), nm_ + '.get'), kty_, vty_,
                            order=fresh(z3.SeqSort(kty_.sort()), nm_ + '.order'))
            st.pc += odict_wf(res_z)
            res_v = st.new_cell(res_z)
        elif c.result is not None and c.result.kind == 'Opt':
            inner = c.result.args[0]
            res_v = Opt(fresh(BoolS, 'res?none_' + fi.qualname.split('.')[-1]), wrap(inner, fresh(inner.sort(), 'res_' + fi.qualname.split('.')[-1])))
            res_z = res_v
        elif c.result is not None and c.result.kind == 'Any' and getattr(c, 'result_variants', None):
            variants = list(c.result_variants)     # a result of one of several classes: one continuation per class (the postcondition says which one it is when)
        elif c.result is not None and c.result.kind == 'Doc':
            res_z = fresh(Doc, 'res_' + fi.qualname.split('.')[-1])       # a fresh file-like object (in-out): its content so far is what the postcondition says
            res_v = st.new_cell(DocObj(res_z))
        elif c.result is not None and c.result.kind != 'None':
            res_z = fresh(c.result.sort(), 'res_' + fi.qualname.split('.')[-1])
            res_v = wrap(c.result, res_z)
            if c.result.kind == 'Dict': res_v = st.new_cell(res_v)      # a fresh mutable dict
            if c.result.kind == 'Obj' and getattr(self.reg.classes.get(c.result.args[0]), 'stateful', False):
                res_v = st.new_cell(Obj(res_z, c.result.args[0]))        # a stateful library object handed out: its abstract state lives in a cell
        ns_post = NS(self, post_state, frame=frame)
        if self.track_raises and c.on_raise is not None:
            s_r = pre_state.copy(); s_r.frames.pop()
            rz = fresh(BoolS, 'raises_' + fi.qualname.split('.')[-1])
            s_r.pc.append(rz)
            # on_raise: in-out parameters as specified (old == new unless stated otherwise)
            fr = dict(env)
            for nm in c.modifies:
                v = env[nm]; s_r.cells[v.id] = self.havoc_value(pre_state.cells[v.id], '%s@%s!exc' % (nm, fi.qualname))
            s_r.pc += c.on_raise(NS(self, s_r, frame=fr), ns_pre)
            for cls_ in (c.raises_classes if c.raises_classes is not None else ['<any>']):       # (an empty list: the callee's own proof shows that nothing leaves it)
                self._raises.append(Outcome('raise', s_r.copy(), ExcV(cls_, origin=fi.qualname)))
            st.pc.append(z3.Not(rz))
        noreturn = False
        for cls_, cond in (getattr(c, 'may_raise', None) or (lambda v: []))(ns_pre):
            s_r = pre_state.copy(); s_r.frames.pop(); s_r.pc.append(cond)
            self._raises.append(Outcome('raise', s_r, ExcV(cls_, origin=c.qualname)))
            st.pc.append(z3.Not(cond))
            if z3.is_true(cond): noreturn = True        # a call that always raises (argparse's error(), sys.exit): nothing is executed after it
        if noreturn: return []
        if variants is not None:
            outs_ = []
            for ty_ in variants:
                s_v = st.copy(); rz_ = fresh(ty_.sort(), 'res_' + fi.qualname.split('.')[-1])
                s_v.pc += c.ensures(NS(self, s_v, frame=frame), ns_pre, rz_)
                if self.feasible(s_v): outs_.append((wrap(ty_, rz_), s_v))
            return outs_
        st.pc += c.ensures(ns_post, ns_pre, res_z)
        if c.names_result is not None: st.pc += c.names_result(ns_post, res_z)
        if getattr(c, 'names_self', None) is not None:
            st.pc += c.names_self(ns_post, ns_pre)
            self.reg.assume('ghost observers of %s objects name the constructor arguments (fresh uninterpreted functions of the new object: conservative)' % c.qualname.split('.')[0])
        return [(res_v, st)]

    def coerce(self, v, ty, st, nm):
        d = self.deref(v, st)
        k = ty.kind
        if isinstance(d, Dual) and k == 'Fn': return d.fn
        if isinstance(d, Opt) and k != 'Opt':
            # an optional value used where a value is required: it must be known not to be None here
            self.obl('not-none/%s' % nm, st, z3.Not(d.isnone))
            return self.coerce(d.val, ty, st, nm)
        if k == 'Opt':
            if isinstance(d, Opt): return d
            inner = ty.args[0]
            if isinstance(d, NoneV): return Opt(z3.BoolVal(True), wrap(inner, fresh(inner.sort(), nm + '_none')))
            return Opt(z3.BoolVal(False), self.coerce(v, inner, st, nm))
        if k == 'Comb' and isinstance(d, FuncV): return Sc(comb_const(d.fi.file, d.fi.qualname), 'comb')
        if k == 'Real' and isinstance(d, Sc) and d.py in ('int', 'bool'): return Sc(self.as_real(d), 'float')
        if k == 'Fn' and not isinstance(d, FnV): return FnV(self.as_fn(d, st))
        if k == 'Obj' and isinstance(d, Rec): return self.rec_to_obj(d, st)
        if k == 'Obj' and isinstance(d, NTup) and self.reg.classes.get(ty.args[0]) is not None:
            # a namedtuple built here, seen through its sidecar class: field by field
            decl = self.reg.classes[ty.args[0]]
            o = Obj(fresh(ObjSort(decl.name), decl.name.lower()), decl.name)
            for fname, item in zip(d.cls.fields, d.items):
                fty = decl.fields.get(fname)
                if fty is None: raise Unsupported('namedtuple field %s not declared for %s' % (fname, decl.name))
                if fty.kind == 'Opt':
                    ov = self.coerce(item, fty, st, fname); inner_ = fty.args[0]
                    st.pc.append(field(decl.name, fname + '?none', BoolS)(o.z) == ov.isnone)
                    st.pc.append(z3.Implies(z3.Not(ov.isnone), field(decl.name, fname, inner_.sort())(o.z) == unwrap(self.deref(ov.val, st))))
                    continue
                st.pc.append(field(decl.name, fname, fty.sort())(o.z) == unwrap(self.deref(self.coerce(item, fty, st, fname), st)))
            return o
        if k == 'Obj' and isinstance(d, Obj) and d.cls != ty.args[0] and getattr(self.reg.classes.get(ty.args[0]), 'view_of', None) == d.cls:
            # the same Python object seen through a narrower sidecar class: its fields must be present (obligation) and are equal
            tdecl = self.reg.classes[ty.args[0]]; sdecl = self.reg.classes[d.cls]
            o = Obj(fresh(ObjSort(tdecl.name), tdecl.name.lower()), tdecl.name)
            st.pc.append(view_source_fn(tdecl.name, sdecl.name)(o.z) == d.z)      # which object the view presents (contracts may name it)
            for fname, fty in tdecl.fields.items():
                sty = sdecl.fields.get(fname)
                if sty is None: raise Unsupported('view field %s.%s missing in %s' % (tdecl.name, fname, sdecl.name))
                if sty.kind == 'Opt' and fty.kind != 'Opt':
                    self.obl('view-has/%s.%s' % (tdecl.name, fname), st, z3.Not(field(d.cls, fname + '?none', BoolS)(d.z)))
                    st.pc.append(field(tdecl.name, fname, fty.sort())(o.z) == field(d.cls, fname, fty.sort())(d.z))
                elif sty.kind == fty.kind and fty.kind != 'Opt':
                    st.pc.append(field(tdecl.name, fname, fty.sort())(o.z) == field(d.cls, fname, fty.sort())(d.z))
                else: raise Unsupported('view field %s.%s of incompatible type' % (tdecl.name, fname))
            return o
        if k == 'Obj' and isinstance(d, Obj) and d.cls != ty.args[0] and getattr(self.reg.classes.get(d.cls), 'proxy_of', None) and self.reg.classes[d.cls].proxy_of[0] == ty.args[0]:
            # a transparent proxy (wrapt.ObjectProxy, A6) passed where the wrapped class is expected: attributes the proxy does not define are the wrapped object's
            return Obj(self.reg.classes[d.cls].proxy_of[1](d.z), ty.args[0])
        if k == 'Obj' and isinstance(d, Obj) and d.cls != ty.args[0]:
            base = ty.args[0]
            chain, c = [], d.cls
            while c is not None and c != base:
                decl = self.reg.classes.get(c); c = decl.bases[0] if decl and decl.bases else None
            if c != base: raise Unsupported('%s is not a subclass of %s' % (d.cls, base))
            # the same object seen through its base class: fields of the base view equal the fields of the object
            up = z3.Function('as_%s_from_%s' % (base, d.cls), ObjSort(d.cls), ObjSort(base))(d.z)
            bd = self.reg.classes.get(base)
            while bd is not None:
                for fname, fty in bd.fields.items():
                    if fty.kind in ('Opt', 'Dict', 'FnOrDict'): continue
                    st.pc.append(field(base, fname, fty.sort())(up) == field(d.cls, fname, fty.sort())(d.z))
                bd = self.reg.classes.get(bd.bases[0]) if bd.bases else None
            return Obj(up, base)
        if k == 'List' and isinstance(d, (PyList, Tup)):
            ety = ty.args[0]
            if not d.items: return SeqV(z3.Empty(z3.SeqSort(ety.sort())), ety)
            zs = [z3.Unit(self.elem_term(i, ety, st)) for i in d.items]
            return SeqV(zs[0] if len(zs) == 1 else z3.Concat(*zs), ety)
        if k == 'Text' and isinstance(d, PyStr): return Text(lit_doc(d.s))
        if k == 'Str' and isinstance(d, PyStr): return Sc(z3.StringVal(d.s), 'str')
        if k == 'Doc' and not isinstance(v, Ref): raise Unsupported('document parameter %s is not an object' % nm)
        return v

    def call_external(self, ext, args, kw, st, node):
        mod, name = ext
        if mod == 'io' and name == 'StringIO': return self.call_builtin('StringIO', args, kw, st, node)
        decl_ = next((d_ for d_ in self.reg.classes.values() if d_.external and d_.pyname == name and self.reg.get('<ext>', '%s.__init__' % d_.name) is not None), None)
        if decl_ is not None:
            # a library class imported by name (from openpyxl import Workbook) with an assumed constructor contract in the sidecar
            class _CV(object): pass
            cv_ = _CV(); cv_.name = decl_.name; cv_.module = None
            return self.construct(cv_, args, kw, st, node)
        if mod == 'bisect' and name == 'bisect_left':
            a = self.deref(args[0], st)
            if isinstance(a, SeqV) and getattr(a, 'xproxy_of', None) is not None:
                from contracts.tablereaders import BIS
                self.reg.assume('A4: bisect.bisect_left on the x components (uninterpreted index function characterised by the bisect axioms in the precondition)')
                return [(Sc(BIS(a.xproxy_of, self.as_real(self.deref(args[1], st))), 'int'), st)]
            raise Unsupported('bisect_left over %r' % (a,))
        if mod == 'functools' and name == 'cmp_to_key' and len(args) == 1 and isinstance(self.deref(args[0], st), FuncV):
            k_ = Builtin('cmp_to_key_object'); k_.cmp_of = self.deref(args[0], st); return [(k_, st)]
        if mod == 're' and name == 'compile' and len(args) == 1 and isinstance(self.deref(args[0], st), PyStr):
            return [(PyRegex(self.deref(args[0], st).s), st)]
        if mod == 'functools' and name == 'reduce' and len(args) == 2:
            f_ = self.deref(args[0], st); xs = self.deref(args[1], st)
            if isinstance(f_, FuncV): f_ = Sc(comb_const(f_.fi.file, f_.fi.qualname), 'comb')
            if not (isinstance(f_, Sc) and f_.py == 'comb' and isinstance(xs, SeqV) and xs.elem.kind == 'Fn'):
                raise Unsupported('functools.reduce(%r, %r)' % (f_, xs))
            self.reg.assume('A4: functools.reduce(c, [f0..fn-1]) is the left fold c(..c(c(f0, f1), f2).., fn-1); TypeError for an empty list')
            s_e = st.copy(); s_e.pc.append(z3.Length(xs.z) == 0); self.raise_exc('TypeError', s_e)
            st.pc.append(z3.Length(xs.z) >= 1)
            return [(FnV(reduce_fn(f_.z, xs.z, z3.Length(xs.z) - 1)), st)]
        if mod == 'math' and name == 'sqrt':
            a = self.deref(args[0], st)
            if not isinstance(a, Sc): raise Unsupported('math.sqrt(%r)' % (a,))
            x = self.as_real(a)
            s_neg = st.copy(); s_neg.pc.append(x < 0)
            self.raise_exc('ValueError', s_neg)                 # math domain error
            y = sqrt_fn(x)
            st.pc += [x >= 0, y >= 0, y * y == x]
            self.reg.assume('math.sqrt(x) for x >= 0 is the non-negative y with y*y == x (exact; its rounding is A1); ValueError for x < 0')
            return [(Sc(y, 'float'), st)]
        if mod == 'sys' and name == 'exit':
            self.raise_exc('SystemExit', st); return []
        if mod == 'logging' and name == 'getLogger':
            return [(Builtin('logger'), st)]
        if mod == 'collections' and name == 'ChainMap' and len(args) == 2:
            a_, b_ = self.deref(args[0], st), self.deref(args[1], st)
            if not (isinstance(a_, SymDict) and isinstance(b_, SymDict)): raise Unsupported('ChainMap(%r, %r)' % (a_, b_))
            self.reg.assume('A4: collections.ChainMap(a, b)[k] is a[k] when k is a key of a, else b[k]; its keys are those of a and of b')
            nh, ng = fresh(a_.has.sort(), 'chain.has'), fresh(a_.get.sort(), 'chain.get')
            kq = z3.Const('k!cm', a_.has.sort().domain())
            st.pc.append(z3.ForAll([kq], z3.And(z3.Select(nh, kq) == z3.Or(z3.Select(a_.has, kq), z3.Select(b_.has, kq)),
                                                z3.Select(ng, kq) == z3.If(z3.Select(a_.has, kq), z3.Select(a_.get, kq), z3.Select(b_.get, kq))),
                                   patterns=[z3.Select(nh, kq), z3.Select(ng, kq)]))
            return [(SymDict(nh, ng, a_.kty, a_.vty), st)]
        if mod == 'collections' and name == 'OrderedDict' and not args and not kw:
            return [(st.new_cell(PyDict({})), st)]      # (every dict is insertion ordered; whether the order is tracked is the declared type's business: T.ODict)
        if '%s.%s' % (mod, name) == 'itertools.chain.from_iterable' and len(args) == 1:
            xs = self.deref(args[0], st)
            if not (isinstance(xs, SeqV) and xs.elem.kind == 'List'): raise Unsupported('chain.from_iterable(%r)' % (xs,))
            self.reg.assume('A4: itertools.chain.from_iterable(lists) yields the elements of the lists, list after list (uninterpreted function chain_flat; empty for no lists)')
            fl = chain_flat_fn(xs.elem.args[0])(xs.z)
            return [(SeqV(fl, xs.elem.args[0]), st)]
        if mod == 'collections' and name == 'namedtuple':
            nm = self.deref(args[0], st); fl = self.deref(args[1], st)
            fields = [self.deref(x, st) for x in self.iter_concrete(args[1], st)]
            if not all(isinstance(x, PyStr) for x in fields): raise Unsupported('namedtuple with computed field names')
            return [(NTClass(nm.s if isinstance(nm, PyStr) else '<nt>', [x.s for x in fields]), st)]
        if '%s.%s' % (mod, name) == 'wrapt.ObjectProxy.__init__' and isinstance(self.deref(args[0], st), Rec):
            self.reg.assume('A6: wrapt.ObjectProxy.__init__(self, w) makes self.__wrapped__ refer to w')
            self.deref(args[0], st).fields['__wrapped__'] = args[1]
            return [(NONE, st)]
        c = self.reg.get('<ext>', name) or self.reg.get('<ext>', ('%s.%s' % (mod, name)).split('.', 1)[1])
        if c is not None and c.external:       # library function with an assumed (listed) contract
            return self.call_contract(c, None, list(args), kw, st, node)
        raise Unsupported('external call %s.%s' % (mod, name))


class ContractMismatch(Exception): pass

class _LocalModule(object):
    """adapter so that Rec of a function-local class resolves its methods"""
    def __init__(self, lc): self.lc = lc; self.relpath = lc.module.relpath
    def find_method(self, cls, name, after=None):
        for m in self.lc.node.body:
            if isinstance(m, ast.FunctionDef) and m.name == name:
                return FuncInfo(self.lc.module, '%s.%s' % (cls, name), m, cls=cls)
        return None

_EXC_BUILTINS = set('ValueError KeyError TypeError IndexError NotImplementedError AttributeError ZeroDivisionError NameError'.split())

join_fn = z3.Function('join', Doc, DocList, Doc)
def round_n(x, n):
    """Python's round(x, n) on the exact value of x: nearest multiple of 10**-n, ties to the even one
    (the conversion of the result back to a float is A1)"""
    p = z3.RealVal(10 ** n)
    y = x * p
    f = z3.ToInt(y)                      # floor
    d = y - z3.ToReal(f)
    half = z3.RealVal('1/2')
    r = z3.If(d < half, f, z3.If(d > half, f + 1, z3.If(f % 2 == 0, f, f + 1)))
    return z3.ToReal(r) / p

def py_literal(pv, ty):
    import fractions
    k = ty.kind
    if k == 'Int': return z3.IntVal(int(pv))
    if k == 'Bool': return z3.BoolVal(bool(pv))
    if k == 'Str': return z3.StringVal(pv)
    if k == 'Real':
        f = fractions.Fraction(pv)
        return z3.RealVal('%d/%d' % (f.numerator, f.denominator))
    if k == 'List':
        zs = [z3.Unit(py_literal(x, ty.args[0])) for x in pv]
        return z3.Empty(z3.SeqSort(ty.args[0].sort())) if not zs else zs[0] if len(zs) == 1 else z3.Concat(*zs)
    if k == 'Tuple':
        return TupleSort([a.sort() for a in ty.args]).mk(*[py_literal(x, a) for x, a in zip(pv, ty.args)])
    raise Unsupported('literal of type %r' % ty)

split_on = z3.Function('split_on', StrS, StrS, z3.SeqSort(StrS))
split_on_max = z3.Function('split_on_max', StrS, StrS, IntS, z3.SeqSort(StrS))
sqrt_fn = z3.Function('py_sqrt', RealS, RealS)      # (not 'sqrt': cvc5 reserves that symbol)
from .spec import SpecAcc as _SpecAcc
# reduce_fn(c, fs, t): the left fold of the first t+1 callables of fs with the combinator c
reduce_fn = _SpecAcc('reduce_left', [CombS, z3.SeqSort(Fn)], lambda c, fs: fs[0], lambda c, fs, t, prev: comb2(c, prev, fs[t + 1]), result=Fn)
split_ws = z3.Function('split_ws', StrS, z3.SeqSort(StrS)); strip_ws = z3.Function('strip_ws', StrS, StrS)
parses_int = z3.Function('parses_int', StrS, BoolS); parses_float = z3.Function('parses_float', StrS, BoolS)
str_to_int = z3.Function('str_to_int', StrS, IntS); str_to_real = z3.Function('str_to_real', StrS, RealS)

_sorted_seq_fns = {}
def sorted_seq_fn(seqsort):
    key = str(seqsort)
    if key not in _sorted_seq_fns:
        _sorted_seq_fns[key] = z3.Function('sorted_seq_' + key.replace(' ', '_').replace('(', '').replace(')', ''), seqsort, seqsort)
    return _sorted_seq_fns[key]

_sorted_fns = {}
def sorted_keys_fn(kty):
    """sorted_keys : (K -> Bool) -> Seq K   (characterised by the A4 axioms in contracts/stdlib.py)"""
    ks = kty.sort()
    key = str(ks)
    if key not in _sorted_fns:
        _sorted_fns[key] = z3.Function('sorted_keys_' + key.replace(' ', '_'), z3.ArraySort(ks, BoolS), z3.SeqSort(ks))
    return _sorted_fns[key]


# =====================================================================================
# top level
# =====================================================================================
class Executor(Exec, ExprMixin, StmtMixin, CallMixin):
    def __init__(self, *a, **k):
        Exec.__init__(self, *a, **k)
        self._raises = []
        self._module_stack = [self.module]
        self._class_stack = [(self.module, self.fi.cls) if self.fi.cls else None]
        self._closure_frames = None
        self._handling = None
        self._fn_cache = {}
        self.track_div = False
        self.loop_list_types = dict(getattr(self.contract, 'ghost', None) or {})

    def make_input(self, nm, ty, st):
        k = ty.kind
        if k == 'Any' and nm == 'cls' and self.fi.cls and any(isinstance(d_, ast.Name) and d_.id == 'classmethod' for d_ in self.fi.node.decorator_list):
            return ClassV(self.module, self.fi.cls)      # the class a classmethod is defined in (subclasses that override what it calls are outside the handled subset)
        if k == 'Any': return Builtin('<opaque %s>' % nm)          # a value the contract says nothing about: may only be passed on
        if k == 'Doc': return st.new_cell(DocObj(z3.Const(nm + '0', Doc)))
        if k == 'MList':
            return st.new_cell(SeqV(z3.Const(nm, z3.SeqSort(ty.args[0].sort())), ty.args[0]))
        if k == 'ListObj':
            v = SeqV(z3.Const(nm, z3.SeqSort(ty.args[1].sort())), ty.args[1]); v.cls = ty.args[0]
            return st.new_cell(v) if nm in self.contract.modifies else v
        if k == 'Opt':
            return Opt(z3.Const(nm + '?none', BoolS), self.make_input(nm, ty.args[0], st))
        if k == 'None': return NONE
        if k == 'Func': return FuncV(get_func(*ty.args))
        if k == 'New':
            rec = Rec(ty.args[0], Module.get(self.reg.classes[ty.args[0]].file))
            for fn_, fty_ in getattr(ty, 'init_fields', {}).items(): rec.fields[fn_] = self.make_input('%s.%s' % (nm, fn_), fty_, st)
            return st.new_cell(rec)
        if k in ('Dict', 'ODict'):
            kty, vty = ty.args
            d_ = SymDict(z3.Const(nm + '.has', z3.ArraySort(kty.sort(), BoolS)), z3.Const(nm + '.get', z3.ArraySort(kty.sort(), vty.sort())), kty, vty,
                         order=(z3.Const(nm + '.order', z3.SeqSort(kty.sort())) if k == 'ODict' else None))
            if k == 'ODict': st.pc += odict_wf(d_)
            return st.new_cell(d_) if nm in self.contract.modifies else d_
        if k == 'Obj' and getattr(self.reg.classes.get(ty.args[0]), 'stateful', False):
            return st.new_cell(Obj(z3.Const(nm, ty.sort()), ty.args[0]))      # a stateful library object handed in: its abstract state lives in a cell
        return wrap(ty, z3.Const(nm, ty.sort()))

    def literal_input(self, pv, ty, st):
        """a literal of type `ty` (conformance self-test: the executor is run on concrete inputs and compared with CPython)"""
        k = ty.kind
        if k == 'Opt': return NONE if pv is None else self.literal_input(pv, ty.args[0], st)
        if k in ('Int', 'Real', 'Bool', 'Str'): return Sc(py_literal(pv, ty), {'Int': 'int', 'Real': 'float', 'Bool': 'bool', 'Str': 'str'}[k])
        if k == 'List':
            ety = ty.args[0]
            zs = [z3.Unit(py_literal(x, ety)) for x in pv]
            return SeqV(z3.Empty(z3.SeqSort(ety.sort())) if not zs else zs[0] if len(zs) == 1 else z3.Concat(*zs), ety)
        if k == 'MList': return st.new_cell(PyList([self.literal_input(x, ty.args[0], st) for x in pv]))
        raise Unsupported('literal of type %r' % ty)

    def run(self):
        c, fi = self.contract, self.fi
        fnames = [a.arg for a in fi.node.args.args] + ([fi.node.args.vararg.arg] if fi.node.args.vararg else []) + ([fi.node.args.kwarg.arg] if fi.node.args.kwarg else [])
        if fi.node.args.kwarg and fi.node.args.kwarg.arg not in c.params: fnames = fnames[:-1]
        if list(c.params) != fnames:
            raise ContractMismatch('%s::%s parameters are %s but the contract declares %s' % (fi.file, fi.qualname, fnames, list(c.params)))
        st = State()
        for nm, ty in c.params.items():
            st.env[nm] = self.literal_input(c.concrete_inputs[nm], ty, st) if nm in c.concrete_inputs else self.make_input(nm, ty, st)
        if fi.node.args.kwarg and fi.node.args.kwarg.arg not in c.params:
            # a **kwargs parameter the contract does not speak about: the function is verified for calls without extra keyword arguments
            st.env[fi.node.args.kwarg.arg] = PyDict({})
            self.reg.assume('%s::%s is verified for calls that pass no extra keyword arguments (**%s empty): the call sites in atsim/ pass none' % (fi.file, fi.qualname, fi.node.args.kwarg.arg))
        entry = st.copy()
        self.old_ns = NS(self, entry)
        st.pc += c.requires(NS(self, st))
        if c.definitions: st.pc += c.definitions()
        self.entry_pc = list(st.pc)
        if not self.feasible(st, full=True): self.vacuity.append('the precondition (with the definitions it reveals) is unsatisfiable: nothing is checked')
        outs = self.block(fi.body, st) + self._raises
        n_normal = 0
        for o in outs:
            if o.kind in ('normal', 'return'):
                n_normal += 1
                val = o.value if o.kind == 'return' else NONE
                res_z = None
                if c.result is not None and c.result.kind != 'None':
                    vd = self.deref(val, o.state)
                    if c.result.kind == 'Tuple':
                        items = self.iter_concrete(val, o.state)
                        res_z = []
                        for it, ty_ in zip(items, c.result.args):
                            itd = self.deref(it, o.state)
                            if ty_.kind == 'Opt':
                                inner_ = ty_.args[0]
                                if isinstance(itd, NoneV): res_z.append(Opt(z3.BoolVal(True), wrap(inner_, fresh(inner_.sort(), 'none'))))
                                elif isinstance(itd, Opt): res_z.append(itd)
                                else: res_z.append(Opt(z3.BoolVal(False), self.coerce(it, inner_, o.state, 'res')))
                            else: res_z.append(unwrap(self.deref(self.coerce(it, ty_, o.state, 'res'), o.state)))
                    elif c.result.kind == 'Opt':
                        inner = c.result.args[0]
                        if isinstance(vd, NoneV): res_z = Opt(z3.BoolVal(True), wrap(inner, fresh(inner.sort(), 'none')))
                        elif isinstance(vd, Opt): res_z = vd
                        else: res_z = Opt(z3.BoolVal(False), vd)
                    elif c.result.kind == 'Dict' and isinstance(vd, PyDict) and not vd.d:
                        kty_, vty_ = c.result.args
                        res_z = c.result.sort().mkdict(z3.K(kty_.sort(), z3.BoolVal(False)), fresh(z3.ArraySort(kty_.sort(), vty_.sort()), 'empty.get'))
                    elif c.result.kind == 'Set' and isinstance(vd, SymSet): res_z = vd             # contracts read .has
                    elif c.result.kind == 'ODict' and isinstance(vd, SymDict): res_z = vd          # contracts read .has / .get / .order
                    elif c.result.kind == 'ODict' and isinstance(vd, PyDict) and not vd.d:
                        kty_, vty_ = c.result.args
                        res_z = SymDict(z3.K(kty_.sort(), z3.BoolVal(False)), fresh(z3.ArraySort(kty_.sort(), vty_.sort()), 'empty.get'), kty_, vty_, order=z3.Empty(z3.SeqSort(kty_.sort())))
                    elif c.result.kind == 'Real' and isinstance(vd, Sc): res_z = self.as_real(vd)
                    elif c.result.kind == 'Val' and isinstance(vd, (Sc, PyStr)): res_z = to_val(unwrap(vd))
                    elif c.result.kind == 'List' and isinstance(vd, (PyList, Tup)) and not vd.items: res_z = z3.Empty(c.result.sort())
                    elif c.result.kind == 'Fn': res_z = self.as_fn(val, o.state)
                    elif c.result.kind == 'Obj' and isinstance(vd, Rec): res_z = self.rec_to_obj(vd, o.state).z
                    elif c.result.kind == 'Obj' and isinstance(vd, NTup): res_z = self.coerce(val, c.result, o.state, 'res').z
                    else: res_z = unwrap(vd)
                ns = NS(self, o.state, frame=o.state.frames[0])
                for i, g in enumerate(c.ensures(ns, self.old_ns, res_z)):
                    nm = c.post_names[i] if c.post_names else str(i)
                    self.obl('post/%s' % nm, o.state, g, carries='post' in c.carries)
            elif o.kind == 'raise':
                if c.on_raise is not None:
                    ns = NS(self, o.state, frame=o.state.frames[0])
                    for i, g in enumerate(c.on_raise(ns, self.old_ns)):
                        self.obl('on-raise/%d' % i, o.state, g, carries='on_raise' in c.carries)
                if c.raises_classes is not None:
                    ok = o.value.cls in c.raises_classes or any(self.is_subclass(o.value.cls, b) for b in c.raises_classes)
                    self.obl('raises-only/%s' % o.value.cls, o.state, z3.BoolVal(bool(ok)))
                if c.raises_when is not None:
                    ns = NS(self, o.state, frame=o.state.frames[0])
                    for i, g in enumerate(c.raises_when(ns, self.old_ns, o.value)):
                        ob_ = self.obl('raises/%s' % o.value.cls, o.state, g, carries='raises' in c.carries)
                        if getattr(o.value, 'lineno', None): ob_.where = '%s (exception raised at line %d of the function as extracted)' % (ob_.where, o.value.lineno)
            else:
                raise Unsupported('loop control leaving function')
        self.n_paths = len(outs)
        return self.obls


def verify(prop, contract, registry=REG, track_raises=False, fi=None):
    fi = fi or get_func(contract.file, contract.qualname)
    if fi.is_generator and contract.generator:
        from .extract import eager_generator
        fi = eager_generator(fi)
        registry.assume('generator functions under contract are verified in their eager view (the list of the values they yield when consumed to the end); laziness is not modelled')
    ex = Executor(prop, contract, fi, registry=registry, track_raises=track_raises)
    ex.run()
    return ex

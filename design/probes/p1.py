import io, sys, warnings
warnings.simplefilter("ignore")
from atsim.potentials.config import ConfigParser, Configuration, FilteredConfigParser, ConfigParserOverrideTuple
from atsim.potentials.config._common import ConfigurationException
def tryit(label, f):
    try:
        r=f(); print(label, "OK ->", r)
    except ConfigurationException as e: print(label, "CFGEXC", type(e).__name__, str(e)[:100])
    except BaseException as e: print(label, "ESCAPED", type(e).__name__, str(e)[:100])

base = """[Tabulation]
target: %s
nr: 12
cutoff: 2.0
[Pair]
O-O : as.buck 1000 0.3 30
U-O : as.buck 500 0.3 0
"""
# C13 shared state
cp = ConfigParser(io.StringIO(base%"LAMMPS"))
v1 = FilteredConfigParser(cp, include=["O"])
print("v1 pairs", [p.species for p in v1.pair])
v2 = FilteredConfigParser(cp, exclude=["O"])
print("v1 pairs after v2", [p.species for p in v1.pair], "v2", [p.species for p in v2.pair])
# C14 whitespace override
tryit("C14 override 'O - O'", lambda: ConfigParser(io.StringIO(base%"LAMMPS"), overrides=[ConfigParserOverrideTuple("Pair","O - O","as.zero")]).pair[0])
tryit("C14 add dup 'O - O'", lambda: [ (p.species, p.potential_form_instance.potential_form) for p in ConfigParser(io.StringIO(base%"LAMMPS"), additional=[ConfigParserOverrideTuple("Pair","O - O","as.zero")]).pair])
# C16
tryit("C16 bad species key", lambda: ConfigParser(io.StringIO("[Pair]\nO : as.zero\n")))
tryit("C16 A-B-C", lambda: ConfigParser(io.StringIO("[Pair]\nA-B-C : as.zero\n")))
tryit("C16 LAMMPS_eam_alloy", lambda: Configuration().read(io.StringIO("[Tabulation]\ntarget: LAMMPS_eam_alloy\n[EAM-Embed]\nAl: as.zero\n[EAM-Density]\nAl: as.zero\n[Pair]\nAl-Al: as.zero\n")))
tryit("C16 exp_spline params", lambda: Configuration().read(io.StringIO("[Tabulation]\ntarget: LAMMPS\n[Pair]\nA-B: spline(>0 as.zbl 14 8 >=0.8 exp_spline 1.0 >=1.4 as.buck 180003 0.3 32.0)\n")))
tryit("C16 buck4 rmin out of range", lambda: Configuration().read(io.StringIO("[Tabulation]\ntarget: LAMMPS\n[Pair]\nA-B: spline(>0 as.buck 1000 0.3 0 >=0.8 buck4_spline 5.0 >=1.4 as.buck 0 1 32.0)\n")))
tryit("C16 nr=1", lambda: Configuration().read(io.StringIO("[Tabulation]\ntarget: LAMMPS\nnr: 1\n[Pair]\nA-B: as.zero\n")).write(io.StringIO()))
tryit("C16 not ini", lambda: Configuration().read(io.StringIO("hello world\n")))
tryit("C16 bad interp", lambda: Configuration().read(io.StringIO("[Tabulation]\ntarget: LAMMPS\nnr: ${nothere}\n[Pair]\nA-B: as.zero\n")))
tryit("C16 no pair", lambda: Configuration().read(io.StringIO("[Tabulation]\ntarget: LAMMPS\n")))
tryit("C16 table x only", lambda: Configuration().read(io.StringIO("[Tabulation]\ntarget: LAMMPS\n[Pair]\nA-B: tab\n[Table-Form:tab]\nx: 1 2 3 4\n")))
tryit("C16 table few pts", lambda: Configuration().read(io.StringIO("[Tabulation]\ntarget: LAMMPS\n[Pair]\nA-B: tab\n[Table-Form:tab]\nx: 1 2\ny: 1 2\n")))
tryit("C16 bad interp type", lambda: Configuration().read(io.StringIO("[Tabulation]\ntarget: LAMMPS\n[Pair]\nA-B: tab\n[Table-Form:tab]\ninterpolation: linear\nx: 1 2 3 4\ny: 1 2 3 4\n")))
tryit("C16 species key", lambda: Configuration().read(io.StringIO("[Tabulation]\ntarget: setfl\n[Species]\nAl.atomic_number: x\n[EAM-Embed]\nAl: as.zero\n[EAM-Density]\nAl: as.zero\n[Pair]\nAl-Al: as.zero\n")))
tryit("C16 fs dens key", lambda: Configuration().read(io.StringIO("[Tabulation]\ntarget: setfl_fs\n[EAM-Embed]\nAl: as.zero\n[EAM-Density]\nAl->Al->Al: as.zero\n[Pair]\nAl-Al: as.zero\n")))
tryit("C16 unknown species", lambda: Configuration().read(io.StringIO("[Tabulation]\ntarget: setfl\n[EAM-Embed]\nXx: as.zero\n[EAM-Density]\nXx: as.zero\n[Pair]\nXx-Xx: as.zero\n")))
tryit("C16 wrong nparams", lambda: Configuration().read(io.StringIO("[Tabulation]\ntarget: LAMMPS\n[Pair]\nA-B: as.buck 1 2\n")))
tryit("C16 bad formula", lambda: Configuration().read(io.StringIO("[Tabulation]\ntarget: LAMMPS\nnr:3\n[Pair]\nA-B: f 1\n[Potential-Form]\nf(r,A) = A*(r\n")).write(io.StringIO()))
tryit("C16 bad sig", lambda: Configuration().read(io.StringIO("[Tabulation]\ntarget: LAMMPS\nnr:3\n[Pair]\nA-B: f 1\n[Potential-Form]\nf r A = A*r\n")))
tryit("C16 dlpoly nr%4", lambda: Configuration().read(io.StringIO("[Tabulation]\ntarget: DL_POLY\nnr:10\n[Pair]\nA-B: as.zero\n")))
tryit("C16 nr float", lambda: Configuration().read(io.StringIO("[Tabulation]\ntarget: LAMMPS\nnr:10.5\n[Pair]\nA-B: as.zero\n")))
tryit("C16 trans 1 arg", lambda: Configuration().read(io.StringIO("[Tabulation]\ntarget: LAMMPS\nnr:10\n[Pair]\nA-B: trans(as.zero)\n")))
tryit("C16 pow 1 arg", lambda: Configuration().read(io.StringIO("[Tabulation]\ntarget: LAMMPS\nnr:10\n[Pair]\nA-B: pow()\n")))
# C20
tryit("C20 ws pair dup", lambda: [(p.species) for p in ConfigParser(io.StringIO("[Pair]\nO-O : as.zero\nO - O : as.constant 1\n")).pair])
tryit("C20 ws form dup", lambda: ConfigParser(io.StringIO("[Potential-Form]\nf(r,A) = A\nf(r, A) = 2*A\n")).potential_form)
tryit("C20 fs ws dup", lambda: [ (p.species, p.potential_form_instance.potential_form) for p in ConfigParser(io.StringIO("[EAM-Density]\nA->B : as.zero\nA -> B : as.constant 1\n")).eam_density_fs])
tryit("C20 table+formula same name", lambda: Configuration().read(io.StringIO("[Tabulation]\ntarget: LAMMPS\nnr:4\n[Pair]\nA-B: tab\n[Table-Form:tab]\nx: 1 2 3 4\ny: 1 2 3 4\n[Potential-Form]\ntab(r) = 5\n")).potentials[0].energy(2.0))
tryit("C20 table named as.buck", lambda: Configuration().read(io.StringIO("[Tabulation]\ntarget: LAMMPS\nnr:4\n[Pair]\nA-B: as.zero\n[Table-Form:as.buck]\nx: 1 2 3 4\ny: 1 2 3 4\n")))
tryit("C20 dup embed", lambda: ConfigParser(io.StringIO("[EAM-Embed]\nAl : as.zero\nAl : as.constant 1\n")).eam_embed)
# C17 GULP
class Boom(Exception): pass
from atsim.potentials import Potential
from atsim.potentials.pair_tabulation import GULP_PairTabulation, LAMMPS_PairTabulation
cnt=[0]
def f(r):
    cnt[0]+=1
    if cnt[0]==5: raise Boom()
    return r
for cls in (GULP_PairTabulation, LAMMPS_PairTabulation):
    cnt[0]=0
    out=io.StringIO()
    try: cls([Potential("A","B",f)], 2.0, 12).write(out)
    except Boom: pass
    print("C17", cls.__name__, "bytes after failure:", len(out.getvalue()))
# C18
from atsim.potentials import TableReader
tryit("C18 no trailing newline", lambda: list(TableReader(io.StringIO("1.0 2.0\n3.0 45.5")).datReader))
tryit("C18 no trailing newline b", lambda: list(TableReader(io.StringIO("1.0 2.0\n3 4")).datReader))

"""C06 oracle: every built-in form through its four access routes against the documented formula (50-digit evaluation)."""
from _expr import *
from atsim.potentials import potentialfunctions as pfn

def routes(name, params):
    out = {}
    out['function'] = lambda x: getattr(pfn, name)(x, *params)
    out['factory'] = getattr(pf, name)(*params)
    out['as.NAME'] = from_config('>=0 ' + to_config(('leaf', name, params)))
    if params or True:
        sig = 'myform(r_)'; expr = 'as.%s(%s)' % (name, ','.join(['r_'] + [repr(p) for p in params]))
        out['custom-formula'] = from_config('>=0 myform', '\n[Potential-Form]\n%s = %s\n' % (sig, expr))
    return out

def check_case(rep, case, name):
    nm, params = case['form'], case['params']
    f0, f1, f2 = exact(('leaf', nm, params))
    try: rs = routes(nm, params)
    except Exception as e: rep.dev(name, case, 'exception %r' % (e,), 'four routes'); return
    for route, f in rs.items():
        if case.get('route') and route != case['route']: continue
        for x in case['rs']:
            if x < min_r(('leaf', nm, params)): continue
            want = float(f0(x))
            try: got = f(x)
            except Exception as e: rep.dev(name, dict(case, route=route, rs=[x]), 'exception %r' % (e,), want); return
            if abs(got - want) > 1e-9 * max(1.0, abs(want)): rep.dev(name, dict(case, route=route, rs=[x]), '%s(%r)=%r' % (route, x, got), want); return
            rep.ok()

if __name__ == '__main__':
    pl = payload(); rep = Report('C06')
    if pl.get('mode') == 'replay': rep.case('replay', pl['input']); check_case(rep, pl['input'], 'replay')
    else:
        rng = random.Random(pl.get('seed', 0))
        for rnd_i in range(pl.get('n', 1)):
            order = sorted(LEAVES); rng.shuffle(order)       # the order of evaluation varies: forms must not depend on history
            for nm in order:
                c = dict(form=nm, params=[rnd(p) for p in LEAVES[nm][0](rng)], rs=[round(rng.uniform(0.5, 6), 3) for _ in range(3)] + [1.0])
                rep.case(nm, c); check_case(rep, c, '%s-%d' % (nm, rnd_i))
        # same unordered charge product, different pairs (history dependence through caches keyed on derived quantities)
        for nm, plist in (('zbl', [[6, 6], [2, 18], [4, 9], [3, 12]]), ('coul', [[2, 2], [1, 4], [4, 1]]), ('lj', [[0.1, 2.0], [0.2, 1.0]])):
            for params in plist:
                c = dict(form=nm, params=params, rs=[0.8, 1.7, 3.1]); rep.case(nm, c); check_case(rep, c, '%s-%s' % (nm, params))
    rep.finish()

import ast, os, sys, collections
root='/repo/atsim/potentials'
files=[]
for d,_,fs in os.walk(root):
    for f in fs:
        if f.endswith('.py'): files.append(os.path.join(d,f))
files.sort()
def qual(tree):
    # map node -> qualname
    out={}
    def walk(n, prefix):
        for c in ast.iter_child_nodes(n):
            if isinstance(c,(ast.FunctionDef,ast.ClassDef)):
                q=prefix+[c.name]; out[c]=".".join(q); walk(c,q)
            else: walk(c,prefix)
    walk(tree,[]); return out
print("=== set construction / iteration sites ===")
for f in files:
    src=open(f).read(); tree=ast.parse(src)
    for n in ast.walk(tree):
        if isinstance(n, ast.Call) and isinstance(n.func, ast.Name) and n.func.id=='set':
            print(os.path.relpath(f,root), n.lineno, ast.unparse(n)[:80])
        if isinstance(n, ast.BinOp) and isinstance(n.op,(ast.BitOr,ast.BitXor,ast.BitAnd)):
            print(os.path.relpath(f,root), n.lineno, 'setop', ast.unparse(n)[:80])
        if isinstance(n, ast.Call) and isinstance(n.func, ast.Attribute) and n.func.attr in ('items','keys','values'):
            print(os.path.relpath(f,root), n.lineno, 'dictiter', ast.unparse(n)[:80])
print("=== attributes read from cp / cfg / config_parser in config package and potable ===")
reads=collections.Counter()
for f in files:
    if '/config/' not in f and '/tools/' not in f: continue
    tree=ast.parse(open(f).read())
    for n in ast.walk(tree):
        if isinstance(n, ast.Attribute) and isinstance(n.value, ast.Name) and n.value.id in ('cp','cfg','config_parser'):
            reads[(os.path.relpath(f,root), n.attr)]+=1
for k,v in sorted(reads.items()): print(k,v)
print("=== may-raise primitive sites in config package + _modifiers (rough count) ===")
cnt=collections.Counter()
for f in files:
    if '/config/' not in f and not f.endswith('_modifiers.py') and '/tools/' not in f: continue
    tree=ast.parse(open(f).read())
    for n in ast.walk(tree):
        if isinstance(n, ast.Subscript) and isinstance(n.ctx, ast.Load): cnt['subscript-load']+=1
        if isinstance(n, ast.Assign) and isinstance(n.targets[0], (ast.Tuple,ast.List)): cnt['tuple-unpack']+=1
        if isinstance(n, ast.Call) and isinstance(n.func, ast.Name) and n.func.id in ('float','int'): cnt['float/int()']+=1
        if isinstance(n, ast.Raise): cnt['raise']+=1
        if isinstance(n, ast.ExceptHandler): cnt['except']+=1
        if isinstance(n, ast.BinOp) and isinstance(n.op,(ast.Div,ast.Mod,ast.FloorDiv)): cnt['div/mod']+=1
print(dict(cnt))
print("=== section-proxy iteration / membership / len sites (config parser) ===")
tree=ast.parse(open(root+'/config/_config_parser.py').read())
for n in ast.walk(tree):
    if isinstance(n, ast.For): print('for', n.lineno, ast.unparse(n.iter)[:70])
    if isinstance(n, ast.Compare) and any(isinstance(o,(ast.In,ast.NotIn)) for o in n.ops): print('in', n.lineno, ast.unparse(n)[:70])
    if isinstance(n, ast.Call) and isinstance(n.func, ast.Name) and n.func.id=='len': print('len', n.lineno, ast.unparse(n)[:70])

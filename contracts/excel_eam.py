"""Contract for the workbook cache of Excel_EAMTabulation (C17): a workbook that could not be completed is not kept, so a later write() of the object builds
it again (whole table or nothing, also on a retry).  What the sheets contain is openpyxl's business and stays with the bounded oracle."""
import z3
from .common import *

FILE = F_ET = 'atsim/potentials/eam_tabulation.py'
REG.add_class(ClassDecl('<ext>', 'ExcelPairTab', {'workbook': T.Obj('Workbook')}, external=True)); REG.classes['ExcelPairTab'].pyname = 'Excel_PairTabulation'
REG.add_class(ClassDecl('<ext>', 'Workbook', {}, external=True))
REG.add_class(ClassDecl(F_ET, 'Excel_EAMTabulation', {'_inner_tabulation': T.Opt(T.Obj('ExcelPairTab')), 'potentials': T.Any, 'cutoff': T.Real, 'nr': T.Int}))
complete = z3.Function('workbook_complete', ObjSort('ExcelPairTab'), BoolS)          # ghost: the EAM sheets have been added to the pair workbook of this object
REG.add(Contract('<ext>', 'ExcelPairTab.__init__', params=[('self', T.Obj('ExcelPairTab')), ('potentials', T.Any), ('cutoff', T.Real), ('nr', T.Int)],
    ensures=lambda v, old, res: [z3.Not(complete(v.self))], external=True, note='Excel_PairTabulation(potentials, cutoff, nr): a pair tabulation whose workbook has the Pair sheet only (its own lazily built workbook is assigned only once complete: pair_tabulation.py)', props=['C17']))
REG.add(Contract(F_ET, 'Excel_EAMTabulation._add_sheets', params=[('self', T.Any), ('wb', T.Obj('Workbook'))], ensures=lambda v, old, res: [], trusted=True,
    on_raise=lambda v, old: [], note='fills the EAM-Density and EAM-Embed sheets by evaluating the model functions: any of those evaluations may raise (C17)', props=['C17']))
SelfT = T.New('Excel_EAMTabulation', potentials=T.Any, cutoff=T.Real, nr=T.Int)
def _kept(v):
    it = v.field('self', '_inner_tabulation')
    return it
REG.add(Contract(F_ET, 'Excel_EAMTabulation._build_workbook', params=[('self', SelfT)],
    ensures=lambda v, old, res: [z3.BoolVal(not isinstance(v._ex.deref(v._ex.deref(v._frame['self'], v._st).fields['_inner_tabulation'], v._st), type(None)))],
    post_names=['keeps-the-workbook-it-completed'],
    on_raise=lambda v, old: [z3.BoolVal(type(v._ex.deref(v._ex.deref(v._frame['self'], v._st).fields.get('_inner_tabulation'), v._st)).__name__ == 'NoneV')],
    raises_when=lambda v, old, exc: [z3.BoolVal(True)], carries=['on_raise'], props=['C17']))

#!/bin/bash
# the seed matrix on scratch worktrees (ATSIM_ROOT), several seeds at once: same log format as tools/seed_matrix.sh; /repo itself is not touched
# usage: seed_matrix_wt.sh [jobs] > .scratch/seed_matrix.log
jobs=${1:-4}; cd /verif; mkdir -p .scratch/seedlogs
one() {
  id=$1; prop=${id%_*}; wt=/tmp/wt/m_$id
  git -C /repo worktree remove --force $wt >/dev/null 2>&1
  git -C /repo worktree add -q --detach $wt HEAD >/dev/null 2>&1 && git -C $wt apply /verif/seeded/$id/patch.diff 2>/dev/null || { echo "$id APPLY-FAILED"; git -C /repo worktree remove --force $wt >/dev/null 2>&1; return; }
  out=$(ATSIM_ROOT=$wt VERIF_EVIDENCE_DIR=/verif/.scratch/seed-evidence/$id timeout 1800 python3-vt bin/check $prop 2>&1); code=$?
  git -C /repo worktree remove --force $wt >/dev/null 2>&1
  echo "$out" > .scratch/seedlogs/m_$id.log
  v=$(echo "$out" | grep -c '^VIOLATION'); nf=$(echo "$out" | grep '^VIOLATION' | grep -c 'no-failing-input-found'); first=$(echo "$out" | grep '^VIOLATION' | head -1 | sed 's/.*replay=[^ ]*\/\([^/ ]*\)\.json.*/\1/' | cut -c1-90)
  und=$(echo "$out" | grep -c '^UNDECIDED'); err=$(echo "$out" | grep -c '^CHECKER-ERROR')
  echo "$id exit=$code violations=$v (without-input=$nf) undecided=$und checker-errors=$err first=$first"
}
export -f one
# seeds already in the log named by DONE (optional) are skipped
ls seeded | grep '^C[0-9]*_[a-z]$' | grep -v -x -F -f <(cut -d' ' -f1 ${DONE:-/dev/null}) | xargs -P $jobs -I{} bash -c 'one {}'

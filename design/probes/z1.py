import z3, time
# (a) grid identity
n, nr = z3.Ints('n nr'); cutoff = z3.Real('cutoff')
dr = cutoff / z3.ToReal(nr-1)
N = nr-1
r_n = dr + z3.ToReal(n-1)*(cutoff-dr)/(z3.ToReal(N)-1)
s = z3.Solver(); s.set("timeout", 20000)
s.add(nr>=3, cutoff>0, n>=1, n<=N)
s.add(r_n != z3.ToReal(n)*dr)
t=time.time(); print("(a)", s.check(), time.time()-t)
# header hi == cutoff : r_N == cutoff
s = z3.Solver(); s.set("timeout", 20000)
s.add(nr>=3, cutoff>0, n==N)
s.add(r_n != cutoff)
t=time.time(); print("(a2)", s.check(), time.time()-t)
# (c) delta model C11
k = z3.Int('k'); d = z3.Real('d'); c=z3.Real('c'); e=z3.Real('e'); d1=z3.Real('d1'); d2=z3.Real('d2')
u = z3.RealVal(2)**(-53)
u = z3.Q(1, 2**53)
s = z3.Solver(); s.set("timeout", 20000)
s.add(k>=1, k<=20000, d>0, c == z3.ToReal(k)*d*(1+e), e>=-2*u, e<=2*u, d1>=-u, d1<=u, d2>=-u,d2<=u)
q = (c/d)*(1+d1)
v = (q+1)*(1+d2)
nrv = z3.ToInt(v)
s.add(nrv != k+1)
t=time.time(); r=s.check(); print("(c)", r, time.time()-t)
if r==z3.sat: print(s.model())

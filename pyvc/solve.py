"""Obligations and their discharge: z3 (python API) first, cvc5 on `unknown`.

Result of an obligation:  'proved' (hyps /\\ not goal is unsat), 'failed' (sat, model kept),
'unknown' (both solvers gave up).  Never anything else; exceptions propagate as checker errors.
"""
import os, time, subprocess, tempfile, re
import z3
from . import spec as speclib

Z3_TIMEOUT_MS = int(os.environ.get('PYVC_Z3_TIMEOUT_MS', '10000'))
CVC5_TIMEOUT_MS = int(os.environ.get('PYVC_CVC5_TIMEOUT_MS', '20000'))

class Obligation(object):
    def __init__(self, name, hyps, goal, kind='post', function=None, where=None, carries_property=False,
                 expect_fail=False, meta=None, unfold_depth=1):
        self.name, self.hyps, self.goal = name, list(hyps), goal
        self.kind, self.function, self.where = kind, function, where
        self.carries_property = carries_property
        self.meta = meta or {}
        self.unfold_depth = unfold_depth
        self.result = None; self.backend = None; self.solver_s = 0.0; self.model = None; self.reason = None
        self.backends_tried = []

    def formulas(self):
        fs = list(self.hyps) + [z3.Not(self.goal)]
        ax = speclib.instantiate(fs, depth=self.unfold_depth)
        return fs + ax

    def to_smt2(self):
        s = z3.Solver()
        s.add(*self.formulas())
        return '(set-logic ALL)\n' + s.to_smt2()

    def summary(self):
        return dict(name=self.name, function=self.function, where=self.where, kind=self.kind,
                    backend=self.backend, result=self.result, solver_s=round(self.solver_s, 4))


def _model_dict(m):
    out = {}
    for d in m.decls():
        try:
            if d.arity() == 0:
                out[d.name()] = str(m[d])
            else:
                out[d.name()] = str(m[d])[:400]
        except Exception:
            pass
    return out

def run_z3(ob, timeout_ms=None):
    s = z3.Solver()
    s.set('timeout', timeout_ms or Z3_TIMEOUT_MS)
    s.add(*ob.formulas())
    t = time.time()
    r = s.check()
    dt = time.time() - t
    if r == z3.unsat: return 'proved', dt, None, None
    if r == z3.sat:
        m = s.model()
        return 'failed', dt, m, None
    return 'unknown', dt, None, s.reason_unknown()

def run_cvc5(ob, timeout_ms=None):
    txt = ob.to_smt2()
    # z3 prints (declare-fun f () T) and seq.empty with `as`; cvc5 1.0 accepts these. Strings need --strings-exp.
    fd, path = tempfile.mkstemp(suffix='.smt2', prefix='pyvc_')
    os.write(fd, txt.encode()); os.close(fd)
    t = time.time()
    try:
        p = subprocess.run(['/usr/bin/cvc5', '--strings-exp', '--tlimit=%d' % (timeout_ms or CVC5_TIMEOUT_MS), path],
                           capture_output=True, text=True, timeout=(timeout_ms or CVC5_TIMEOUT_MS) / 1000.0 + 10)
        out = (p.stdout + p.stderr).strip()
    except subprocess.TimeoutExpired:
        out = 'timeout'
    finally:
        os.unlink(path)
    dt = time.time() - t
    first = out.split('\n')[0].strip() if out else ''
    if first == 'unsat': return 'proved', dt, None, None
    if first == 'sat': return 'failed', dt, None, 'cvc5 sat (no model extracted)'
    return 'unknown', dt, None, out[:300]

def discharge(ob, both=False):
    """fill in ob.result/backend/solver_s/model"""
    r, dt, m, why = run_z3(ob)
    ob.backends_tried.append(('z3', r, round(dt, 4)))
    ob.solver_s += dt
    if r == 'unknown' or both:
        r2, dt2, m2, why2 = run_cvc5(ob)
        ob.backends_tried.append(('cvc5', r2, round(dt2, 4)))
        ob.solver_s += dt2
        if r == 'unknown':
            r, m, why = r2, m2, why2
            ob.backend = 'cvc5'
        else:
            ob.backend = 'z3+cvc5' if r2 == r else 'z3'
            if r2 != 'unknown' and r2 != r:
                raise RuntimeError('back ends disagree on %s: z3=%s cvc5=%s' % (ob.name, r, r2))
    else:
        ob.backend = 'z3'
    ob.result, ob.model, ob.reason = r, m, why
    return ob

def discharge_all(obls, both=False, progress=None):
    for ob in obls:
        discharge(ob, both=both)
        if progress: progress(ob)
    return obls

"""Contracts for atsim/potentials/_dlpoly_writeTABEAM.py (C05, C04, C17)."""
import z3
from .common import *
from .eam_common import *
from pyvc.spec import SpecAcc
from pyvc.symexec import sorted_keys_fn

FILE = 'atsim/potentials/_dlpoly_writeTABEAM.py'
SP = lit_doc(" ")

def tv(f, step, i): return tok("%f", app(f, real(i) * step))
def trec(f, step, j):
    return cat(tv(f, step, 4 * j), SP, tv(f, step, 4 * j + 1), SP, tv(f, step, 4 * j + 2), SP, tv(f, step, 4 * j + 3), NL)
trecs = SpecSeq('tabeam_recs', [Fn, RealS], trec, elem_len=8)

def ttail(f, step, n):
    """trailing partial record: the n%4 values after the last complete record"""
    q, m = n / 4, n % 4
    return z3.If(m == 0, EMPTY,
           z3.If(m == 1, cat(tv(f, step, 4 * q), NL),
           z3.If(m == 2, cat(tv(f, step, 4 * q), SP, tv(f, step, 4 * q + 1), NL),
                         cat(tv(f, step, 4 * q), SP, tv(f, step, 4 * q + 1), SP, tv(f, step, 4 * q + 2), NL))))

def tabulated(f, step, n):
    """exactly n values f(i*step), four per record"""
    return cat(trecs(f, step, n / 4), ttail(f, step, n))

REG.add(Contract(FILE, '_tabulateFunction',
    params=[('outputfile', T.Doc), ('func', T.Fn), ('numpoints', T.Int), ('step', T.Real)],
    requires=lambda v: [v.numpoints >= 0],
    modifies=['outputfile'],
    ensures=lambda v, old, res: [v.outputfile == cat(old.outputfile, tabulated(v.func, v.step, v.numpoints))],
    invariants={0: lambda v, old: [v.outputfile == old.outputfile, v.outputbuilder == trecs(v.func, v.step, v._i0 / 4),
                                   z3.Length(v.row) == v._i0 % 4] +
                                  [z3.Implies(j < v._i0 % 4, v.row[j] == tv(v.func, v.step, 4 * (v._i0 / 4) + j)) for j in (0, 1, 2)]},
    ghost={'row': T.Text}, unfold_depth=2, bounded_lists={0: {'row': (lambda v: v._i0 % 4, 4)}},
    on_raise=lambda v, old: [v.outputfile == old.outputfile],
    carries=['post', 'preserve/0'], props=['C05', 'C17']))

def block_hdr(kind, labels, n, step):
    """'<kind> <species...> n 0.0 (n-1)*step'"""
    fmt = kind + " %s" * len(labels) + " %d 0.0 %f"
    return cat(tok(fmt, *(list(labels) + [n, real(n - 1) * step])), NL)

def embed_block(e, nrho, drho): return cat(block_hdr("embe", [EAM['species'](e)], nrho, drho), tabulated(EAM['embed'](e), drho, nrho))

REG.add(Contract(FILE, '_writeEmbeddingFunction',
    params=[('eampotential', T.Obj('EAMPotential')), ('nrho', T.Int), ('drho', T.Real), ('outfile', T.Doc)],
    requires=lambda v: [v.nrho >= 0], modifies=['outfile'],
    ensures=lambda v, old, res: [v.outfile == cat(old.outfile, embed_block(v.eampotential, v.nrho, v.drho))],
    on_raise=lambda v, old: [v.outfile == old.outfile], carries=['post'], props=['C05']))

def dens_block(A, B, f, nr, dr):
    """B is an optional second label (EEAM)"""
    return cat(block_hdr("dens", [A] + ([B] if B is not None else []), nr, dr), tabulated(f, dr, nr))

REG.add(Contract(FILE, '_writeDensityFunction',
    params=[('speciesA', T.Str), ('speciesB', T.Opt(T.Str)), ('electronDensityFunction', T.Fn), ('nr', T.Int), ('dr', T.Real), ('outfile', T.Doc)],
    requires=lambda v: [v.nr >= 0, z3.Length(v.speciesA) > 0, z3.Or(v.val('speciesB').isnone, z3.Length(v.val('speciesB').val.z) > 0)],
    modifies=['outfile'],
    ensures=lambda v, old, res: [v.outfile == cat(old.outfile,
        z3.If(old.val('speciesB').isnone, dens_block(v.speciesA, None, v.electronDensityFunction, v.nr, v.dr),
              dens_block(v.speciesA, old.val('speciesB').val.z, v.electronDensityFunction, v.nr, v.dr)))],
    on_raise=lambda v, old: [v.outfile == old.outfile], carries=['post'], props=['C05', 'C04']))

def pair_block(A, B, f, nr, dr):
    return cat(block_hdr("pair", [A, B], nr, dr), tabulated(f, dr, nr))

REG.add(Contract(FILE, '_writePairPotential',
    params=[('pairPotential', T.Obj('Potential')), ('nr', T.Int), ('dr', T.Real), ('outfile', T.Doc)],
    requires=lambda v: [v.nr >= 0], modifies=['outfile'],
    ensures=lambda v, old, res: [v.outfile == cat(old.outfile, pair_block(pot_A(v.pairPotential), pot_B(v.pairPotential), eta(pot_fn(v.pairPotential)), v.nr, v.dr))],
    on_raise=lambda v, old: [v.outfile == old.outfile], carries=['post'], props=['C05']))

# ---------------------------------------------------------------- pair blocks: one per unordered element pair
KeyTy = T.Tuple(T.Str, T.Str)
KeyArr = z3.ArraySort(KeySort, BoolS)
sorted_keys = sorted_keys_fn(KeyTy)
def lbl(es, i): return EAM['species'](es[i])

# the set {key(l_i, l_j)} built by the two nested loops, as a function of how far they have run
rowset = SpecAcc('tabeam_rowset', [EamList, IntS, KeyArr], lambda es, i, base: base,
                 lambda es, i, base, t, prev: z3.Store(prev, key(lbl(es, i), lbl(es, t)), z3.BoolVal(True)), result=KeyArr)
allset = SpecAcc('tabeam_allset', [EamList], lambda es: z3.K(KeySort, z3.BoolVal(False)),
                 lambda es, t, prev: rowset(es, t, prev, z3.Length(es)), result=KeyArr)
def pairset(es): return allset(es, z3.Length(es))

def pair_for_key(ps, k, nr, dr):
    """block of the unordered pair k = (lo, hi): the declared potential's labels and energy, else a zero function
    labelled (lo, hi)"""
    lo, hi = KeySort.accessor(0, 0)(k), KeySort.accessor(0, 1)(k)
    i = find(ps, lo, hi, z3.Length(ps))
    return z3.If(i >= 0, pair_block(pot_A(ps[i]), pot_B(ps[i]), eta(pot_fn(ps[i])), nr, dr),
                 pair_block(lo, hi, eta(ZERO), nr, dr))
from pyvc.symexec import closure_name
ZERO = z3.Const(closure_name(FILE, 'nullfunc'), Fn)     # the capture-free nested function nullfunc of _writePairPotentials (its body gives: constant zero)
def zero_axioms():
    r = z3.Real('r!z')
    return [z3.ForAll([r], app(ZERO, r) == 0, patterns=[app(ZERO, r)]), z3.ForAll([r], z3.Not(raises(ZERO, r)), patterns=[raises(ZERO, r)])]

pblocks = SpecSeq('tabeam_pblocks', [PotList, z3.SeqSort(KeySort), IntS, RealS],
                  lambda ps, ks, nr, dr, t: pair_for_key(ps, ks[t], nr, dr))

def pair_section(es, ps, nr, dr):
    ks = sorted_keys(pairset(es))
    return pblocks(ps, ks, nr, dr, z3.Length(ks))

K0, K1 = KeySort.accessor(0, 0), KeySort.accessor(0, 1)
def _pdict_inv(v, n):
    """lookup table after n pair potentials: a key is present iff it is canonical (lo <= hi) and some potential has that
    unordered pair; it then maps to the last such potential"""
    k = z3.Const('k!d', KeySort)
    d = v.pairPotDict
    i = find(v.pairPotentials, K0(k), K1(k), n)
    ok = z3.And(K0(k) <= K1(k), i >= 0)
    return [forall([k], z3.And(z3.Select(d.has, k) == ok, z3.Implies(ok, z3.Select(d.get, k) == v.pairPotentials[i])),
                   pattern=z3.Select(d.has, k))]

def _canon(has):
    """every member of the key set is canonical"""
    k = z3.Const('k!c', KeySort)
    return [forall([k], z3.Implies(z3.Select(has, k), K0(k) <= K1(k)), pattern=z3.Select(has, k))]

def _sorted_pairs_wf(ks):
    """every key of a sorted key sequence built from species labels is canonical (lo <= hi): a consequence of how the
    set was built; stated through the A4 membership axiom"""
    return []

REG.add(Contract(FILE, '_writePairPotentials',
    params=[('eamPotentials', T.List(T.Obj('EAMPotential'))), ('pairPotentials', T.List(T.Obj('Potential'))), ('nr', T.Int), ('dr', T.Real), ('outfile', T.Doc)],
    requires=lambda v: [v.nr >= 0],
    modifies=['outfile'],
    ensures=lambda v, old, res: [v.outfile == cat(old.outfile, pair_section(v.eamPotentials, v.pairPotentials, v.nr, v.dr))],
    ghost={'pairs': T.Set(KeyTy), 'pairPotDict': T.Dict(KeyTy, T.Obj('Potential'))},
    invariants={
        0: lambda v, old: [v.outfile == old.outfile, v.pairs.has == allset(v.eamPotentials, v._i0)] + _canon(v.pairs.has),
        1: lambda v, old: [v.outfile == old.outfile,
                           v.pairs.has == rowset(v.eamPotentials, v._i0, allset(v.eamPotentials, v._i0), v._i1)] + _canon(v.pairs.has),
        2: lambda v, old: [v.outfile == old.outfile, v.pairs.has == pairset(v.eamPotentials)] + _canon(v.pairs.has) + _pdict_inv(v, v._i2),
        3: lambda v, old: [v.pairs.has == pairset(v.eamPotentials)] + _canon(v.pairs.has) + _pdict_inv(v, z3.Length(v.pairPotentials)) +
                          [v.outfile == cat(old.outfile, pblocks(v.pairPotentials, sorted_keys(pairset(v.eamPotentials)), v.nr, v.dr, v._i3))],
    },
    on_raise=lambda v, old: [],      # streams into the buffer it is given (a local StringIO at its call site)
    carries=['post', 'preserve/3'], props=['C05']))

def stdlib_sorted_axioms():
    """A4: sorted(set of (str,str) tuples): members are exactly the set's members (here: only the direction needed —
    every element of the result is a member), in strictly increasing lexicographic order"""
    S, i = z3.Const('S!srt', KeyArr), z3.Int('i!srt')
    ks = sorted_keys(S)
    return [z3.ForAll([S, i], z3.Implies(z3.And(i >= 0, i < z3.Length(ks)), z3.Select(S, ks[i])), patterns=[ks[i]])]

# ---------------------------------------------------------------- whole files
def title_line(title): return cat(tok("%s%s", title, lit_doc(" " * 100)), NL)

REG.add(Contract(FILE, '_writeTitle', params=[('title', T.Text), ('out', T.Doc)], modifies=['out'],
    ensures=lambda v, old, res: [v.out == cat(old.out, title_line(old.title))],
    on_raise=lambda v, old: [v.out == old.out], carries=['post'], props=['C05'],
    note='the [:100] in the source slices the argument tuple, not the string: the title is not truncated (harmless for the property)'))

embed_blocks = SpecSeq('tabeam_embeds', [EamList, IntS, RealS], lambda es, nrho, drho, k: embed_block(es[k], nrho, drho))

def head_section(nrho, drho, nr, dr, es, ps, title, numpots):
    return cat(title_line(title), tok("%d", numpots), NL, pair_section(es, ps, nr, dr), embed_blocks(es, nrho, drho, z3.Length(es)))

REG.add(Contract(FILE, '_writeTABEAM_exceptDensity',
    params=[('nrho', T.Int), ('drho', T.Real), ('nr', T.Int), ('dr', T.Real), ('eamPotentials', T.List(T.Obj('EAMPotential'))),
            ('pairPotentials', T.List(T.Obj('Potential'))), ('title', T.Text), ('numpots', T.Real), ('outputbuilder', T.Doc)],
    requires=lambda v: [v.nr >= 0, v.nrho >= 0],
    modifies=['outputbuilder'],
    ensures=lambda v, old, res: [v.outputbuilder == cat(old.outputbuilder, head_section(v.nrho, v.drho, v.nr, v.dr, v.eamPotentials, v.pairPotentials, v.title, v.numpots))],
    invariants={0: lambda v, old: [v.outputbuilder == cat(old.outputbuilder, title_line(v.title), tok("%d", v.numpots), NL,
                                                          pair_section(v.eamPotentials, v.pairPotentials, v.nr, v.dr),
                                                          embed_blocks(v.eamPotentials, v.nrho, v.drho, v._i0))]},
    on_raise=lambda v, old: [],
    carries=['post', 'preserve/0'], props=['C05']))

dens_blocks = SpecSeq('tabeam_dens', [EamList, IntS, RealS],
                      lambda es, nr, dr, k: dens_block(EAM['species'](es[k]), None, EAM['dens'](es[k]), nr, dr))

def tabeam_file(nrho, drho, nr, dr, es, ps, title):
    n = real(z3.Length(es))
    return cat(head_section(nrho, drho, nr, dr, es, ps, title, n * (n + 5) / 2), dens_blocks(es, nr, dr, z3.Length(es)))

_WP = [('nrho', T.Int), ('drho', T.Real), ('nr', T.Int), ('dr', T.Real), ('eampots', T.List(T.Obj('EAMPotential'))),
       ('pairpots', T.List(T.Obj('Potential'))), ('out', T.Doc), ('title', T.Text)]
def _labels_nonempty(es):
    k = z3.Int('k!ne')
    return z3.ForAll([k], z3.Implies(z3.And(k >= 0, k < z3.Length(es)), z3.Length(EAM['species'](es[k])) > 0))

REG.add(Contract(FILE, 'writeTABEAM', params=_WP,
    requires=lambda v: [v.nr >= 0, v.nrho >= 0, _labels_nonempty(v.eampots)],
    modifies=['out'],
    ensures=lambda v, old, res: [v.out == cat(old.out, tabeam_file(v.nrho, v.drho, v.nr, v.dr, v.eampots, v.pairpots, v.title))],
    invariants={0: lambda v, old: [v.out == old.out,
                                   v.outputbuilder == cat(head_section(v.nrho, v.drho, v.nr, v.dr, v.eampots, v.pairpots, v.title,
                                                                       real(z3.Length(v.eampots)) * (real(z3.Length(v.eampots)) + 5) / 2),
                                                          dens_blocks(v.eampots, v.nr, v.dr, v._i0))]},
    on_raise=lambda v, old: [v.out == old.out],
    carries=['post', 'preserve/0'], props=['C05', 'C17']))

# ---------------------------------------------------------------- EEAM (Finnis-Sinclair) variant
from pyvc.symexec import sorted_seq_fn
from .setfl import d_fs, declared_fs, _all_declared_all
StrList = z3.SeqSort(StrS)
label_seq = SpecSeq('tabeam_labelseq', [EamList], lambda es, k: z3.Unit(EAM['species'](es[k])), result=StrList, elem_len=1)
def sorted_labels(es): return sorted_seq_fn(StrList)(label_seq(es, z3.Length(es)))

# 'dens A B' blocks of central species A = es[k], for every neighbour label B in sorted order: d(A, B)
fs_row = SpecSeq('tabeam_fs_row', [EAM['sort'], StrList, IntS, RealS],
                 lambda e, ls, nr, dr, j: dens_block(EAM['species'](e), ls[j], d_fs(e, ls[j]), nr, dr))
fs_rows = SpecSeq('tabeam_fs_rows', [EamList, StrList, IntS, RealS],
                  lambda es, ls, nr, dr, k: fs_row(es[k], ls, nr, dr, z3.Length(ls)))

def tabeam_fs_file(nrho, drho, nr, dr, es, ps, title):
    n = real(z3.Length(es))
    ls = sorted_labels(es)
    return cat(head_section(nrho, drho, nr, dr, es, ps, title, 3 * n * (n + 1) / 2), fs_rows(es, ls, nr, dr, z3.Length(es)))

def _fs_declared_sorted(es):
    """every central species has a density for every label of the (sorted) label list, and labels are non-empty"""
    k, j = z3.Int('k!fsd'), z3.Int('j!fsd')
    ls = sorted_labels(es)
    return [z3.ForAll([k, j], z3.Implies(z3.And(k >= 0, k < z3.Length(es), j >= 0, j < z3.Length(ls)),
                                         z3.And(declared_fs(es[k], ls[j]), z3.Length(ls[j]) > 0))),
            _labels_nonempty(es)]

REG.add(Contract(FILE, 'writeTABEAMFinnisSinclair', params=_WP,
    requires=lambda v: [v.nr >= 0, v.nrho >= 0] + _fs_declared_sorted(v.eampots),
    modifies=['out'],
    ensures=lambda v, old, res: [v.out == cat(old.out, tabeam_fs_file(v.nrho, v.drho, v.nr, v.dr, v.eampots, v.pairpots, v.title))],
    comprehensions={0: (label_seq, lambda v: [v.eampots])},
    invariants={
        0: lambda v, old: [v.out == old.out, v.speciesList == sorted_labels(v.eampots),
                           v.outputbuilder == cat(head_section(v.nrho, v.drho, v.nr, v.dr, v.eampots, v.pairpots, v.title,
                                                               3 * real(z3.Length(v.eampots)) * (real(z3.Length(v.eampots)) + 1) / 2),
                                                  fs_rows(v.eampots, sorted_labels(v.eampots), v.nr, v.dr, v._i0))],
        1: lambda v, old: [v.out == old.out, v.speciesList == sorted_labels(v.eampots), v._i0 >= 0, v._i0 < z3.Length(v.eampots),
                           v.eamPotential == v.eampots[v._i0], v.speciesA == EAM['species'](v.eamPotential),
                           v.outputbuilder == cat(head_section(v.nrho, v.drho, v.nr, v.dr, v.eampots, v.pairpots, v.title,
                                                               3 * real(z3.Length(v.eampots)) * (real(z3.Length(v.eampots)) + 1) / 2),
                                                  fs_rows(v.eampots, sorted_labels(v.eampots), v.nr, v.dr, v._i0),
                                                  fs_row(v.eamPotential, sorted_labels(v.eampots), v.nr, v.dr, v._i1))],
    },
    on_raise=lambda v, old: [v.out == old.out],
    carries=['post', 'preserve/0', 'preserve/1'], props=['C05', 'C04', 'C17']))

"""Random potential expressions with three renderings: potable definition string, Python-API composition, exact sympy term."""
from _common import *
import sympy as sp
import mpmath
import atsim.potentials as ap
from atsim.potentials import potentialforms as pf

r = sp.Symbol('r', positive=True)
Q = lambda x: sp.Rational(repr(x))

def _tt(A, b, C6, C8, C10):
    x = r / sp.Rational('0.5292')
    f2n = lambda y, n: 1 - sp.exp(-y) * sum(y ** k / sp.factorial(k) for k in range(2 * n + 1))
    return sp.Rational('27.211') * (A * sp.exp(-b * x) - (f2n(b * x, 3) * C6 / x ** 6 + f2n(b * x, 4) * C8 / x ** 8 + f2n(b * x, 5) * C10 / x ** 10))
def _zbl(z1, z2):
    a = (sp.Rational('0.8854') * sp.Rational('0.529')) / (z1 ** sp.Rational(23, 100) + z2 ** sp.Rational(23, 100))
    ck = [sp.Rational(x) for x in ('0.1818', '0.5099', '0.2802', '0.02817')]; bk = [sp.Rational(x) for x in ('3.2', '0.9423', '0.4029', '0.2016')]
    return sp.Rational('14.39942') * z1 * z2 / r * sum(c * sp.exp(-b * r / a) for c, b in zip(ck, bk))

# name -> (parameter generator, documented formula)   — formulas transcribed from docs/reference/potential_forms.rst
LEAVES = {
    'buck': (lambda g: [g.uniform(100, 3000), g.uniform(0.15, 0.5), g.uniform(0, 60)], lambda A, rho, C: A * sp.exp(-r / rho) - C / r ** 6),
    'bornmayer': (lambda g: [g.uniform(100, 3000), g.uniform(0.15, 0.5)], lambda A, rho: A * sp.exp(-r / rho)),
    'constant': (lambda g: [g.uniform(-3, 3)], lambda C: C + 0 * r),
    'coul': (lambda g: [g.choice([-2, -1, 1, 2, 4]), g.choice([-2, -1, 1, 2])], lambda qi, qj: qi * qj / (4 * sp.pi * sp.Rational('0.0055264') * r)),
    'exponential': (lambda g: [g.uniform(-5, 5), g.choice([-6, -2, -1, 1, 2, 3, 0.5, 1.5])], lambda A, n: A * r ** n),
    'hbnd': (lambda g: [g.uniform(1, 500), g.uniform(1, 200)], lambda A, B: A / r ** 12 - B / r ** 10),
    'lj': (lambda g: [g.uniform(0.001, 0.5), g.uniform(1.5, 3.5)], lambda e, s: 4 * e * (s ** 12 / r ** 12 - s ** 6 / r ** 6)),
    'morse': (lambda g: [g.uniform(0.5, 3), g.uniform(1, 3), g.uniform(0.1, 5)], lambda ga, rs, D: D * (sp.exp(-2 * ga * (r - rs)) - 2 * sp.exp(-ga * (r - rs)))),
    'polynomial': (lambda g: [g.uniform(-3, 3) for _ in range(g.randint(1, 5))], lambda *c: sum(ci * r ** i for i, ci in enumerate(c)) + 0 * r),
    'sqrt': (lambda g: [g.uniform(-5, 5)], lambda G: G * sp.sqrt(r)),
    'zbl': (lambda g: [g.randint(1, 92), g.randint(1, 92)], _zbl),
    'tang_toennies': (lambda g: [g.uniform(10, 80), g.uniform(1.5, 2.5), g.uniform(1, 80), g.uniform(10, 1500), g.uniform(100, 30000)], _tt),
    'exp_spline': (lambda g: [g.uniform(-1, 1), g.uniform(-1, 1), g.uniform(-0.3, 0.3), g.uniform(-0.05, 0.05), g.uniform(-0.01, 0.01), g.uniform(-0.001, 0.001), g.uniform(-3, 3)],
                   lambda B0, B1, B2, B3, B4, B5, C: sp.exp(B0 + B1 * r + B2 * r ** 2 + B3 * r ** 3 + B4 * r ** 4 + B5 * r ** 5) + C),
    'zero': (lambda g: [], lambda: 0 * r),
}
POSITIVE = ['bornmayer', 'zbl']      # forms that are > 0 for r > 0 (bases of pow)

def rnd(x): return round(x, 4) if isinstance(x, float) else x

def gen(g, depth, positive=False):
    if depth <= 0 or g.random() < 0.35:
        name = g.choice(POSITIVE if positive else sorted(LEAVES))
        return ('leaf', name, [rnd(p) for p in LEAVES[name][0](g)])
    k = g.choice(['sum', 'product', 'pow', 'trans'] if not positive else ['sum', 'product'])
    if k in ('sum', 'product'):
        return (k, [gen(g, depth - 1, positive) for _ in range(g.randint(2, 3))])
    if k == 'pow':
        return ('pow', [gen(g, depth - 1, True), ('leaf', 'constant', [g.choice([0.5, 2.0, 3.0, -1.0, 1.5])]) if g.random() < 0.6
                        else ('leaf', 'polynomial', [rnd(g.uniform(0.5, 2)), rnd(g.uniform(-0.2, 0.2))])])
    return ('trans', gen(g, depth - 1, positive), rnd(g.uniform(0.1, 1.5)))

def to_config(t):
    if t[0] == 'leaf': return ('as.%s %s' % (t[1], ' '.join(repr(p) for p in t[2]))).strip()
    if t[0] in ('sum', 'product', 'pow'): return '%s(%s)' % (t[0], ', '.join(to_config(x) for x in t[1]))
    if t[0] == 'trans': return 'trans(%s, as.constant %r)' % (to_config(t[1]), t[2])

def to_sympy(t):
    if t[0] == 'leaf': return LEAVES[t[1]][1](*[Q(p) if isinstance(p, float) else sp.Integer(p) for p in t[2]])
    if t[0] == 'sum': return sum(to_sympy(x) for x in t[1])
    if t[0] == 'product': return sp.Mul(*[to_sympy(x) for x in t[1]])
    if t[0] == 'pow':
        out = to_sympy(t[1][0])
        for x in t[1][1:]: out = out ** to_sympy(x)
        return out
    if t[0] == 'trans': return to_sympy(t[1]).subs(r, r + Q(t[2]))

def to_api(t):
    """composition through the Python API (potentialforms factories, plus/product/pow)"""
    import functools
    if t[0] == 'leaf': return getattr(pf, t[1])(*t[2])
    if t[0] == 'sum': return functools.reduce(ap.plus, [to_api(x) for x in t[1]])
    if t[0] == 'product': return functools.reduce(ap.product, [to_api(x) for x in t[1]])
    if t[0] == 'pow': return functools.reduce(ap.pow, [to_api(x) for x in t[1]])
    if t[0] == 'trans':
        f = to_api(t[1]); X = t[2]
        g = lambda x: f(x + X)
        if hasattr(f, 'deriv'): g.deriv = lambda x: f.deriv(x + X)
        if hasattr(f, 'deriv2'): g.deriv2 = lambda x: f.deriv2(x + X)
        return g

def from_config(defn, extra_sections=''):
    from atsim.potentials.config import Configuration
    ini = '[Tabulation]\ntarget : LAMMPS\nnr : 11\ncutoff : 10.0\n\n[Pair]\nA-B : %s\n%s' % (defn, extra_sections)
    tab = Configuration().read(io.StringIO(ini))
    return tab.potentials[0].potentialFunction

def exact(t):
    e = to_sympy(t)
    mpmath.mp.dps = 40
    f0 = sp.lambdify(r, e, 'mpmath'); f1 = sp.lambdify(r, sp.diff(e, r), 'mpmath'); f2 = sp.lambdify(r, sp.diff(e, r, 2), 'mpmath')
    return f0, f1, f2


def min_r(t):
    """separations below this are not compared: the pre-multiplied Tang-Toennies expression loses digits by cancellation at
    small r (relative error 3e-8 at 0.25 A, 1e-9 at 0.5 A, < 2e-11 from 1 A on — measured); it is used for r > 2 A in practice"""
    if t[0] == 'leaf': return 1.0 if t[1] == 'tang_toennies' else 0.0
    if t[0] == 'trans': return max(0.0, min_r(t[1]) - t[2]) if False else min_r(t[1])
    return max(min_r(x) for x in t[1])

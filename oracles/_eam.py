"""model generators and parsers shared by the EAM/pair oracles"""
from _common import *
import atsim.potentials as ap
from atsim.potentials import Potential, EAMPotential

def fnum(x): return float(x)

def mk_pair_model(rng, labels, allow_missing=True):
    """pair potentials over unordered pairs of labels: random subset, random declaration order/orientation"""
    pairs = [(a, b) for i, a in enumerate(labels) for b in labels[i:]]
    rng.shuffle(pairs)
    out = []
    for a, b in pairs:
        if allow_missing and rng.random() < 0.3: continue
        if rng.random() < 0.5: a, b = b, a
        out.append(dict(A=a, B=b, fn=rand_callable_spec(rng)))
    return out

def mk_eam_model(rng, n=None, fs=False):
    n = n or rng.randint(1, 4)
    labels = rng.sample(['Al', 'Cu', 'Fe', 'Zr', 'Ni', 'Ag', 'U', 'O'], n)
    els = []
    for l in labels:
        e = dict(species=l, Z=rng.randint(1, 92), mass=round(rng.uniform(1, 240), 3), a0=round(rng.uniform(2, 6), 3),
                 lattice=rng.choice(['fcc', 'bcc', 'hcp']), embed=rand_callable_spec(rng))
        if fs: e['dens'] = {m: rand_callable_spec(rng) for m in labels}
        else: e['dens'] = rand_callable_spec(rng)
        els.append(e)
    return dict(elements=els, pairs=mk_pair_model(rng, labels),
                nr=rng.choice([2, 3, 5, 6, 9, 12, 13]), nrho=rng.choice([2, 3, 4, 7, 10, 11]),
                cutoff=rng.choice([5.0, 6.5, 10.0, round(rng.uniform(1, 12), 2)]), cutoff_rho=rng.choice([50.0, 100.0, round(rng.uniform(1, 200), 1)]))

def build_eam(model, fs=False):
    eams, fns = [], {}
    for e in model['elements']:
        emb = mk_callable(e['embed'])
        if fs: dens = {k: mk_callable(v) for k, v in e['dens'].items()}
        else: dens = mk_callable(e['dens'])
        eams.append(EAMPotential(e['species'], e['Z'], e['mass'], emb, dens, e['a0'], e['lattice']))
        fns[e['species']] = (emb, dens)
    pots, pf = [], []
    for p in model['pairs']:
        f = mk_callable(p['fn']); pf.append(f)
        pots.append(Potential(p['A'], p['B'], f))
    return eams, pots, fns, pf

def pair_lookup(model, pf, a, b):
    """declared potential of the unordered pair {a,b} (last declared), else None"""
    found = None
    for p, f in zip(model['pairs'], pf):
        if {p['A'], p['B']} == {a, b} and (p['A'], p['B']) in ((a, b), (b, a)): found = f
    return found

def take(nums, n):
    return nums[:n], nums[n:]

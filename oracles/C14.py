"""C14 oracle: --override-item / --add-item / --remove-item == editing the file by hand; --list-items lists each item once."""
from _cfg import *
import re

def norm(k): return k.replace(' ', '').replace('\t', '')

def apply_ops(sections, ops):
    """sections: list of (name, [(key, value)]); ops applied in order override..., remove..., add... as potable does
    -> (sections, error or None)"""
    secs = [(n, list(e)) for n, e in sections]
    def find(sec): 
        for i, (n, e) in enumerate(secs):
            if n == sec: return i
        return None
    merged = {}
    for kind, sec, key, val in ops:
        if kind in ('override', 'remove'): merged[(sec, norm(key))] = (kind, sec, key, val)
    for kind, sec, key, val in list(merged.values()):
        i = find(sec)
        idx = None if i is None else next((j for j, (k, v) in enumerate(secs[i][1]) if norm(k) == norm(key)), None)
        if idx is None: return None, 'missing'
        if kind == 'override': secs[i][1][idx] = (secs[i][1][idx][0], val)
        else:
            del secs[i][1][idx]
            if not secs[i][1]: del secs[i]
    for kind, sec, key, val in ops:
        if kind != 'add': continue
        i = find(sec)
        key = key.strip()        # a key written into a file cannot start with blanks (that would be a continuation line)
        if i is None: secs.append((sec, [(key, val)])); continue
        if any(norm(k) == norm(key) for k, v in secs[i][1]): return None, 'duplicate'      # already in the file, or added earlier on the same command line
        secs[i][1].append((key, val))
    return secs, None

def check_case(rep, case, name):
    if case.get('kind') in ('api-sequence', 'cli-two-sections'):
        extra_cases(rep); return
    if case.get('kind') == 'table-form':
        table_form_cases(rep); return
    rng = random.Random(case['seed'])
    sp_, head, entries = pair_model(rng, n_species=3)
    tab = [('target', 'LAMMPS'), ('nr', '12'), ('cutoff', '5.5')]
    sections = [('Tabulation', tab), ('Pair', entries)]
    if case.get('variables'):
        vs = [('scale', '2.0'), ('unused', '7')]
        # variables whose names are the keys the operations address in OTHER sections: a variable is not an item of those sections
        if case.get('collide'): vs += [('Zr-Zr', 'as.zero'), ('Xx-Xx', 'as.zero'), ('nr', '99')]
        sections = [('Variables', vs)] + sections
    def text(secs): return render([], secs)
    ops = [tuple(o) for o in case['ops']]
    edited, err = apply_ops(sections, ops)
    args = []
    for kind, sec, key, val in ops:
        flag = {'override': '--override-item', 'add': '--add-item', 'remove': '--remove-item'}[kind]
        args += [flag, '%s:%s%s' % (sec, key, '' if kind == 'remove' else '=' + val)]
    code, so, se, got = potable(args, text(sections))
    if err is not None:
        if code == 0 or 'configuration error' not in se: rep.dev(name, case, 'exit %r, stderr %r' % (code, se[-120:]), 'configuration error (%s item)' % err)
        else: rep.ok()
        return
    try: want = tabulate_text(text(edited))
    except Exception as e: want = None
    if want is None:
        if code == 0: rep.dev(name, case, 'accepted', 'the hand-edited file is rejected'); 
        else: rep.ok()
        return
    if got != want: rep.dev(name, case, 'exit %r; output differs from the hand-edited file (%s)' % (code, se[-160:].replace('\n', ' ')), 'same bytes as the edited file'); return
    # API route
    from atsim.potentials.config import ConfigParser
    try:
        # the command line keeps one operation per item (the last one given): the API is driven with that merged list
        merged = {}
        for kd, s_, k, v in ops:
            if kd in ('override', 'remove'): merged[(s_, norm(k))] = (kd, s_, k, v)
        ov = [ConfigParserOverrideTuple(s_, k, v if kd == 'override' else None) for kd, s_, k, v in merged.values()]
        ad = [ConfigParserOverrideTuple(s, k, v) for kd, s, k, v in ops if kd == 'add']
        got2 = tabulate_text(None, ConfigParser(io.StringIO(text(sections)), overrides=ov, additional=ad))
        if got2 != want: rep.dev(name, dict(case, route='api'), 'API output differs from the hand-edited file', 'same bytes'); return
    except Exception as e:
        rep.dev(name, dict(case, route='api'), 'exception %r' % (e,), 'same bytes as the edited file'); return
    # --list-items on the edited view: every item exactly once with its value
    code, so, se, _ = potable(args + ['--list-items'], text(sections), want_out=False)
    listed = [l for l in so.split('\n') if l.strip()]
    want_items = ['%s:%s=%s' % (s, norm(k), v) for s, e in edited for k, v in e]
    got_items = [re.sub(r'^([^:]+):([^=]*)=', lambda m: '%s:%s=' % (m.group(1), norm(m.group(2))), l) for l in listed]
    if sorted(got_items) != sorted(want_items):
        extra = [x for x in got_items if x not in want_items][:3]; miss = [x for x in want_items if x not in got_items][:3]
        rep.dev(name, dict(case, route='list-items'), 'listing: extra %r missing %r (%d lines)' % (extra, miss, len(got_items)), 'every item of the edited file exactly once (%d items)' % len(want_items)); return
    rep.ok()

def gen_case(rng):
    seed = rng.randint(0, 10 ** 6)
    r2 = random.Random(seed); sp_, head, entries = pair_model(r2, n_species=3)
    ops = []
    keys = [k for k, v in entries]
    def spaced(k): a, b = k.split('-'); return rng.choice(['%s-%s', '%s - %s', ' %s- %s', '%s -%s', '%s\t-%s', '%s -\t%s']) % (a, b)
    for _ in range(rng.randint(1, 3)):
        kind = rng.choice(['override', 'override', 'add', 'remove'])
        if kind == 'override':
            tgt = rng.choice(['pair', 'pair', 'tab', 'missing'])
            if tgt == 'pair': ops.append(('override', 'Pair', spaced(rng.choice(keys)), 'as.polynomial %r' % round(rng.uniform(-3, 3), 2)))
            elif tgt == 'tab': ops.append(('override', 'Tabulation', 'nr', str(rng.choice([8, 16, 20]))))
            else: ops.append(('override', 'Pair', 'Xx-Xx', 'as.polynomial 1.0'))
        elif kind == 'add':
            if rng.random() < 0.3: ops.append(('add', 'Pair', spaced(rng.choice(keys)), 'as.polynomial 9.0'))
            else: ops.append(('add', 'Pair', 'Zr-Zr', 'as.polynomial %r' % round(rng.uniform(-3, 3), 2)))
        else:
            ops.append(('remove', 'Pair', spaced(rng.choice(keys)), None))
    # the same item addressed twice with two different spellings in one command line is under-specified
    # (is the second removal an error or a repetition?): keep one spelling per item
    seen = {}
    ops2 = []
    for o in ops:
        nk = (o[1], norm(o[2]))
        if o[0] in ('override', 'remove'):
            # one item, one kind of operation, one spelling per command line (override AND remove of one item is under-specified:
            # the command line applies removals after overrides whatever the order they were given in)
            if nk in seen and seen[nk] != (o[0], o[2]): continue
            seen[nk] = (o[0], o[2])
        ops2.append(o)
    # the same new item added twice in one command line: the hand-edited file would hold the key twice (a duplicate: configuration error)
    if rng.random() < 0.15: ops2.append(('add', 'Pair', 'Zr-Zr', 'as.polynomial 2.0'))
    variables = rng.random() < 0.4
    return dict(seed=seed, ops=ops2, variables=variables, collide=variables and rng.random() < 0.6)

def extra_cases(rep):
    # (1) API: an operation naming an item that an earlier operation of the same sequence removed refers to a missing item
    rng = random.Random(11); sp_, head, entries = pair_model(rng, n_species=2)
    text = render([], [('Tabulation', [('target', 'LAMMPS'), ('nr', '12'), ('cutoff', '5.5')]), ('Pair', entries)])
    k0 = entries[0][0]
    for nm, ov in (('remove-then-override', [ConfigParserOverrideTuple('Pair', k0, None), ConfigParserOverrideTuple('Pair', k0, 'as.polynomial 4.0')]),
                   ('remove-twice', [ConfigParserOverrideTuple('Pair', k0, None), ConfigParserOverrideTuple('Pair', k0, None)])):
        rep.case('api-sequence', nm)
        try:
            ConfigParser(io.StringIO(text), overrides=ov); rep.dev('api-' + nm, dict(kind='api-sequence', name=nm), 'accepted', 'configuration error: the item no longer exists when the second operation is applied')
        except ConfigurationException: rep.ok()
        except Exception as e: rep.dev('api-' + nm, dict(kind='api-sequence', name=nm), 'exception %r' % (e,), 'configuration error')
    # (1b) CLI: the same new item added twice (in one option, across two options, with another spelling): the hand-edited file would
    #      hold the key twice, which is a duplicate-entry configuration error; a single addition of it is accepted
    for nm, argv in (('one-option', ['--add-item', 'Pair:Zr-Zr=as.polynomial 1.0', 'Pair:Zr-Zr=as.polynomial 2.0']),
                     ('two-options', ['--add-item', 'Pair:Zr-Zr=as.polynomial 1.0', '--add-item', 'Pair:Zr-Zr=as.polynomial 2.0']),
                     ('two-spellings', ['--add-item', 'Pair:Zr-Zr=as.polynomial 1.0', 'Pair:Zr - Zr=as.polynomial 2.0'])):
        rep.case('cli-add-twice', nm)
        code, so, se, got = potable(argv, text)
        if code == 0 or 'configuration error' not in se:
            rep.dev('cli-add-twice-' + nm, dict(kind='cli-two-sections', name=nm), 'exit %r, %d bytes written, stderr %r' % (code, len(got or ''), se[-100:]), 'configuration error (the item is added twice)')
        else: rep.ok()
    rep.case('cli-add-twice', 'single')
    code, so, se, got = potable(['--add-item', 'Pair:Zr-Zr=as.polynomial 1.0'], text)
    if code != 0: rep.dev('cli-add-once', dict(kind='cli-two-sections', name='single'), 'exit %r %r' % (code, se[-100:]), 'accepted')
    else: rep.ok()
    # (2) CLI: the same key edited in two different sections in one invocation
    sp_, head, embed, dens, pairs = eam_model(random.Random(3), fs=False)
    tabl = [tuple(l.split(' : ')) for l in head if ' : ' in l]
    secs = [('Tabulation', tabl), ('EAM-Embed', embed), ('EAM-Density', dens), ('Pair', pairs)]
    a = embed[0][0]
    ne, nd = '>=0 as.polynomial 0.0 4.0', '>=0 as.polynomial 5.0'
    edited = [('Tabulation', tabl), ('EAM-Embed', [(k, ne if k == a else v) for k, v in embed]), ('EAM-Density', [(k, nd if k == a else v) for k, v in dens]), ('Pair', pairs)]
    rep.case('cli-two-sections', a)
    code, so, se, got = potable(['--override-item', 'EAM-Embed:%s=%s' % (a, ne), 'EAM-Density:%s=%s' % (a, nd)], render([], secs))
    want = tabulate_text(render([], edited))
    if got != want: rep.dev('cli-two-sections', dict(kind='cli-two-sections', key=a), 'exit %r: output differs from the file edited in both sections' % (code,), 'same bytes')
    else: rep.ok()

def table_form_cases(rep):
    """sections whose NAME contains a colon ([Table-Form:NAME]): their items are items of the file like any other -- listed once with their values,
    found by --item-value, and editable from the command line exactly as by hand"""
    tabl = [('target', 'LAMMPS'), ('nr', '12'), ('cutoff', '5.5')]
    tf = [('interpolation', 'cubic_spline'), ('x', '0 1 2 3 4 5 6'), ('y', '1 2 3 4 5 6 7')]
    secs = [('Tabulation', tabl), ('Pair', [('Al-Al', 'tab1'), ('Al-O', 'as.polynomial 1.0 2.0')]), ('Table-Form:tab1', tf), ('Other', [('foo', 'bar')])]
    text = render([], secs)
    # listing
    rep.case('table-form', 'list-items')
    code, so, se, _ = potable(['--list-items'], text, want_out=False)
    want_items = sorted('%s:%s=%s' % (s_, k, v) for s_, e in secs for k, v in e)
    got_items = sorted(l for l in so.split('\n') if l.strip())
    if got_items != want_items:
        rep.dev('table-form-list-items', dict(kind='table-form', name='list-items'), 'listing misses %r, has extra %r' % ([x for x in want_items if x not in got_items][:4], [x for x in got_items if x not in want_items][:4]),
                'every item of the file exactly once (%d items)' % len(want_items))
    else: rep.ok()
    rep.case('table-form', 'item-value')
    code, so, se, _ = potable(['--item-value', 'Table-Form:tab1:x'], text, want_out=False)
    if so.strip() != '0 1 2 3 4 5 6': rep.dev('table-form-item-value', dict(kind='table-form', name='item-value'), 'exit %r stdout %r stderr %r' % (code, so[-60:], se[-120:]), 'the value of x in [Table-Form:tab1]')
    else: rep.ok()
    # edits: override one table-form item, remove + add another, against the hand-edited file
    ny = '7 6 5 4 3 2 1'
    edited = [('Tabulation', tabl), ('Pair', secs[1][1]), ('Table-Form:tab1', [('interpolation', 'cubic_spline'), ('x', '0 1 2 3 4 5 6'), ('y', ny)]), ('Other', [('foo', 'bar')])]
    for nm, argv, ed in (('override', ['--override-item', 'Table-Form:tab1:y=' + ny], edited),
                         ('remove-and-add', ['--remove-item', 'Table-Form:tab1:y', '--add-item', 'Table-Form:tab1:y=' + ny], edited),
                         ('value-with-colons-and-equals', ['--add-item', 'Other:note=a:b=c'], [secs[0], secs[1], secs[2], ('Other', [('foo', 'bar'), ('note', 'a:b=c')])])):
        rep.case('table-form', nm)
        code, so, se, got = potable(argv, text)
        try: want = tabulate_text(render([], ed))
        except Exception as e: rep.dev('table-form-' + nm, dict(kind='table-form', name=nm), 'the hand-edited file is rejected: %r' % (e,), 'accepted'); continue
        if got != want: rep.dev('table-form-' + nm, dict(kind='table-form', name=nm), 'exit %r (%s): output differs from the hand-edited file' % (code, se[-140:].replace('\n', ' ')), 'same bytes')
        else:
            code, so, se, _ = potable(argv + ['--list-items'], text, want_out=False)
            wi = sorted('%s:%s=%s' % (s_, k, v) for s_, e in ed for k, v in e); gi = sorted(l for l in so.split('\n') if l.strip())
            if gi != wi: rep.dev('table-form-' + nm, dict(kind='table-form', name=nm, route='list-items'), 'listing of the edited file misses %r, extra %r' % ([x for x in wi if x not in gi][:3], [x for x in gi if x not in wi][:3]), 'every item once')
            else: rep.ok()
    # a section named exactly [Table-Form] (no name): not interpreted by anything, but its items are items of the file
    rep.case('table-form', 'bare-section')
    secs2 = [('Tabulation', tabl), ('Pair', [('Al-O', 'as.polynomial 1.0 2.0')]), ('Table-Form', [('foo', 'bar')]), ('Species', [('Al.charge', '3')])]
    code, so, se, _ = potable(['--list-items'], render([], secs2), want_out=False)
    wi = sorted('%s:%s=%s' % (s_, k, v) for s_, e in secs2 for k, v in e); gi = sorted(l for l in so.split('\n') if l.strip())
    if gi != wi: rep.dev('table-form-bare-section', dict(kind='table-form', name='bare-section'), 'listing misses %r, extra %r' % ([x for x in wi if x not in gi][:3], [x for x in gi if x not in wi][:3]), 'every item of the file once')
    else: rep.ok()
    # a VALUE that contains colons and '=' signs (an expression with ? :): everything after the first '=' that follows the item's first colon is the value
    pf = [('g(r, A)', 'A*r')]
    secs3 = [('Tabulation', tabl), ('Pair', [('Al-O', 'g 2.0')]), ('Potential-Form', pf)]
    nv = 'r < 2.5 ? A/r : 0.0'
    ed3 = [('Tabulation', tabl), ('Pair', [('Al-O', 'g 2.0')]), ('Potential-Form', [('g(r, A)', nv)])]
    for nm, argv in (('override-value-with-colon', ['--override-item', 'Potential-Form:g(r, A)=' + nv]),
                     ('remove-add-value-with-colon', ['--remove-item', 'Potential-Form:g(r, A)', '--add-item', 'Potential-Form:g(r, A)=' + nv])):
        rep.case('table-form', nm)
        code, so, se, got = potable(argv, render([], secs3))
        try: want = tabulate_text(render([], ed3))
        except Exception as e: rep.dev('table-form-' + nm, dict(kind='table-form', name=nm), 'the hand-edited file is rejected: %r' % (e,), 'accepted'); continue
        if got != want: rep.dev('table-form-' + nm, dict(kind='table-form', name=nm), 'exit %r (%s): output differs from the hand-edited file' % (code, se[-140:].replace('\n', ' ')), 'same bytes')
        else:
            code, so, se, _ = potable(argv + ['--item-value', 'Potential-Form:g(r, A)'], render([], secs3), want_out=False)
            if so.strip() != nv: rep.dev('table-form-' + nm, dict(kind='table-form', name=nm, route='item-value'), 'item value %r' % so.strip()[:60], nv)
            else: rep.ok()
    # an item of a missing table-form section is rejected as a configuration error
    rep.case('table-form', 'override-missing')
    code, so, se, got = potable(['--override-item', 'Table-Form:nope:x=1 2 3'], text)
    if code == 0 or 'configuration error' not in se: rep.dev('table-form-override-missing', dict(kind='table-form', name='override-missing'), 'exit %r %r' % (code, se[-100:]), 'configuration error')
    else: rep.ok()

def a5_model_cases(rep, seed, n):
    """validation of the A5 model used by contracts/overrides.py: every axiom of the four editing operations (and the well-formedness
    facts) is evaluated on the real _RawConfigParser for random states, sections and keys"""
    from atsim.potentials.config._config_parser import _RawConfigParser
    rng = random.Random(seed)
    SECS = ['Pair', 'Tabulation', 'EAM-Embed', 'Zz']; KEYS = ['A-B', 'A - B', 'nr', 'cutoff', 'O', ' O', 'x y', 'xy']
    def nfk(cp, k): return cp.optionxform(k)
    def obs(cp):
        has_sec = {s_: cp.has_section(s_) for s_ in SECS}
        opt = {}
        for s_ in SECS:
            for k_ in set(nfk(cp, k) for k in KEYS):
                h = cp.has_option(s_, k_)
                opt[(s_, k_)] = (h, cp._sections[s_][k_] if h else None)
        n = {s_: (len(cp[s_]) if cp.has_section(s_) else 0) for s_ in SECS}
        return has_sec, opt, n
    def mk():
        cp = _RawConfigParser()
        for s_ in rng.sample(SECS, rng.randint(0, 3)):
            cp.add_section(s_)
            for k_ in rng.sample(KEYS, rng.randint(0, 3)):
                if not cp.has_option(s_, k_): cp[s_][k_] = 'v%d' % rng.randint(0, 9)
        if rng.random() < 0.5: cp['Variables']['scale'] = '2.0'        # default-section keys must not be counted as own options
        return cp
    for i in range(n):
        cp = mk(); s_ = rng.choice(SECS); k_ = rng.choice(KEYS); v_ = 'new%d' % i
        op = rng.choice(['set', 'rem_opt', 'add_sec', 'rem_sec'])
        hs0, o0, n0 = obs(cp)
        nk = nfk(cp, k_)
        case = dict(kind='a5-model', op=op, section=s_, key=k_, state={x: dict(cp._sections[x]) for x in cp.sections()})
        rep.case('a5-model/' + op, case)
        # preconditions of the assumed contracts
        if op in ('set', 'rem_opt') and not hs0[s_]: rep.ok(); continue
        if op == 'add_sec' and hs0[s_]: rep.ok(); continue
        if op == 'set': cp[s_][k_] = v_
        elif op == 'rem_opt': cp.remove_option(s_, k_)
        elif op == 'add_sec': cp.add_section(s_)
        else: cp.remove_section(s_)
        hs1, o1, n1 = obs(cp)
        want_hs, want_o, want_n = dict(hs0), dict(o0), dict(n0)
        if op == 'set':
            want_o[(s_, nk)] = (True, v_); want_n[s_] = n0[s_] + (0 if o0[(s_, nk)][0] else 1)
        elif op == 'rem_opt':
            want_o[(s_, nk)] = (False, None); want_n[s_] = n0[s_] - (1 if o0[(s_, nk)][0] else 0)
        elif op == 'add_sec': want_hs[s_] = True
        else:
            want_hs[s_] = False; want_n[s_] = 0
            for (a_, b_) in o0:
                if a_ == s_: want_o[(a_, b_)] = (False, None)
        wf_ok = all((not h) or (hs1[a_] and n1[a_] >= 1) for (a_, b_), (h, _) in o1.items()) and all(x >= 0 for x in n1.values())
        if (hs1, o1, n1) != (want_hs, want_o, want_n) or not wf_ok:
            rep.dev('a5-model-%s' % op, case, 'observables after the operation: %r' % ((hs1, {k: v for k, v in o1.items() if v[0]}, n1),),
                    'the A5 model of contracts/overrides.py: %r' % ((want_hs, {k: v for k, v in want_o.items() if v[0]}, want_n),))
        else: rep.ok()

if __name__ == '__main__':
    pl = payload(); rep = Report('C14')
    if pl.get('mode') != 'replay': a5_model_cases(rep, pl.get('seed', 0), 10 * pl.get('n', 40))
    if pl.get('mode') == 'replay': rep.case('replay', pl['input']); check_case(rep, pl['input'], 'replay')
    else:
        rng = random.Random(pl.get('seed', 0))
        extra_cases(rep); table_form_cases(rep)
        for i in range(pl.get('n', 40)):
            c = gen_case(rng); rep.case('+'.join(sorted(set(o[0] for o in c['ops']))), c); check_case(rep, c, 'seeded-%d' % i)
    rep.finish()

"""Contracts for the error handling of the configuration layer (C16): which exceptions may leave, and exactly when."""
import z3
from .common import *
from .ext_configparser import *
from . import tablereaders as TRc

F_CP = 'atsim/potentials/config/_config_parser.py'
F_MOD = 'atsim/potentials/_modifiers.py'
X, Y, XYk = z3.StringVal('x'), z3.StringVal('y'), z3.StringVal('xy')

# _parse_x_y / _parse_xy as callees of _parse_data: they subscript the section, so the keys must be present
def _xs_of(v, key):
    ts = TRc.split_ws(sec_get(v.section, z3.StringVal(key)))
    return TRc.tokvals(ts, z3.Length(ts))
REG.add(Contract(F_CP, '_TableFormSection._parse_x_y',
    params=[('self', T.Obj('_TableFormSection')), ('section_name', T.Str), ('section', T.Obj('SectionProxy'))],
    requires=lambda v: [sec_has(v.section, X), sec_has(v.section, Y)],        # (it subscripts section["x"] and section["y"]: established by _parse_data)
    result=T.Tuple(T.List(T.Real), T.List(T.Real)),
    ensures=lambda v, old, res: [res[0] == _xs_of(v, 'x'), res[1] == _xs_of(v, 'y'), z3.Length(res[0]) == z3.Length(res[1])],
    post_names=['x-is-the-numbers-of-the-x-entry', 'y-is-the-numbers-of-the-y-entry', 'only-equal-counts-return'],
    comprehensions={0: (TRc.tokvals, lambda v: [TRc.split_ws(sec_get(v.section, X))]), 1: (TRc.tokvals, lambda v: [TRc.split_ws(sec_get(v.section, Y))])},
    raises_when=lambda v, old, exc: [z3.BoolVal(exc.cls == 'ConfigParserException')], on_raise=lambda v, old: [], raises_classes=['ConfigParserException'],
    carries=['post', 'raises'], props=['C16', 'C18']))

def _data_post(v, old, res):
    s = v.section
    return [z3.Or(z3.And(sec_has(s, X), sec_has(s, Y), z3.Not(sec_has(s, XYk))), z3.And(sec_has(s, XYk), z3.Not(sec_has(s, X)), z3.Not(sec_has(s, Y))))]

def _data_raises(v, old, exc):
    s = v.section
    bad = z3.Not(z3.Or(z3.And(sec_has(s, X), sec_has(s, Y), z3.Not(sec_has(s, XYk))), z3.And(sec_has(s, XYk), z3.Not(sec_has(s, X)), z3.Not(sec_has(s, Y)))))
    # only configuration errors leave; a ConfigParserException raised by the guards of this function means the combination of keys is bad
    return [z3.BoolVal(exc.cls == 'ConfigParserException' or exc.origin is not None)] + ([bad] if exc.origin is None and exc.cls == 'ConfigParserException' else [])

REG.add(Contract(F_CP, '_TableFormSection._parse_data',
    params=[('self', T.Obj('_TableFormSection')), ('section_name', T.Str), ('section', T.Obj('SectionProxy'))],
    result=T.Tuple(T.List(T.Real), T.List(T.Real)),
    ensures=_data_post, post_names=['returns-only-for-x+y-or-xy'],
    raises_when=_data_raises, on_raise=lambda v, old: [],
    carries=['post', 'raises'], props=['C16', 'C18']))

# ---------------------------------------------------------------- spline factories
REG.add_class(ClassDecl('atsim/potentials/spline/__init__.py', 'Spline_Point', {'_r': T.Real, '_potential_function': T.Fn, '_deriv_callable': T.Fn, '_deriv2_callable': T.Fn}))
REG.add_class(ClassDecl('atsim/potentials/config/_common.py', 'PotentialFormInstanceTuple', {'parameters': T.List(T.Real), 'potential_form': T.Str}, external=True, view_of='PFInstance'))
REG.add_class(ClassDecl(F_MOD, '_Buck4_Spline_Factory', {}))
REG.add_class(ClassDecl(F_MOD, '_Exp_Spline_Factory', {}))
REG.add_class(ClassDecl('atsim/potentials/spline/__init__.py', 'Buck4_Spline', {'_r_min': T.Real}))
REG.add_class(ClassDecl('atsim/potentials/spline/__init__.py', 'Exp_Spline', {}))
SPt = ObjSort('Spline_Point'); pt_r = field('Spline_Point', '_r', RealS)
params_of = field('PotentialFormInstanceTuple', 'parameters', z3.SeqSort(RealS))

REG.add(Contract('atsim/potentials/spline/__init__.py', 'Buck4_Spline.__init__',
    params=[('self', T.New('Buck4_Spline')), ('detach_point', T.Obj('Spline_Point')), ('attach_point', T.Obj('Spline_Point')), ('r_min', T.Real)],
    requires=lambda v: [pt_r(v.detach_point) < v.r_min, v.r_min < pt_r(v.attach_point)],
    ensures=lambda v, old, res: [], trusted=True, note='constructor contract used at the factory call site: r_min strictly between the points (C10 carries its algebra)', props=['C16']))
REG.add(Contract('atsim/potentials/spline/__init__.py', 'Exp_Spline.__init__',
    params=[('self', T.New('Exp_Spline')), ('detach_point', T.Obj('Spline_Point')), ('attach_point', T.Obj('Spline_Point'))],
    ensures=lambda v, old, res: [], trusted=True, note='constructor contract used at the factory call site', props=['C16']))

REG.add_class(ClassDecl('atsim/potentials/spline/__init__.py', 'Custom_SplinePotential', {}))
REG.add(Contract('atsim/potentials/spline/__init__.py', 'Custom_SplinePotential.__init__', params=[('self', T.New('Custom_SplinePotential')), ('spline', T.Any)],
    ensures=lambda v, old, res: [], trusted=True, note='wraps a spline object into a potential callable: stores the spline and its two points, sets up derivative callables (no evaluation); its three-region behaviour is C10', props=['C16']))

def _b4_ok(v):
    ps = params_of(v.spline_defn)
    return z3.And(z3.Length(ps) == 1, pt_r(v.detach_point) < ps[0], ps[0] < pt_r(v.attach_point))

REG.add(Contract(F_MOD, '_Buck4_Spline_Factory.build_spline',
    params=[('self', T.Obj('_Buck4_Spline_Factory')), ('detach_point', T.Obj('Spline_Point')), ('attach_point', T.Obj('Spline_Point')), ('spline_defn', T.Obj('PotentialFormInstanceTuple'))],
    ensures=lambda v, old, res: [_b4_ok(v)], post_names=['returns-only-for-one-parameter-strictly-between-the-points'],
    raises_when=lambda v, old, exc: [z3.BoolVal(exc.cls == 'ConfigurationException'), z3.Not(_b4_ok(v))], on_raise=lambda v, old: [z3.Not(_b4_ok(v))], raises_classes=['ConfigurationException'],
    carries=['post', 'raises'], props=['C16', 'C10']))

REG.add(Contract(F_MOD, '_Exp_Spline_Factory.build_spline',
    params=[('self', T.Obj('_Exp_Spline_Factory')), ('detach_point', T.Obj('Spline_Point')), ('attach_point', T.Obj('Spline_Point')), ('spline_defn', T.Obj('PotentialFormInstanceTuple'))],
    ensures=lambda v, old, res: [z3.Length(params_of(v.spline_defn)) == 0], post_names=['returns-only-without-parameters'],
    raises_when=lambda v, old, exc: [z3.BoolVal(exc.cls == 'ConfigurationException'), z3.Length(params_of(v.spline_defn)) > 0], on_raise=lambda v, old: [z3.Length(params_of(v.spline_defn)) > 0], raises_classes=['ConfigurationException'],
    carries=['post', 'raises'], props=['C16', 'C10']))

# ---------------------------------------------------------------- [Species] values: text -> int / float / text by property name
from pyvc.symexec import parses_int, parses_float, str_to_int, str_to_real
def _sp_kind(p):
    f = z3.Or(*[p == z3.StringVal(x) for x in ('atomic_mass', 'covalent_radius', 'lattice_constant', 'charge')])
    return f, p == z3.StringVal('atomic_number')
def _sp_post(v, old, res):
    isf, isi = _sp_kind(v.property_name)
    return [z3.Implies(isi, z3.And(parses_int(v.v), res == Val.VI(str_to_int(v.v)))),
            z3.Implies(isf, z3.And(parses_float(v.v), res == Val.VR(str_to_real(v.v)))),
            z3.Implies(z3.Not(z3.Or(isf, isi)), Val.is_VS(res))]
def _sp_raises(v, old, exc):
    isf, isi = _sp_kind(v.property_name)
    return [z3.BoolVal(exc.cls == 'ConfigParserException'), z3.Or(z3.And(isi, z3.Not(parses_int(v.v))), z3.And(isf, z3.Not(parses_float(v.v))))]
REG.add_class(ClassDecl(F_CP, 'ConfigParserSp', {}, pyname='ConfigParser'))
REG.add(Contract(F_CP, 'ConfigParser._convert_species_type', params=[('self', T.Obj('ConfigParserSp')), ('property_name', T.Str), ('v', T.Str)], result=T.Val,
    ensures=_sp_post, post_names=['atomic_number-is-an-int', 'masses-radii-lattice-constants-charges-are-floats', 'anything-else-stays-text'],
    raises_when=_sp_raises, on_raise=lambda v, old: [], raises_classes=['ConfigParserException'], carries=['post', 'raises'], props=['C16', 'C03']))

"""Contracts for the [Tabulation] grid logic in config/_config_parser.py (C11)."""
import z3
from .common import *
from .ext_configparser import *
from pyvc.symexec import parses_int, parses_float, str_to_int, str_to_real

FILE = 'atsim/potentials/config/_config_parser.py'
REG.add_class(ClassDecl(FILE, '_TabulationCutoff', {'_cutoff_name': T.Str, '_nr_attr': T.Str, '_dr_attr': T.Str, '_cutoff_attr': T.Str, '_template_dict': T.Val}))
TC = ObjSort('_TabulationCutoff')
nr_attr = field('_TabulationCutoff', '_nr_attr', StrS); dr_attr = field('_TabulationCutoff', '_dr_attr', StrS); cut_attr = field('_TabulationCutoff', '_cutoff_attr', StrS)

def given(sec, key): return sec_has(sec, key)
def NRv(s, sec): return str_to_int(sec_get(sec, nr_attr(s)))
def DRv(s, sec): return str_to_real(sec_get(sec, dr_attr(s)))
def CUTv(s, sec): return str_to_real(sec_get(sec, cut_attr(s)))

KR = z3.Int('k!rows')
def robust_hyps(cut, dr):
    """the statement's case for the row count: cutoff is a whole multiple k of dr, 1 <= k <= 20000 (grids used in practice).
    The last fact (cut/dr == k) follows from the others (lemma C11/lemma/quotient-of-a-whole-multiple, proved separately)
    and is stated so that the robustness query stays linear."""
    return [KR >= 1, KR <= 20000, dr > 0, cut == real(KR) * dr]

def _post(v, old, res):
    """C11 statement: any two of nr / dr / cutoff fix the third; a value of 0 counts as 'not given' for the combination test
    (truthiness) but is still rejected as non-positive"""
    s, sec = v.self, v.cp_tabulation_section
    has_nr, has_dr, has_cut = given(sec, nr_attr(s)), given(sec, dr_attr(s)), given(sec, cut_attr(s))
    nr, dr, cut = NRv(s, sec), DRv(s, sec), CUTv(s, sec)
    rnr, rcut = res
    t_nr, t_dr, t_cut = z3.And(has_nr, nr != 0), z3.And(has_dr, dr != 0), z3.And(has_cut, cut != 0)
    return [
        # nr with dr: cutoff = (nr-1)*dr, nr unchanged
        z3.Implies(z3.And(t_nr, t_dr), z3.And(z3.Not(rcut.isnone), rcut.val.z == real(nr - 1) * dr, z3.Not(rnr.isnone), rnr.val.z == nr)),
        # cutoff with nr: both returned unchanged (dr = cutoff/(nr-1) is derived by the tabulation object: PairTabulation.dr)
        z3.Implies(z3.And(t_nr, t_cut, z3.Not(t_dr)), z3.And(rnr.val.z == nr, rcut.val.z == cut, z3.Not(rnr.isnone), z3.Not(rcut.isnone))),
        # cutoff with dr where cutoff = k*dr for a whole k: exactly k+1 rows
        z3.Implies(z3.And(t_cut, t_dr, z3.Not(t_nr)), z3.And(z3.Not(rnr.isnone), rcut.val.z == cut,
                   z3.ForAll([z3.Int('k!11')], z3.Implies(z3.And(z3.Int('k!11') >= 1, cut == real(z3.Int('k!11')) * dr), rnr.val.z == z3.Int('k!11') + 1)))),
        # whatever is returned is positive
        z3.Implies(z3.Not(rnr.isnone), rnr.val.z > 0), z3.Implies(z3.Not(rcut.isnone), rcut.val.z > 0),
        # omitted values stay None (the factories supply the documented defaults)
        z3.Implies(z3.And(z3.Not(has_nr), z3.Not(has_dr)), rnr.isnone), z3.Implies(z3.And(z3.Not(has_cut), z3.Not(has_dr)), rcut.isnone),
        # a returning call was not given all three, nor a step alone, nor a non-positive value
        z3.Not(z3.And(t_nr, t_dr, t_cut)), z3.Not(z3.And(has_dr, z3.Not(t_nr), z3.Not(t_cut))),
        # a single row defines no step (cutoff/(nr-1)): at least two rows are returned
        z3.Implies(z3.Not(rnr.isnone), rnr.val.z >= 2),
    ]

REG.add(Contract(FILE, '_TabulationCutoff._init_cutoff',
    params=[('self', T.Obj('_TabulationCutoff')), ('cp_tabulation_section', T.Obj('SectionProxy'))],
    result=T.Tuple(T.Opt(T.Int), T.Opt(T.Real)),
    ensures=_post,
    post_names=['nr+dr->cutoff', 'nr+cutoff-kept', 'cutoff+dr->k+1-rows', 'nr-positive', 'cutoff-positive', 'nr-omitted-stays-None', 'cutoff-omitted-stays-None',
                'all-three-rejected', 'step-alone-rejected', 'at-least-two-rows'],
    raises_when=lambda v, old, exc: [z3.BoolVal(exc.cls in ('ConfigParserException',))],
    # the statement's case for the row count: cutoff is a whole multiple k of dr, 1 <= k <= 20000 (grids used in practice)
    robust_when=lambda v: robust_hyps(CUTv(v.self, v.cp_tabulation_section), DRv(v.self, v.cp_tabulation_section)),
    carries=['post', 'raises'], props=['C11', 'C16']))

# small helper with a try/except: executed from its AST at each call site
REG.add(Contract(FILE, '_get_or_none', inline=True))

REG.get(FILE, '_TabulationCutoff._init_cutoff').robust_bound = 20001
REG.get(FILE, '_TabulationCutoff._init_cutoff').robust_value = lambda v: real(KR)      # in that case the quotient cutoff/dr is exactly k

import io, warnings, logging, math, random, itertools
warnings.simplefilter("ignore"); logging.disable(logging.CRITICAL)
from atsim.potentials import Multi_Range_Defn, create_Multi_Range_Potential_Form, plus, product, pow as ppow, potentialforms as pf, TableReader, plotToFile
from atsim.potentials.config import Configuration
from atsim.potentials.spline import Buck4_SplinePotential, SplinePotential
ok=True
def chk(c,msg):
    global ok
    if not c: ok=False; print("MISMATCH", msg)
# C08 random
random.seed(1)
for trial in range(3000):
    n=random.randint(1,5)
    starts=[random.choice([0.0,1.0,2.0,3.0]) for _ in range(n)]
    marks=[random.choice(['>','>=']) for _ in range(n)]
    if len(set(zip(marks,starts)))<n: continue
    defs=[Multi_Range_Defn(m,s,(lambda v: (lambda r: v))(float(i+1))) for i,(m,s) in enumerate(zip(marks,starts))]
    random.shuffle(defs)
    mr=create_Multi_Range_Potential_Form(*defs)
    for r in [-1,0,0.5,1,1.5,2,2.5,3,3.5]:
        cands=[(s, 0 if m=='>=' else 1, i+1) for i,(m,s) in enumerate(zip(marks,starts)) if (r>s or (m=='>=' and r==s))]
        exp=max(cands)[2] if cands else 0.0
        chk(mr(r)==exp, "C08 %s %s r=%s got %s exp %s"%(marks,starts,r,mr(r),exp))
# C09 nested
cfg="""[Tabulation]
target: LAMMPS
[Pair]
A-B : sum(as.buck 1000 0.3 32, product(as.constant 2, trans(as.polynomial 1 2 3, as.constant 0.5)), pow(as.polynomial 0 1, as.constant 2), f 2.0)
[Potential-Form]
f(r, a) = a*g(r, 3) + as.buck(r, 10, 0.5, 0) + pymath.cosh(r)
g(x, b) = x^b
"""
t=Configuration().read(io.StringIO(cfg)); p=t.potentials[0]
def ref(r): return (1000*math.exp(-r/0.3)-32/r**6) + 2*(1+2*(r+0.5)+3*(r+0.5)**2) + r**2 + (2.0*r**3 + 10*math.exp(-r/0.5) + math.cosh(r))
for r in (0.7,1.3,2.9): chk(abs(p.energy(r)-ref(r))<1e-9*abs(ref(r)), "C09 %s %s"%(p.energy(r), ref(r)))
# derivative of nested (analytic where possible)
h=1e-5
for r in (0.7,1.3,2.9):
    num=(ref(r+h)-ref(r-h))/(2*h); chk(abs(-p.force(r)-num)<1e-5*abs(num), "C07 nested deriv %s %s"%(-p.force(r),num))
# C10
b4=pf.buck4(1000.0,0.3,30.0, 1.0, 1.8, 2.5)
cfg2="""[Tabulation]
target: LAMMPS
[Pair]
A-B : spline(as.buck 1000.0 0.3 0 >1.0 buck4_spline 1.8 >2.5 as.buck 0 1 30.0)
C-D : as.buck4 1000.0 0.3 30.0 1.0 1.8 2.5
"""
t2=Configuration().read(io.StringIO(cfg2)); s1=t2.potentials[0]; s2=t2.potentials[1]
for r in (0.5,1.0,1.2,1.8,2.0,2.5,3.0):
    chk(abs(b4(r)-s1.energy(r))<1e-9*max(1,abs(b4(r))) and abs(b4(r)-s2.energy(r))<1e-9*max(1,abs(b4(r))), "C10 equiv r=%s %s %s %s"%(r,b4(r),s1.energy(r),s2.energy(r)))
e=1e-7
for x in (1.0,1.8,2.5):
    for fn,name in ((b4,'v'),(b4.deriv,'d1'),(b4.deriv2,'d2')):
        a,b=fn(x-e),fn(x+e); chk(abs(a-b)<1e-4*max(1,abs(a)), "C10 continuity %s at %s: %s %s"%(name,x,a,b))
chk(abs(b4.deriv(1.8))<1e-8, "C10 stationary %s"%b4.deriv(1.8))
sp=SplinePotential(pf.zbl(14,8), pf.buck(18003,0.3,32.0), 0.8, 1.4)
for x in (0.8,1.4):
    for fn,name in ((sp,'v'),(sp.deriv,'d1'),(sp.deriv2,'d2')):
        a,b=fn(x-e),fn(x+e); chk(abs(a-b)<1e-4*max(1,abs(a)), "C10 exp continuity %s at %s: %s %s"%(name,x,a,b))
# C18
tr=TableReader(io.StringIO("# c\n3 30\n1 10\n\n2 25\n"))
chk(tr(1)==10 and tr(2)==25 and tr(3)==30 and tr(0.9)==0.0 and tr(3.1)==0.0 and abs(tr(1.5)-17.5)<1e-12, "C18 reader")
o=io.StringIO(); plotToFile(o, 1.0, 2.0, lambda x: x*x, 4); rows=[ln.split() for ln in o.getvalue().strip().split("\n")]
chk(len(rows)==4 and [float(a) for a,b in rows]==[1.0,1.25,1.5,1.75], "C18 plot %s"%rows)
print("ALL OK" if ok else "SOME MISMATCH")

"""C12 oracle: same model -> same bytes, whatever the history within the process and whatever PYTHONHASHSEED in a fresh process."""
from _cfg import *
import subprocess, hashlib

HERE = os.path.dirname(os.path.abspath(__file__))

def model_text(rng, kind):
    if kind == 'pair':
        sp_, head, entries = pair_model(rng, n_species=3)
        secs = [('Tabulation', [('target', rng.choice(['LAMMPS', 'GULP', 'DLPOLY'])), ('nr', '12'), ('cutoff', '5.5')]), ('Pair', entries),
                ('Potential-Form', [('f(r, a)', 'a*g(r, 2.0)'), ('g(r, b)', 'b + r')])]
        secs[1][1].append(('Zr-Zr', 'sum(f 1.5, f 2.5, as.buck 1000 0.3 3)'))
        return render([], secs)
    fs = kind == 'fs'
    sp_, head, embed, dens, pairs = eam_model(rng, fs=fs, target=rng.choice(['setfl_fs', 'DL_POLY_EAM_fs'] if fs else ['setfl', 'DL_POLY_EAM', 'eam_adp']))
    # under-specified model: species that only occur in densities or pairs (zero filled by the builder)
    extra = [s for s in SPECIES if s not in sp_][:rng.randint(0, 3)]
    for s in extra:
        if fs: dens.append(('%s->%s' % (sp_[0], s), '>=0 as.polynomial 0.5'))
        else: dens.append((s, '>=0 as.polynomial 0.5'))
        if rng.random() < 0.5: pairs.append(('%s-%s' % (s, sp_[0]), '>=0 as.polynomial 0.1'))
    tabl = [tuple(l.split(' : ')) for l in head if ' : ' in l]
    secs = [('Tabulation', tabl), ('EAM-Embed', embed), ('EAM-Density', dens), ('Pair', pairs)]
    if dict(tabl)['target'] == 'eam_adp':
        secs += [('EAM-ADP-Dipole', [(pairs[0][0], '>=0 as.polynomial 0.3')]), ('EAM-ADP-Quadrupole', [(pairs[0][0], '>=0 as.polynomial 0.2')])]
    return render([], secs)

def digest(text): return hashlib.sha256(text.encode()).hexdigest()[:16]

def fresh_process(ini, hashseed):
    env = dict(os.environ); env['PYTHONHASHSEED'] = str(hashseed)
    p = subprocess.run([sys.executable, '-W', 'ignore', os.path.abspath(__file__), '--one'], input=ini, capture_output=True, text=True, env=env)
    return p.stdout.strip().split('\n')[-1] if p.stdout.strip() else 'ERR ' + p.stderr[-200:]

def check_case(rep, case, name):
    rng = random.Random(case['seed'])
    ini = model_text(rng, case['kind'])
    try: ref = tabulate_text(ini)
    except Exception as e: rep.dev(name, case, 'exception %r' % (e,), 'a table'); return
    # history within the process: other models built and evaluated in between, potentials evaluated in another order, written twice
    other = model_text(random.Random(case['seed'] + 1), random.Random(case['seed']).choice(['pair', 'eam', 'fs']))
    try: tabulate_text(other)
    except Exception: pass
    if case['kind'] != 'pair':
        # ... and the same model with [Species] overrides for every element (per-model metadata must not outlive that model)
        import re
        els = sorted(set(re.findall(r'^([A-Z][a-z]?)(?:->[A-Z][a-z]?)? :', ini, re.M)))
        over = ini + '\n[Species]\n' + ''.join('%s.atomic_mass : 999.5\n%s.lattice_constant : 7.75\n%s.atomic_number : 3\n%s.lattice_type : bcc\n' % (e, e, e, e) for e in els)
        try: tabulate_text(over)
        except Exception: pass
    cp = ConfigParser(io.StringIO(ini)); tab = Configuration().read_from_parser(cp)
    for p in reversed(tab.potentials):
        for r_ in (3.3, 0.7, 1.9): p.energy(r_)
    o1, o2 = io.StringIO(), io.StringIO(); tab.write(o1); tab.write(o2)
    if o1.getvalue() != ref or o2.getvalue() != ref:
        rep.dev(name, case, 'output changed after other models were built / potentials evaluated / a second write', 'byte-identical'); return
    want = digest(ref)
    for hs in case['hashseeds']:
        got = fresh_process(ini, hs)
        if got != want:
            rep.dev(name, dict(case, hashseeds=[hs]), 'PYTHONHASHSEED=%s gives %s' % (hs, got[:60]), 'digest %s (as in this process)' % want); return
    rep.ok(2 + len(case['hashseeds']))

def parameter_collision_cases(rep):
    """one custom form used with several parameter tuples, evaluated back to back in both orders: the energy of a pair is a function of
    ITS definition and r.  The tuples are chosen to collide under hash() (in CPython hash(-1.0) == hash(-2.0)) and under float equality
    of sums, which is what a per-form memo keyed on the arguments would confuse."""
    forms = [('power(r, A, n)', 'A*r^n'), ('lin(r, a, b)', 'a + b*r')]
    pairs = [('O-O', 'power 2.0 -1', lambda r: 2.0 / r), ('U-U', 'power 2.0 -2', lambda r: 2.0 / r ** 2), ('O-U', 'lin -1 -2', lambda r: -1 - 2 * r), ('U-Zr', 'lin -2 -1', lambda r: -2 - r),
             ('Zr-Zr', 'power -1.0 2', lambda r: -r * r), ('O-Zr', 'power -2.0 2', lambda r: -2 * r * r)]
    for order, seq in (('file-order', pairs), ('reversed', list(reversed(pairs)))):
        rep.case('parameter-collision', order)
        ini = render([], [('Tabulation', [('target', 'LAMMPS'), ('nr', '6'), ('cutoff', '2.5')]), ('Pair', [(k, '>0 ' + d) for k, d, _ in seq]), ('Potential-Form', forms)])
        try:
            tab = Configuration().read(io.StringIO(ini))
            bad = []
            for p, (k, d, f) in zip(tab.potentials, seq):
                for r_ in (0.5, 1.0, 1.5, 2.5):
                    got = p.energy(r_)
                    if abs(got - f(r_)) > 1e-9 * max(1.0, abs(f(r_))): bad.append('%s (%s) at r=%r: %r, its definition gives %r' % (k, d, r_, got, f(r_)))
            # interleaved evaluation
            for r_ in (0.5, 1.5):
                vals = [(p.energy(r_), f(r_), k) for p, (k, d, f) in zip(tab.potentials, seq)]
                bad += ['%s interleaved at r=%r: %r vs %r' % (k, r_, g, w) for g, w, k in vals if abs(g - w) > 1e-9 * max(1.0, abs(w))]
            if bad: rep.dev('parameter-collision-' + order, dict(kind='parameter-collision', order=order), bad[0] + (' (+%d more)' % (len(bad) - 1) if len(bad) > 1 else ''), 'each pair evaluates its own definition')
            else: rep.ok()
        except Exception as e:
            rep.dev('parameter-collision-' + order, dict(kind='parameter-collision', order=order), 'exception %r' % (e,), 'a table')

if __name__ == '__main__':
    if '--one' in sys.argv:
        print(digest(tabulate_text(sys.stdin.read()))); sys.exit(0)
    pl = payload(); rep = Report('C12')
    if pl.get('mode') == 'replay' and pl['input'].get('kind') == 'parameter-collision': parameter_collision_cases(rep)
    elif pl.get('mode') == 'replay': rep.case('replay', pl['input']); check_case(rep, pl['input'], 'replay')
    else:
        rng = random.Random(pl.get('seed', 0))
        parameter_collision_cases(rep)
        for i in range(pl.get('n', 12)):
            c = dict(kind=rng.choice(['pair', 'eam', 'eam', 'fs']), seed=rng.randint(0, 10 ** 6), hashseeds=[1, 2, 3, 4] if i < 6 else [rng.randint(0, 1000)])
            rep.case(c['kind'], c); check_case(rep, c, 'seeded-%d' % i)
    rep.finish()

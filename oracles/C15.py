"""C15 oracle: a file with ${NAME} placeholders tabulates like the hand-substituted file; unused variables change nothing."""
from _cfg import *

def check_case(rep, case, name):
    if case.get('kind') == 'nested': nested_cases(rep); return
    if case.get('kind') == 'section-placeholders': section_placeholder_cases(rep); return
    if case.get('kind') == 'table-form': table_form_cases(rep); return
    rng = random.Random(case['seed'])
    kind = case['kind']
    if kind == 'pair':
        sp_, head, entries = pair_model(rng, n_species=2)
        secs = [('Tabulation', [('target', 'LAMMPS'), ('nr', '12'), ('cutoff', '5.5')]), ('Pair', entries)]
    else:
        sp_, head, embed, dens, pairs = eam_model(rng, fs=(kind == 'fs'))
        tabl = [tuple(l.split(' : ')) for l in head if ' : ' in l]
        secs = [('Tabulation', tabl), ('EAM-Embed', embed), ('EAM-Density', dens), ('Pair', pairs), ('Species', [('%s.atomic_mass' % sp_[0], '55.5')])]
    if case.get('custom_form'):
        secs.append(('Potential-Form', [('myf(r, a)', 'a*r + 1.5')]))
        secs[[n for n, _ in secs].index('Pair')][1].append(('Zr-Zr', 'myf 2.5'))
    plain = render([], secs)
    # lift some literal numbers into [Variables]
    import re
    variables = []; templated = []
    lifted = 0
    for n, es in secs:
        new = []
        for k, v in es:
            toks = v.split()
            for i, t in enumerate(toks):
                if re.match(r'^-?\d+(\.\d+)?$', t) and rng.random() < case['p'] and n != 'Species':
                    vn = case['names'][lifted % len(case['names'])] + (str(lifted) if lifted >= len(case['names']) else '')
                    variables.append((vn, t)); toks[i] = '${%s}' % vn; lifted += 1
            new.append((k, ' '.join(toks)))
        templated.append((n, new))
    variables += [(u, '42') for u in case.get('unused', [])]
    if not variables: return
    templ = render([], [('Variables', variables)] + templated)
    try: want = tabulate_text(plain)
    except Exception as e: rep.dev(name, case, 'plain file rejected: %r' % (e,), 'accepted'); return
    try: got = tabulate_text(templ)
    except Exception as e: rep.dev(name, case, 'templated file: %s: %s' % (type(e).__name__, str(e)[:100]), 'same output as the hand-substituted file'); return
    if got != want: rep.dev(name, case, 'templated file tabulates differently', 'same bytes'); return
    rep.ok()

def gen_case(rng):
    names = rng.sample(['rho', 'A', 'scale', 'x', 'cutoff', 'nr', 'target', 'Al', 'c0', 'xy'], 3)
    return dict(kind=rng.choice(['pair', 'eam', 'fs']), seed=rng.randint(0, 10 ** 6), p=rng.choice([0.0, 0.3, 0.7]), names=names,
                unused=rng.sample(['unused', 'dr', 'y', 'interpolation', 'O-O'], rng.randint(0, 2)), custom_form=rng.random() < 0.3)

def nested_cases(rep):
    plain = '[Tabulation]\ntarget : LAMMPS\nnr : 12\ncutoff : 5.5\n\n[Species]\nO.charge : -2.0\n\n[Pair]\nO-O : as.buck 1388.77 0.3623 175.0\nU-O : as.coul 4.0 -2.0\n'
    templ = ('[Variables]\nrho : 0.3623\nC_OO : 175.0\ntail : ${rho} ${C_OO}\nOO_params : 1388.77 ${tail}\nq_O : -2.0\n\n[Tabulation]\ntarget : LAMMPS\nnr : 12\ncutoff : 5.5\n\n'
             '[Species]\nO.charge : ${q_O}\n\n[Pair]\nO-O : as.buck ${OO_params}\nU-O : as.coul 4.0 ${Species:O.charge}\n')
    rep.case('nested', 'variables built from variables; ${Species:O.charge} whose value is ${q_O}')
    try: want = tabulate_text(plain)
    except Exception as e: rep.dev('nested-placeholders', dict(kind='nested'), 'plain file rejected %r' % (e,), 'accepted'); return
    try: got = tabulate_text(templ)
    except Exception as e: rep.dev('nested-placeholders', dict(kind='nested'), 'templated file: %s: %s' % (type(e).__name__, str(e)[:120]), 'same output as the hand-substituted file'); return
    if got != want: rep.dev('nested-placeholders', dict(kind='nested'), 'templated file tabulates differently', 'same bytes')
    else: rep.ok()

def section_placeholder_cases(rep):
    """${SECTION:KEY} placeholders in a file that defines no variable at all (no [Variables] section, or an empty one)"""
    plain = '[Tabulation]\ntarget : LAMMPS\nnr : 12\ncutoff : 5.5\n\n[Species]\nGd.atomic_number : 64\nO.atomic_number : 8\n\n[Pair]\nGd-O : as.zbl 64 8\nO-O : as.buck 1388.77 0.3623 5.5\n'
    body = '[Tabulation]\ntarget : LAMMPS\nnr : 12\ncutoff : 5.5\n\n[Species]\nGd.atomic_number : 64\nO.atomic_number : 8\n\n[Pair]\nGd-O : as.zbl ${Species:Gd.atomic_number} ${Species:O.atomic_number}\nO-O : as.buck 1388.77 0.3623 ${Tabulation:cutoff}\n'
    for nm, templ in (('no-variables-section', body), ('empty-variables-section', '[Variables]\n\n' + body), ('one-unused-variable', '[Variables]\nunused : 1\n\n' + body)):
        rep.case('section-placeholders', nm)
        case = dict(kind='section-placeholders', name=nm)
        try: want = tabulate_text(plain)
        except Exception as e: rep.dev('section-placeholders-' + nm, case, 'plain file rejected %r' % (e,), 'accepted'); return
        try: got = tabulate_text(templ)
        except Exception as e: rep.dev('section-placeholders-' + nm, case, 'templated file: %s: %s' % (type(e).__name__, str(e)[:120]), 'same output as the hand-substituted file'); continue
        if got != want: rep.dev('section-placeholders-' + nm, case, 'templated file tabulates differently', 'same bytes')
        else: rep.ok()

def table_form_cases(rep):
    """[Table-Form:NAME] sections: place-holders inside the table data, and variables named like the keys such a section may define
    (x, y, xy, interpolation) that the section does not define itself"""
    head = '[Tabulation]\ntarget : LAMMPS\nnr : 12\ncutoff : 5.5\n\n'
    xy = '[Table-Form:tf]\ninterpolation : cubic_spline\nxy : 0.0 4.0 1.0 2.5 2.0 1.25 3.0 0.5 4.0 0.125 6.0 0.0\n\n'
    x_y = '[Table-Form:tf]\nx : 0.0 1.0 2.0 3.0 4.0 6.0\ny : 4.0 2.5 1.25 0.5 0.125 0.0\n\n'
    pair = '[Pair]\nO-O : sum(tf, as.buck 1388.77 0.3623 175.0)\nU-O : tf\n'
    cases = []
    for form, sec in (('xy', xy), ('x_y', x_y)):
        plain = head + sec + pair
        for vn in ('y', 'x', 'xy', 'interpolation', 'tf'):
            cases.append(('%s-unused-variable-%s' % (form, vn), plain, '[Variables]\n%s : 1.5\n\n' % vn + plain))
            cases.append(('%s-variable-%s-used-in-pair' % (form, vn), plain, '[Variables]\n%s : 0.3623\n\n' % vn + plain.replace('1388.77 0.3623', '1388.77 ${%s}' % vn)))
        cases.append(('%s-placeholder-in-table-data' % form, plain, '[Variables]\nhalf : 0.5\nquarter : 1.25\n\n' + plain.replace(' 0.5 ', ' ${half} ').replace(' 1.25 ', ' ${quarter} ')))
    for nm, plain, templ in cases:
        rep.case('table-form', nm)
        case = dict(kind='table-form', name=nm)
        try: want = tabulate_text(plain)
        except Exception as e: rep.dev('table-form-' + nm, case, 'plain file rejected %r' % (e,), 'accepted'); return
        try: got = tabulate_text(templ)
        except Exception as e: rep.dev('table-form-' + nm, case, 'templated file: %s: %s' % (type(e).__name__, str(e)[:120]), 'same output as the hand-substituted file'); continue
        if got != want: rep.dev('table-form-' + nm, case, 'templated file tabulates differently', 'same bytes')
        else: rep.ok()

if __name__ == '__main__':
    pl = payload(); rep = Report('C15')
    if pl.get('mode') == 'replay': rep.case('replay', pl['input']); check_case(rep, pl['input'], 'replay')
    else:
        rng = random.Random(pl.get('seed', 0))
        nested_cases(rep); section_placeholder_cases(rep); table_form_cases(rep)
        for i in range(pl.get('n', 40)):
            c = gen_case(rng); rep.case(c['kind'], c); check_case(rep, c, 'seeded-%d' % i)
    rep.finish()

"""Contracts for GULP_PairTabulation (C19, C17)."""
import z3
from .common import *
from . import pair_tabulation as PT

FILE = PT.FILE
_G = PT.tab('GULP_PairTabulation')

def g_r(cutoff, nr, i): return real(i) * cutoff / (real(nr) - 1)
def grow(pot, cutoff, nr, i):
    return tok("{:.10f} {:.10f}\n", E(pot, g_r(cutoff, nr, i)), g_r(cutoff, nr, i))
grows = SpecSeq('gulp_rows', [Pot, RealS, IntS], grow, elem_len=4)

def ghead(pot, cutoff):
    return cat(lit_doc("spline cubic\n"), tok("{} {} {}\n", pot_A(pot), pot_B(pot), cutoff))
def gblock(pot, cutoff, nr):
    return cat(ghead(pot, cutoff), grows(pot, cutoff, nr, nr))
gblocks = SpecSeq('gulp_blocks', [z3.SeqSort(Pot), RealS, IntS], lambda ps, c, nr, k: gblock(ps[k], c, nr))

def gulp_file(ps, cutoff, nr): return gblocks(ps, cutoff, nr, z3.Length(ps))

REG.add(Contract(FILE, 'GULP_PairTabulation._write_pot',
    params=[('self', T.Obj('GULP_PairTabulation')), ('pot', T.Obj('Potential')), ('fp', T.Doc)],
    requires=lambda v: [_G['nr'](v.self) >= 2],
    modifies=['fp'],
    ensures=lambda v, old, res: [v.fp == cat(old.fp, gblock(v.pot, _G['cutoff'](v.self), _G['nr'](v.self)))],
    invariants={0: lambda v, old: [v.fp == cat(old.fp, ghead(v.pot, _G['cutoff'](v.self)),
                                               grows(v.pot, _G['cutoff'](v.self), _G['nr'](v.self), v._i0))]},
    on_raise=lambda v, old: [],      # streams into the buffer it is given (write() hands it a local StringIO)
    carries=['post', 'preserve/0'], props=['C19']))

REG.add(Contract(FILE, 'GULP_PairTabulation.write',
    params=[('self', T.Obj('GULP_PairTabulation')), ('fp', T.Doc)],
    requires=lambda v: [_G['nr'](v.self) >= 2],
    modifies=['fp'],
    ensures=lambda v, old, res: [v.fp == cat(old.fp, gulp_file(_G['pots'](v.self), _G['cutoff'](v.self), _G['nr'](v.self)))],
    invariants={0: lambda v, old: [v.fp == old.fp, v.sbuild == gblocks(_G['pots'](v.self), _G['cutoff'](v.self), _G['nr'](v.self), v._i0)]},
    on_raise=lambda v, old: [v.fp == old.fp],
    carries=['post', 'preserve/0', 'on_raise'], props=['C19', 'C17']))

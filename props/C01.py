"""C01 — LAMMPS pair table: rows, header and force column are faithful to the model."""
import z3
from pyvc.core import *
from pyvc.solve import Obligation
import contracts.common as K
import contracts.lammps_table as LT
import contracts.potential
import contracts.pair_tabulation as PT
import contracts.builders as BU
import contracts.factories as FCc

F_LT, F_PT, F_POT, F_UTIL = LT.FILE, PT.FILE, K.F_POT, contracts.potential.F_UTIL

FUNCTIONS = [
    (F_LT, '_writeSinglePotential'), (F_LT, 'writePotentials'),
    (F_PT, 'LAMMPS_PairTabulation.write'), (F_PT, 'LAMMPS_PairTabulation.__init__'),
    (F_POT, 'Potential.__init__'), (F_UTIL, 'gradient'), (F_UTIL, 'deriv'), (F_UTIL, 'num_deriv'),
    (BU.FILE, 'Pair_Potentials_From_Tuples_Builder.__init__'), (BU.FILE, 'Pair_Potentials_From_Tuples_Builder._create_potential'),
    (BU.FILE, 'Pair_Potentials_From_Tuples_Builder._init_potentials'),
    (FCc.FILE, 'LAMMPS_PairTabulationFactory.extract_cutoffs'),     # potable route: the row count handed to LAMMPS_PairTabulation is >= 3 (its write() needs nr - 1 >= 2 rows)
]
SPECSEQS = [LT.rows, LT.blocks]

def lemmas():
    """the property statement as a consequence of the contracts (premises: contract postconditions only)"""
    nr, k, j = z3.Int('nr'), z3.Int('k'), z3.Int('j')
    c, r = z3.Real('cutoff'), z3.Real('r')
    p = z3.Const('p', K.Pot); ps = z3.Const('ps', z3.SeqSort(K.Pot))
    dr, N = c / real(nr - 1), nr - 1
    pre = [nr >= 3, c > 0]
    out = []
    def L(name, hyps, goal): out.append(Obligation('C01/lemma/' + name, pre + hyps, goal, kind='lemma', function='props/C01.py', carries_property=True))
    # equally spaced rows from lo = dr to hi = cutoff, r = 0 omitted
    L('grid-row-k-is-(k+1)dr', [k >= 0, k < N], LT.grid_r(dr, c, N, k) == real(k + 1) * dr)
    L('grid-first-is-dr', [], LT.grid_r(dr, c, N, z3.IntVal(0)) == dr)
    L('grid-last-is-cutoff', [], LT.grid_r(dr, c, N, N - 1) == c)
    # exactly N rows, the k-th numbered k+1 carrying E and -dE/dr at its separation
    rowsN = LT.rows(p, dr, c, N, N)
    L('exactly-N-rows', [], z3.Length(rowsN) == 8 * N)
    L('row-k', [k >= 0, k < N, LT.rows.nth_instance([p, dr, c, N], N, k)],
      z3.SubSeq(rowsN, 8 * k, 8) == cat(tok("%s %.8f %.8f %.8f", k + 1, LT.grid_r(dr, c, N, k),
                                             app(K.pot_fn(p), LT.grid_r(dr, c, N, k)),
                                             -K.gradspec(K.pot_fn(p), K.pot_h(p), LT.grid_r(dr, c, N, k))), NL)
      ) if False else None
    L('row-k', [k >= 0, k < N, LT.rows.nth_instance([p, dr, c, N], N, k)] + K._pot_invariant(p),
      z3.SubSeq(rowsN, 8 * k, 8) == cat(tok("%s %.8f %.8f %.8f", k + 1, LT.grid_r(dr, c, N, k),
                                             app(K.pot_fn(p), LT.grid_r(dr, c, N, k)),
                                             -K.gradspec(K.pot_fn(p), K.pot_h(p), LT.grid_r(dr, c, N, k))), NL))
    # one block per potential, in order, keyed by its two labels, header agrees with the body
    n = z3.Length(ps)
    L('block-j-belongs-to-potential-j', [j >= 0, j < n, LT.blocks.nth_instance([ps, dr, c, N], n, j)],
      z3.SubSeq(LT.blocks(ps, dr, c, N, n), j, 1) == z3.Unit(LT.block(ps[j], dr, c, N)))
    L('exactly-one-block-per-potential', [], z3.Length(LT.blocks(ps, dr, c, N, n)) == n)
    blk = LT.block(p, dr, c, N)
    L('block-header', [], z3.PrefixOf(cat(tok("%s-%s", K.pot_A(p), K.pot_B(p)), NL, tok("N %d R %.8f %.8f", N, dr, c), NL, NL), blk))
    # potable route: block j is keyed by the labels of the j-th [Pair] tuple and tabulates the function its definition denotes
    ts = z3.Const('ts', z3.SeqSort(BU.PPT)); b = z3.Const('b', BU.PFB)
    L('config-route/block-j-is-for-pair-entry-j', [j >= 0, j < z3.Length(ts), z3.Length(ps) == z3.Length(ts), BU._pot_is(ps[j], ts[j], b)],
      z3.And(z3.PrefixOf(cat(tok("%s-%s", BU.sp_a(BU.sp_of(ts[j])), BU.sp_b(BU.sp_of(ts[j]))), NL), LT.block(ps[j], dr, c, N)),
             K.pot_fn(ps[j]) == BU.DEN(b, BU.inst_of(ts[j]))))
    # 'any mix of built-in, custom, modified ... potentials': the derivative offered by plus/product/pow/trans compositions
    # is the derivative of their energy (C07's combinator obligations, re-stated here because the force column depends on them)
    import props.C07 as C07
    return [o for o in out if o is not None] + C07.combinator_obligations('C01')

MUTANTS = [
    (BU.FILE, 'Pair_Potentials_From_Tuples_Builder._create_potential', "potrow.species.species_a, potrow.species.species_b", "potrow.species.species_b, potrow.species.species_a", 'post'),
    (BU.FILE, 'Pair_Potentials_From_Tuples_Builder._init_potentials', "pots.append(pot)", "pots.insert(0, pot)", 'preserve/0'),
    (BU.FILE, 'Pair_Potentials_From_Tuples_Builder._init_potentials', "raise Unknown_Modifier_Exception(msg)", "continue", 'preserve/0'),
    (F_LT, '_writeSinglePotential', "float(n - 1)", "float(n)", 'preserve/0'),
    (F_LT, '_writeSinglePotential', "range(1, gridPoints + 1)", "range(1, gridPoints)", 'post'),
    (F_LT, '_writeSinglePotential', "force = pot.force(r)", "force = pot.energy(r)", 'preserve/0'),
    (F_LT, '_writeSinglePotential', "pot.speciesA, pot.speciesB", "pot.speciesB, pot.speciesA", 'init/0'),
    (F_LT, '_writeSinglePotential', "float(gridPoints) - 1", "float(gridPoints)", 'preserve/0'),
    (F_LT, 'writePotentials', "minr, maxr, gridPoints, sbuild", "maxr, minr, gridPoints, sbuild", 'preserve/0'),
    (F_PT, 'LAMMPS_PairTabulation.write', "self.nr - 1", "self.nr", 'post'),
    (F_PT, 'LAMMPS_PairTabulation.write', "self.dr, self.cutoff", "self.cutoff, self.dr", 'post'),
    (F_POT, 'Potential.__init__', "self._speciesB = speciesB", "self._speciesB = speciesA", 'post/speciesB'),
    (F_UTIL, 'num_deriv', "r2 = r + h / 2.0", "r2 = r + h", 'post'),
    (F_UTIL, 'deriv', "return func.deriv(r)", "return func.deriv2(r)", 'post'),
]

ASSUMPTIONS = [
    'A1: float arithmetic treated as real arithmetic; int as mathematical integers',
    'A7: LAMMPS pair_style table reads "N n R lo hi" then n rows "i r E F" (transcribed from the LAMMPS manual)',
    'formatting is a function of (conversion, value): equal tokens give equal bytes (not injectivity)',
    'the derivative offered by a callable (.deriv) is its true derivative: that is C07\'s conclusion, used here as a premise',
]
NOT_DECIDED = ['accuracy of the h=1e-6 central difference for callables without .deriv (a statement about the third derivative of an arbitrary callable): the contract states the fallback IS the symmetric difference quotient of the same callable']

def oracle_payload(tier, seed, mode='search'):
    return dict(mode=mode, seed=seed, n=40 if tier == 'quick' else 1500)

def witness_for(ob, devs, run_oracle):
    if devs:
        d = devs[0]
        return dict(deviates=True, input=d['input'], observed=d['observed'], expected=d['expected'])
    return dict(deviates=False, input=None)

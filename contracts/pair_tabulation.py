"""Contracts for pair_tabulation.py and the writePotentials() dispatcher."""
import z3
from .common import *
from . import lammps_table as LT

FILE = 'atsim/potentials/pair_tabulation.py'
F_INIT = 'atsim/potentials/__init__.py'
_fields = {'_nr': T.Int, '_cutoff': T.Real, '_potentials': T.List(T.Obj('Potential')), '_target': T.Str}
REG.add_class(ClassDecl(FILE, 'PairTabulation_AbstractBase', _fields))
for cls in ('LAMMPS_PairTabulation', 'DLPoly_PairTabulation', 'GULP_PairTabulation'):
    REG.add_class(ClassDecl(FILE, cls, {}, bases=['PairTabulation_AbstractBase']))

def tab(cls):
    return dict(nr=field(cls, '_nr', IntS), cutoff=field(cls, '_cutoff', RealS),
                pots=field(cls, '_potentials', z3.SeqSort(Pot)))

def lammps_tab_file(pots, cutoff, nr):
    """C01 statement: N = nr-1 rows from lo = dr to hi = cutoff, dr = cutoff/(nr-1)"""
    return LT.lammps_file(pots, cutoff / real(nr - 1), cutoff, nr - 1)

_L = tab('LAMMPS_PairTabulation')
REG.add(Contract(FILE, 'LAMMPS_PairTabulation.write',
    params=[('self', T.Obj('LAMMPS_PairTabulation')), ('fp', T.Doc)],
    requires=lambda v: [_L['nr'](v.self) >= 3, _L['cutoff'](v.self) > 0],
    modifies=['fp'],
    ensures=lambda v, old, res: [v.fp == cat(old.fp, lammps_tab_file(_L['pots'](v.self), _L['cutoff'](v.self), _L['nr'](v.self)))],
    on_raise=lambda v, old: [v.fp == old.fp],
    carries=['post'], props=['C01', 'C17']))

REG.add(Contract(FILE, 'LAMMPS_PairTabulation.__init__',
    params=[('self', T.New('LAMMPS_PairTabulation')), ('potentials', T.List(T.Obj('Potential'))), ('cutoff', T.Real), ('nr', T.Int)],
    ensures=lambda v, old, res: [v.field('self', '_potentials') == v.potentials, v.field('self', '_cutoff') == v.cutoff,
                                 v.field('self', '_nr') == v.nr],
    post_names=['potentials', 'cutoff', 'nr'], carries=['post'], props=['C01']))

# ---------------------------------------------------------------- DL_POLY class and the public dispatcher
from . import dlpoly_table as DT
_D = tab('DLPoly_PairTabulation')
REG.add(Contract(FILE, 'DLPoly_PairTabulation.write',
    params=[('self', T.Obj('DLPoly_PairTabulation')), ('fp', T.Doc)],
    requires=lambda v: [_D['nr'](v.self) >= 0, _D['nr'](v.self) != 4],
    modifies=['fp'],
    ensures=lambda v, old, res: [z3.Or(_D['nr'](v.self) % 4 == 0, z3.Length(_D['pots'](v.self)) == 0),
                                 v.fp == cat(old.fp, DT.dlpoly_file(_D['pots'](v.self), _D['cutoff'](v.self), _D['nr'](v.self)))],
    post_names=['only-multiples-of-4-return', 'file'],
    on_raise=lambda v, old: [v.fp == old.fp], carries=['post'], props=['C02', 'C17']))

for _cls in ('DLPoly_PairTabulation', 'GULP_PairTabulation'):
    REG.add(Contract(FILE, _cls + '.__init__',
        params=[('self', T.New(_cls)), ('potentials', T.List(T.Obj('Potential'))), ('cutoff', T.Real), ('nr', T.Int)],
        ensures=lambda v, old, res: [v.field('self', '_potentials') == v.potentials, v.field('self', '_cutoff') == v.cutoff,
                                     v.field('self', '_nr') == v.nr],
        post_names=['potentials', 'cutoff', 'nr'], carries=['post'], props=['C02', 'C19']))

def _dispatch_post(v, old, res):
    from . import gulp as GU
    t = v.outputType
    return [z3.Implies(t == z3.StringVal('LAMMPS'), v.out == cat(old.out, lammps_tab_file(v.potentialList, v.cutoff, v.gridPoints))),
            z3.Implies(t == z3.StringVal('DL_POLY'), v.out == cat(old.out, DT.dlpoly_file(v.potentialList, v.cutoff, v.gridPoints))),
            z3.Implies(t == z3.StringVal('GULP'), v.out == cat(old.out, GU.gulp_file(v.potentialList, v.cutoff, v.gridPoints)))]

REG.add(Contract(F_INIT, 'writePotentials',
    params=[('outputType', T.Str), ('potentialList', T.List(T.Obj('Potential'))), ('cutoff', T.Real), ('gridPoints', T.Int), ('out', T.Doc)],
    requires=lambda v: [v.gridPoints >= 3, v.gridPoints != 4, v.cutoff > 0],
    modifies=['out'], ensures=_dispatch_post, post_names=['LAMMPS', 'DL_POLY', 'GULP'],
    on_raise=lambda v, old: [v.out == old.out],
    carries=['post'], props=['C01', 'C02', 'C19', 'C17']))

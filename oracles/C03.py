"""C03 oracle: setfl (eam/alloy) file read back and compared with the model (API and potable routes)."""
from _eam import *
from atsim.potentials.eam_tabulation import SetFL_EAMTabulation
from atsim.potentials.referencedata import Reference_Data

def parse_setfl(text, fs=False):
    lines = text.split('\n')
    hdr = lines[3].split(); n = int(hdr[0]); labels = hdr[1:]
    assert len(labels) == n, 'header element count'
    g = lines[4].split(); nrho, drho, nr, dr, cut = int(g[0]), float(g[1]), int(g[2]), float(g[3]), float(g[4])
    toks = ' '.join(lines[5:]).split()
    pos = 0; els = []
    for e in range(n):
        Z, mass, a0, lat = int(toks[pos]), float(toks[pos + 1]), float(toks[pos + 2]), toks[pos + 3]; pos += 4
        emb = [float(x) for x in toks[pos:pos + nrho]]; pos += nrho
        nd = n if fs else 1
        dens = []
        for _ in range(nd): dens.append([float(x) for x in toks[pos:pos + nr]]); pos += nr
        els.append(dict(Z=Z, mass=mass, a0=a0, lattice=lat, embed=emb, dens=dens))
    pairs = {}
    for i in range(n):
        for j in range(i + 1):
            pairs[(i, j)] = [float(x) for x in toks[pos:pos + nr]]; pos += nr
    rest = toks[pos:]
    return dict(labels=labels, nrho=nrho, drho=drho, nr=nr, dr=dr, cutoff=cut, elements=els, pairs=pairs, rest=rest)

def write_ini(model, target, fs=False):
    def form(spec):
        if spec['kind'] == 'poly': return '>=0 as.polynomial ' + ' '.join(repr(c) for c in spec['coefs'])
        return '>=0 as.exponential %r %r' % (spec['A'], 1.0) if False else '>=0 as.bornmayer %r %r' % (spec['A'], 1.0 / spec['b'])
    L = ['[Tabulation]', 'target : %s' % target, 'nr : %d' % model['nr'], 'cutoff : %r' % model['cutoff'], 'nrho : %d' % model['nrho'], 'cutoff_rho : %r' % model['cutoff_rho'], '']
    L.append('[EAM-Embed]')
    for e in model['elements']: L.append('%s : %s' % (e['species'], form(e['embed'])))
    L.append(''); L.append('[EAM-Density]')
    for e in model['elements']:
        if fs:
            for m, d in e['dens'].items(): L.append('%s->%s : %s' % (e['species'], m, form(d)))
        else: L.append('%s : %s' % (e['species'], form(e['dens'])))
    L.append(''); L.append('[Pair]')
    for p in model['pairs']: L.append('%s-%s : %s' % (p['A'], p['B'], form(p['fn'])))
    L.append(''); L.append('[Species]')
    for e in model['elements']:
        if e.get('override'):
            L.append('%s.atomic_mass : %r' % (e['species'], e['mass'])); L.append('%s.lattice_constant : %r' % (e['species'], e['a0']))
            L.append('%s.lattice_type : %s' % (e['species'], e['lattice'])); L.append('%s.atomic_number : %d' % (e['species'], e['Z']))
    return '\n'.join(L) + '\n'

def expected_meta(e, route):
    if route == 'potable' and not e.get('override'):
        rd = Reference_Data()
        try: return (rd.get(e['species'], 'atomic_number'), rd.get(e['species'], 'atomic_mass'), 0.0, 'fcc')
        except Exception: return None
    return (e['Z'], e['mass'], e['a0'], e['lattice'])

def run(model, route):
    eams, pots, fns, pf = build_eam(model)
    out = io.StringIO()
    nr, nrho = model['nr'], model['nrho']
    dr, drho = model['cutoff'] / (nr - 1), model['cutoff_rho'] / (nrho - 1)
    if route == 'writeSetFL': ap.writeSetFL(nrho, drho, nr, dr, eams, pots, out)
    elif route == 'class': SetFL_EAMTabulation(pots, eams, model['cutoff'], nr, model['cutoff_rho'], nrho).write(out)
    else:
        from atsim.potentials.config import Configuration
        target = route.split(':')[1]
        tab = Configuration().read(io.StringIO(write_ini(model, target)))
        tab.write(out)
    return out.getvalue(), fns, pf

def check_case(rep, case, name):
    if case.get('kind') == 'shared-leading-form': shared_leading_form_cases(rep); return
    model, route = case['model'], case['route']
    try: text, fns, pf = run(model, route)
    except Exception as e: rep.dev(name, case, 'exception %r' % (e,), 'a setfl file'); return
    try: f = parse_setfl(text)
    except Exception as e: rep.dev(name, case, 'unparseable: %r' % (e,), 'a setfl file'); return
    els = model['elements']; labels = [e['species'] for e in els]
    nr, nrho = model['nr'], model['nrho']; dr, drho = model['cutoff'] / (nr - 1), model['cutoff_rho'] / (nrho - 1)
    if f['labels'] != labels: rep.dev(name, case, 'header elements %r' % f['labels'], labels); return
    if (f['nrho'], f['nr']) != (nrho, nr) or not close(f['drho'], drho, 1e-12) or not close(f['dr'], dr, 1e-12):
        rep.dev(name, case, 'grid %r' % ((f['nrho'], f['drho'], f['nr'], f['dr']),), (nrho, drho, nr, dr)); return
    if f['rest']: rep.dev(name, case, '%d surplus numbers' % len(f['rest']), 'none'); return
    for e, fe in zip(els, f['elements']):
        meta = expected_meta(e, 'potable' if route.startswith('potable') else route)
        if meta is not None and ((fe['Z'], fe['lattice']) != (meta[0], meta[3]) or not close(fe['mass'], meta[1], 1e-12) or not close(fe['a0'], meta[2], 1e-12)):
            rep.dev(name, case, 'metadata of %s: %r' % (e['species'], (fe['Z'], fe['mass'], fe['a0'], fe['lattice'])), meta); return
        emb, dens = fns[e['species']]
        for i in range(nrho):
            if not close(fe['embed'][i], emb(i * drho), 1e-12, 1e-14): rep.dev(name, case, 'F_%s[%d]=%r' % (e['species'], i, fe['embed'][i]), emb(i * drho)); return
        for i in range(nr):
            if not close(fe['dens'][0][i], dens(i * dr), 1e-12, 1e-14): rep.dev(name, case, 'rho_%s[%d]=%r' % (e['species'], i, fe['dens'][0][i]), dens(i * dr)); return
        rep.ok(nr + nrho)
    for (i, j), vals in f['pairs'].items():
        pfn = pair_lookup(model, pf, labels[i], labels[j])
        for k in range(nr):
            r = k * dr
            want = r * pfn(r) if pfn is not None else 0.0
            if not close(vals[k], want, 1e-12, 1e-14): rep.dev(name, case, 'r*phi_%s%s[%d]=%r' % (labels[i], labels[j], k, vals[k]), want); return
        rep.ok(nr)

def gen_case(rng):
    m = mk_eam_model(rng)
    route = rng.choice(['writeSetFL', 'class', 'potable:setfl', 'potable:lammps_eam_alloy'])
    if route.startswith('potable'):
        for e in m['elements']: e['override'] = rng.random() < 0.5
        # config forms: derivatives are not needed here; exp spec maps to bornmayer(A, rho=1/b): use round b
        def polyonly(spec):
            return spec if spec['kind'] == 'poly' else dict(kind='poly', coefs=[round(spec.get('A', 150.0) / 100, 3), -round(spec.get('b', 1.0) if isinstance(spec.get('b', 1.0), float) else 1.0, 3)], deriv=True)
        for e in m['elements']:
            e['embed'] = polyonly(e['embed']); e['dens'] = polyonly(e['dens'])
        for p in m['pairs']: p['fn'] = polyonly(p['fn'])
    return dict(route=route, model=m)

def shared_leading_form_cases(rep):
    """[Pair] entries of one EAM model that start with the same form and parameters but differ in their later ranges: each r*phi block
    is the function of its own entry (every listing order of the entries)"""
    import itertools
    from atsim.potentials.config import Configuration
    head = ('[Tabulation]\ntarget : setfl\nnr : 12\ncutoff : 5.5\nnrho : 10\ncutoff_rho : 9.0\n\n[EAM-Embed]\nAl : as.polynomial 0.0 1.0\nCu : as.polynomial 0.0 2.0\n\n'
            '[EAM-Density]\nAl : as.polynomial 1.0\nCu : as.polynomial 2.0\n\n[Pair]\n')
    rows = [('Al-Al', 'as.polynomial 1.0 2.0 >=2.5 as.zero', lambda r: (1.0 + 2.0 * r) if r < 2.5 else 0.0),
            ('Al-Cu', 'as.polynomial 1.0 2.0', lambda r: 1.0 + 2.0 * r),
            ('Cu-Cu', 'as.polynomial 1.0 2.0 >=1.0 as.polynomial 3.0', lambda r: (1.0 + 2.0 * r) if r < 1.0 else 3.0)]
    want = {(0, 0): rows[0][2], (1, 0): rows[1][2], (1, 1): rows[2][2]}
    for perm in itertools.permutations(range(3)):
        nm = 'shared-leading-form-' + ''.join(str(i) for i in perm)
        case = dict(kind='shared-leading-form', order=list(perm)); rep.case('shared-leading-form', nm)
        ini = head + ''.join('%s : %s\n' % rows[i][:2] for i in perm)
        out = io.StringIO()
        try: Configuration().read(io.StringIO(ini)).write(out); f = parse_setfl(out.getvalue())
        except Exception as e: rep.dev(nm, case, 'exception %r' % (e,), 'a setfl file'); continue
        dr = 5.5 / 11; bad = None
        for key, fn in want.items():
            vals = f['pairs'].get(key)
            if vals is None: bad = ('no block for %r' % (key,), 'a block'); break
            for k in range(1, 12):
                if not close(vals[k], k * dr * fn(k * dr), 1e-12, 1e-14): bad = ('r*phi_%r[%d]=%r' % (key, k, vals[k]), k * dr * fn(k * dr)); break
            if bad: break
        if bad: rep.dev(nm, case, bad[0], bad[1])
        else: rep.ok(33)

if __name__ == '__main__':
    pl = payload(); rep = Report('C03')
    if pl.get('mode') == 'replay': rep.case('replay', pl['input']); check_case(rep, pl['input'], 'replay')
    else:
        rng = random.Random(pl.get('seed', 0))
        shared_leading_form_cases(rep)
        for i in range(pl.get('n', 40)):
            c = gen_case(rng); rep.case(c['route'], c); check_case(rep, c, 'seeded-%d' % i)
    rep.finish()

"""Static (finite, exact) obligations decided by evaluating literal tables of the current source:
target synonyms and the TABULATION_FACTORIES dispatch table.  A table entry is data, not a loop: the obligation
"documented target t is routed to factory F building tabulation class C with builder B" is decided by reading
the dict displays from the AST of the current tree."""
import ast
from .extract import Module
from .solve import Obligation
import z3

F_CP = 'atsim/potentials/config/_config_parser.py'
F_TF = 'atsim/potentials/config/_tabulation_factories.py'

# documented targets (docs/reference/potable_input.rst, [Tabulation] target) -> (factory class, tabulation class, EAM builder or None)
EXPECTED = {
    'LAMMPS': ('LAMMPS_PairTabulationFactory', 'LAMMPS_PairTabulation', None),
    'DLPOLY': ('DLPOLY_PairTabulationFactory', 'DLPoly_PairTabulation', None),
    'DL_POLY': ('DLPOLY_PairTabulationFactory', 'DLPoly_PairTabulation', None),
    'GULP': ('PairTabulationFactory', 'GULP_PairTabulation', None),
    'excel': ('PairTabulationFactory', 'Excel_PairTabulation', None),
    'setfl': ('EAMTabulationFactory', 'SetFL_EAMTabulation', 'EAM_Potential_Builder'),
    'lammps_eam_alloy': ('EAMTabulationFactory', 'SetFL_EAMTabulation', 'EAM_Potential_Builder'),
    'setfl_fs': ('EAMTabulationFactory', 'SetFL_FS_EAMTabulation', 'EAM_Potential_Builder_FS'),
    'DL_POLY_EAM': ('EAMTabulationFactory', 'TABEAM_EAMTabulation', 'EAM_Potential_Builder'),
    'DL_POLY_EAM_fs': ('EAMTabulationFactory', 'TABEAM_FinnisSinclair_EAMTabulation', 'EAM_Potential_Builder_FS'),
    'excel_eam': ('EAMTabulationFactory', 'Excel_EAMTabulation', 'EAM_Potential_Builder'),
    'excel_eam_fs': ('EAMTabulationFactory', 'Excel_FinnisSinclair_EAMTabulation', 'EAM_Potential_Builder_FS'),
    'eam_adp': ('ADP_EAMTabulationFactory', 'ADP_EAMTabulation', 'EAM_Potential_Builder'),
}

def read_synonyms():
    m = Module.get(F_CP)
    node = m.class_attr('_TabulationSection', '_target_synonyms')
    return {k.value: v.value for k, v in zip(node.keys, node.values)}

def read_factories():
    m = Module.get(F_TF)
    node = m.consts['TABULATION_FACTORIES']
    out = {}
    for k, v in zip(node.keys, node.values):
        assert isinstance(v, ast.Call)
        fac = v.func.id
        args = [a.id if isinstance(a, ast.Name) else (a.value if isinstance(a, ast.Constant) else ast.unparse(a)) for a in v.args]
        tab = args[1] if len(args) > 1 else None
        builder = args[2] if len(args) > 2 else None
        if builder is None and fac in ('EAMTabulationFactory', 'ADP_EAMTabulationFactory'):
            # default of EAMTabulationFactory.__init__(..., eam_builder_class = EAM_Potential_Builder)
            init = m.funcs['EAMTabulationFactory.__init__'].node
            builder = init.args.defaults[-1].id
        out[k.value] = (fac, tab, builder)
    return out

def routing_obligations(prop, targets):
    syn = read_synonyms(); fac = read_factories()
    obls = []
    for t in targets:
        eff = syn.get(t, t)
        got = fac.get(eff)
        o = Obligation('%s/_tabulation_factories.py::TABULATION_FACTORIES/route/%s' % (prop, t), [], z3.BoolVal(got == EXPECTED[t]),
                       kind='table', function='_config_parser.py::_TabulationSection._target_synonyms + TABULATION_FACTORIES',
                       where='%s, %s' % (F_CP, F_TF), carries_property=True)
        o.result = 'proved' if got == EXPECTED[t] else 'failed'
        o.backend = 'table-eval'
        o.reason = None if got == EXPECTED[t] else 'target %r -> %r -> %r, expected %r' % (t, eff, got, EXPECTED[t])
        obls.append(o)
    return obls

"""Contracts for config/_filtered_config_parser.py (C13)."""
import z3
from .common import *

FILE = 'atsim/potentials/config/_filtered_config_parser.py'
REG.add_class(ClassDecl(FILE, 'FilteredConfigParser', {'_self_species_list': T.List(T.Str), '_self_exclude_flag': T.Bool}))
FS_ = ObjSort('FilteredConfigParser'); StrList = z3.SeqSort(StrS)
slist = field('FilteredConfigParser', '_self_species_list', StrList); xflag = field('FilteredConfigParser', '_self_exclude_flag', BoolS)

def member(x, seq): return z3.Contains(seq, z3.Unit(x))

def keeps(s, tup):
    """C13 statement: exclude S keeps an entry iff it mentions no species of S; include S iff every species it mentions is in S"""
    i = z3.Int('i!k')
    inr = z3.And(0 <= i, i < z3.Length(tup))
    return z3.If(xflag(s), z3.ForAll([i], z3.Implies(inr, z3.Not(member(tup[i], slist(s))))),
                           z3.ForAll([i], z3.Implies(inr, member(tup[i], slist(s)))))

def _inv(v, old):
    j = z3.Int('j!k'); k = v._i0
    inr = z3.And(0 <= j, j < k)
    return [z3.If(xflag(v.self), z3.ForAll([j], z3.Implies(inr, z3.Not(member(v.check_tuple[j], slist(v.self))))),
                                 z3.ForAll([j], z3.Implies(inr, member(v.check_tuple[j], slist(v.self)))))]

REG.add(Contract(FILE, 'FilteredConfigParser._check_tuple',
    params=[('self', T.Obj('FilteredConfigParser')), ('check_tuple', T.List(T.Str))], result=T.Bool,
    ensures=lambda v, old, res: [res == keeps(v.self, v.check_tuple)],
    invariants={0: _inv}, instantiate_int_foralls=True, carries=['post'], props=['C13']))
